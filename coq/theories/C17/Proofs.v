(* C17 — lemmas about the heap model.  Ported from the design-round prototype and extended
   to the full operation set of Model.v. *)
From Coq Require Import List Arith Bool NArith Lia.
Import ListNotations.
From SV Require Import C17.Model.

Lemma str_eqb_spec : forall a b, reflect (a = b) (str_eqb a b).
Proof.
  induction a as [|x a IH]; intros [|y b']; cbn; try (constructor; congruence).
  destruct (N.eqb_spec x y) as [->|Hne]; cbn.
  - destruct (IH b') as [->|Hne]; constructor; congruence.
  - constructor; congruence.
Qed.
Lemma len_empty : len empty = 0.
Proof. reflexivity. Qed.

(* ---------------- invariant ---------------- *)
Definition keys (l : list (str * nat)) : list str := map fst l.

Record Inv (h : heap) : Prop := {
  i_str_temp : forall s id, In (s, id) (istr h) -> exists m, get h id = Temp s m;
  i_static_perm : forall s id, In (s, id) (istatic h) -> get h id = Perm s;
  i_temp_interned : forall id s m, get h id = Temp s m -> In (s, id) (istr h);
  i_long_perm_interned : forall id s, get h id = Perm s -> is_inline s = false -> In (s, id) (istatic h);
  i_nodup_str : NoDup (keys (istr h));
  i_nodup_static : NoDup (keys (istatic h));
  i_long : forall s id, In (s, id) (istr h) \/ In (s, id) (istatic h) -> is_inline s = false;
  i_disjoint : forall s, In s (keys (istr h)) -> ~ In s (keys (istatic h));
}.

Definition valid (h : heap) (hd : handle) : Prop :=
  match hd with
  | HInline s => is_inline s = true
  | HId i => exists s, slot_str (get h i) = Some s /\ is_inline s = false
  end.

Lemma lookup_in s l id : lookup s l = Some id -> In (s, id) l.
Proof.
  induction l as [|[s' id'] l IH]; cbn; [discriminate|].
  destruct (str_eqb_spec s s'); [intros E; inversion E; subst; auto|auto].
Qed.

Lemma in_keys (l : list (str * nat)) s i : In (s, i) l -> In s (keys l).
Proof. intros H. apply in_map_iff. exists (s, i); auto. Qed.

Lemma in_nodup_unique (l : list (str * nat)) s i j : NoDup (keys l) -> In (s, i) l -> In (s, j) l -> i = j.
Proof.
  induction l as [|[s' k] l IH]; cbn; [tauto|]. intros Hnd [E1|H1] [E2|H2];
    inversion Hnd as [|? ? Hnot Hnd']; subst.
  - congruence.
  - inversion E1; subst. exfalso. apply Hnot. eapply in_keys; eauto.
  - inversion E2; subst. exfalso. apply Hnot. eapply in_keys; eauto.
  - auto.
Qed.

(* the heart of the property: valid handles are equal iff their strings are *)
Theorem handles_injective h h1 h2 s :
  Inv h -> valid h h1 -> valid h h2 -> read h h1 = Some s -> read h h2 = Some s -> h1 = h2.
Proof.
  intros HI V1 V2 R1 R2. destruct h1 as [s1|i], h2 as [s2|j]; cbn in *.
  - congruence.
  - destruct V2 as [s' [E L]]. rewrite R2 in E. inversion E; subst. inversion R1; subst. congruence.
  - destruct V1 as [s' [E L]]. rewrite R1 in E. inversion E; subst. inversion R2; subst. congruence.
  - destruct V1 as [s1 [E1 L1]], V2 as [s2 [E2 L2]].
    rewrite R1 in E1. rewrite R2 in E2. inversion E1; inversion E2; subst s1 s2.
    f_equal.
    destruct (get h i) as [si|si mi|] eqn:Gi; cbn in R1; try discriminate; inversion R1; subst si;
    destruct (get h j) as [sj|sj mj|] eqn:Gj; cbn in R2; try discriminate; inversion R2; subst sj.
    + eapply in_nodup_unique; [apply (i_nodup_static h HI)| |];
        eapply i_long_perm_interned; eauto.
    + exfalso. pose proof (i_long_perm_interned h HI i s Gi L1) as P.
      pose proof (i_temp_interned h HI j s mj Gj) as T.
      eapply (i_disjoint h HI s); eapply in_keys; eauto.
    + exfalso. pose proof (i_long_perm_interned h HI j s Gj L1) as P.
      pose proof (i_temp_interned h HI i s mi Gi) as T.
      eapply (i_disjoint h HI s); eapply in_keys; eauto.
    + eapply in_nodup_unique; [apply (i_nodup_str h HI)| |];
        eapply i_temp_interned; eauto.
Qed.

(* ---------------- list plumbing ---------------- *)
Lemma nth_upd_same {A} (l : list A) i x d : i < length l -> nth i (upd l i x) d = x.
Proof. revert i; induction l; intros [|i] H; cbn in *; try lia; auto. apply IHl; lia. Qed.
Lemma nth_upd_other {A} (l : list A) i j x d : i <> j -> nth j (upd l i x) d = nth j l d.
Proof. revert i j; induction l; intros [|i] [|j] H; cbn; auto; try congruence. Qed.
Lemma upd_length {A} (l : list A) i x : length (upd l i x) = length l.
Proof. revert i; induction l; intros [|i]; cbn; auto. Qed.

Lemma get_lt h i sl : get h i = sl -> sl <> Dead -> i < length (table h).
Proof.
  unfold get. intros H N. destruct (Nat.ltb_spec i (length (table h))); auto.
  rewrite nth_overflow in H by lia. congruence.
Qed.

Lemma in_remove s s' id l : In (s', id) (remove s l) <-> In (s', id) l /\ s' <> s.
Proof.
  induction l as [|[s0 k] l IH]; cbn; [tauto|].
  destruct (str_eqb_spec s s0) as [->|Hne]; cbn; rewrite IH.
  - split; [intros [H1 H2]; auto|]. intros [[E|H1] H2]; [inversion E; subst; congruence|auto].
  - split.
    + intros [E|[H1 H2]]; [inversion E; subst; split; auto|auto].
    + intros [[E|H1] H2]; auto.
Qed.

Lemma keys_remove_subset s l x : In x (keys (remove s l)) -> In x (keys l) /\ x <> s.
Proof.
  intros H. apply in_map_iff in H. destruct H as [[x' k] [E H]]. cbn in E; subst.
  apply in_remove in H. destruct H. split; auto. eapply in_keys; eauto.
Qed.

Lemma nodup_remove s l : NoDup (keys l) -> NoDup (keys (remove s l)).
Proof.
  induction l as [|[s0 k] l IH]; cbn; auto. intros H. inversion H as [|? ? Hn Hd]; subst.
  destruct (str_eqb_spec s s0); auto. cbn. constructor; auto.
  intros Hin. apply keys_remove_subset in Hin. tauto.
Qed.

Lemma lookup_none s l : lookup s l = None -> ~ In s (keys l).
Proof.
  induction l as [|[s' k] l IH]; cbn; auto.
  destruct (str_eqb_spec s s'); [discriminate|]. intros H [E|Hin]; [congruence|]. now apply IH.
Qed.

(* ---------------- preservation ---------------- *)
Lemma Inv_init : Inv init.
Proof.
  constructor; cbn; try tauto; try constructor.
  - intros [|id] s m H; discriminate.
  - intros [|id] s H; discriminate.
Qed.

Lemma get_app_old h' h x : table h' = table h ++ [x] -> forall i, i < length (table h) -> get h' i = get h i.
Proof. intros E i Hi. unfold get. rewrite E, app_nth1; auto. Qed.
Lemma get_app_new h' h x : table h' = table h ++ [x] -> get h' (length (table h)) = x.
Proof. intros E. unfold get. rewrite E, app_nth2, Nat.sub_diag; auto. Qed.
Lemma get_app_cases h' h x i : table h' = table h ++ [x] ->
  (i < length (table h) /\ get h' i = get h i) \/ (i = length (table h) /\ get h' i = x) \/ (get h' i = Dead /\ get h i = Dead).
Proof.
  intros E. destruct (lt_eq_lt_dec i (length (table h))) as [[H|H]|H].
  - left; split; auto; eapply get_app_old; eauto.
  - right; left; subst; split; auto; eapply get_app_new; eauto.
  - right; right. unfold get. rewrite E. rewrite !nth_overflow; auto; [lia|rewrite app_length; cbn; lia].
Qed.

Lemma Inv_alloc_string h s : Inv h -> Inv (snd (alloc_string h s)).
Proof.
  intros HI. unfold alloc_string. destruct (is_inline s) eqn:Hin; [exact HI|].
  destruct (lookup s (istatic h)) eqn:L1; [exact HI|].
  destruct (lookup s (istr h)) eqn:L2; [exact HI|]. cbn [snd].
  set (h' := mk _ _ _ _ _ _).
  assert (E : table h' = table h ++ [Temp s false]) by reflexivity.
  constructor; cbn [istr istatic h'].
  - intros s0 id [Eq|H].
    + inversion Eq; subst. exists false. eapply get_app_new; eauto.
    + destruct (i_str_temp h HI _ _ H) as [m Hm]. exists m.
      rewrite (get_app_old h' h _ E); auto. eapply get_lt; eauto. congruence.
  - intros s0 id H. pose proof (i_static_perm h HI _ _ H) as Hp.
    rewrite (get_app_old h' h _ E); auto. eapply get_lt; eauto. congruence.
  - intros id s0 m H. destruct (get_app_cases h' h _ id E) as [[Hl Hg]|[[Hl Hg]|[Hg _]]]; rewrite Hg in H.
    + right. eapply i_temp_interned; eauto.
    + inversion H; subst. left; reflexivity.
    + discriminate.
  - intros id s0 H Hl0. destruct (get_app_cases h' h _ id E) as [[Hl Hg]|[[Hl Hg]|[Hg _]]]; rewrite Hg in H.
    + eapply i_long_perm_interned; eauto.
    + discriminate.
    + discriminate.
  - cbn. constructor; [now apply lookup_none|apply (i_nodup_str h HI)].
  - apply (i_nodup_static h HI).
  - intros s0 id [[Eq|H]|H]; [inversion Eq; subst; auto| |]; eapply (i_long h HI); eauto.
  - intros s0 [Eq|H]; cbn in *; [subst; now apply lookup_none|now apply (i_disjoint h HI)].
Qed.

Lemma alloc_string_valid h s : Inv h ->
  let '(hd, h') := alloc_string h s in valid h' hd /\ read h' hd = Some s.
Proof.
  intros HI. unfold alloc_string. destruct (is_inline s) eqn:Hin; [cbn; auto|].
  destruct (lookup s (istatic h)) as [id|] eqn:L1.
  { apply lookup_in in L1. pose proof (i_static_perm h HI _ _ L1) as Hp. cbn. rewrite Hp. cbn. eauto. }
  destruct (lookup s (istr h)) as [id|] eqn:L2.
  { apply lookup_in in L2. destruct (i_str_temp h HI _ _ L2) as [m Hm]. cbn. rewrite Hm. cbn. eauto. }
  cbn. unfold get. cbn. rewrite app_nth2, Nat.sub_diag by lia. cbn. eauto.
Qed.

(* promotion Temp -> Perm at slot id holding s, shared by alloc_static and make_permanent *)
Lemma Inv_promote h s id m : Inv h -> get h id = Temp s m ->
  Inv (mk (upd (table h) id (Perm s)) (remove s (istr h)) ((s, id) :: istatic h)
          (mods h) (unmarked h) (sweep_index h)).
Proof.
  intros HI Hg. set (h' := mk _ _ _ _ _ _).
  assert (Hlt : id < length (table h)) by (eapply get_lt; eauto; congruence).
  assert (Gs : get h' id = Perm s) by (unfold get, h'; cbn; now apply nth_upd_same).
  assert (Go : forall j, j <> id -> get h' j = get h j) by (intros j Hj; unfold get, h'; cbn; apply nth_upd_other; auto).
  pose proof (i_temp_interned h HI _ _ _ Hg) as Hin.
  constructor; cbn [istr istatic h'].
  - intros s0 k H. apply in_remove in H. destruct H as [H Hne].
    destruct (i_str_temp h HI _ _ H) as [m0 Hm0]. exists m0.
    rewrite Go; auto. intros ->. rewrite Hg in Hm0. congruence.
  - intros s0 k [Eq|H]; [inversion Eq; subst; auto|].
    pose proof (i_static_perm h HI _ _ H) as Hp. rewrite Go; auto. intros ->. congruence.
  - intros k s0 m0 H. destruct (Nat.eq_dec k id); [subst; congruence|].
    rewrite Go in H by auto. apply in_remove. split; [eapply i_temp_interned; eauto|].
    intros ->. pose proof (i_temp_interned h HI _ _ _ H) as Hin'.
    pose proof (in_nodup_unique _ _ _ _ (i_nodup_str h HI) Hin Hin'). congruence.
  - intros k s0 H Hl. destruct (Nat.eq_dec k id); [subst; rewrite Gs in H; inversion H; subst; left; reflexivity|].
    rewrite Go in H by auto. right. eapply i_long_perm_interned; eauto.
  - apply nodup_remove, (i_nodup_str h HI).
  - cbn. constructor; [|apply (i_nodup_static h HI)].
    apply (i_disjoint h HI). eapply in_keys; eauto.
  - intros s0 k [H|[Eq|H]].
    + apply in_remove in H. eapply (i_long h HI); left; apply H.
    + inversion Eq; subst. eapply (i_long h HI); left; eauto.
    + eapply (i_long h HI); right; eauto.
  - intros s0 H [Eq|H']; cbn in *.
    + subst. apply keys_remove_subset in H. tauto.
    + apply keys_remove_subset in H. destruct H. eapply (i_disjoint h HI); eauto.
Qed.

Lemma Inv_make_permanent h hd : Inv h -> Inv (make_permanent h hd).
Proof.
  intros HI. destruct hd as [s|id]; cbn; auto.
  destruct (get h id) eqn:G; auto. eapply Inv_promote; eauto.
Qed.

Lemma Inv_alloc_static h s : Inv h -> Inv (snd (alloc_static h s)).
Proof.
  intros HI. unfold alloc_static. destruct (is_inline s) eqn:Hin; [exact HI|].
  destruct (lookup s (istatic h)) eqn:L1; [exact HI|].
  destruct (lookup s (istr h)) as [id|] eqn:L2; cbn [snd].
  - apply lookup_in in L2. destruct (i_str_temp h HI _ _ L2) as [m Hm]. eapply Inv_promote; eauto.
  - set (h' := mk _ _ _ _ _ _).
    assert (E : table h' = table h ++ [Perm s]) by reflexivity.
    constructor; cbn [istr istatic h'].
    + intros s0 id H. destruct (i_str_temp h HI _ _ H) as [m Hm]. exists m.
      rewrite (get_app_old h' h _ E); auto. eapply get_lt; eauto. congruence.
    + intros s0 id [Eq|H].
      * inversion Eq; subst. eapply get_app_new; eauto.
      * pose proof (i_static_perm h HI _ _ H) as Hp.
        rewrite (get_app_old h' h _ E); auto. eapply get_lt; eauto. congruence.
    + intros id s0 m H. destruct (get_app_cases h' h _ id E) as [[Hl Hg]|[[Hl Hg]|[Hg _]]]; rewrite Hg in H;
        [eapply i_temp_interned; eauto|discriminate|discriminate].
    + intros id s0 H Hl0. destruct (get_app_cases h' h _ id E) as [[Hl Hg]|[[Hl Hg]|[Hg _]]]; rewrite Hg in H.
      * right. eapply i_long_perm_interned; eauto.
      * inversion H; subst. left; reflexivity.
      * discriminate.
    + apply (i_nodup_str h HI).
    + cbn. constructor; [now apply lookup_none|apply (i_nodup_static h HI)].
    + intros s0 id [H|[Eq|H]]; [|inversion Eq; subst; auto|]; eapply (i_long h HI); eauto.
    + intros s0 H [Eq|H']; cbn in *; [subst; now apply (lookup_none _ _ L2)|eapply (i_disjoint h HI); eauto].
Qed.

Lemma Inv_mark h hd : Inv h -> Inv (mark h hd).
Proof.
  intros HI. destruct hd as [s|id]; cbn; auto.
  destruct (get h id) as [|s m|] eqn:G; auto.
  set (h' := mk _ _ _ _ _ _).
  assert (Hlt : id < length (table h)) by (eapply get_lt; eauto; congruence).
  assert (Gs : get h' id = Temp s true) by (unfold get, h'; cbn; now apply nth_upd_same).
  assert (Go : forall j, j <> id -> get h' j = get h j) by (intros j Hj; unfold get, h'; cbn; apply nth_upd_other; auto).
  constructor; cbn [istr istatic h'].
  - intros s0 k H. destruct (i_str_temp h HI _ _ H) as [m0 Hm0].
    destruct (Nat.eq_dec k id); [subst; rewrite G in Hm0; inversion Hm0; subst; eauto|rewrite Go; eauto].
  - intros s0 k H. pose proof (i_static_perm h HI _ _ H). destruct (Nat.eq_dec k id); [subst; congruence|rewrite Go; auto].
  - intros k s0 m0 H. destruct (Nat.eq_dec k id).
    + subst. rewrite Gs in H. inversion H; subst. eapply i_temp_interned; eauto.
    + rewrite Go in H by auto. eapply i_temp_interned; eauto.
  - intros k s0 H Hl. destruct (Nat.eq_dec k id); [subst; congruence|].
    rewrite Go in H by auto. eapply i_long_perm_interned; eauto.
  - apply (i_nodup_str h HI).
  - apply (i_nodup_static h HI).
  - apply (i_long h HI).
  - apply (i_disjoint h HI).
Qed.

(* ---------------- sweep ---------------- *)
Lemma nth_mapi_from {A} (f : nat -> A -> A) (l : list A) : forall k i d,
  (forall j, f j d = d) -> nth i (mapi_from f k l) d = f (k + i) (nth i l d).
Proof.
  induction l as [|x l IH]; intros k i d Hd; cbn.
  - destruct i; now rewrite Hd.
  - destruct i; cbn; [now rewrite Nat.add_0_r|]. rewrite IH by auto. f_equal. lia.
Qed.

Lemma in_removes ss : forall is s id, In (s, id) (removes ss is) <-> In (s, id) is /\ ~ In s ss.
Proof.
  unfold removes. induction ss as [|x ss IH]; intros is s id; cbn; [tauto|].
  rewrite IH, in_remove. intuition congruence.
Qed.

Lemma nodup_removes ss : forall is, NoDup (keys is) -> NoDup (keys (removes ss is)).
Proof. unfold removes. induction ss; intros is H; cbn; auto. apply IHss. now apply nodup_remove. Qed.

Lemma in_dead_strings a b l : forall k s,
  In s (dead_strings a b k l) <-> exists i, in_range a b (k + i) = true /\ nth_error l i = Some (Temp s false).
Proof.
  induction l as [|sl l IH]; intros k s; cbn [dead_strings].
  - split; [intros []|]. intros [i [_ H]]. destruct i; discriminate.
  - rewrite in_app_iff, IH. split.
    + intros [H|[i [H1 H2]]].
      * exists 0. rewrite Nat.add_0_r. destruct (in_range a b k); [|destruct H].
        destruct sl as [|s' [|]|]; try destruct H as [<-|[]]; try destruct H. auto.
      * exists (S i). split; [now replace (k + S i) with (S k + i) by lia|exact H2].
    + intros [[|i] [H1 H2]].
      * left. rewrite Nat.add_0_r in H1. rewrite H1. cbn in H2. inversion H2; subst. now left.
      * right. exists i. split; [now replace (S k + i) with (k + S i) by lia|exact H2].
Qed.

Lemma nth_error_get h i sl : nth_error (table h) i = Some sl -> get h i = sl.
Proof. intros H. unfold get. now apply nth_error_nth. Qed.
Lemma get_nth_error h i sl : get h i = sl -> sl <> Dead -> nth_error (table h) i = Some sl.
Proof.
  intros H N. pose proof (get_lt _ _ _ H N) as Hl. unfold get in H.
  rewrite <- H. apply nth_error_nth'. exact Hl.
Qed.

Definition swept (h : heap) (a b : nat) : heap :=
  mk (mapi_from (fun i sl => if in_range a b i then sweep1 sl else sl) 0 (table h))
     (removes (dead_strings a b 0 (table h)) (istr h)) (istatic h) (mods h) [] 0.

Lemma get_swept h a b i : get (swept h a b) i = if in_range a b i then sweep1 (get h i) else get h i.
Proof. unfold get, swept; cbn. rewrite nth_mapi_from; [reflexivity|]. intros j. now destruct (in_range a b j). Qed.

Lemma Inv_swept h a b : Inv h -> Inv (swept h a b).
Proof.
  intros HI.
  assert (Hdead : forall s, In s (dead_strings a b 0 (table h)) <->
                            exists i, in_range a b i = true /\ get h i = Temp s false).
  { intros s. rewrite in_dead_strings. split; intros [i [H1 H2]]; exists i; cbn in *; split; auto.
    - now apply nth_error_get.
    - apply get_nth_error; auto. congruence. }
  constructor; cbn [istr istatic swept].
  - intros s id H. apply in_removes in H. destruct H as [Hin Hnd].
    destruct (i_str_temp h HI _ _ Hin) as [m Hm]. rewrite get_swept, Hm.
    destruct (in_range a b id) eqn:R; [|eauto]. destruct m; cbn; [eauto|].
    exfalso. apply Hnd. apply Hdead. eauto.
  - intros s id H. rewrite get_swept, (i_static_perm h HI _ _ H). now destruct (in_range a b id).
  - intros id s m H. rewrite get_swept in H.
    assert (exists m0, get h id = Temp s m0 /\ (in_range a b id = true -> m0 = true)) as [m0 [G Hm0]].
    { destruct (in_range a b id); [|eauto]. destruct (get h id) as [|s0 [|]|]; cbn in H; try discriminate.
      inversion H; subst; eauto. exists m; split; auto; discriminate. }
    apply in_removes. split; [eapply i_temp_interned; eauto|].
    intros Hd. apply Hdead in Hd. destruct Hd as [j [Rj Gj]].
    pose proof (in_nodup_unique _ _ _ _ (i_nodup_str h HI)
                  (i_temp_interned h HI _ _ _ G) (i_temp_interned h HI _ _ _ Gj)) as ->.
    rewrite Gj in G. inversion G; subst. specialize (Hm0 Rj). discriminate.
  - intros id s H Hl. rewrite get_swept in H.
    assert (get h id = Perm s).
    { destruct (in_range a b id); auto. destruct (get h id) as [|s0 [|]|]; cbn in H; congruence. }
    eapply i_long_perm_interned; eauto.
  - apply nodup_removes, (i_nodup_str h HI).
  - apply (i_nodup_static h HI).
  - intros s id [H|H]; [apply in_removes in H; destruct H|]; eapply (i_long h HI); eauto.
  - intros s H. apply in_map_iff in H. destruct H as [[s' id] [E H]]. cbn in E; subst.
    apply in_removes in H. destruct H. apply (i_disjoint h HI). eapply in_keys; eauto.
Qed.

Definition Inv_nosweepidx (h : heap) := Inv h.

(* Inv does not mention unmarked / sweep_index / mods *)
Lemma Inv_ext h h' : table h = table h' -> istr h = istr h' -> istatic h = istatic h' -> Inv h -> Inv h'.
Proof.
  intros E1 E2 E3 HI. assert (G : forall i, get h' i = get h i) by (intros; unfold get; now rewrite E1).
  constructor; rewrite <- ?E2, <- ?E3; try setoid_rewrite G; apply HI.
Qed.

Lemma Inv_sweep h n : Inv h -> Inv (sweep h n).
Proof.
  intros HI. unfold sweep. destruct (unmarked h); auto.
  destruct (length (table h) <=? sweep_index h + n);
    eapply (Inv_ext (swept h _ _)); try reflexivity; now apply Inv_swept.
Qed.

(* the clauses of the property about sweeping *)
Theorem sweep_gate h n : unmarked h <> [] -> sweep h n = h.
Proof. unfold sweep. destruct (unmarked h); congruence. Qed.

Lemma sweep_get h n : unmarked h = [] -> exists a b, forall i, get (sweep h n) i = get (swept h a b) i.
Proof.
  intros E. unfold sweep. rewrite E.
  destruct (length (table h) <=? sweep_index h + n); eexists _, _; intros i; reflexivity.
Qed.

Theorem never_reclaims_protected h n i :
  (exists s, get h i = Perm s \/ get h i = Temp s true) -> get (sweep h n) i <> Dead.
Proof.
  intros [s Hs]. destruct (unmarked h) eqn:E.
  - destruct (sweep_get h n E) as [a [b Hg]]. rewrite Hg, get_swept.
    destruct (in_range a b i); destruct Hs as [-> | ->]; cbn; discriminate.
  - rewrite sweep_gate by congruence. destruct Hs as [-> | ->]; discriminate.
Qed.

(* a slot never changes the string it holds; it can only die *)
Theorem sweep_read_stable h n i s : slot_str (get h i) = Some s ->
  slot_str (get (sweep h n) i) = Some s \/ get (sweep h n) i = Dead.
Proof.
  intros H. destruct (unmarked h) eqn:E.
  - destruct (sweep_get h n E) as [a [b Hg]]. rewrite Hg, get_swept.
    destruct (in_range a b i); auto. destruct (get h i) as [|s0 [|]|]; cbn in *; auto.
  - rewrite sweep_gate by congruence. auto.
Qed.

(* ================= extension to the full operation set ================= *)

Lemma Inv_app_perm_empty h h' :
  table h' = table h ++ [Perm empty] -> istr h' = istr h -> istatic h' = istatic h -> Inv h -> Inv h'.
Proof.
  intros E E2 E3 HI.
  constructor; rewrite ?E2, ?E3.
  - intros s id H. destruct (i_str_temp h HI _ _ H) as [m Hm]. exists m.
    rewrite (get_app_old h' h _ E); auto. eapply get_lt; eauto. congruence.
  - intros s id H. pose proof (i_static_perm h HI _ _ H) as Hp.
    rewrite (get_app_old h' h _ E); auto. eapply get_lt; eauto. congruence.
  - intros id s m H. destruct (get_app_cases h' h _ id E) as [[Hl Hg]|[[Hl Hg]|[Hg _]]]; rewrite Hg in H;
      [eapply i_temp_interned; eauto|discriminate|discriminate].
  - intros id s H Hl0. destruct (get_app_cases h' h _ id E) as [[Hl Hg]|[[Hl Hg]|[Hg _]]]; rewrite Hg in H.
    + eapply i_long_perm_interned; eauto.
    + inversion H; subst. discriminate.
    + discriminate.
  - apply (i_nodup_str h HI).
  - apply (i_nodup_static h HI).
  - apply (i_long h HI).
  - apply (i_disjoint h HI).
Qed.

Lemma Inv_alloc_temp h : Inv h -> Inv (snd (alloc_temp h)).
Proof. intros HI. apply (Inv_app_perm_empty h); auto. Qed.

Lemma Inv_pad h k : Inv h ->
  Inv (mk (table h ++ repeat (Perm empty) k) (istr h) (istatic h) (mods h) (unmarked h) (sweep_index h)).
Proof.
  revert h. induction k as [|k IH]; intros h HI.
  - cbn. rewrite app_nil_r. destruct h; exact HI.
  - cbn [repeat].
    set (h1 := mk (table h ++ [Perm empty]) (istr h) (istatic h) (mods h) (unmarked h) (sweep_index h)).
    assert (H1 : Inv h1) by (apply (Inv_app_perm_empty h); auto).
    specialize (IH h1 H1). cbn in IH. rewrite <- app_assoc in IH. exact IH.
Qed.

Lemma Inv_sync_temp h t : Inv h -> Inv (sync_temp h t).
Proof. intros HI. apply Inv_pad; auto. Qed.

Lemma Inv_fold_make_permanent ps : forall h, Inv h -> Inv (fold_left make_permanent ps h).
Proof. induction ps as [|p ps IH]; intros h HI; cbn; auto. apply IH, Inv_make_permanent, HI. Qed.

Lemma Inv_alloc_modref h ps : Inv h -> Inv (snd (alloc_modref h ps)).
Proof.
  intros HI. unfold alloc_modref. destruct (find_mod ps (mods h) 0); [exact HI|]. cbn [snd].
  eapply (Inv_ext (fold_left make_permanent ps h)); try reflexivity. now apply Inv_fold_make_permanent.
Qed.

Lemma Inv_alloc_statics ss : forall h, Inv h -> Inv (snd (alloc_statics h ss)).
Proof.
  induction ss as [|s ss IH]; intros h HI; cbn; auto.
  destruct (alloc_static h s) as [hd h1] eqn:E1.
  assert (H1 : Inv h1) by (pose proof (Inv_alloc_static h s HI) as P; now rewrite E1 in P).
  specialize (IH h1 H1). destruct (alloc_statics h1 ss) as [hds h2]. exact IH.
Qed.

Lemma Inv_alloc_modref_str h ss : Inv h -> Inv (snd (alloc_modref_str h ss)).
Proof.
  intros HI. unfold alloc_modref_str.
  pose proof (Inv_alloc_statics ss h HI) as P. destruct (alloc_statics h ss) as [parts h1]. cbn in P.
  pose proof (Inv_alloc_modref h1 parts P) as Q. destruct (alloc_modref h1 parts). exact Q.
Qed.

Lemma Inv_add_unmarked h m : Inv h -> Inv (add_unmarked h m).
Proof. intros HI. eapply (Inv_ext h); try reflexivity; auto. Qed.

Lemma Inv_pop_unmarked h m : Inv h -> Inv (snd (pop_unmarked h m)).
Proof.
  intros HI. unfold pop_unmarked. destruct m as [x|], (unmarked h) as [|u us]; auto.
  destruct (existsb (Nat.eqb x) (u :: us)); auto.
  eapply (Inv_ext h); try reflexivity; auto.
Qed.

Theorem Inv_step h o : Inv h -> Inv (snd (step h o)).
Proof.
  intros HI. destruct o; cbn [step].
  - pose proof (Inv_alloc_string h s HI). destruct (alloc_string h s); auto.
  - pose proof (Inv_alloc_static h s HI). destruct (alloc_static h s); auto.
  - pose proof (Inv_alloc_temp h HI). destruct (alloc_temp h); auto.
  - apply Inv_sync_temp, Inv_sync_temp, HI.
  - pose proof (Inv_alloc_modref h parts HI). destruct (alloc_modref h parts); auto.
  - pose proof (Inv_alloc_modref_str h parts HI). destruct (alloc_modref_str h parts); auto.
  - now apply Inv_add_unmarked.
  - pose proof (Inv_pop_unmarked h m HI). destruct (pop_unmarked h m); auto.
  - now apply Inv_mark.
  - now apply Inv_sweep.
Qed.

Lemma Inv_exec ops : forall h, Inv h -> Inv (exec h ops).
Proof. unfold exec. induction ops as [|o ops IH]; intros h HI; cbn; auto. apply IH, Inv_step, HI. Qed.

Theorem Inv_run ops : Inv (run ops).
Proof. apply Inv_exec, Inv_init. Qed.

(* ================= slot history: a slot never changes its string ================= *)
(* slot_le a b: what can happen to one slot in one step *)
Definition slot_le (a b : slot) : Prop :=
  match a with
  | Dead => True                         (* out of range or reclaimed: anything later *)
  | Perm s => b = Perm s
  | Temp s m => b = Perm s \/ (exists m', b = Temp s m') \/ (b = Dead /\ m = false)
  end.

Lemma slot_le_refl a : slot_le a a.
Proof. destruct a; cbn; eauto. Qed.

Lemma get_upd_cases h id x j : id < length (table h) ->
  nth j (upd (table h) id x) Dead = if Nat.eqb j id then x else get h j.
Proof.
  intros Hl. destruct (Nat.eqb_spec j id) as [->|Hne].
  - now apply nth_upd_same.
  - apply nth_upd_other; auto.
Qed.

Lemma get_app_live h l i : get h i <> Dead -> nth i (table h ++ l) Dead = get h i.
Proof.
  intros H. unfold get in *. destruct (Nat.ltb_spec i (length (table h))).
  - now rewrite app_nth1.
  - rewrite (nth_overflow (table h)) in H by lia. congruence.
Qed.

Lemma slot_le_app h l i : slot_le (get h i) (nth i (table h ++ l) Dead).
Proof.
  destruct (get h i) eqn:G; cbn; auto.
  - rewrite get_app_live; congruence.
  - right; left. exists marked. rewrite get_app_live; congruence.
Qed.

Lemma step_alloc_string_slot h s i : slot_le (get h i) (get (snd (alloc_string h s)) i).
Proof.
  unfold alloc_string. destruct (is_inline s); [apply slot_le_refl|].
  destruct (lookup s (istatic h)); [apply slot_le_refl|].
  destruct (lookup s (istr h)); [apply slot_le_refl|]. cbn [snd]. unfold get at 2; cbn. apply slot_le_app.
Qed.

Lemma slot_le_promote h s id m i : get h id = Temp s m ->
  slot_le (get h i) (nth i (upd (table h) id (Perm s)) Dead).
Proof.
  intros G. assert (Hlt : id < length (table h)) by (eapply get_lt; eauto; congruence).
  rewrite get_upd_cases by auto. destruct (Nat.eqb_spec i id) as [->|Hne]; [|apply slot_le_refl].
  rewrite G. cbn. auto.
Qed.

Lemma step_alloc_static_slot h s i : Inv h -> slot_le (get h i) (get (snd (alloc_static h s)) i).
Proof.
  intros HI. unfold alloc_static. destruct (is_inline s); [apply slot_le_refl|].
  destruct (lookup s (istatic h)); [apply slot_le_refl|].
  destruct (lookup s (istr h)) as [id|] eqn:L; cbn [snd]; unfold get at 2; cbn.
  - apply lookup_in in L. destruct (i_str_temp h HI _ _ L) as [m Hm]. eapply slot_le_promote; eauto.
  - apply slot_le_app.
Qed.

Lemma step_make_permanent_slot h hd i : slot_le (get h i) (get (make_permanent h hd) i).
Proof.
  destruct hd as [s|id]; cbn; [apply slot_le_refl|].
  destruct (get h id) eqn:G; try apply slot_le_refl. unfold get at 2; cbn. eapply slot_le_promote; eauto.
Qed.

Lemma slot_le_trans a b c : slot_le a b -> slot_le b c -> slot_le a c.
Proof.
  destruct a as [s|s m|]; cbn; auto.
  - intros ->. cbn. auto.
  - intros [->|[[m' ->]|[-> ->]]]; cbn; auto.
    intros [->|[[m'' ->]|[-> ->]]]; eauto.
Abort.
(* slot_le is deliberately one-step (a Dead slot may not come back, but an index beyond the
   table is also Dead in the model); histories are handled by [live_history] below. *)

Lemma step_mark_slot h hd i : slot_le (get h i) (get (mark h hd) i).
Proof.
  destruct hd as [s|id]; cbn; [apply slot_le_refl|].
  destruct (get h id) eqn:G; try apply slot_le_refl. unfold get at 2; cbn.
  assert (Hlt : id < length (table h)) by (eapply get_lt; eauto; congruence).
  rewrite get_upd_cases by auto. destruct (Nat.eqb_spec i id) as [->|Hne]; [|apply slot_le_refl].
  rewrite G. cbn. eauto.
Qed.

Lemma step_sweep_slot h n i : slot_le (get h i) (get (sweep h n) i).
Proof.
  destruct (unmarked h) eqn:E.
  - destruct (sweep_get h n E) as [a [b0 Hg]]. rewrite Hg, get_swept.
    destruct (in_range a b0 i); [|apply slot_le_refl].
    destruct (get h i) as [|s [|]|]; cbn; eauto.
  - rewrite sweep_gate by congruence. apply slot_le_refl.
Qed.

(* allocation-only steps: a slot stays, is promoted, or was not there *)
Definition slot_grow (a b : slot) : Prop :=
  b = a \/ (exists s m, a = Temp s m /\ b = Perm s) \/ a = Dead.

Lemma slot_grow_refl a : slot_grow a a.
Proof. left; reflexivity. Qed.
Lemma slot_grow_trans a b c : slot_grow a b -> slot_grow b c -> slot_grow a c.
Proof.
  intros [->|[[s [m [-> ->]]]| ->]] H; auto; [|right; right; reflexivity].
  destruct H as [->|[[s' [m' [E _]]]|E]]; try discriminate.
  right; left; eauto.
Qed.
Lemma slot_grow_le a b : slot_grow a b -> slot_le a b.
Proof.
  intros [->|[[s [m [-> ->]]]| ->]]; cbn; auto. apply slot_le_refl.
Qed.

Lemma slot_grow_app h l i : slot_grow (get h i) (nth i (table h ++ l) Dead).
Proof.
  destruct (get h i) eqn:G; [left|left|right; right; reflexivity]; rewrite get_app_live; congruence.
Qed.
Lemma slot_grow_promote h s id m i : get h id = Temp s m ->
  slot_grow (get h i) (nth i (upd (table h) id (Perm s)) Dead).
Proof.
  intros G. assert (Hlt : id < length (table h)) by (eapply get_lt; eauto; congruence).
  rewrite get_upd_cases by auto. destruct (Nat.eqb_spec i id) as [->|Hne]; [|apply slot_grow_refl].
  rewrite G. right; left; eauto.
Qed.

Lemma grow_alloc_static h s i : Inv h -> slot_grow (get h i) (get (snd (alloc_static h s)) i).
Proof.
  intros HI. unfold alloc_static. destruct (is_inline s); [apply slot_grow_refl|].
  destruct (lookup s (istatic h)); [apply slot_grow_refl|].
  destruct (lookup s (istr h)) as [id|] eqn:L; cbn [snd]; unfold get at 2; cbn.
  - apply lookup_in in L. destruct (i_str_temp h HI _ _ L) as [m Hm]. eapply slot_grow_promote; eauto.
  - apply slot_grow_app.
Qed.

Lemma grow_make_permanent h hd i : slot_grow (get h i) (get (make_permanent h hd) i).
Proof.
  destruct hd as [s|id]; cbn; [apply slot_grow_refl|].
  destruct (get h id) eqn:G; try apply slot_grow_refl. unfold get at 2; cbn. eapply slot_grow_promote; eauto.
Qed.

Lemma grow_fold_make_permanent ps i : forall h, slot_grow (get h i) (get (fold_left make_permanent ps h) i).
Proof.
  induction ps as [|p ps IH]; intros h; cbn; [apply slot_grow_refl|].
  eapply slot_grow_trans; [apply grow_make_permanent|apply IH].
Qed.

Lemma grow_alloc_modref h ps i : slot_grow (get h i) (get (snd (alloc_modref h ps)) i).
Proof.
  unfold alloc_modref. destruct (find_mod ps (mods h) 0); [apply slot_grow_refl|]. cbn [snd].
  unfold get at 2; cbn. apply grow_fold_make_permanent.
Qed.

Lemma grow_alloc_statics ss i : forall h, Inv h -> slot_grow (get h i) (get (snd (alloc_statics h ss)) i).
Proof.
  induction ss as [|s ss IH]; intros h HI; cbn; [apply slot_grow_refl|].
  pose proof (grow_alloc_static h s i HI) as G1. pose proof (Inv_alloc_static h s HI) as I1.
  destruct (alloc_static h s) as [hd h1]. cbn in G1, I1.
  specialize (IH h1 I1). destruct (alloc_statics h1 ss) as [hds h2]. cbn in *.
  eapply slot_grow_trans; eauto.
Qed.

Lemma grow_alloc_modref_str h ss i : Inv h -> slot_grow (get h i) (get (snd (alloc_modref_str h ss)) i).
Proof.
  intros HI. unfold alloc_modref_str.
  pose proof (grow_alloc_statics ss i h HI) as G1. destruct (alloc_statics h ss) as [parts h1]. cbn in G1.
  pose proof (grow_alloc_modref h1 parts i) as G2. destruct (alloc_modref h1 parts) as [m h2]. cbn in *.
  eapply slot_grow_trans; eauto.
Qed.

Lemma grow_sync_temp h t i : slot_grow (get h i) (get (sync_temp h t) i).
Proof. unfold sync_temp. unfold get at 2; cbn. apply slot_grow_app. Qed.
Lemma grow_sync_temp_op h extra k i : slot_grow (get h i) (get (sync_temp_op h extra k) i).
Proof. unfold sync_temp_op. eapply slot_grow_trans; apply grow_sync_temp. Qed.

Lemma grow_alloc_string h s i : slot_grow (get h i) (get (snd (alloc_string h s)) i).
Proof.
  unfold alloc_string. destruct (is_inline s); [apply slot_grow_refl|].
  destruct (lookup s (istatic h)); [apply slot_grow_refl|].
  destruct (lookup s (istr h)); [apply slot_grow_refl|]. cbn [snd]. unfold get at 2; cbn. apply slot_grow_app.
Qed.

Lemma get_pop_fwd h m i : get (snd (let '(b0, h') := pop_unmarked h m in (ObsB b0, h'))) i = get h i.
Proof.
  unfold pop_unmarked. destruct m as [x|], (unmarked h) as [|u us]; auto.
  destruct (existsb (Nat.eqb x) (u :: us)); auto.
Qed.

(* one step of any operation, any slot *)
Theorem step_slot h o i : Inv h -> slot_le (get h i) (get (snd (step h o)) i).
Proof.
  intros HI. destruct o; cbn [step].
  - pose proof (step_alloc_string_slot h s i). destruct (alloc_string h s); auto.
  - pose proof (step_alloc_static_slot h s i HI). destruct (alloc_static h s); auto.
  - change (slot_le (get h i) (nth i (table h ++ [Perm empty]) Dead)). apply slot_le_app.
  - apply slot_grow_le, grow_sync_temp_op.
  - pose proof (grow_alloc_modref h parts i) as G. destruct (alloc_modref h parts). now apply slot_grow_le.
  - pose proof (grow_alloc_modref_str h parts i HI) as G. destruct (alloc_modref_str h parts). now apply slot_grow_le.
  - cbn. apply slot_le_refl.
  - rewrite get_pop_fwd. apply slot_le_refl.
  - apply step_mark_slot.
  - apply step_sweep_slot.
Qed.

(* ---------- consequences, in the words of the property ---------- *)

(* a live handle reads the string it was created from until its slot is reclaimed *)
Theorem read_stable_step h o hd s : Inv h -> read h hd = Some s ->
  read (snd (step h o)) hd = Some s \/ (exists i, hd = HId i /\ get (snd (step h o)) i = Dead).
Proof.
  intros HI R. destruct hd as [t|i]; cbn in *; auto.
  pose proof (step_slot h o i HI) as L.
  destruct (get h i) as [t|t m|]; cbn in R; inversion R; subst; cbn in L.
  - rewrite L. auto.
  - destruct L as [->|[[m' ->]|[D _]]]; cbn; auto. right. exists i. auto.
Qed.

(* permanent strings, and strings marked since the sweeper last passed, survive any operation *)
Definition protected (sl : slot) : Prop := exists s, sl = Perm s \/ sl = Temp s true.

Theorem never_reclaims_protected_step h o i : Inv h -> protected (get h i) -> get (snd (step h o)) i <> Dead.
Proof.
  intros HI [s [P|P]]; pose proof (step_slot h o i HI) as L; rewrite P in L; cbn in L.
  - rewrite L; discriminate.
  - destruct L as [->|[[m' ->]|[_ F]]]; discriminate.
Qed.

Theorem perm_forever_step h o i s : Inv h -> get h i = Perm s -> get (snd (step h o)) i = Perm s.
Proof. intros HI P. pose proof (step_slot h o i HI) as L. rewrite P in L. exact L. Qed.

Lemma perm_forever ops : forall h i s, Inv h -> get h i = Perm s -> get (exec h ops) i = Perm s.
Proof.
  unfold exec. induction ops as [|o ops IH]; intros h i s HI P; cbn; auto.
  apply IH; [apply Inv_step, HI|apply perm_forever_step; auto].
Qed.

Lemma get_pop h m i : get (snd (pop_unmarked h m)) i = get h i.
Proof.
  unfold pop_unmarked. destruct m as [x|], (unmarked h) as [|u us]; auto.
  destruct (existsb (Nat.eqb x) (u :: us)); auto.
Qed.

Lemma mark_not_dead h hd i : get h i <> Dead -> get (mark h hd) i <> Dead.
Proof.
  intros L. destruct hd as [t|id]; cbn; auto.
  destruct (get h id) eqn:Gid; auto.
  assert (Hlt : id < length (table h)) by (eapply get_lt; eauto; congruence).
  unfold get at 1; cbn. rewrite get_upd_cases by auto. destruct (Nat.eqb i id); congruence.
Qed.

(* only a sweep reclaims *)
Theorem only_sweep_reclaims h o i : Inv h -> get h i <> Dead -> get (snd (step h o)) i = Dead ->
  exists n, o = OSweep n /\ unmarked h = [] /\ exists s, get h i = Temp s false.
Proof.
  intros HI L D.
  assert (G : forall a b0, slot_grow a b0 -> a <> Dead -> b0 <> Dead).
  { intros a b0 [->|[[s [m [-> ->]]]| ->]] N; congruence. }
  destruct o; cbn [step] in D.
  - exfalso. pose proof (grow_alloc_string h s i) as Gr. destruct (alloc_string h s). eapply G; eauto.
  - exfalso. pose proof (grow_alloc_static h s i HI) as Gr. destruct (alloc_static h s). eapply G; eauto.
  - exfalso. change (nth i (table h ++ [Perm empty]) Dead = Dead) in D.
    eapply G; [apply (slot_grow_app h [Perm empty] i)|eauto|eauto].
  - exfalso. eapply G; [apply (grow_sync_temp_op h extra k i)|eauto|eauto].
  - exfalso. pose proof (grow_alloc_modref h parts i) as Gr. destruct (alloc_modref h parts). eapply G; eauto.
  - exfalso. pose proof (grow_alloc_modref_str h parts i HI) as Gr. destruct (alloc_modref_str h parts). eapply G; eauto.
  - exfalso. change (get h i = Dead) in D. congruence.
  - exfalso. rewrite get_pop_fwd in D. congruence.
  - exfalso. eapply mark_not_dead; eauto.
  - exists n. split; auto. cbn in D. destruct (unmarked h) eqn:E.
    + split; auto. destruct (sweep_get h n E) as [a [b0 Hg]]. rewrite Hg, get_swept in D.
      destruct (in_range a b0 i); [|congruence].
      destruct (get h i) as [|s [|]|]; cbn in D; try congruence. eauto.
    + rewrite sweep_gate in D by congruence. congruence.
Qed.

(* ================= handles handed out are valid ================= *)
Lemma alloc_static_valid h s : Inv h ->
  let '(hd, h') := alloc_static h s in valid h' hd /\ read h' hd = Some s /\
    match hd with HInline _ => True | HId i => get h' i = Perm s end.
Proof.
  intros HI. unfold alloc_static. destruct (is_inline s) eqn:Hin; [cbn; auto|].
  destruct (lookup s (istatic h)) as [id|] eqn:L1.
  { apply lookup_in in L1. pose proof (i_static_perm h HI _ _ L1) as Hp. cbn. rewrite Hp. cbn. eauto. }
  destruct (lookup s (istr h)) as [id|] eqn:L2.
  { apply lookup_in in L2. destruct (i_str_temp h HI _ _ L2) as [m Hm].
    assert (Hlt : id < length (table h)) by (eapply get_lt; eauto; congruence).
    cbn. unfold get; cbn. rewrite nth_upd_same by auto. cbn. eauto. }
  cbn. unfold get. cbn. rewrite app_nth2, Nat.sub_diag by lia. cbn. eauto.
Qed.

(* ================= the sweep cursor stays inside the table ================= *)
Lemma length_mapi_from {A} (f : nat -> A -> A) l : forall k, length (mapi_from f k l) = length l.
Proof. induction l; intros k; cbn; auto. Qed.

Lemma grow_len_make_permanent h hd : length (table (make_permanent h hd)) = length (table h).
Proof.
  destruct hd as [s|id]; cbn; auto. destruct (get h id); cbn; auto. apply upd_length.
Qed.
Lemma len_fold_make_permanent ps : forall h, length (table (fold_left make_permanent ps h)) = length (table h).
Proof. induction ps as [|p ps IH]; intros h; cbn; auto. rewrite IH. apply grow_len_make_permanent. Qed.
Lemma sidx_make_permanent h hd : sweep_index (make_permanent h hd) = sweep_index h.
Proof. destruct hd as [s|id]; cbn; auto. destruct (get h id); cbn; auto. Qed.
Lemma sidx_fold_make_permanent ps : forall h, sweep_index (fold_left make_permanent ps h) = sweep_index h.
Proof. induction ps as [|p ps IH]; intros h; cbn; auto. rewrite IH. apply sidx_make_permanent. Qed.

Lemma len_alloc_static h s :
  length (table h) <= length (table (snd (alloc_static h s))) /\ sweep_index (snd (alloc_static h s)) = sweep_index h.
Proof.
  unfold alloc_static. destruct (is_inline s); [auto|].
  destruct (lookup s (istatic h)); [auto|]. destruct (lookup s (istr h)); cbn.
  - rewrite upd_length. auto.
  - rewrite app_length. cbn. split; auto; lia.
Qed.
Lemma len_alloc_statics ss : forall h,
  length (table h) <= length (table (snd (alloc_statics h ss))) /\ sweep_index (snd (alloc_statics h ss)) = sweep_index h.
Proof.
  induction ss as [|s ss IH]; intros h; cbn; auto.
  pose proof (len_alloc_static h s) as [L1 S1]. destruct (alloc_static h s) as [hd h1]. cbn in *.
  pose proof (IH h1) as [L2 S2]. destruct (alloc_statics h1 ss) as [hds h2]. cbn in *. split; [lia|congruence].
Qed.

Definition cursor_ok (h : heap) : Prop := sweep_index h <= length (table h).

Theorem cursor_ok_step h o : cursor_ok h -> cursor_ok (snd (step h o)).
Proof.
  unfold cursor_ok. intros C. destruct o; cbn [step].
  - unfold alloc_string. destruct (is_inline s); [auto|]. destruct (lookup s (istatic h)); [auto|].
    destruct (lookup s (istr h)); cbn; auto. rewrite app_length; cbn; lia.
  - pose proof (len_alloc_static h s) as [L1 S1]. destruct (alloc_static h s). cbn in *. lia.
  - cbn. rewrite app_length; cbn; lia.
  - cbn. rewrite !app_length; lia.
  - unfold alloc_modref. destruct (find_mod parts (mods h) 0); cbn; auto.
    rewrite len_fold_make_permanent, sidx_fold_make_permanent. auto.
  - unfold alloc_modref_str. pose proof (len_alloc_statics parts h) as [L1 S1].
    destruct (alloc_statics h parts) as [ps h1]. cbn in *.
    unfold alloc_modref. destruct (find_mod ps (mods h1) 0); cbn; [lia|].
    rewrite len_fold_make_permanent, sidx_fold_make_permanent. lia.
  - cbn. auto.
  - unfold pop_unmarked. destruct m as [x|], (unmarked h) as [|u us]; auto.
    destruct (existsb (Nat.eqb x) (u :: us)); auto.
  - destruct hd as [t|id]; cbn; auto. destruct (get h id); cbn; auto. rewrite upd_length; auto.
  - cbn. unfold sweep. destruct (unmarked h); auto.
    destruct (Nat.leb_spec (length (table h)) (sweep_index h + n)); cbn; rewrite length_mapi_from; lia.
Qed.

Lemma cursor_ok_exec ops : forall h, cursor_ok h -> cursor_ok (exec h ops).
Proof. unfold exec. induction ops as [|o ops IH]; intros h C; cbn; auto. apply IH, cursor_ok_step, C. Qed.
Theorem cursor_ok_run ops : cursor_ok (run ops).
Proof. apply cursor_ok_exec. unfold cursor_ok; cbn; lia. Qed.

(* ================= the 16-byte representation ================= *)
From Coq Require Import ZArith.
Ltac Zify.zify_post_hook ::= Z.div_mod_to_equations.

Lemma repr128_length hd : match hd with HInline s => len s <= 15 | HId _ => True end -> length (repr128 hd) = 16.
Proof.
  destruct hd as [s|id]; [|reflexivity]. intros H. unfold repr128. cbn [length]. rewrite app_length, repeat_length. unfold len in *. lia.
Qed.

Lemma nth_app_repeat (s : list N) k : forall i, nth i (s ++ repeat 0%N k) 0%N = nth i s 0%N.
Proof.
  induction s as [|x s IH]; intros i; cbn.
  - destruct i; cbn; destruct k; cbn; auto. revert i. induction k; intros [|i]; cbn; auto.
  - destruct i; auto.
Qed.

(* byte 15 of an inline handle is the last storage byte: 0 for short strings, the 15th byte else *)
Theorem tag_inline s : len s <= 15 -> Forall (fun x => x <> 255%N) s -> tag_is_heap (repr128 (HInline s)) = false.
Proof.
  intros L F. unfold tag_is_heap, repr128. cbn [nth]. rewrite nth_app_repeat.
  destruct (N.eqb_spec (nth 14 s 0%N) 255); auto. exfalso.
  destruct (Nat.ltb_spec 14 (length s)) as [H|H].
  - rewrite Forall_forall in F. apply (F (nth 14 s 0%N)); auto. apply nth_In; auto.
  - rewrite nth_overflow in e by auto. discriminate.
Qed.
Theorem tag_heap id : tag_is_heap (repr128 (HId id)) = true.
Proof. reflexivity. Qed.

Lemma app_repeat_inj (s t : list N) : length s = length t -> forall k, s ++ repeat 0%N k = t ++ repeat 0%N k -> s = t.
Proof.
  revert t. induction s as [|x s IH]; intros [|y t] L k E; cbn in *; try discriminate; auto.
  inversion E; subst. f_equal. eapply IH; eauto.
Qed.

Definition handle_wf (hd : handle) : Prop :=
  match hd with
  | HInline s => len s <= 15 /\ Forall (fun x => x <> 255%N) s
  | HId id => (N.of_nat id < 4294967296)%N
  end.

(* PartialEq on PStr compares the 16 bytes: that is equality of handles *)
Theorem repr128_injective h1 h2 : handle_wf h1 -> handle_wf h2 -> repr128 h1 = repr128 h2 -> h1 = h2.
Proof.
  destruct h1 as [s|i], h2 as [t|j]; intros W1 W2 E.
  - cbn in E. inversion E as [[E1 E2]]. unfold len in *.
    assert (L : length s = length t) by lia. rewrite L in E2.
    f_equal. eapply app_repeat_inj; eauto.
  - exfalso. destruct W1 as [L F]. pose proof (tag_inline s L F) as T. rewrite E in T. discriminate.
  - exfalso. destruct W2 as [L F]. pose proof (tag_inline t L F) as T. rewrite <- E in T. discriminate.
  - cbn in *. inversion E as [[E0 E1 E2 E3]]. f_equal. apply Nat2N.inj.
    set (a := N.of_nat i) in *. set (c := N.of_nat j) in *. clearbody a c. clear E.
    assert (D2 : forall x, (x / 65536 = x / 256 / 256)%N) by (intros; rewrite N.div_div by lia; reflexivity).
    assert (D3 : forall x, (x / 16777216 = x / 256 / 256 / 256)%N) by (intros; rewrite !N.div_div by lia; reflexivity).
    rewrite !D2 in E2. rewrite !D3 in E3. clear D2 D3.
    pose proof (N.div_mod' a 256) as A1. pose proof (N.div_mod' (a/256) 256) as A2.
    pose proof (N.div_mod' (a/256/256) 256) as A3. pose proof (N.div_mod' (a/256/256/256) 256) as A4.
    pose proof (N.div_mod' c 256) as C1. pose proof (N.div_mod' (c/256) 256) as C2.
    pose proof (N.div_mod' (c/256/256) 256) as C3. pose proof (N.div_mod' (c/256/256/256) 256) as C4.
    pose proof (N.mod_lt a 256). pose proof (N.mod_lt (a/256) 256). pose proof (N.mod_lt (a/256/256) 256).
    pose proof (N.mod_lt (a/256/256/256) 256).
    pose proof (N.mod_lt c 256). pose proof (N.mod_lt (c/256) 256). pose proof (N.mod_lt (c/256/256) 256).
    pose proof (N.mod_lt (c/256/256/256) 256).
    generalize dependent (a mod 256)%N. generalize dependent ((a/256) mod 256)%N.
    generalize dependent ((a/256/256) mod 256)%N. generalize dependent ((a/256/256/256) mod 256)%N.
    generalize dependent (a/256/256/256/256)%N. generalize dependent (a/256/256/256)%N.
    generalize dependent (a/256/256)%N. generalize dependent (a/256)%N.
    generalize dependent (c mod 256)%N. generalize dependent ((c/256) mod 256)%N.
    generalize dependent ((c/256/256) mod 256)%N. generalize dependent ((c/256/256/256) mod 256)%N.
    generalize dependent (c/256/256/256/256)%N. generalize dependent (c/256/256/256)%N.
    generalize dependent (c/256/256)%N. generalize dependent (c/256)%N.
    intros. lia.
Qed.

(* ================= module-reference parts are permanent ================= *)
Definition live (h : heap) (hd : handle) : Prop :=
  match hd with HInline _ => True | HId i => get h i <> Dead end.

Definition modparts_perm (h : heap) : Prop :=
  forall ps i, In ps (mods h) -> In (HId i) ps -> exists s, get h i = Perm s.

(* arguments handed to the heap must be handles that are still live *)
Definition wf_op (h : heap) (o : op) : Prop :=
  match o with
  | OMkModRef ps => Forall (live h) ps
  | _ => True
  end.

Lemma grow_perm a b0 s : slot_grow a b0 -> a = Perm s -> b0 = Perm s.
Proof. intros [->|[[s' [m [-> _]]]| ->]] E; congruence. Qed.

Lemma grow_live a b0 : slot_grow a b0 -> a <> Dead -> b0 <> Dead.
Proof. intros [->|[[s [m [-> ->]]]| ->]] N; congruence. Qed.

Lemma make_permanent_perm h i : get h i <> Dead -> exists s, get (make_permanent h (HId i)) i = Perm s.
Proof.
  intros L. cbn. destruct (get h i) as [s|s m|] eqn:G; try congruence.
  - exists s; auto.
  - exists s. assert (Hlt : i < length (table h)) by (eapply get_lt; eauto; congruence).
    unfold get; cbn. now apply nth_upd_same.
Qed.

Lemma fold_make_permanent_perm ps : forall h i, Forall (live h) ps -> In (HId i) ps ->
  exists s, get (fold_left make_permanent ps h) i = Perm s.
Proof.
  induction ps as [|p ps IH]; intros h i F Hin; [destruct Hin|]. cbn [fold_left].
  inversion F as [|? ? Lp Fps]; subst.
  assert (F' : Forall (live (make_permanent h p)) ps).
  { eapply Forall_impl; [|exact Fps]. intros [t|j]; cbn [live]; auto. intros Lj.
    eapply grow_live; [apply grow_make_permanent|exact Lj]. }
  destruct Hin as [->|Hin].
  - destruct (make_permanent_perm h i Lp) as [s Hs]. exists s.
    eapply grow_perm; [apply grow_fold_make_permanent|exact Hs].
  - apply IH; auto.
Qed.

Lemma mods_make_permanent h hd : mods (make_permanent h hd) = mods h.
Proof. destruct hd as [s|id]; cbn; auto. destruct (get h id); cbn; auto. Qed.
Lemma mods_fold_make_permanent ps : forall h, mods (fold_left make_permanent ps h) = mods h.
Proof. induction ps as [|p ps IH]; intros h; cbn; auto. rewrite IH. apply mods_make_permanent. Qed.

Lemma modparts_alloc_modref h ps : modparts_perm h -> Forall (live h) ps -> modparts_perm (snd (alloc_modref h ps)).
Proof.
  intros MP F. unfold alloc_modref. destruct (find_mod ps (mods h) 0); [exact MP|]. cbn [snd].
  intros qs i Hq Hi. cbn [mods] in Hq. rewrite mods_fold_make_permanent in Hq.
  apply in_app_iff in Hq. unfold get; cbn [table]. fold (get (fold_left make_permanent ps h) i).
  destruct Hq as [Hq|[<-|[]]].
  - destruct (MP qs i Hq Hi) as [s Hs]. exists s. eapply grow_perm; [apply grow_fold_make_permanent|exact Hs].
  - apply fold_make_permanent_perm; auto.
Qed.

Lemma mods_alloc_static h s : mods (snd (alloc_static h s)) = mods h.
Proof.
  unfold alloc_static. destruct (is_inline s); auto. destruct (lookup s (istatic h)); auto.
  destruct (lookup s (istr h)); auto.
Qed.

Lemma alloc_statics_live ss : forall h, Inv h ->
  Forall (live (snd (alloc_statics h ss))) (fst (alloc_statics h ss)) /\
  mods (snd (alloc_statics h ss)) = mods h.
Proof.
  induction ss as [|s ss IH]; intros h HI; cbn; [split; auto|].
  pose proof (alloc_static_valid h s HI) as V. pose proof (Inv_alloc_static h s HI) as I1.
  pose proof (mods_alloc_static h s) as M1.
  destruct (alloc_static h s) as [hd h1]. cbn in I1, M1. destruct V as [_ [_ V]].
  destruct (IH h1 I1) as [F M2]. pose proof (grow_alloc_statics ss) as G.
  destruct (alloc_statics h1 ss) as [hds h2] eqn:E. cbn in *. split; [|congruence].
  constructor; auto. destruct hd as [t|i]; cbn; auto.
  specialize (G i h1 I1). rewrite E in G. cbn in G. eapply grow_live; eauto. congruence.
Qed.

Lemma modparts_grow h h' : mods h' = mods h -> (forall i, slot_grow (get h i) (get h' i)) ->
  modparts_perm h -> modparts_perm h'.
Proof.
  intros M G MP ps i Hp Hi. rewrite M in Hp. destruct (MP ps i Hp Hi) as [s Hs]. exists s.
  eapply grow_perm; [apply G|exact Hs].
Qed.

Theorem modparts_step h o : Inv h -> modparts_perm h -> wf_op h o -> modparts_perm (snd (step h o)).
Proof.
  intros HI MP W.
  assert (Keep : mods (snd (step h o)) = mods h -> modparts_perm (snd (step h o))).
  { intros M ps i Hp Hi. rewrite M in Hp. destruct (MP ps i Hp Hi) as [s Hs]. exists s.
    apply perm_forever_step; auto. }
  pose (K := fun P => Keep P).
  destruct o; [apply Keep; cbn [step]|apply Keep; cbn [step]|apply Keep; cbn [step]|apply Keep; cbn [step]| | |apply Keep; cbn [step]|apply Keep; cbn [step]|apply Keep; cbn [step]|apply Keep; cbn [step]].
  - unfold alloc_string. destruct (is_inline s); auto. destruct (lookup s (istatic h)); auto.
    destruct (lookup s (istr h)); auto.
  - pose proof (mods_alloc_static h s). destruct (alloc_static h s); auto.
  - reflexivity.
  - reflexivity.
  - cbn [step]. pose proof (modparts_alloc_modref h parts MP W). destruct (alloc_modref h parts); auto.
  - cbn [step]. unfold alloc_modref_str.
    pose proof (alloc_statics_live parts h HI) as [F M]. pose proof (Inv_alloc_statics parts h HI) as I1.
    pose proof (grow_alloc_statics parts) as G.
    destruct (alloc_statics h parts) as [ps h1] eqn:E. cbn in *.
    assert (MP1 : modparts_perm h1).
    { eapply modparts_grow; [exact M| |exact MP]. intros i. specialize (G i h HI). rewrite E in G. exact G. }
    pose proof (modparts_alloc_modref h1 ps MP1 F). destruct (alloc_modref h1 ps); auto.
  - reflexivity.
  - unfold pop_unmarked. destruct m as [x|], (unmarked h) as [|u us]; auto.
    destruct (existsb (Nat.eqb x) (u :: us)); auto.
  - destruct hd as [t|id]; cbn; auto. destruct (get h id); auto.
  - cbn. unfold sweep. destruct (unmarked h); auto.
    destruct (length (table h) <=? sweep_index h + n); auto.
Qed.

(* runs whose handle arguments are live when used *)
Fixpoint wf_ops (h : heap) (ops : list op) : Prop :=
  match ops with
  | [] => True
  | o :: ops' => wf_op h o /\ wf_ops (snd (step h o)) ops'
  end.

Lemma modparts_exec ops : forall h, Inv h -> modparts_perm h -> wf_ops h ops -> modparts_perm (exec h ops).
Proof.
  unfold exec. induction ops as [|o ops IH]; intros h HI MP W; cbn; auto.
  destruct W as [W1 W2]. apply IH; auto using Inv_step, modparts_step.
Qed.

Theorem modparts_run ops : wf_ops init ops -> modparts_perm (run ops).
Proof.
  intros W. apply modparts_exec; auto using Inv_init.
  intros ps i Hp Hi. cbn in Hp. destruct Hp as [<-|[<-|[<-|[]]]]; cbn in Hi; intuition discriminate.
Qed.
