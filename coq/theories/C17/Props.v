(* C17 — the property theorems.  Nothing but statements closed by `exact`, their
   Print Assumptions, and non-vacuity examples.  Parsed by /verif/check. *)
From Coq Require Import List Arith Bool NArith Lia.
Import ListNotations.
From SV Require Import C17.Model C17.Proofs.

(* every state reachable by any operation list satisfies the heap invariant *)
Theorem C17_inv_reachable : forall ops, Inv (run ops).
Proof. exact Inv_run. Qed.

(* two live handles are equal exactly when their strings are equal *)
Theorem C17_handles_injective : forall ops h1 h2 s,
  valid (run ops) h1 -> valid (run ops) h2 ->
  read (run ops) h1 = Some s -> read (run ops) h2 = Some s -> h1 = h2.
Proof. intros ops h1 h2 s. exact (handles_injective (run ops) h1 h2 s (Inv_run ops)). Qed.

(* ... and equality of handles is equality of the 16 bytes PartialEq compares *)
Theorem C17_repr128_injective : forall h1 h2,
  handle_wf h1 -> handle_wf h2 -> repr128 h1 = repr128 h2 -> h1 = h2.
Proof. exact repr128_injective. Qed.

Theorem C17_tag_never_collides : forall s, len s <= 15 -> Forall (fun x => x <> 255%N) s ->
  tag_is_heap (repr128 (HInline s)) = false.
Proof. exact tag_inline. Qed.

(* allocation in any reachable state (in particular after the string was reclaimed)
   returns a valid handle that reads back the string *)
Theorem C17_alloc_readback : forall ops s,
  let '(hd, h') := alloc_string (run ops) s in valid h' hd /\ read h' hd = Some s.
Proof. intros ops s. exact (alloc_string_valid (run ops) s (Inv_run ops)). Qed.

(* a live handle keeps reading the same string until its slot is reclaimed *)
Theorem C17_read_stable : forall ops o hd s, read (run ops) hd = Some s ->
  read (snd (step (run ops) o)) hd = Some s \/
  (exists i, hd = HId i /\ get (snd (step (run ops) o)) i = Dead).
Proof. intros ops o hd s. exact (read_stable_step (run ops) o hd s (Inv_run ops)). Qed.

(* permanent strings and strings marked since the sweeper last passed are never reclaimed *)
Theorem C17_never_reclaims_protected : forall ops o i,
  protected (get (run ops) i) -> get (snd (step (run ops) o)) i <> Dead.
Proof. intros ops o i. exact (never_reclaims_protected_step (run ops) o i (Inv_run ops)). Qed.

Theorem C17_permanent_forever : forall ops ops' i s,
  get (run ops) i = Perm s -> get (exec (run ops) ops') i = Perm s.
Proof. intros ops ops' i s. exact (perm_forever ops' (run ops) i s (Inv_run ops)). Qed.

(* the parts of every module reference are permanent (hence never reclaimed) *)
Theorem C17_modref_parts_permanent : forall ops, wf_ops init ops -> modparts_perm (run ops).
Proof. exact modparts_run. Qed.

(* the only operation that reclaims is a sweep with no unmarked module left, of an unmarked string *)
Theorem C17_only_sweep_reclaims : forall ops o i,
  get (run ops) i <> Dead -> get (snd (step (run ops) o)) i = Dead ->
  exists n, o = OSweep n /\ unmarked (run ops) = [] /\ exists s, get (run ops) i = Temp s false.
Proof. intros ops o i. exact (only_sweep_reclaims (run ops) o i (Inv_run ops)). Qed.

Theorem C17_sweep_gate : forall h n, unmarked h <> [] -> sweep h n = h.
Proof. exact sweep_gate. Qed.

(* the slice the Rust code takes, [sweep_index .. end], is always in bounds *)
Theorem C17_cursor_in_table : forall ops, cursor_ok (run ops).
Proof. exact cursor_ok_run. Qed.

(* ---- non-vacuity: a concrete history with a reclaimed, re-allocated and a protected string ---- *)
Definition L1 : str := repeat 97%N 20.
Definition L2 : str := repeat 98%N 20.
Definition demo : list op :=
  [OAllocString L1; OAllocString L2; OMark (HId 1); OSweep 100; OAllocString L1].
Example C17_nonvacuous :
  read (run demo) (HId 0) = None /\ read (run demo) (HId 1) = Some L2 /\
  read (run demo) (HId 2) = Some L1 /\ valid (run demo) (HId 2) /\ protected (get (run [OAllocString L1; OAllocString L2; OMark (HId 1)]) 1).
Proof. vm_compute. repeat split; auto. - exists L1. split; [reflexivity|reflexivity]. - exists L2. right. reflexivity. Qed.

Print Assumptions C17_inv_reachable.
Print Assumptions C17_handles_injective.
Print Assumptions C17_repr128_injective.
Print Assumptions C17_tag_never_collides.
Print Assumptions C17_alloc_readback.
Print Assumptions C17_read_stable.
Print Assumptions C17_never_reclaims_protected.
Print Assumptions C17_permanent_forever.
Print Assumptions C17_modref_parts_permanent.
Print Assumptions C17_only_sweep_reclaims.
Print Assumptions C17_sweep_gate.
Print Assumptions C17_cursor_in_table.
