(* C18 — conversions between the generated std datatypes (Option_t, List_t, Pair_t, ...) and Coq's. *)
From Coq Require Import List ZArith.
Import ListNotations.
From SVG Require Import StdPrelude StdTuples StdOption StdList.

Definition of_option {A} (o : option A) : Option_t A :=
  match o with None => Option_None | Some a => Option_Some a end.
Definition to_option {A} (o : Option_t A) : option A :=
  match o with Option_None => None | Option_Some a => Some a end.

Fixpoint of_list {A} (l : list A) : List_t A :=
  match l with [] => List_Nil | a :: l => List_Cons a (of_list l) end.
Fixpoint to_list {A} (l : List_t A) : list A :=
  match l with List_Nil => [] | List_Cons a l => a :: to_list l end.

Definition of_pair {A B} (p : A * B) : Pair_t A B := Pair_init (fst p) (snd p).
Definition to_pair {A B} (p : Pair_t A B) : A * B := (Pair_e0 p, Pair_e1 p).

Lemma to_of_option {A} (o : option A) : to_option (of_option o) = o.
Proof. destruct o; reflexivity. Qed.
Lemma of_to_option {A} (o : Option_t A) : of_option (to_option o) = o.
Proof. destruct o; reflexivity. Qed.
Lemma to_of_list {A} (l : list A) : to_list (of_list l) = l.
Proof. induction l; cbn; congruence. Qed.
Lemma of_to_list {A} (l : List_t A) : of_list (to_list l) = l.
Proof. induction l; cbn; congruence. Qed.
Lemma to_of_pair {A B} (p : A * B) : to_pair (of_pair p) = p.
Proof. destruct p; reflexivity. Qed.
Lemma of_to_pair {A B} (p : Pair_t A B) : of_pair (to_pair p) = p.
Proof. destruct p; reflexivity. Qed.
