(* C18 — evaluation harness for the generated embedding (TESTING, not proof): interprets operation
   sequences over Map<Z,Z>, Set<Z>, List<Z> with the generated functions and flattens every
   observation to integers, so that /verif/checks/c18.py can compare them with its own
   sorted-association-list specification.  Keys are Z with compare a b = a - b. *)
From Coq Require Import List ZArith Bool.
Import ListNotations.
From SVG Require Import StdPrelude StdTuples StdOption StdList StdMap StdSet.
From SV Require Import C18.Conv.
Open Scope Z_scope.

Definition FUEL : nat := 400.
Definition zcmp : Z -> Z -> Z := Z.sub.
(* the oracle for `==` on non-primitive values: b = false "never shares", b = true on structurally
   equal values is what a real engine may answer; we run with a decidable structural test *)
Section Run.
  Variable pe : forall A : Type, A -> A -> bool.

  Notation M := (Map_t Z Z).
  Notation S := (Set_t Z).
  Notation L := (List_t Z).

  Definition ob (b : bool) : list Z := [if b then 1 else 0].
  Definition oopt (o : Option_t Z) : list Z := match o with Option_None => [0] | Option_Some x => [1; x] end.
  Definition oopt2 (o : Option_t (Pair_t Z Z)) : list Z :=
    match o with Option_None => [0] | Option_Some (Pair_init a b) => [1; a; b] end.
  Fixpoint olist (l : L) : list Z := match l with List_Nil => [] | List_Cons a l => a :: olist l end.
  Fixpoint oplist (l : List_t (Pair_t Z Z)) : list Z :=
    match l with List_Nil => [] | List_Cons (Pair_init a b) l => a :: b :: oplist l end.

  (* predicates and function tables, selected by small integers *)
  Definition pred2 (m r : Z) : Z -> Z -> res bool := fun k v => Ok (((k + v) mod m) =? r).
  Definition pred1 (m r : Z) : Z -> res bool := fun k => Ok ((k mod m) =? r).
  Definition updf (mode c : Z) : Option_t Z -> res (Option_t Z) := fun o =>
    Ok (if mode =? 0 then Option_None
        else if mode =? 1 then Option_Some c
        else if mode =? 2 then match o with Option_None => Option_None | Option_Some v => Option_Some (v + c) end
        else match o with Option_None => Option_Some c | Option_Some _ => Option_None end).
  Definition mergef (mode : Z) : Z -> Option_t Z -> Option_t Z -> res (Option_t Z) := fun k a b =>
    Ok (if mode =? 0 then match a with Option_Some _ => a | Option_None => b end
        else if mode =? 1 then match a, b with Option_Some x, Option_Some y => Option_Some (x + y) | _, _ => Option_None end
        else match a, b with Option_Some x, Option_None => a | Option_None, Option_Some y => b | _, _ => Option_None end).
  Definition unionf (mode : Z) : Z -> Z -> Z -> res (Option_t Z) := fun k a b =>
    Ok (if mode =? 0 then Option_Some (a + b) else if mode =? 1 then Option_None else Option_Some b).

  Fixpoint mk_map (kvs : list (Z * Z)) (t : M) : res M :=
    match kvs with [] => Ok t | (k, v) :: r => let* t' := Map_insert pe zcmp FUEL t k v in mk_map r t' end.
  Fixpoint mk_set (ks : list Z) (t : S) : res S :=
    match ks with [] => Ok t | k :: r => let* t' := Set_insert pe zcmp FUEL t k in mk_set r t' end.

  (* structural checks of the result trees (independent of the proofs) *)
  Fixpoint m_real_height (t : M) : Z :=
    match t with Map_Empty => 0 | Map_Leaf _ _ => 1 | Map_Node _ _ _ l r => Z.max (m_real_height l) (m_real_height r) + 1 end.
  Fixpoint m_avl_b (t : M) : bool :=
    match t with
    | Map_Node h _ _ l r => m_avl_b l && m_avl_b r && (h =? m_real_height t) && (Z.abs (m_real_height l - m_real_height r) <=? 2)
    | _ => true end.
  Fixpoint m_bindings (t : M) : list Z :=
    match t with Map_Empty => [] | Map_Leaf k v => [k; v] | Map_Node _ k v l r => m_bindings l ++ k :: v :: m_bindings r end.
  Fixpoint s_real_height (t : S) : Z :=
    match t with Set_Empty => 0 | Set_Leaf _ => 1 | Set_Node _ _ l r => Z.max (s_real_height l) (s_real_height r) + 1 end.
  Fixpoint s_avl_b (t : S) : bool :=
    match t with
    | Set_Node h _ l r => s_avl_b l && s_avl_b r && (h =? s_real_height t) && (Z.abs (s_real_height l - s_real_height r) <=? 2)
    | _ => true end.
  Fixpoint s_elements (t : S) : list Z :=
    match t with Set_Empty => [] | Set_Leaf k => [k] | Set_Node _ k l r => s_elements l ++ k :: s_elements r end.

  Inductive mop :=
  | MIns (k v : Z) | MRem (k : Z) | MGet (k : Z) | MHas (k : Z) | MUpd (k mode c : Z)
  | MUnion (o : list (Z * Z)) | MCUnion (mode : Z) (o : list (Z * Z)) | MMerge (mode : Z) (o : list (Z * Z))
  | MSplit (k side : Z) | MFilter (m r : Z) | MPartition (m r side : Z) | MFold | MIter | MForAll (m r : Z) | MExists (m r : Z)
  | MEntries | MKeys | MMin | MMax | MMinKey | MMaxKey | MSize | MIsEmpty | MMap (c : Z)
  | MCompare (o : list (Z * Z)) | MEqual (o : list (Z * Z)).

  (* one step: new state and observation *)
  Definition mstep (t : M) (o : mop) : res (M * list Z) :=
    match o with
    | MIns k v => let* t' := Map_insert pe zcmp FUEL t k v in Ok (t', [])
    | MRem k => let* t' := Map_remove pe zcmp FUEL t k in Ok (t', [])
    | MGet k => let* r := Map_get pe zcmp FUEL t k in Ok (t, oopt r)
    | MHas k => let* r := Map_containsKey pe zcmp FUEL t k in Ok (t, ob r)
    | MUpd k mode c => let* t' := Map_update pe zcmp FUEL t k (updf mode c) in Ok (t', [])
    | MUnion o => let* u := mk_map o Map_Empty in let* t' := Map_union pe zcmp FUEL t u in Ok (t', [])
    | MCUnion mode o => let* u := mk_map o Map_Empty in let* t' := Map_customizedUnion pe zcmp FUEL t u (unionf mode) in Ok (t', [])
    | MMerge mode o => let* u := mk_map o Map_Empty in let* t' := Map_merge pe zcmp FUEL t u (mergef mode) in Ok (t', [])
    | MSplit k side => let* r := Map_split pe zcmp FUEL t k in
        match r with Triple_init a b c =>
          Ok ((if side =? 0 then a else c), oopt b ++ [-1] ++ m_bindings a ++ [-1] ++ m_bindings c ++ [if m_avl_b a && m_avl_b c then 1 else 0]) end
    | MFilter m r => let* t' := Map_filter pe zcmp FUEL t (pred2 m r) in Ok (t', [])
    | MPartition m r side => let* p := Map_partition pe zcmp FUEL t (pred2 m r) in
        match p with Pair_init a b =>
          Ok ((if side =? 0 then a else b), m_bindings a ++ [-1] ++ m_bindings b ++ [if m_avl_b a && m_avl_b b then 1 else 0]) end
    | MFold => let* r := Map_fold pe zcmp FUEL t 7 (fun a k v => Ok ((a * 31 + k * 5 + v) mod 1000003)) in Ok (t, [r])
    | MIter => let* r := Map_iter pe zcmp FUEL t (fun k v => Ok tt) in Ok (t, [])
    | MForAll m r => let* b := Map_forAll pe zcmp FUEL t (pred2 m r) in Ok (t, ob b)
    | MExists m r => let* b := Map_exists pe zcmp FUEL t (pred2 m r) in Ok (t, ob b)
    | MEntries => let* r := Map_entries pe zcmp FUEL t in Ok (t, oplist r)
    | MKeys => let* r := Map_keys pe zcmp FUEL t in Ok (t, olist r)
    | MMin => let* r := Map_min pe zcmp FUEL t in Ok (t, oopt2 r)
    | MMax => let* r := Map_max pe zcmp FUEL t in Ok (t, oopt2 r)
    | MMinKey => let* r := Map_minKey pe zcmp FUEL t in Ok (t, oopt r)
    | MMaxKey => let* r := Map_maxKey pe zcmp FUEL t in Ok (t, oopt r)
    | MSize => let* r := Map_size pe zcmp FUEL t in Ok (t, [r])
    | MIsEmpty => let* r := Map_isEmpty pe zcmp FUEL t in Ok (t, ob r)
    | MMap c => let* t' := Map_map pe zcmp FUEL t (fun k v => Ok (v * 2 + k + c)) in Ok (t', [])
    | MCompare o => let* u := mk_map o Map_Empty in let* r := Map_compare pe zcmp FUEL t u (fun a b => Ok (a - b)) in Ok (t, [Z.sgn r])
    | MEqual o => let* u := mk_map o Map_Empty in let* r := Map_equal pe zcmp FUEL t u (fun a b => Ok (a =? b)) in Ok (t, ob r)
    end.

  (* output per step: status (0 ok, 1 panic, 2 out of fuel), then  -7 obs.. -8 bindings.. -9 avl-flag;
     after a failing step the run stops *)
  Fixpoint mrun (t : M) (ops : list mop) : list Z :=
    match ops with
    | [] => []
    | o :: r =>
        match mstep t o with
        | Ok (t', obs) => 0 :: -7 :: obs ++ -8 :: m_bindings t' ++ -9 :: (if m_avl_b t' then 1 else 0) :: mrun t' r
        | Panic => [1]
        | OutOfFuel => [2]
        end
    end.

  Inductive sop :=
  | SIns (k : Z) | SRem (k : Z) | SHas (k : Z) | SUnion (o : list Z) | SInter (o : list Z) | SDiff (o : list Z)
  | SSubset (o : list Z) | SDisjoint (o : list Z) | SSplit (k side : Z) | SFilter (m r : Z) | SPartition (m r side : Z)
  | SFold | SIter | SForAll (m r : Z) | SExists (m r : Z) | SElements | SMin | SMax | SSize | SIsEmpty
  | SFromList (o : list Z) | SMapf (a b m : Z) | SCompare (o : list Z) | SEqual (o : list Z).

  Definition sstep (t : S) (o : sop) : res (S * list Z) :=
    match o with
    | SIns k => let* t' := Set_insert pe zcmp FUEL t k in Ok (t', [])
    | SRem k => let* t' := Set_remove pe zcmp FUEL t k in Ok (t', [])
    | SHas k => let* r := Set_contains pe zcmp FUEL t k in Ok (t, ob r)
    | SUnion o => let* u := mk_set o Set_Empty in let* t' := Set_union pe zcmp FUEL t u in Ok (t', [])
    | SInter o => let* u := mk_set o Set_Empty in let* t' := Set_intersection pe zcmp FUEL t u in Ok (t', [])
    | SDiff o => let* u := mk_set o Set_Empty in let* t' := Set_diff pe zcmp FUEL t u in Ok (t', [])
    | SSubset o => let* u := mk_set o Set_Empty in let* r := Set_subset pe zcmp FUEL t u in Ok (t, ob r)
    | SDisjoint o => let* u := mk_set o Set_Empty in let* r := Set_disjoint pe zcmp FUEL t u in Ok (t, ob r)
    | SSplit k side => let* r := Set_split pe zcmp FUEL t k in
        match r with Triple_init a b c =>
          Ok ((if side =? 0 then a else c), ob b ++ [-1] ++ s_elements a ++ [-1] ++ s_elements c ++ [if s_avl_b a && s_avl_b c then 1 else 0]) end
    | SFilter m r => let* t' := Set_filter pe zcmp FUEL t (pred1 m r) in Ok (t', [])
    | SPartition m r side => let* p := Set_partition pe zcmp FUEL t (pred1 m r) in
        match p with Pair_init a b =>
          Ok ((if side =? 0 then a else b), s_elements a ++ [-1] ++ s_elements b ++ [if s_avl_b a && s_avl_b b then 1 else 0]) end
    | SFold => let* r := Set_fold pe zcmp FUEL t 7 (fun a k => Ok ((a * 31 + k * 5) mod 1000003)) in Ok (t, [r])
    | SIter => let* r := Set_iter pe zcmp FUEL t (fun k => Ok tt) in Ok (t, [])
    | SForAll m r => let* b := Set_forAll pe zcmp FUEL t (pred1 m r) in Ok (t, ob b)
    | SExists m r => let* b := Set_exists pe zcmp FUEL t (pred1 m r) in Ok (t, ob b)
    | SElements => let* r := Set_elements pe zcmp FUEL t in Ok (t, olist r)
    | SMin => let* r := Set_min pe zcmp FUEL t in Ok (t, oopt r)
    | SMax => let* r := Set_max pe zcmp FUEL t in Ok (t, oopt r)
    | SSize => let* r := Set_size pe zcmp FUEL t in Ok (t, [r])
    | SIsEmpty => let* r := Set_isEmpty pe zcmp FUEL t in Ok (t, ob r)
    | SFromList o => let* t' := Set_fromList pe zcmp FUEL (of_list o) in Ok (t', [])
    | SMapf a b m => let* t' := Set_map pe zcmp FUEL t (fun k => Ok ((a * k + b) mod m)) in Ok (t', [])
    | SCompare o => let* u := mk_set o Set_Empty in let* r := Set_compare pe zcmp FUEL t u (fun a b => Ok (a - b)) in Ok (t, [Z.sgn r])
    | SEqual o => let* u := mk_set o Set_Empty in let* r := Set_equal pe zcmp FUEL t u (fun a b => Ok (a =? b)) in Ok (t, ob r)
    end.

  Fixpoint srun (t : S) (ops : list sop) : list Z :=
    match ops with
    | [] => []
    | o :: r =>
        match sstep t o with
        | Ok (t', obs) => 0 :: -7 :: obs ++ -8 :: s_elements t' ++ -9 :: (if s_avl_b t' then 1 else 0) :: srun t' r
        | Panic => [1]
        | OutOfFuel => [2]
        end
    end.

  Inductive lop :=
  | LCons (x : Z) | LLength | LIsEmpty | LFirst | LRest | LFilter (m r : Z) | LMap (a b : Z) | LFilterMap (m r : Z)
  | LIter | LContains (x : Z) | LForAll (m r : Z) | LExists (m r : Z) | LFind (m r : Z) | LFindMap (m r : Z)
  | LAppend (o : list Z) | LRevAppend (o : list Z) | LFold | LFoldRight | LBind (n : Z) | LFlatten (o : list Z) | LReverse | LOf (x : Z).

  Definition lstep (t : L) (o : lop) : res (L * list Z) :=
    match o with
    | LCons x => let* t' := List_cons pe FUEL t x in Ok (t', [])
    | LLength => let* r := List_length pe FUEL t in Ok (t, [r])
    | LIsEmpty => let* r := List_isEmpty pe FUEL t in Ok (t, ob r)
    | LFirst => let* r := List_first pe FUEL t in Ok (t, oopt r)
    | LRest => let* r := List_rest pe FUEL t in
        match r with Option_None => Ok (t, [0]) | Option_Some t' => Ok (t', [1]) end
    | LFilter m r => let* t' := List_filter pe FUEL t (pred1 m r) in Ok (t', [])
    | LMap a b => let* t' := List_map pe FUEL t (fun x => Ok (a * x + b)) in Ok (t', [])
    | LFilterMap m r => let* t' := List_filterMap pe FUEL t (fun x => Ok (if (x mod m) =? r then Option_Some (x + 1) else Option_None)) in Ok (t', [])
    | LIter => let* r := List_iter pe FUEL t (fun x => Ok tt) in Ok (t, [])
    | LContains x => let* r := List_contains pe FUEL t x (fun a b => Ok (a =? b)) in Ok (t, ob r)
    | LForAll m r => let* b := List_forAll pe FUEL t (pred1 m r) in Ok (t, ob b)
    | LExists m r => let* b := List_exists pe FUEL t (pred1 m r) in Ok (t, ob b)
    | LFind m r => let* x := List_find pe FUEL t (pred1 m r) in Ok (t, oopt x)
    | LFindMap m r => let* x := List_findMap pe FUEL t (fun x => Ok (if (x mod m) =? r then Option_Some (x * 3) else Option_None)) in Ok (t, oopt x)
    | LAppend o => let* t' := List_append pe FUEL t (of_list o) in Ok (t', [])
    | LRevAppend o => let* t' := List_reverseAndAppend pe FUEL t (of_list o) in Ok (t', [])
    | LFold => let* r := List_fold pe FUEL t (fun a x => Ok ((a * 31 + x) mod 1000003)) 7 in Ok (t, [r])
    | LFoldRight => let* r := List_foldRight pe FUEL t (fun x a => Ok ((a * 31 + x) mod 1000003)) 7 in Ok (t, [r])
    | LBind n => let* t' := List_bind pe FUEL t (fun x => Ok (of_list (repeat x (Z.to_nat n) ++ [x + 1]))) in Ok (t', [])
    | LFlatten o => let* t' := List_flatten pe FUEL (List_Cons t (List_Cons (of_list o) (List_Cons t List_Nil))) in Ok (t', [])
    | LReverse => let* t' := List_reverse pe FUEL t in Ok (t', [])
    | LOf x => let* t' := List_of pe FUEL x in Ok (t', [])
    end.

  Fixpoint lrun (t : L) (ops : list lop) : list Z :=
    match ops with
    | [] => []
    | o :: r =>
        match lstep t o with
        | Ok (t', obs) => 0 :: -7 :: obs ++ -8 :: olist t' ++ -9 :: 1 :: lrun t' r
        | Panic => [1]
        | OutOfFuel => [2]
        end
    end.
End Run.

(* oracles for `==`: never-equal, and a structural one at the types that occur (Z, trees of Z) is not
   expressible for all A without an equality test, so the runs use "never" and "always-sound on Z only". *)
Definition pe_never : forall A : Type, A -> A -> bool := fun _ _ _ => false.
