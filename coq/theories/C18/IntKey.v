(* C18 — the key instance of the property's quantifier: boxed Int with compare a b = a - b, on any set of
   keys in which the 32-bit subtraction does not overflow (a window of width 2^31). *)
From Coq Require Import List ZArith Lia Bool Eqdep_dec.
From SVG Require Import StdPrelude StdInterfaces StdBoxed.
From SV Require Import C18.Spec C18.Tactics.
Open Scope Z_scope.

(* two's-complement 32-bit result of an integer operation *)
Definition wrap32 (z : Z) : Z := (z + 2^31) mod 2^32 - 2^31.
Definition int32 (z : Z) : Prop := -2^31 <= z < 2^31.

(* a window [lo, lo + 2^31): every difference of two members fits in 32 bits *)
Definition in_win (lo z : Z) : bool := (lo <=? z) && (z <? lo + 2^31).

Lemma wrap32_id z : -2^31 <= z < 2^31 -> wrap32 z = z.
Proof. intros H. unfold wrap32. rewrite Z.mod_small; lia. Qed.

Lemma win_diff lo a b : in_win lo a = true -> in_win lo b = true -> -2^31 < a - b < 2^31.
Proof. unfold in_win. intros Ha Hb. apply andb_true_iff in Ha, Hb. lia. Qed.

(* the generated Int.compare computes the (unbounded) difference; in a window that is the 32-bit one *)
Lemma Int_compare_ok (phys_eq : forall A : Type, A -> A -> bool) fuel a b : (1 <= fuel)%nat ->
  Int_compare phys_eq fuel a b = Ok (Int_value a - Int_value b).
Proof. intros. need 1%nat fuel. reflexivity. Qed.

Section Window.
  Variable lo : Z.

  Definition IntW : Type := { i : Int_t | in_win lo (Int_value i) = true }.
  Definition int_cmp (a b : IntW) : Z := wrap32 (Int_value (proj1_sig a) - Int_value (proj1_sig b)).

  Lemma int_cmp_exact a b : int_cmp a b = Int_value (proj1_sig a) - Int_value (proj1_sig b).
  Proof.
    destruct a as [a Ha], b as [b Hb]. unfold int_cmp. cbn [proj1_sig].
    pose proof (win_diff lo _ _ Ha Hb). apply wrap32_id. lia.
  Qed.

  Lemma IntW_eq (a b : IntW) : Int_value (proj1_sig a) = Int_value (proj1_sig b) -> a = b.
  Proof.
    destruct a as [[a] Ha], b as [[b] Hb]. cbn [proj1_sig Int_value]. intros ->.
    f_equal. apply UIP_dec. apply bool_dec.
  Qed.

  Theorem int_cmp_order : cmp_order int_cmp.
  Proof.
    split.
    - intros a b. rewrite int_cmp_exact. split.
      + intros H. apply IntW_eq. lia.
      + intros ->. lia.
    - intros a b. rewrite !int_cmp_exact. lia.
    - intros a b c. rewrite !int_cmp_exact. lia.
  Qed.
End Window.

(* outside such a window the computed comparison is not an order: transitivity fails on int32 *)
Lemma wrap32_compare_not_transitive :
  exists a b c, int32 a /\ int32 b /\ int32 c /\
    wrap32 (a - b) < 0 /\ wrap32 (b - c) < 0 /\ ~ wrap32 (a - c) < 0.
Proof. exists (-2^31), (-1), (2^31 - 1). unfold int32. vm_compute. repeat split; congruence. Qed.
