(* C18 — List: every member against Coq.Lists.List. `of_list l` is the std List holding the sequence l. *)
From Coq Require Import List ZArith Lia Bool ZifyBool.
Import ListNotations.
From SVG Require Import StdPrelude StdTuples StdOption StdList.
From SV Require Import C18.Tactics C18.Conv.
Open Scope Z_scope.

(* filterMap / findMap on Coq lists *)
Definition fmap {A B} (g : A -> option B) (l : list A) : list B :=
  flat_map (fun x => match g x with Some y => [y] | None => [] end) l.
Fixpoint find_map {A B} (g : A -> option B) (l : list A) : option B :=
  match l with [] => None | x :: l' => match g x with Some y => Some y | None => find_map g l' end end.

Section ListOps.
  Variable phys_eq : forall A : Type, A -> A -> bool.
  Context {T : Type}.
  Notation L := (List_t T).

  Definition len (l : list T) : nat := length l.

  Lemma nil_ok fuel : (1 <= fuel)%nat -> @List_nil phys_eq T fuel = Ok (of_list []).
  Proof. intros. need 1%nat fuel. reflexivity. Qed.
  Lemma of_ok fuel x : (1 <= fuel)%nat -> @List_of phys_eq T fuel x = Ok (of_list [x]).
  Proof. intros. need 1%nat fuel. reflexivity. Qed.
  Lemma cons_ok fuel l x : (1 <= fuel)%nat -> @List_cons phys_eq T fuel (of_list l) x = Ok (of_list (x :: l)).
  Proof. intros. need 1%nat fuel. reflexivity. Qed.
  Lemma lisEmpty_ok fuel l : (1 <= fuel)%nat ->
    @List_isEmpty phys_eq T fuel (of_list l) = Ok (match l with [] => true | _ => false end).
  Proof. intros. need 1%nat fuel. destruct l; reflexivity. Qed.
  Lemma first_ok fuel l : (1 <= fuel)%nat -> @List_first phys_eq T fuel (of_list l) = Ok (of_option (hd_error l)).
  Proof. intros. need 1%nat fuel. destruct l; reflexivity. Qed.
  Lemma rest_ok fuel l : (1 <= fuel)%nat ->
    @List_rest phys_eq T fuel (of_list l) = Ok (match l with [] => Option_None | _ :: r => Option_Some (of_list r) end).
  Proof. intros. need 1%nat fuel. destruct l; reflexivity. Qed.

  Theorem lfold_ok {A} (f : A -> T -> res A) (g : A -> T -> A) : (forall a x, f a x = Ok (g a x)) ->
    forall l acc fuel, (length l + 1 <= fuel)%nat ->
    @List_fold phys_eq T A fuel (of_list l) f acc = Ok (fold_left g l acc).
  Proof.
    intros Hfg. induction l as [|x l IH]; intros acc fuel Hf; cbn [length] in Hf.
    - need 1%nat fuel. reflexivity.
    - need 1%nat fuel. cbn [List_fold of_list]. rewrite Hfg. cbn [bind]. now rewrite IH by lia.
  Qed.

  Theorem lfoldRight_ok {A} (f : T -> A -> res A) (g : T -> A -> A) : (forall x a, f x a = Ok (g x a)) ->
    forall l init fuel, (length l + 1 <= fuel)%nat ->
    @List_foldRight phys_eq T A fuel (of_list l) f init = Ok (fold_right g init l).
  Proof.
    intros Hfg. induction l as [|x l IH]; intros init fuel Hf; cbn [length] in Hf.
    - need 1%nat fuel. reflexivity.
    - need 1%nat fuel. cbn [List_foldRight of_list]. rewrite IH by lia. cbn [bind]. now rewrite Hfg.
  Qed.

  Theorem length_ok l fuel : (length l + 2 <= fuel)%nat ->
    @List_length phys_eq T fuel (of_list l) = Ok (Z.of_nat (length l)).
  Proof.
    intros Hf. need 1%nat fuel. cbn [List_length].
    rewrite (lfold_ok _ (fun a _ => a + 1)) by (auto; lia). f_equal.
    assert (G : forall l a, fold_left (fun (a : Z) (_ : T) => a + 1) l a = a + Z.of_nat (length l)).
    { clear. induction l as [|x l IH]; intros a; cbn [fold_left length]; [lia|]. rewrite IH. lia. }
    rewrite G. lia.
  Qed.

  Theorem lfilter_ok (f : T -> res bool) (g : T -> bool) : (forall x, f x = Ok (g x)) ->
    forall l fuel, (length l + 1 <= fuel)%nat -> @List_filter phys_eq T fuel (of_list l) f = Ok (of_list (filter g l)).
  Proof.
    intros Hfg. induction l as [|x l IH]; intros fuel Hf; cbn [length] in Hf.
    - need 1%nat fuel. reflexivity.
    - need 1%nat fuel. cbn [List_filter of_list filter]. rewrite IH by lia. cbn [bind]. rewrite Hfg. cbn [bind].
      destruct (g x); reflexivity.
  Qed.

  Theorem lmap_ok {R} (f : T -> res R) (g : T -> R) : (forall x, f x = Ok (g x)) ->
    forall l fuel, (length l + 1 <= fuel)%nat -> @List_map phys_eq T R fuel (of_list l) f = Ok (of_list (map g l)).
  Proof.
    intros Hfg. induction l as [|x l IH]; intros fuel Hf; cbn [length] in Hf.
    - need 1%nat fuel. reflexivity.
    - need 1%nat fuel. cbn [List_map of_list map]. rewrite Hfg. cbn [bind]. rewrite IH by lia. reflexivity.
  Qed.

  Theorem lfilterMap_ok {R} (f : T -> res (Option_t R)) (g : T -> option R) : (forall x, f x = Ok (of_option (g x))) ->
    forall l fuel, (length l + 1 <= fuel)%nat -> @List_filterMap phys_eq T R fuel (of_list l) f = Ok (of_list (fmap g l)).
  Proof.
    intros Hfg. induction l as [|x l IH]; intros fuel Hf; cbn [length] in Hf.
    - need 1%nat fuel. reflexivity.
    - need 1%nat fuel. cbn [List_filterMap of_list]. rewrite IH by lia. cbn [bind]. rewrite Hfg. cbn [bind].
      unfold fmap. cbn [flat_map]. destruct (g x); reflexivity.
  Qed.

  Theorem literate_ok (f : T -> res unit) : (forall x, f x = Ok tt) ->
    forall l fuel, (length l + 1 <= fuel)%nat -> @List_iter phys_eq T fuel (of_list l) f = Ok tt.
  Proof.
    intros Hfg. induction l as [|x l IH]; intros fuel Hf; cbn [length] in Hf.
    - need 1%nat fuel. reflexivity.
    - need 1%nat fuel. cbn [List_iter of_list]. rewrite Hfg. cbn [bind]. now rewrite IH by lia.
  Qed.

  Theorem lcontains_ok (eq : T -> T -> res bool) (eqb : T -> T -> bool) : (forall a b, eq a b = Ok (eqb a b)) ->
    forall l x fuel, (length l + 1 <= fuel)%nat ->
    @List_contains phys_eq T fuel (of_list l) x eq = Ok (existsb (eqb x) l).
  Proof.
    intros Hfg. induction l as [|y l IH]; intros x fuel Hf; cbn [length] in Hf.
    - need 1%nat fuel. reflexivity.
    - need 1%nat fuel. cbn [List_contains of_list existsb]. rewrite Hfg. cbn [bind].
      destruct (eqb x y); [reflexivity|]. now rewrite IH by lia.
  Qed.

  Theorem lforAll_ok (f : T -> res bool) (g : T -> bool) : (forall x, f x = Ok (g x)) ->
    forall l fuel, (length l + 1 <= fuel)%nat -> @List_forAll phys_eq T fuel (of_list l) f = Ok (forallb g l).
  Proof.
    intros Hfg. induction l as [|x l IH]; intros fuel Hf; cbn [length] in Hf.
    - need 1%nat fuel. reflexivity.
    - need 1%nat fuel. cbn [List_forAll of_list forallb]. rewrite Hfg. cbn [bind].
      destruct (g x); [|reflexivity]. now rewrite IH by lia.
  Qed.

  Theorem lexists_ok (f : T -> res bool) (g : T -> bool) : (forall x, f x = Ok (g x)) ->
    forall l fuel, (length l + 1 <= fuel)%nat -> @List_exists phys_eq T fuel (of_list l) f = Ok (existsb g l).
  Proof.
    intros Hfg. induction l as [|x l IH]; intros fuel Hf; cbn [length] in Hf.
    - need 1%nat fuel. reflexivity.
    - need 1%nat fuel. cbn [List_exists of_list existsb]. rewrite Hfg. cbn [bind].
      destruct (g x); [reflexivity|]. now rewrite IH by lia.
  Qed.

  Theorem lfind_ok (f : T -> res bool) (g : T -> bool) : (forall x, f x = Ok (g x)) ->
    forall l fuel, (length l + 1 <= fuel)%nat -> @List_find phys_eq T fuel (of_list l) f = Ok (of_option (find g l)).
  Proof.
    intros Hfg. induction l as [|x l IH]; intros fuel Hf; cbn [length] in Hf.
    - need 1%nat fuel. reflexivity.
    - need 1%nat fuel. cbn [List_find of_list find]. rewrite Hfg. cbn [bind].
      destruct (g x); [reflexivity|]. now rewrite IH by lia.
  Qed.

  Theorem lfindMap_ok {R} (f : T -> res (Option_t R)) (g : T -> option R) : (forall x, f x = Ok (of_option (g x))) ->
    forall l fuel, (length l + 1 <= fuel)%nat ->
    @List_findMap phys_eq T R fuel (of_list l) f = Ok (of_option (find_map g l)).
  Proof.
    intros Hfg. induction l as [|x l IH]; intros fuel Hf; cbn [length] in Hf.
    - need 1%nat fuel. reflexivity.
    - need 1%nat fuel. cbn [List_findMap of_list find_map]. rewrite Hfg. cbn [bind].
      destruct (g x); [reflexivity|]. now rewrite IH by lia.
  Qed.

  Theorem append_ok l1 l2 fuel : (length l1 + 2 <= fuel)%nat ->
    @List_append phys_eq T fuel (of_list l1) (of_list l2) = Ok (of_list (l1 ++ l2)).
  Proof.
    intros Hf. need 1%nat fuel. cbn [List_append].
    rewrite (lfoldRight_ok _ (fun x a => List_Cons x a)) by (auto; lia). f_equal.
    clear Hf. induction l1 as [|x l1 IH]; cbn [fold_right app of_list]; [reflexivity|]. now rewrite IH.
  Qed.

  Theorem reverseAndAppend_ok l1 l2 fuel : (length l1 + 2 <= fuel)%nat ->
    @List_reverseAndAppend phys_eq T fuel (of_list l1) (of_list l2) = Ok (of_list (rev l1 ++ l2)).
  Proof.
    intros Hf. need 1%nat fuel. cbn [List_reverseAndAppend].
    rewrite (lfold_ok _ (fun a x => List_Cons x a)) by (auto; lia). f_equal. clear Hf.
    revert l2. induction l1 as [|x l1 IH]; intros l2; cbn [fold_left rev app of_list]; [reflexivity|].
    change (List_Cons x (of_list l2)) with (of_list (x :: l2)). rewrite IH, <- app_assoc. reflexivity.
  Qed.

  Lemma reverseWithAccumulator_ok : forall l acc fuel, (length l + 1 <= fuel)%nat ->
    @List_reverseWithAccumulator phys_eq T fuel (of_list l) (of_list acc) = Ok (of_list (rev l ++ acc)).
  Proof.
    induction l as [|x l IH]; intros acc fuel Hf; cbn [length] in Hf.
    - need 1%nat fuel. reflexivity.
    - need 1%nat fuel. cbn [List_reverseWithAccumulator of_list rev].
      change (List_Cons x (of_list acc)) with (of_list (x :: acc)). rewrite IH by lia. now rewrite <- app_assoc.
  Qed.

  Theorem reverse_ok l fuel : (length l + 2 <= fuel)%nat ->
    @List_reverse phys_eq T fuel (of_list l) = Ok (of_list (rev l)).
  Proof.
    intros Hf. need 1%nat fuel. cbn [List_reverse]. change (@List_Nil T) with (@of_list T []).
    rewrite reverseWithAccumulator_ok by lia. now rewrite app_nil_r.
  Qed.

End ListOps.

Section ListFlatten.
  Variable phys_eq : forall A : Type, A -> A -> bool.
  Context {T R : Type}.

  Theorem bind_ok (f : T -> res (List_t R)) (g : T -> list R) : (forall x, f x = Ok (of_list (g x))) ->
    forall l fuel, (length l + 2 <= fuel)%nat -> (forall x, In x l -> (length (g x) + 3 <= fuel)%nat) ->
    @List_bind phys_eq T R fuel (of_list l) f = Ok (of_list (flat_map g l)).
  Proof.
    intros Hfg l fuel Hf Hlen. need 1%nat fuel. cbn [List_bind].
    assert (G : forall l', (forall x, In x l' -> In x l) -> forall fuel, (length l' + 1 <= fuel)%nat ->
      @List_foldRight phys_eq T (List_t R) fuel (of_list l')
        (fun elem acc => let* x1__ := f elem in @List_append phys_eq R fuel0 x1__ acc) List_Nil
      = Ok (of_list (flat_map g l'))).
    { induction l' as [|x l' IH]; intros Hin fuel Hf'; cbn [length] in Hf'.
      - need 1%nat fuel. reflexivity.
      - need 1%nat fuel. cbn [List_foldRight of_list flat_map]. rewrite IH by (auto with datatypes; lia). cbn [bind].
        rewrite Hfg. cbn [bind]. assert (Hx : In x l) by auto with datatypes. specialize (Hlen x Hx).
        apply (append_ok phys_eq). lia. }
    apply G; auto. lia.
  Qed.

  Theorem flatten_ok (ll : list (list T)) fuel : (length ll + 2 <= fuel)%nat ->
    (forall l, In l ll -> (length l + 3 <= fuel)%nat) ->
    @List_flatten phys_eq T fuel (of_list (map of_list ll)) = Ok (of_list (concat ll)).
  Proof.
    intros Hf Hlen. need 1%nat fuel. cbn [List_flatten].
    assert (G : forall l', (forall x, In x l' -> In x ll) -> forall fuel, (length l' + 1 <= fuel)%nat ->
      @List_foldRight phys_eq (List_t T) (List_t T) fuel (of_list (map of_list l'))
        (fun innerList acc => @List_append phys_eq T fuel0 innerList acc) List_Nil
      = Ok (of_list (concat l'))).
    { induction l' as [|x l' IH]; intros Hin fuel Hf'; cbn [length] in Hf'.
      - need 1%nat fuel. reflexivity.
      - need 1%nat fuel. cbn [List_foldRight of_list map concat]. rewrite IH by (auto with datatypes; lia). cbn [bind].
        assert (Hx : In x ll) by auto with datatypes. specialize (Hlen x Hx).
        apply (append_ok phys_eq). lia. }
    apply G; auto. lia.
  Qed.
End ListFlatten.
