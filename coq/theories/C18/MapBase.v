(* C18 — Map: invariants, abstraction, and the non-recursive helpers (height .. balanced). *)
From Coq Require Import List ZArith Lia Bool ZifyBool.
Import ListNotations.
From SVG Require Import StdPrelude StdTuples StdOption StdList StdMap.
From SV Require Import C18.Spec C18.Tactics.
Open Scope Z_scope.

Section MapBase.
  Context {K V : Type}.
  Variable cmp : K -> K -> Z.
  Variable phys_eq : forall A : Type, A -> A -> bool.
  Notation M := (Map_t K V).

  (* abstraction: the bindings in order *)
  Fixpoint bindings (t : M) : list (K * V) :=
    match t with
    | Map_Empty => []
    | Map_Leaf k v => [(k, v)]
    | Map_Node _ k v l r => bindings l ++ (k, v) :: bindings r
    end.

  (* the stored height *)
  Definition height (t : M) : Z :=
    match t with Map_Empty => 0 | Map_Leaf _ _ => 1 | Map_Node h _ _ _ _ => h end.

  (* stored heights are the real heights, and siblings differ by at most 2 (the code's threshold) *)
  Fixpoint avl (t : M) : Prop :=
    match t with
    | Map_Empty => True
    | Map_Leaf _ _ => True
    | Map_Node h _ _ l r => avl l /\ avl r /\ h = Z.max (height l) (height r) + 1
                            /\ -2 <= height l - height r <= 2
    end.

  Definition bst (t : M) : Prop := sorted cmp (bindings t).

  Lemma height_nonneg t : avl t -> 0 <= height t.
  Proof.
    induction t as [| |h k v l IHl r IHr]; cbn; intros; try lia.
    destruct H as (Hl & Hr & Hh & Hb). specialize (IHl Hl). specialize (IHr Hr). lia.
  Qed.

  Lemma height_zero t : avl t -> height t = 0 -> t = Map_Empty.
  Proof.
    destruct t; cbn; intros Ha Hh; auto; [lia|].
    destruct Ha as (Hl & Hr & Hh' & Hb). pose proof (height_nonneg _ Hl). pose proof (height_nonneg _ Hr). lia.
  Qed.

  Lemma height_pos t : avl t -> t <> Map_Empty -> 1 <= height t.
  Proof.
    intros Ha Hn. pose proof (height_nonneg _ Ha). destruct (Z.eq_dec (height t) 0); [|lia].
    exfalso. apply Hn. now apply height_zero.
  Qed.

  Lemma node_height_pos h k v l r : avl (Map_Node h k v l r) -> 1 <= h.
  Proof.
    intros (Hl & Hr & Hh & Hb). pose proof (height_nonneg _ Hl). pose proof (height_nonneg _ Hr). lia.
  Qed.

  (* ---------------------------------------------------------------- run lemmas, non-recursive members *)
  Notation "'run' f" := (f phys_eq K V cmp) (at level 10, f at level 9, only parsing).

  Lemma empty_ok fuel : (1 <= fuel)%nat -> @Map_empty phys_eq K V cmp fuel = Ok Map_Empty.
  Proof. intros. need 1%nat fuel. reflexivity. Qed.

  Lemma singleton_ok fuel k v : (1 <= fuel)%nat -> @Map_singleton phys_eq K V cmp fuel k v = Ok (Map_Leaf k v).
  Proof. intros. need 1%nat fuel. reflexivity. Qed.

  Lemma isEmpty_ok fuel t : (1 <= fuel)%nat ->
    @Map_isEmpty phys_eq K V cmp fuel t = Ok (match t with Map_Empty => true | _ => false end).
  Proof. intros. need 1%nat fuel. destruct t; reflexivity. Qed.

  Lemma height_ok fuel t : (1 <= fuel)%nat -> @Map_height phys_eq K V cmp fuel t = Ok (height t).
  Proof. intros. need 1%nat fuel. destruct t; reflexivity. Qed.

  Lemma larger_ok fuel t k v : (1 <= fuel)%nat ->
    @Map_sortedTwoNodesLarger phys_eq K V cmp fuel t k v = Ok (Map_Node 2 k v t Map_Empty).
  Proof. intros. need 1%nat fuel. reflexivity. Qed.

  Lemma smaller_ok fuel t k v : (1 <= fuel)%nat ->
    @Map_sortedTwoNodesSmaller phys_eq K V cmp fuel t k v = Ok (Map_Node 2 k v Map_Empty t).
  Proof. intros. need 1%nat fuel. reflexivity. Qed.

  Definition create (l : M) (k : K) (v : V) (r : M) : M :=
    let h := Z.max (height l) (height r) + 1 in
    if h =? 1 then Map_Leaf k v else Map_Node h k v l r.

  Definition node (l : M) (k : K) (v : V) (r : M) : M :=
    Map_Node (Z.max (height l) (height r) + 1) k v l r.

  Lemma max_if a b : (if a >=? b then a + 1 else b + 1) = Z.max a b + 1.
  Proof. destruct (Z.geb_spec a b); lia. Qed.

  Lemma create_ok fuel l k v r : (2 <= fuel)%nat -> @Map_create phys_eq K V cmp fuel l k v r = Ok (create l k v r).
  Proof.
    intros. need 2%nat fuel. cbn [Map_create]. rewrite !height_ok by lia. cbn [bind].
    unfold create. rewrite max_if. destruct (_ =? 1); [apply singleton_ok; lia|reflexivity].
  Qed.

  Lemma node_ok fuel l k v r : (2 <= fuel)%nat -> @Map_node phys_eq K V cmp fuel l k v r = Ok (node l k v r).
  Proof.
    intros. need 2%nat fuel. cbn [Map_node]. rewrite !height_ok by lia. cbn [bind].
    unfold node. now rewrite max_if.
  Qed.

  Lemma forced_ok fuel h k v l r : (1 <= fuel)%nat ->
    @Map_forcedNodeWithoutHeight phys_eq K V cmp fuel (Map_Node h k v l r) = Ok (Tuple4_init k v l r).
  Proof. intros. need 1%nat fuel. reflexivity. Qed.

  Lemma create_avl l k v r : avl l -> avl r -> -2 <= height l - height r <= 2 ->
    avl (create l k v r) /\ height (create l k v r) = Z.max (height l) (height r) + 1
    /\ bindings (create l k v r) = bindings l ++ (k, v) :: bindings r.
  Proof.
    intros Hl Hr Hb. pose proof (height_nonneg l Hl). pose proof (height_nonneg r Hr).
    unfold create. destruct (Z.eqb_spec (Z.max (height l) (height r) + 1) 1) as [E|E].
    - assert (l = Map_Empty) by (apply height_zero; auto; lia). subst l.
      assert (r = Map_Empty) by (apply height_zero; auto; cbn in *; lia). subst r.
      cbn. repeat split; auto.
    - cbn. repeat split; auto; lia.
  Qed.

  Lemma node_avl l k v r : avl l -> avl r -> -2 <= height l - height r <= 2 ->
    avl (node l k v r) /\ height (node l k v r) = Z.max (height l) (height r) + 1
    /\ bindings (node l k v r) = bindings l ++ (k, v) :: bindings r.
  Proof. intros Hl Hr Hb. unfold node. cbn. repeat split; auto; lia. Qed.

  (* balanced: the classical AVL lemma for the code's own threshold (2), with "never panics"
     ("Bad tree" unreachable) and the fuel bound as part of the statement *)
  Lemma balanced_ok fuel l k v r : avl l -> avl r -> -3 <= height l - height r <= 3 -> (3 <= fuel)%nat ->
    exists t, @Map_balanced phys_eq K V cmp fuel l k v r = Ok t /\ avl t
      /\ bindings t = bindings l ++ (k, v) :: bindings r
      /\ (Z.max (height l) (height r) <= height t <= Z.max (height l) (height r) + 1)
      /\ (-2 <= height l - height r <= 2 -> height t = Z.max (height l) (height r) + 1).
  Proof.
    intros Hl Hr Hb Hf. pose proof (height_nonneg l Hl) as Nl. pose proof (height_nonneg r Hr) as Nr.
    need 3%nat fuel. cbn [Map_balanced]. rewrite !height_ok by lia. cbn [bind].
    destruct (Z.gtb_spec (height l) (height r + 2)) as [E1|E1].
    - destruct l as [|lk lv|lh lk lv ll lr]; cbn [height] in E1, Hb, Nl; try lia.
      rewrite forced_ok by lia. cbn [bind]. destruct Hl as (Hll & Hlr & Hlh & Hlb).
      pose proof (height_nonneg ll Hll) as Nll. pose proof (height_nonneg lr Hlr) as Nlr.
      rewrite !height_ok by lia. cbn [bind].
      destruct (Z.geb_spec (height ll) (height lr)) as [E2|E2].
      + rewrite create_ok by lia. cbn [bind]. rewrite node_ok by lia.
        destruct (create_avl lr k v r Hlr Hr ltac:(lia)) as (Ha & Hh & Hbd).
        destruct (node_avl ll lk lv (create lr k v r) Hll Ha ltac:(lia)) as (Ha' & Hh' & Hbd').
        eexists; split; [reflexivity|]. split; auto. split; [|split].
        * rewrite Hbd', Hbd. cbn [bindings]. repeat (rewrite <- app_assoc; cbn [app]). reflexivity.
        * cbn [height] in *. lia.
        * cbn [height] in *. lia.
      + destruct lr as [|lrk lrv|lrh lrk lrv lrl lrr]; cbn [height] in E2, Hlb, Hlh, Nlr; try lia.
        rewrite forced_ok by lia. cbn [bind]. destruct Hlr as (Ha1 & Ha2 & Hh2 & Hb2).
        pose proof (height_nonneg lrl Ha1). pose proof (height_nonneg lrr Ha2).
        rewrite !create_ok by lia. cbn [bind]. rewrite node_ok by lia.
        destruct (create_avl ll lk lv lrl Hll Ha1 ltac:(lia)) as (Hca & Hch & Hcb).
        destruct (create_avl lrr k v r Ha2 Hr ltac:(lia)) as (Hda & Hdh & Hdb).
        destruct (node_avl _ lrk lrv _ Hca Hda ltac:(lia)) as (Hna & Hnh & Hnb).
        eexists; split; [reflexivity|]. split; auto. split; [|split].
        * rewrite Hnb, Hcb, Hdb. cbn [bindings]. repeat (rewrite <- app_assoc; cbn [app]). reflexivity.
        * cbn [height] in *. lia.
        * cbn [height] in *. lia.
    - destruct (Z.gtb_spec (height r) (height l + 2)) as [E3|E3].
      + destruct r as [|rk rv|rh rk rv rl rr]; cbn [height] in E3, Hb, Nr; try lia.
        rewrite forced_ok by lia. cbn [bind]. destruct Hr as (Hrl & Hrr & Hrh & Hrb).
        pose proof (height_nonneg rl Hrl) as Nrl. pose proof (height_nonneg rr Hrr) as Nrr.
        rewrite !height_ok by lia. cbn [bind].
        destruct (Z.geb_spec (height rr) (height rl)) as [E2|E2].
        * rewrite create_ok by lia. cbn [bind]. rewrite node_ok by lia.
          destruct (create_avl l k v rl Hl Hrl ltac:(lia)) as (Ha & Hh & Hbd).
          destruct (node_avl (create l k v rl) rk rv rr Ha Hrr ltac:(lia)) as (Ha' & Hh' & Hbd').
          eexists; split; [reflexivity|]. split; auto. split; [|split].
          -- rewrite Hbd', Hbd. cbn [bindings]. repeat (rewrite <- app_assoc; cbn [app]). reflexivity.
          -- cbn [height] in *. lia.
          -- cbn [height] in *. lia.
        * destruct rl as [|rlk rlv|rlh rlk rlv rll rlr]; cbn [height] in E2, Hrb, Hrh, Nrl; try lia.
          rewrite forced_ok by lia. cbn [bind]. destruct Hrl as (Ha1 & Ha2 & Hh2 & Hb2).
          pose proof (height_nonneg rll Ha1). pose proof (height_nonneg rlr Ha2).
          rewrite !create_ok by lia. cbn [bind]. rewrite node_ok by lia.
          destruct (create_avl l k v rll Hl Ha1 ltac:(lia)) as (Hca & Hch & Hcb).
          destruct (create_avl rlr rk rv rr Ha2 Hrr ltac:(lia)) as (Hda & Hdh & Hdb).
          destruct (node_avl _ rlk rlv _ Hca Hda ltac:(lia)) as (Hna & Hnh & Hnb).
          eexists; split; [reflexivity|]. split; auto. split; [|split].
          -- rewrite Hnb, Hcb, Hdb. cbn [bindings]. repeat (rewrite <- app_assoc; cbn [app]). reflexivity.
          -- cbn [height] in *. lia.
          -- cbn [height] in *. lia.
      + rewrite create_ok by lia.
        destruct (create_avl l k v r Hl Hr ltac:(lia)) as (Ha & Hh & Hbd).
        eexists; split; [reflexivity|]. split; auto. split; auto. split; lia.
  Qed.
End MapBase.

(* every `avl (Map_Node h ..)` hypothesis yields 1 <= h *)
Ltac avl_pos :=
  repeat match goal with
  | H : MapBase.avl (Map_Node ?h ?k ?v ?l ?r) |- _ =>
      lazymatch goal with
      | _ : 1 <= h |- _ => fail
      | _ => pose proof (node_height_pos h k v l r H)
      end
  end.
