(* C18 — Map: get, containsKey, insert. *)
From Coq Require Import List ZArith Lia Bool ZifyBool.
Import ListNotations.
From SVG Require Import StdPrelude StdTuples StdOption StdList StdMap.
From SV Require Import C18.Spec C18.Tactics C18.Conv C18.MapBase.
Open Scope Z_scope.

Section MapOps1.
  Context {K V : Type}.
  Variable cmp : K -> K -> Z.
  Hypothesis O : cmp_order cmp.
  Variable phys_eq : forall A : Type, A -> A -> bool.
  (* `==` may answer anything on distinct values but `true` only on equal ones (pointer equality) *)
  Hypothesis phys_eq_sound : forall A (a b : A), phys_eq A a b = true -> a = b.
  Notation M := (Map_t K V).
  Notation bindings := (@bindings K V).
  Notation height := (@height K V).
  Notation avl := (@avl K V).
  Notation bst := (bst cmp).

  Lemma eqb_cmp_sym a b : (cmp a b =? 0) = (cmp b a =? 0).
  Proof.
    destruct (Z.eqb_spec (cmp a b) 0) as [E|N], (Z.eqb_spec (cmp b a) 0) as [E'|N']; auto.
    - apply (cmp_sym0 O) in E. lia.
    - apply (cmp_sym0 O) in E'. lia.
  Qed.

  Lemma bst_node_inv h k v l r : bst (Map_Node h k v l r) ->
    bst l /\ bst r /\ keys_lt cmp (bindings l) k /\ keys_gt cmp (bindings r) k.
  Proof. unfold bst. cbn [MapBase.bindings]. apply sorted_app_inv. Qed.

  Theorem get_ok : forall t key fuel, avl t -> bst t -> height t + 1 <= Z.of_nat fuel ->
    @Map_get phys_eq K V cmp fuel t key = Ok (of_option (find cmp key (bindings t))).
  Proof.
    induction t as [|k v|h k v l IHl r IHr]; intros key fuel Ha Hs Hf.
    - cbn [MapBase.height] in Hf. need 1%nat fuel. reflexivity.
    - cbn [MapBase.height] in Hf. need 1%nat fuel. cbn [Map_get MapBase.bindings find]. rewrite (eqb_cmp_sym k key).
      destruct (cmp key k =? 0); reflexivity.
    - pose proof Ha as Ha'. cbn [MapBase.avl] in Ha'. destruct Ha' as (Hal & Har & Hh & Hb).
      pose proof (height_nonneg _ Hal). pose proof (height_nonneg _ Har).
      destruct (bst_node_inv _ _ _ _ _ Hs) as (Hsl & Hsr & Hkl & Hkr).
      cbn [MapBase.height] in Hf. need 1%nat fuel. cbn [Map_get MapBase.bindings].
      destruct (cmp_cases O key k) as [(L & A & B)|[(E & A & B)|(L & A & B)]].
      + destruct (Z.eqb_spec (cmp key k) 0); [lia|]. destruct (Z.ltb_spec (cmp key k) 0); [|lia].
        rewrite IHl by (auto; lia). now rewrite find_app_lt by auto.
      + subst k. destruct (Z.eqb_spec (cmp key key) 0); [|lia]. now rewrite find_app_eq by auto.
      + destruct (Z.eqb_spec (cmp key k) 0); [lia|]. destruct (Z.ltb_spec (cmp key k) 0); [lia|].
        rewrite IHr by (auto; lia). now rewrite find_app_gt by auto.
  Qed.

  Definition is_some {A} (o : option A) : bool := match o with Some _ => true | None => false end.

  Theorem containsKey_ok : forall t key fuel, avl t -> bst t -> height t + 1 <= Z.of_nat fuel ->
    @Map_containsKey phys_eq K V cmp fuel t key = Ok (is_some (find cmp key (bindings t))).
  Proof.
    induction t as [|k v|h k v l IHl r IHr]; intros key fuel Ha Hs Hf.
    - cbn [MapBase.height] in Hf. need 1%nat fuel. reflexivity.
    - cbn [MapBase.height] in Hf. need 1%nat fuel. cbn [Map_containsKey MapBase.bindings find]. rewrite (eqb_cmp_sym k key).
      destruct (cmp key k =? 0); reflexivity.
    - pose proof Ha as Ha'. cbn [MapBase.avl] in Ha'. destruct Ha' as (Hal & Har & Hh & Hb).
      pose proof (height_nonneg _ Hal). pose proof (height_nonneg _ Har).
      destruct (bst_node_inv _ _ _ _ _ Hs) as (Hsl & Hsr & Hkl & Hkr).
      cbn [MapBase.height] in Hf. need 1%nat fuel. cbn [Map_containsKey MapBase.bindings].
      destruct (cmp_cases O key k) as [(L & A & B)|[(E & A & B)|(L & A & B)]].
      + destruct (Z.eqb_spec (cmp key k) 0); [lia|]. destruct (Z.ltb_spec (cmp key k) 0); [|lia].
        rewrite IHl by (auto; lia). cbn [bind]. now rewrite find_app_lt by auto.
      + subst k. destruct (Z.eqb_spec (cmp key key) 0); [|lia]. now rewrite find_app_eq by auto.
      + destruct (Z.eqb_spec (cmp key k) 0); [lia|]. destruct (Z.ltb_spec (cmp key k) 0); [lia|].
        rewrite IHr by (auto; lia). cbn [bind]. now rewrite find_app_gt by auto.
  Qed.

  Theorem insert_ok k v : forall t fuel, avl t -> bst t -> height t + 4 <= Z.of_nat fuel ->
    exists t', @Map_insert phys_eq K V cmp fuel t k v = Ok t' /\ avl t' /\ bindings t' = put cmp k v (bindings t)
               /\ height t <= height t' <= height t + 1.
  Proof.
    induction t as [|k0 v0|h k0 v0 l IHl r IHr]; intros fuel Ha Hs Hf.
    - cbn [MapBase.height] in Hf. need 2%nat fuel. cbn [Map_insert]. rewrite singleton_ok by lia.
      eexists; split; [reflexivity|]. cbn. repeat split; auto; lia.
    - cbn [MapBase.height] in Hf. need 2%nat fuel. cbn [Map_insert].
      destruct (cmp_cases O k k0) as [(L & A & B)|[(E & A & B)|(L & A & B)]].
      + destruct (Z.eqb_spec (cmp k k0) 0); [lia|]. destruct (Z.ltb_spec (cmp k k0) 0); [|lia].
        rewrite smaller_ok by lia. eexists; split; [reflexivity|]. cbn.
        destruct (Z.ltb_spec (cmp k k0) 0); [|lia]. repeat split; auto; lia.
      + subst k0. destruct (Z.eqb_spec (cmp k k) 0); [|lia].
        destruct (phys_eq V v0 v) eqn:Ep.
        * apply phys_eq_sound in Ep. subst v0. eexists; split; [reflexivity|]. cbn.
          destruct (Z.ltb_spec (cmp k k) 0); [lia|]. destruct (Z.eqb_spec (cmp k k) 0); [|lia]. repeat split; auto; lia.
        * eexists; split; [reflexivity|]. cbn.
          destruct (Z.ltb_spec (cmp k k) 0); [lia|]. destruct (Z.eqb_spec (cmp k k) 0); [|lia]. repeat split; auto; lia.
      + destruct (Z.eqb_spec (cmp k k0) 0); [lia|]. destruct (Z.ltb_spec (cmp k k0) 0); [lia|].
        rewrite larger_ok by lia. eexists; split; [reflexivity|]. cbn.
        destruct (Z.ltb_spec (cmp k k0) 0); [lia|]. destruct (Z.eqb_spec (cmp k k0) 0); [lia|]. repeat split; auto; lia.
    - pose proof Ha as Ha'. cbn [MapBase.avl] in Ha'. destruct Ha' as (Hal & Har & Hh & Hb).
      pose proof (height_nonneg l Hal) as Nl. pose proof (height_nonneg r Har) as Nr.
      destruct (bst_node_inv _ _ _ _ _ Hs) as (Hsl & Hsr & Hkl & Hkr).
      cbn [MapBase.height] in Hf. need 1%nat fuel. cbn [Map_insert].
      destruct (cmp_cases O k k0) as [(L & A & B)|[(E & A & B)|(L & A & B)]].
      + destruct (Z.eqb_spec (cmp k k0) 0); [lia|]. destruct (Z.ltb_spec (cmp k k0) 0); [|lia].
        destruct (IHl fuel0 Hal Hsl ltac:(lia)) as (ll & Hins & Hall & Hbl & Hhl). rewrite Hins. cbn [bind].
        destruct (phys_eq M l ll) eqn:Ep.
        * apply phys_eq_sound in Ep. subst ll. eexists; split; [reflexivity|]. split; auto.
          cbn [MapBase.bindings MapBase.height]. rewrite put_app_lt by auto. rewrite <- Hbl. split; [reflexivity|lia].
        * destruct (balanced_ok cmp phys_eq fuel0 ll k0 v0 r Hall Har ltac:(lia) ltac:(lia)) as (t' & Hbal & Hat & Hbt & Hht & Hhe).
          exists t'. split; [exact Hbal|]. split; auto. split.
          -- rewrite Hbt, Hbl. cbn [MapBase.bindings]. now rewrite put_app_lt by auto.
          -- cbn [MapBase.height]. destruct (Z_le_gt_dec (height ll - height r) 2).
             ++ assert (-2 <= height ll - height r <= 2) as H' by lia. specialize (Hhe H'). lia.
             ++ lia.
      + subst k0. destruct (Z.eqb_spec (cmp k k) 0); [|lia].
        destruct (phys_eq V v0 v) eqn:Ep.
        * apply phys_eq_sound in Ep. subst v0. eexists; split; [reflexivity|]. split; auto.
          cbn [MapBase.bindings MapBase.height]. rewrite put_app_eq by auto. split; [reflexivity|lia].
        * eexists; split; [reflexivity|]. split; [cbn; auto|].
          cbn [MapBase.bindings MapBase.height]. rewrite put_app_eq by auto. split; [reflexivity|lia].
      + destruct (Z.eqb_spec (cmp k k0) 0); [lia|]. destruct (Z.ltb_spec (cmp k k0) 0); [lia|].
        destruct (IHr fuel0 Har Hsr ltac:(lia)) as (rr & Hins & Harr & Hbr & Hhr). rewrite Hins. cbn [bind].
        destruct (phys_eq M r rr) eqn:Ep.
        * apply phys_eq_sound in Ep. subst rr. eexists; split; [reflexivity|]. split; auto.
          cbn [MapBase.bindings MapBase.height]. rewrite put_app_gt by auto. rewrite <- Hbr. split; [reflexivity|lia].
        * destruct (balanced_ok cmp phys_eq fuel0 l k0 v0 rr Hal Harr ltac:(lia) ltac:(lia)) as (t' & Hbal & Hat & Hbt & Hht & Hhe).
          exists t'. split; [exact Hbal|]. split; auto. split.
          -- rewrite Hbt, Hbr. cbn [MapBase.bindings]. now rewrite put_app_gt by auto.
          -- cbn [MapBase.height]. destruct (Z_le_gt_dec (height rr - height l) 2).
             ++ assert (-2 <= height l - height rr <= 2) as H' by lia. specialize (Hhe H'). lia.
             ++ lia.
  Qed.
End MapOps1.
