(* C18 — Map: addMinBinding, addMaxBinding, addMinNode, addMaxNode, join, removeMinBindingFromNodeUnsafe, split. *)
From Coq Require Import List ZArith Lia Bool ZifyBool.
Import ListNotations.
From SVG Require Import StdPrelude StdTuples StdOption StdList StdMap.
From SV Require Import C18.Spec C18.Tactics C18.Conv C18.MapBase C18.MapOps1.
Open Scope Z_scope.

Section MapOps2.
  Context {K V : Type}.
  Variable cmp : K -> K -> Z.
  Variable phys_eq : forall A : Type, A -> A -> bool.
  Notation M := (Map_t K V).
  Notation bindings := (@bindings K V).
  Notation height := (@height K V).
  Notation avl := (@avl K V).

  Ltac hs := cbn [MapBase.height MapBase.bindings MapBase.avl] in *.

  Lemma addMinBinding_ok nk nv : forall t fuel, avl t -> height t + 4 <= Z.of_nat fuel ->
    exists t', @Map_addMinBinding phys_eq K V cmp fuel nk nv t = Ok t' /\ avl t'
      /\ bindings t' = (nk, nv) :: bindings t /\ height t <= height t' <= height t + 1 /\ 1 <= height t'.
  Proof.
    induction t as [|k v|h k v l IHl r IHr]; intros fuel Ha Hf; hs.
    - need 2%nat fuel. cbn [Map_addMinBinding]. rewrite singleton_ok by lia.
      eexists; split; [reflexivity|]. hs. repeat split; auto; lia.
    - need 2%nat fuel. cbn [Map_addMinBinding]. rewrite smaller_ok by lia.
      eexists; split; [reflexivity|]. hs. repeat split; auto; lia.
    - destruct Ha as (Hal & Har & Hh & Hb).
      pose proof (height_nonneg l Hal) as Nl. pose proof (height_nonneg r Har) as Nr.
      need 1%nat fuel. cbn [Map_addMinBinding].
      destruct (IHl fuel0 Hal ltac:(lia)) as (l' & Hrun & Hal' & Hbl' & Hhl' & _). rewrite Hrun. cbn [bind].
      destruct (balanced_ok cmp phys_eq fuel0 l' k v r Hal' Har ltac:(lia) ltac:(lia)) as (t' & Hbal & Hat & Hbt & Hht & Hhe).
      exists t'. split; [exact Hbal|]. split; auto. split; [now rewrite Hbt, Hbl'|].
      destruct (Z_le_gt_dec (height l' - height r) 2).
      + assert (-2 <= height l' - height r <= 2) as H' by lia. specialize (Hhe H'). lia.
      + lia.
  Qed.

  Lemma addMaxBinding_ok nk nv : forall t fuel, avl t -> height t + 4 <= Z.of_nat fuel ->
    exists t', @Map_addMaxBinding phys_eq K V cmp fuel nk nv t = Ok t' /\ avl t'
      /\ bindings t' = bindings t ++ [(nk, nv)] /\ height t <= height t' <= height t + 1 /\ 1 <= height t'.
  Proof.
    induction t as [|k v|h k v l IHl r IHr]; intros fuel Ha Hf; hs.
    - need 2%nat fuel. cbn [Map_addMaxBinding]. rewrite singleton_ok by lia.
      eexists; split; [reflexivity|]. hs. repeat split; auto; lia.
    - need 2%nat fuel. cbn [Map_addMaxBinding]. rewrite larger_ok by lia.
      eexists; split; [reflexivity|]. hs. repeat split; auto; lia.
    - destruct Ha as (Hal & Har & Hh & Hb).
      pose proof (height_nonneg l Hal) as Nl. pose proof (height_nonneg r Har) as Nr.
      need 1%nat fuel. cbn [Map_addMaxBinding].
      destruct (IHr fuel0 Har ltac:(lia)) as (r' & Hrun & Har' & Hbr' & Hhr' & _). rewrite Hrun. cbn [bind].
      destruct (balanced_ok cmp phys_eq fuel0 l k v r' Hal Har' ltac:(lia) ltac:(lia)) as (t' & Hbal & Hat & Hbt & Hht & Hhe).
      exists t'. split; [exact Hbal|]. split; auto. split.
      { rewrite Hbt, Hbr'. rewrite <- app_assoc. reflexivity. }
      destruct (Z_le_gt_dec (height r' - height l) 2).
      + assert (-2 <= height l - height r' <= 2) as H' by lia. specialize (Hhe H'). lia.
      + lia.
  Qed.

  (* addMinNode / addMaxNode are only ever called with a Leaf as `node` *)
  Lemma addMinNode_ok nk nv : forall t fuel, avl t -> height t + 4 <= Z.of_nat fuel ->
    exists t', @Map_addMinNode phys_eq K V cmp fuel (Map_Leaf nk nv) t = Ok t' /\ avl t'
      /\ bindings t' = (nk, nv) :: bindings t /\ height t <= height t' <= height t + 1 /\ 1 <= height t'.
  Proof.
    induction t as [|k v|h k v l IHl r IHr]; intros fuel Ha Hf; hs.
    - need 2%nat fuel. cbn [Map_addMinNode].
      eexists; split; [reflexivity|]. hs. repeat split; auto; lia.
    - need 2%nat fuel. cbn [Map_addMinNode]. rewrite larger_ok by lia.
      eexists; split; [reflexivity|]. hs. repeat split; auto; lia.
    - destruct Ha as (Hal & Har & Hh & Hb).
      pose proof (height_nonneg l Hal) as Nl. pose proof (height_nonneg r Har) as Nr.
      need 1%nat fuel. cbn [Map_addMinNode].
      destruct (IHl fuel0 Hal ltac:(lia)) as (l' & Hrun & Hal' & Hbl' & Hhl' & _). rewrite Hrun. cbn [bind].
      destruct (balanced_ok cmp phys_eq fuel0 l' k v r Hal' Har ltac:(lia) ltac:(lia)) as (t' & Hbal & Hat & Hbt & Hht & Hhe).
      exists t'. split; [exact Hbal|]. split; auto. split; [now rewrite Hbt, Hbl'|].
      destruct (Z_le_gt_dec (height l' - height r) 2).
      + assert (-2 <= height l' - height r <= 2) as H' by lia. specialize (Hhe H'). lia.
      + lia.
  Qed.

  Lemma addMaxNode_ok nk nv : forall t fuel, avl t -> height t + 4 <= Z.of_nat fuel ->
    exists t', @Map_addMaxNode phys_eq K V cmp fuel (Map_Leaf nk nv) t = Ok t' /\ avl t'
      /\ bindings t' = bindings t ++ [(nk, nv)] /\ height t <= height t' <= height t + 1 /\ 1 <= height t'.
  Proof.
    induction t as [|k v|h k v l IHl r IHr]; intros fuel Ha Hf; hs.
    - need 2%nat fuel. cbn [Map_addMaxNode].
      eexists; split; [reflexivity|]. hs. repeat split; auto; lia.
    - need 2%nat fuel. cbn [Map_addMaxNode]. rewrite smaller_ok by lia.
      eexists; split; [reflexivity|]. hs. repeat split; auto; lia.
    - destruct Ha as (Hal & Har & Hh & Hb).
      pose proof (height_nonneg l Hal) as Nl. pose proof (height_nonneg r Har) as Nr.
      need 1%nat fuel. cbn [Map_addMaxNode].
      destruct (IHr fuel0 Har ltac:(lia)) as (r' & Hrun & Har' & Hbr' & Hhr' & _). rewrite Hrun. cbn [bind].
      destruct (balanced_ok cmp phys_eq fuel0 l k v r' Hal Har' ltac:(lia) ltac:(lia)) as (t' & Hbal & Hat & Hbt & Hht & Hhe).
      exists t'. split; [exact Hbal|]. split; auto. split.
      { rewrite Hbt, Hbr'. rewrite <- app_assoc. reflexivity. }
      destruct (Z_le_gt_dec (height r' - height l) 2).
      + assert (-2 <= height l - height r' <= 2) as H' by lia. specialize (Hhe H'). lia.
      + lia.
  Qed.

  (* join: no assumption on the relative heights *)
  Definition join_spec (fuel : nat) (l : M) (k : K) (v : V) (r : M) : Prop :=
    exists t, @Map_join phys_eq K V cmp fuel l k v r = Ok t /\ avl t
      /\ bindings t = bindings l ++ (k, v) :: bindings r
      /\ Z.max (height l) (height r) <= height t <= Z.max (height l) (height r) + 1 /\ 1 <= height t.

  Lemma join_ok k v : forall l r fuel, avl l -> avl r -> height l + height r + 5 <= Z.of_nat fuel ->
    join_spec fuel l k v r.
  Proof.
    unfold join_spec.
    induction l as [|lk lv|lh lk lv ll IHll lr IHlr]; intros r; induction r as [|rk rv|rh rk rv rl IHrl rr IHrr];
      intros fuel Hal Har Hf; pose proof (height_nonneg _ Hal) as Nl0; pose proof (height_nonneg _ Har) as Nr0; hs.
    1-3: need 1%nat fuel; cbn [Map_join];
      match goal with |- context[Map_addMinBinding _ _ _ _ _ ?t] =>
        destruct (addMinBinding_ok k v t fuel0 ltac:(hs; auto) ltac:(hs; lia)) as (t' & Hrun & Ha' & Hb' & Hh' & Hp) end;
      exists t'; hs; repeat split; auto; lia.
    1,4: need 1%nat fuel; cbn [Map_join];
      match goal with |- context[Map_addMaxBinding _ _ _ _ _ ?t] =>
        destruct (addMaxBinding_ok k v t fuel0 ltac:(hs; auto) ltac:(hs; lia)) as (t' & Hrun & Ha' & Hb' & Hh' & Hp) end;
      exists t'; hs; repeat split; auto; try lia.
    - (* Leaf, Leaf *)
      need 1%nat fuel. cbn [Map_join]. eexists; split; [reflexivity|]. hs. repeat split; auto; lia.
    - (* Leaf, Node *)
      destruct Har as (Harl & Harr & Hrh & Hrb).
      pose proof (height_nonneg rl Harl). pose proof (height_nonneg rr Harr).
      need 1%nat fuel. cbn [Map_join].
      destruct (Z.gtb_spec rh 3).
      + destruct (IHrl fuel0 I Harl ltac:(hs; lia)) as (j & Hrun & Haj & Hbj & Hhj & Hpj). hs.
        rewrite Hrun. cbn [bind].
        destruct (balanced_ok cmp phys_eq fuel0 j rk rv rr Haj Harr ltac:(lia) ltac:(lia)) as (t' & Hbal & Hat & Hbt & Hht & Hhe).
        exists t'. split; [exact Hbal|]. split; auto. split; [rewrite Hbt, Hbj; hs; reflexivity|].
        destruct (Z_le_gt_dec (Z.abs (height j - height rr)) 2).
        * assert (-2 <= height j - height rr <= 2) as H' by lia. specialize (Hhe H'). lia.
        * lia.
      + rewrite create_ok by lia.
        destruct (create_avl (Map_Leaf lk lv) k v (Map_Node rh rk rv rl rr) I ltac:(hs; auto) ltac:(hs; lia)) as (Hca & Hch & Hcb).
        eexists; split; [reflexivity|]. hs. repeat split; auto; lia.
    - (* Node, Leaf *)
      destruct Hal as (Hall & Halr & Hlh & Hlb).
      pose proof (height_nonneg ll Hall). pose proof (height_nonneg lr Halr).
      need 1%nat fuel. cbn [Map_join].
      destruct (Z.gtb_spec lh 3).
      + destruct (IHlr (Map_Leaf rk rv) fuel0 Halr I ltac:(hs; lia)) as (j & Hrun & Haj & Hbj & Hhj & Hpj). hs.
        rewrite Hrun. cbn [bind].
        destruct (balanced_ok cmp phys_eq fuel0 ll lk lv j Hall Haj ltac:(lia) ltac:(lia)) as (t' & Hbal & Hat & Hbt & Hht & Hhe).
        exists t'. split; [exact Hbal|]. split; auto. split.
        { rewrite Hbt, Hbj. hs. rewrite <- app_assoc. reflexivity. }
        destruct (Z_le_gt_dec (Z.abs (height j - height ll)) 2).
        * assert (-2 <= height ll - height j <= 2) as H' by lia. specialize (Hhe H'). lia.
        * lia.
      + rewrite create_ok by lia.
        destruct (create_avl (Map_Node lh lk lv ll lr) k v (Map_Leaf rk rv) ltac:(hs; auto) I ltac:(hs; lia)) as (Hca & Hch & Hcb).
        eexists; split; [reflexivity|]. hs. repeat split; auto; lia.
    - (* Node, Node *)
      pose proof Hal as Hal0. pose proof Har as Har0.
      destruct Hal as (Hall & Halr & Hlh & Hlb). destruct Har as (Harl & Harr & Hrh & Hrb).
      pose proof (height_nonneg ll Hall). pose proof (height_nonneg lr Halr).
      pose proof (height_nonneg rl Harl). pose proof (height_nonneg rr Harr).
      need 1%nat fuel. cbn [Map_join].
      destruct (Z.gtb_spec lh (rh + 2)).
      + destruct (IHlr (Map_Node rh rk rv rl rr) fuel0 Halr Har0 ltac:(hs; lia)) as (j & Hrun & Haj & Hbj & Hhj & Hpj). hs.
        rewrite Hrun. cbn [bind].
        destruct (balanced_ok cmp phys_eq fuel0 ll lk lv j Hall Haj ltac:(lia) ltac:(lia)) as (t' & Hbal & Hat & Hbt & Hht & Hhe).
        exists t'. split; [exact Hbal|]. split; auto. split.
        { rewrite Hbt, Hbj. hs. rewrite <- app_assoc. reflexivity. }
        destruct (Z_le_gt_dec (Z.abs (height j - height ll)) 2).
        * assert (-2 <= height ll - height j <= 2) as H' by lia. specialize (Hhe H'). lia.
        * lia.
      + destruct (Z.gtb_spec rh (lh + 2)).
        * destruct (IHrl fuel0 Hal0 Harl ltac:(hs; lia)) as (j & Hrun & Haj & Hbj & Hhj & Hpj). hs.
          rewrite Hrun. cbn [bind].
          destruct (balanced_ok cmp phys_eq fuel0 j rk rv rr Haj Harr ltac:(lia) ltac:(lia)) as (t' & Hbal & Hat & Hbt & Hht & Hhe).
          exists t'. split; [exact Hbal|]. split; auto. split.
          { rewrite Hbt, Hbj. hs. rewrite <- !app_assoc. reflexivity. }
          destruct (Z_le_gt_dec (Z.abs (height j - height rr)) 2).
          -- assert (-2 <= height j - height rr <= 2) as H' by lia. specialize (Hhe H'). lia.
          -- lia.
        * rewrite create_ok by lia.
          destruct (create_avl (Map_Node lh lk lv ll lr) k v (Map_Node rh rk rv rl rr) Hal0 Har0 ltac:(hs; lia)) as (Hca & Hch & Hcb).
          eexists; split; [reflexivity|]. hs. repeat split; auto; lia.
  Qed.

  (* removeMinBindingFromNodeUnsafe: called on Node trees only; "Bad tree" unreachable *)
  Lemma removeMin_ok : forall t fuel h k v l r, t = Map_Node h k v l r -> avl t -> height t + 4 <= Z.of_nat fuel ->
    exists t' p, @Map_removeMinBindingFromNodeUnsafe phys_eq K V cmp fuel t = Ok t' /\ avl t'
      /\ bindings t = p :: bindings t' /\ height t - 1 <= height t' <= height t.
  Proof.
    induction t as [|k0 v0|h0 k0 v0 l0 IHl r0 IHr]; intros fuel h k v l r E Ha Hf; inversion E; subst; clear E.
    pose proof Ha as Ha0. destruct Ha as (Hal & Har & Hh & Hb).
    pose proof (height_nonneg l Hal) as Nl. pose proof (height_nonneg r Har) as Nr. hs.
    need 1%nat fuel. cbn [Map_removeMinBindingFromNodeUnsafe]. rewrite forced_ok by lia. cbn [bind].
    destruct l as [|lk lv|lh lk lv ll lr].
    - exists r, (k, v). hs. repeat split; auto; lia.
    - rewrite empty_ok by lia. cbn [bind]. hs.
      destruct (balanced_ok cmp phys_eq fuel0 Map_Empty k v r I Har ltac:(hs; lia) ltac:(lia)) as (t' & Hbal & Hat & Hbt & Hht & Hhe).
      exists t', (lk, lv). split; [exact Hbal|]. split; auto. hs. split; [now rewrite Hbt|].
      destruct (Z_le_gt_dec (height r) 2).
      + assert (-2 <= 0 - height r <= 2) as H' by lia. specialize (Hhe H'). lia.
      + lia.
    - destruct (IHl fuel0 lh lk lv ll lr eq_refl Hal ltac:(hs; lia)) as (l' & p & Hrun & Hal' & Hbl' & Hhl').
      rewrite Hrun. cbn [bind].
      destruct (balanced_ok cmp phys_eq fuel0 l' k v r Hal' Har ltac:(lia) ltac:(lia)) as (t' & Hbal & Hat & Hbt & Hht & Hhe).
      exists t', p. split; [exact Hbal|]. split; auto. split.
      { rewrite Hbt. cbn [MapBase.bindings] in Hbl' |- *. rewrite Hbl'. reflexivity. }
      destruct (Z_le_gt_dec (Z.abs (height l' - height r)) 2).
      + assert (-2 <= height l' - height r <= 2) as H' by lia. specialize (Hhe H'). lia.
      + lia.
  Qed.
End MapOps2.
