(* C18 — Map: split, minBindingFromNodeUnsafe, internalMerge, concat, concatOrJoin, remove, update. *)
From Coq Require Import List ZArith Lia Bool ZifyBool.
Import ListNotations.
From SVG Require Import StdPrelude StdTuples StdOption StdList StdMap.
From SV Require Import C18.Spec C18.Tactics C18.Conv C18.MapBase C18.MapOps1 C18.MapOps2.
Open Scope Z_scope.

Section MapOps3.
  Context {K V : Type}.
  Variable cmp : K -> K -> Z.
  Hypothesis O : cmp_order cmp.
  Variable phys_eq : forall A : Type, A -> A -> bool.
  Hypothesis phys_eq_sound : forall A (a b : A), phys_eq A a b = true -> a = b.
  Notation M := (Map_t K V).
  Notation bindings := (@bindings K V).
  Notation height := (@height K V).
  Notation avl := (@avl K V).
  Notation bst := (bst cmp).

  Ltac hs := cbn [MapBase.height MapBase.bindings MapBase.avl] in *.

  (* split: heights of the parts never exceed the height of the tree (needed for the fuel of join) *)
  Theorem split_ok key : forall t fuel, avl t -> bst t -> 2 * height t + 4 <= Z.of_nat fuel ->
    exists l o r, @Map_split phys_eq K V cmp fuel t key = Ok (Triple_init l o r)
      /\ avl l /\ avl r /\ height l <= height t /\ height r <= height t
      /\ bindings l = below cmp key (bindings t) /\ bindings r = above cmp key (bindings t)
      /\ o = of_option (find cmp key (bindings t)).
  Proof.
    induction t as [|k v|h k v l IHl r IHr]; intros fuel Ha Hs Hf; hs.
    - need 2%nat fuel. cbn [Map_split]. rewrite !empty_ok by lia. cbn [bind].
      do 3 eexists; split; [reflexivity|]. hs. cbn. repeat split; auto; lia.
    - need 2%nat fuel. cbn [Map_split]. rewrite !empty_ok by lia. cbn [bind].
      cbn [below above filter fst find].
      destruct (cmp_cases O key k) as [(L & A & B)|[(E & A & B)|(L & A & B)]].
      + destruct (Z.eqb_spec (cmp key k) 0); [lia|]. destruct (Z.ltb_spec (cmp key k) 0); [|lia].
        destruct (Z.ltb_spec (cmp k key) 0); [lia|]. destruct (Z.ltb_spec 0 (cmp k key)); [|lia].
        do 3 eexists; split; [reflexivity|]. hs. repeat split; auto; lia.
      + subst k. destruct (Z.eqb_spec (cmp key key) 0); [|lia].
        destruct (Z.ltb_spec (cmp key key) 0); [lia|]. destruct (Z.ltb_spec 0 (cmp key key)); [lia|].
        do 3 eexists; split; [reflexivity|]. hs. repeat split; auto; lia.
      + destruct (Z.eqb_spec (cmp key k) 0); [lia|]. destruct (Z.ltb_spec (cmp key k) 0); [lia|].
        destruct (Z.ltb_spec (cmp k key) 0); [|lia]. destruct (Z.ltb_spec 0 (cmp k key)); [lia|].
        do 3 eexists; split; [reflexivity|]. hs. repeat split; auto; lia.
    - destruct Ha as (Hal & Har & Hh & Hb).
      pose proof (height_nonneg l Hal) as Nl. pose proof (height_nonneg r Har) as Nr.
      destruct (bst_node_inv cmp _ _ _ _ _ Hs) as (Hsl & Hsr & Hkl & Hkr).
      need 1%nat fuel. cbn [Map_split].
      destruct (cmp_cases O key k) as [(L & A & B)|[(E & A & B)|(L & A & B)]].
      + destruct (Z.eqb_spec (cmp key k) 0); [lia|]. destruct (Z.ltb_spec (cmp key k) 0); [|lia].
        destruct (IHl fuel0 Hal Hsl ltac:(lia)) as (ll & o & rl & Hrun & Hall & Harl & Hhll & Hhrl & Hbll & Hbrl & Ho).
        rewrite Hrun. cbn [bind].
        pose proof (height_nonneg _ Hall). pose proof (height_nonneg _ Harl).
        destruct (join_ok cmp phys_eq k v rl r fuel0 Harl Har ltac:(lia)) as (j & Hj & Haj & Hbj & Hhj & _).
        rewrite Hj. cbn [bind]. do 3 eexists; split; [reflexivity|].
        rewrite below_app_lt, above_app_lt, find_app_lt by auto.
        split; auto. split; auto. split; [lia|]. split; [lia|]. split; auto. split; auto.
        rewrite Hbj, Hbrl. reflexivity.
      + subst k. destruct (Z.eqb_spec (cmp key key) 0); [|lia].
        do 3 eexists; split; [reflexivity|].
        rewrite below_app_eq, above_app_eq, find_app_eq by auto.
        repeat split; auto; lia.
      + destruct (Z.eqb_spec (cmp key k) 0); [lia|]. destruct (Z.ltb_spec (cmp key k) 0); [lia|].
        destruct (IHr fuel0 Har Hsr ltac:(lia)) as (lr & o & rr & Hrun & Halr & Harr & Hhlr & Hhrr & Hblr & Hbrr & Ho).
        rewrite Hrun. cbn [bind].
        pose proof (height_nonneg _ Halr). pose proof (height_nonneg _ Harr).
        destruct (join_ok cmp phys_eq k v l lr fuel0 Hal Halr ltac:(lia)) as (j & Hj & Haj & Hbj & Hhj & _).
        rewrite Hj. cbn [bind]. do 3 eexists; split; [reflexivity|].
        rewrite below_app_gt, above_app_gt, find_app_gt by auto.
        split; auto. split; auto. split; [lia|]. split; [lia|]. split; auto.
        rewrite Hbj, Hblr. reflexivity.
  Qed.

  (* minBindingFromNodeUnsafe on a Node: the first binding; "Bad tree" unreachable *)
  Lemma minBinding_ok : forall t fuel h k v l r, t = Map_Node h k v l r -> avl t -> height t + 2 <= Z.of_nat fuel ->
    exists mk mv rest, bindings t = (mk, mv) :: rest
      /\ @Map_minBindingFromNodeUnsafe phys_eq K V cmp fuel t = Ok (Pair_init mk mv).
  Proof.
    induction t as [|k0 v0|h0 k0 v0 l0 IHl r0 IHr]; intros fuel h k v l r E Ha Hf; inversion E; subst; clear E.
    destruct Ha as (Hal & Har & Hh & Hb).
    pose proof (height_nonneg l Hal) as Nl. pose proof (height_nonneg r Har) as Nr. hs.
    need 1%nat fuel. cbn [Map_minBindingFromNodeUnsafe]. rewrite forced_ok by lia. cbn [bind].
    destruct l as [|lk lv|lh lk lv ll lr].
    - do 3 eexists. split; reflexivity.
    - do 3 eexists. split; reflexivity.
    - destruct (IHl fuel0 lh lk lv ll lr eq_refl Hal ltac:(hs; lia)) as (mk & mv & rest & Hb' & Hrun).
      rewrite Hrun. exists mk, mv. eexists. split; [|reflexivity].
      cbn [MapBase.bindings] in Hb' |- *. rewrite Hb'. reflexivity.
  Qed.

  (* internalMerge: the two subtrees of a removed node (sibling heights) *)
  Lemma internalMerge_ok t1 t2 fuel : avl t1 -> avl t2 -> -2 <= height t1 - height t2 <= 2 ->
    Z.max (height t1) (height t2) + 6 <= Z.of_nat fuel ->
    exists t, @Map_internalMerge phys_eq K V cmp fuel t1 t2 = Ok t /\ avl t
      /\ bindings t = bindings t1 ++ bindings t2
      /\ Z.max (height t1) (height t2) <= height t <= Z.max (height t1) (height t2) + 1.
  Proof.
    intros Ha1 Ha2 Hb Hf. pose proof (height_nonneg _ Ha1) as N1. pose proof (height_nonneg _ Ha2) as N2.
    need 1%nat fuel. cbn [Map_internalMerge].
    destruct t1 as [|k1 v1|h1 k1 v1 l1 r1]; [|destruct t2 as [|k2 v2|h2 k2 v2 l2 r2]..]; avl_pos.
    - eexists; split; [reflexivity|]. hs. repeat split; auto; lia.
    - eexists; split; [reflexivity|]. hs. repeat split; auto; lia.
    - destruct (addMinNode_ok cmp phys_eq k1 v1 (Map_Leaf k2 v2) fuel0 I ltac:(hs; lia)) as (t & Hrun & Hat & Hbt & Hht & _).
      exists t. hs. repeat split; auto; lia.
    - destruct (addMinNode_ok cmp phys_eq k1 v1 (Map_Node h2 k2 v2 l2 r2) fuel0 Ha2 ltac:(hs; lia)) as (t & Hrun & Hat & Hbt & Hht & _).
      exists t. hs. repeat split; auto; lia.
    - eexists; split; [reflexivity|]. hs. rewrite app_nil_r. repeat split; tauto || lia.
    - destruct (addMaxNode_ok cmp phys_eq k2 v2 (Map_Node h1 k1 v1 l1 r1) fuel0 Ha1 ltac:(hs; lia)) as (t & Hrun & Hat & Hbt & Hht & _).
      exists t. hs. repeat split; auto; lia.
    - destruct (minBinding_ok _ fuel0 _ _ _ _ _ eq_refl Ha2 ltac:(hs; lia)) as (mk & mv & rest & Hbm & Hrm).
      rewrite Hrm. cbn [bind].
      destruct (removeMin_ok cmp phys_eq _ fuel0 _ _ _ _ _ eq_refl Ha2 ltac:(hs; lia)) as (t2' & p & Hrr & Hat2' & Hbt2' & Hht2').
      rewrite Hrr. cbn [bind].
      destruct (balanced_ok cmp phys_eq fuel0 (Map_Node h1 k1 v1 l1 r1) mk mv t2' Ha1 Hat2' ltac:(hs; lia) ltac:(hs; lia))
        as (t & Hbal & Hat & Hbt & Hht & Hhe).
      exists t. split; [exact Hbal|]. split; auto. split.
      { rewrite Hbt. rewrite Hbm in Hbt2'. inversion Hbt2'; subst. rewrite Hbm. reflexivity. }
      hs. destruct (Z_le_gt_dec (Z.abs (h1 - height t2')) 2).
      + assert (-2 <= h1 - height t2' <= 2) as H' by lia. specialize (Hhe H'). lia.
      + lia.
  Qed.

  (* concat: no assumption on the heights *)
  Lemma concat_ok t1 t2 fuel : avl t1 -> avl t2 -> height t1 + height t2 + 6 <= Z.of_nat fuel ->
    exists t, @Map_concat phys_eq K V cmp fuel t1 t2 = Ok t /\ avl t
      /\ bindings t = bindings t1 ++ bindings t2 /\ height t <= Z.max (height t1) (height t2) + 1.
  Proof.
    intros Ha1 Ha2 Hf. pose proof (height_nonneg _ Ha1) as N1. pose proof (height_nonneg _ Ha2) as N2.
    need 1%nat fuel. cbn [Map_concat].
    destruct t1 as [|k1 v1|h1 k1 v1 l1 r1]; [|destruct t2 as [|k2 v2|h2 k2 v2 l2 r2]..]; avl_pos.
    - eexists; split; [reflexivity|]. hs. repeat split; auto; lia.
    - eexists; split; [reflexivity|]. hs. repeat split; auto; lia.
    - destruct (addMinNode_ok cmp phys_eq k1 v1 (Map_Leaf k2 v2) fuel0 I ltac:(hs; lia)) as (t & Hrun & Hat & Hbt & Hht & _).
      exists t. hs. repeat split; auto; lia.
    - destruct (addMinNode_ok cmp phys_eq k1 v1 (Map_Node h2 k2 v2 l2 r2) fuel0 Ha2 ltac:(hs; lia)) as (t & Hrun & Hat & Hbt & Hht & _).
      exists t. hs. repeat split; auto; lia.
    - eexists; split; [reflexivity|]. hs. rewrite app_nil_r. repeat split; tauto || lia.
    - destruct (addMaxNode_ok cmp phys_eq k2 v2 (Map_Node h1 k1 v1 l1 r1) fuel0 Ha1 ltac:(hs; lia)) as (t & Hrun & Hat & Hbt & Hht & _).
      exists t. hs. repeat split; auto; lia.
    - destruct (minBinding_ok _ fuel0 _ _ _ _ _ eq_refl Ha2 ltac:(hs; lia)) as (mk & mv & rest & Hbm & Hrm).
      rewrite Hrm. cbn [bind].
      destruct (removeMin_ok cmp phys_eq _ fuel0 _ _ _ _ _ eq_refl Ha2 ltac:(hs; lia)) as (t2' & p & Hrr & Hat2' & Hbt2' & Hht2').
      rewrite Hrr. cbn [bind].
      pose proof (height_nonneg _ Hat2').
      destruct (join_ok cmp phys_eq mk mv (Map_Node h1 k1 v1 l1 r1) t2' fuel0 Ha1 Hat2' ltac:(hs; lia))
        as (t & Hj & Hat & Hbt & Hht & _).
      exists t. split; [exact Hj|]. split; auto. split.
      { rewrite Hbt. rewrite Hbm in Hbt2'. inversion Hbt2'; subst. rewrite Hbm. reflexivity. }
      hs. lia.
  Qed.

  Lemma concatOrJoin_ok t1 k o t2 fuel : avl t1 -> avl t2 -> height t1 + height t2 + 7 <= Z.of_nat fuel ->
    exists t, @Map_concatOrJoin phys_eq K V cmp fuel t1 k o t2 = Ok t /\ avl t
      /\ bindings t = bindings t1 ++ match o with Option_Some v => [(k, v)] | Option_None => [] end ++ bindings t2
      /\ height t <= Z.max (height t1) (height t2) + 1.
  Proof.
    intros Ha1 Ha2 Hf. pose proof (height_nonneg _ Ha1) as N1. pose proof (height_nonneg _ Ha2) as N2.
    need 1%nat fuel. cbn [Map_concatOrJoin]. destruct o as [|v].
    - destruct (concat_ok t1 t2 fuel0 Ha1 Ha2 ltac:(lia)) as (t & Hrun & Hat & Hbt & Hht). exists t. cbn [app]. auto.
    - destruct (join_ok cmp phys_eq k v t1 t2 fuel0 Ha1 Ha2 ltac:(lia)) as (t & Hrun & Hat & Hbt & Hht & _).
      exists t. cbn [app]. repeat split; auto; lia.
  Qed.

  Theorem remove_ok key : forall t fuel, avl t -> bst t -> height t + 7 <= Z.of_nat fuel ->
    exists t', @Map_remove phys_eq K V cmp fuel t key = Ok t' /\ avl t' /\ bindings t' = del cmp key (bindings t)
               /\ height t - 1 <= height t' <= height t.
  Proof.
    induction t as [|k v|h k v l IHl r IHr]; intros fuel Ha Hs Hf; hs.
    - need 1%nat fuel. cbn [Map_remove]. eexists; split; [reflexivity|]. hs. cbn. repeat split; auto; lia.
    - need 2%nat fuel. cbn [Map_remove del].
      destruct (Z.eqb_spec (cmp key k) 0).
      + rewrite empty_ok by lia. eexists; split; [reflexivity|]. hs. repeat split; auto; lia.
      + eexists; split; [reflexivity|]. hs. repeat split; auto; lia.
    - pose proof Ha as Ha0. destruct Ha as (Hal & Har & Hh & Hb).
      pose proof (height_nonneg l Hal) as Nl. pose proof (height_nonneg r Har) as Nr.
      destruct (bst_node_inv cmp _ _ _ _ _ Hs) as (Hsl & Hsr & Hkl & Hkr).
      need 1%nat fuel. cbn [Map_remove].
      destruct (cmp_cases O key k) as [(L & A & B)|[(E & A & B)|(L & A & B)]].
      + destruct (Z.eqb_spec (cmp key k) 0); [lia|]. destruct (Z.ltb_spec (cmp key k) 0); [|lia].
        destruct (IHl fuel0 Hal Hsl ltac:(lia)) as (ll & Hrun & Hall & Hbl & Hhl). rewrite Hrun. cbn [bind].
        rewrite del_app_lt by auto.
        destruct (phys_eq M l ll) eqn:Ep.
        * apply phys_eq_sound in Ep. subst ll. eexists; split; [reflexivity|]. split; [exact Ha0|].
          hs. rewrite <- Hbl. split; [reflexivity|lia].
        * destruct (balanced_ok cmp phys_eq fuel0 ll k v r Hall Har ltac:(lia) ltac:(lia)) as (t' & Hbal & Hat & Hbt & Hht & Hhe).
          exists t'. split; [exact Hbal|]. split; auto. split; [now rewrite Hbt, Hbl|].
          destruct (Z_le_gt_dec (Z.abs (height ll - height r)) 2).
          -- assert (-2 <= height ll - height r <= 2) as H' by lia. specialize (Hhe H'). lia.
          -- lia.
      + subst k. destruct (Z.eqb_spec (cmp key key) 0); [|lia].
        destruct (internalMerge_ok l r fuel0 Hal Har Hb ltac:(lia)) as (t' & Hrun & Hat & Hbt & Hht).
        exists t'. split; [exact Hrun|]. split; auto. rewrite del_app_eq by auto. split; [exact Hbt|lia].
      + destruct (Z.eqb_spec (cmp key k) 0); [lia|]. destruct (Z.ltb_spec (cmp key k) 0); [lia|].
        destruct (IHr fuel0 Har Hsr ltac:(lia)) as (rr & Hrun & Harr & Hbr & Hhr). rewrite Hrun. cbn [bind].
        rewrite del_app_gt by auto.
        destruct (phys_eq M r rr) eqn:Ep.
        * apply phys_eq_sound in Ep. subst rr. eexists; split; [reflexivity|]. split; [exact Ha0|].
          hs. rewrite <- Hbr. split; [reflexivity|lia].
        * destruct (balanced_ok cmp phys_eq fuel0 l k v rr Hal Harr ltac:(lia) ltac:(lia)) as (t' & Hbal & Hat & Hbt & Hht & Hhe).
          exists t'. split; [exact Hbal|]. split; auto. split; [now rewrite Hbt, Hbr|].
          destruct (Z_le_gt_dec (Z.abs (height rr - height l)) 2).
          -- assert (-2 <= height l - height rr <= 2) as H' by lia. specialize (Hhe H'). lia.
          -- lia.
  Qed.
End MapOps3.
