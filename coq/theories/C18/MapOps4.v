(* C18 — Map: update, filter, partition. *)
From Coq Require Import List ZArith Lia Bool ZifyBool.
Import ListNotations.
From SVG Require Import StdPrelude StdTuples StdOption StdList StdMap.
From SV Require Import C18.Spec C18.Tactics C18.Conv C18.MapBase C18.MapOps1 C18.MapOps2 C18.MapOps3.
Open Scope Z_scope.

Section MapOps4.
  Context {K V : Type}.
  Variable cmp : K -> K -> Z.
  Hypothesis O : cmp_order cmp.
  Variable phys_eq : forall A : Type, A -> A -> bool.
  Hypothesis phys_eq_sound : forall A (a b : A), phys_eq A a b = true -> a = b.
  Notation M := (Map_t K V).
  Notation bindings := (@bindings K V).
  Notation height := (@height K V).
  Notation avl := (@avl K V).
  Notation bst := (bst cmp).

  Ltac hs := cbn [MapBase.height MapBase.bindings MapBase.avl] in *.

  (* update(key, f) for a total f, given as a Gallina function g on options *)
  Theorem update_ok key (f : Option_t V -> res (Option_t V)) (g : option V -> option V) :
    (forall o, f o = Ok (of_option (g (to_option o)))) ->
    forall t fuel, avl t -> bst t -> height t + 8 <= Z.of_nat fuel ->
    exists t', @Map_update phys_eq K V cmp fuel t key f = Ok t' /\ avl t'
      /\ bindings t' = upd cmp key g (bindings t) /\ height t - 1 <= height t' <= height t + 1.
  Proof.
    intros Hfg.
    induction t as [|k v|h k v l IHl r IHr]; intros fuel Ha Hs Hf; hs.
    - need 2%nat fuel. cbn [Map_update]. rewrite Hfg. cbn [bind to_option]. unfold upd. cbn [find].
      destruct (g None) as [d|]; cbn [of_option].
      + rewrite singleton_ok by lia. eexists; split; [reflexivity|]. hs. cbn. repeat split; auto; lia.
      + rewrite empty_ok by lia. eexists; split; [reflexivity|]. hs. cbn. repeat split; auto; lia.
    - need 2%nat fuel. cbn [Map_update]. unfold upd. cbn [find].
      destruct (cmp_cases O key k) as [(L & A & B)|[(E & A & B)|(L & A & B)]].
      + destruct (Z.eqb_spec (cmp key k) 0); [lia|]. destruct (Z.ltb_spec (cmp key k) 0); [|lia].
        rewrite Hfg. cbn [bind to_option]. destruct (g None) as [d|]; cbn [of_option].
        * rewrite smaller_ok by lia. eexists; split; [reflexivity|]. hs. cbn [put].
          destruct (Z.ltb_spec (cmp key k) 0); [|lia]. repeat split; auto; lia.
        * eexists; split; [reflexivity|]. hs. cbn [del].
          destruct (Z.eqb_spec (cmp key k) 0); [lia|]. repeat split; auto; lia.
      + subst k. destruct (Z.eqb_spec (cmp key key) 0); [|lia].
        rewrite Hfg. cbn [bind to_option]. destruct (g (Some v)) as [d|]; cbn [of_option].
        * cbn [put]. destruct (Z.ltb_spec (cmp key key) 0); [lia|]. destruct (Z.eqb_spec (cmp key key) 0); [|lia].
          destruct (phys_eq V v d) eqn:Ep.
          -- apply phys_eq_sound in Ep. subst d. eexists; split; [reflexivity|]. hs. repeat split; auto; lia.
          -- eexists; split; [reflexivity|]. hs. repeat split; auto; lia.
        * rewrite empty_ok by lia. eexists; split; [reflexivity|]. hs. cbn [del].
          destruct (Z.eqb_spec (cmp key key) 0); [|lia]. repeat split; auto; lia.
      + destruct (Z.eqb_spec (cmp key k) 0); [lia|]. destruct (Z.ltb_spec (cmp key k) 0); [lia|].
        rewrite Hfg. cbn [bind to_option]. destruct (g None) as [d|]; cbn [of_option].
        * rewrite larger_ok by lia. eexists; split; [reflexivity|]. hs. cbn [put].
          destruct (Z.ltb_spec (cmp key k) 0); [lia|]. destruct (Z.eqb_spec (cmp key k) 0); [lia|]. repeat split; auto; lia.
        * eexists; split; [reflexivity|]. hs. cbn [del].
          destruct (Z.eqb_spec (cmp key k) 0); [lia|]. repeat split; auto; lia.
    - pose proof Ha as Ha0. destruct Ha as (Hal & Har & Hh & Hb).
      pose proof (height_nonneg l Hal) as Nl. pose proof (height_nonneg r Har) as Nr.
      destruct (bst_node_inv cmp _ _ _ _ _ Hs) as (Hsl & Hsr & Hkl & Hkr).
      need 1%nat fuel. cbn [Map_update].
      destruct (cmp_cases O key k) as [(L & A & B)|[(E & A & B)|(L & A & B)]].
      + destruct (Z.eqb_spec (cmp key k) 0); [lia|]. destruct (Z.ltb_spec (cmp key k) 0); [|lia].
        destruct (IHl fuel0 Hal Hsl ltac:(lia)) as (ll & Hrun & Hall & Hbl & Hhl). rewrite Hrun. cbn [bind].
        rewrite upd_app_lt by auto.
        destruct (phys_eq M l ll) eqn:Ep.
        * apply phys_eq_sound in Ep. subst ll. eexists; split; [reflexivity|]. split; [exact Ha0|].
          hs. rewrite <- Hbl. split; [reflexivity|lia].
        * destruct (balanced_ok cmp phys_eq fuel0 ll k v r Hall Har ltac:(lia) ltac:(lia)) as (t' & Hbal & Hat & Hbt & Hht & Hhe).
          exists t'. split; [exact Hbal|]. split; auto. split; [now rewrite Hbt, Hbl|].
          destruct (Z_le_gt_dec (Z.abs (height ll - height r)) 2).
          -- assert (-2 <= height ll - height r <= 2) as H' by lia. specialize (Hhe H'). lia.
          -- lia.
      + subst k. destruct (Z.eqb_spec (cmp key key) 0); [|lia].
        rewrite Hfg. cbn [bind to_option]. rewrite upd_app_eq by auto.
        destruct (g (Some v)) as [d|]; cbn [of_option].
        * destruct (phys_eq V v d) eqn:Ep.
          -- apply phys_eq_sound in Ep. subst d. eexists; split; [reflexivity|]. split; [exact Ha0|]. hs.
             split; [reflexivity|lia].
          -- eexists; split; [reflexivity|]. hs. repeat split; auto; lia.
        * destruct (internalMerge_ok cmp phys_eq l r fuel0 Hal Har Hb ltac:(lia)) as (t' & Hrun & Hat & Hbt & Hht).
          exists t'. split; [exact Hrun|]. split; auto. split; [exact Hbt|lia].
      + destruct (Z.eqb_spec (cmp key k) 0); [lia|]. destruct (Z.ltb_spec (cmp key k) 0); [lia|].
        destruct (IHr fuel0 Har Hsr ltac:(lia)) as (rr & Hrun & Harr & Hbr & Hhr). rewrite Hrun. cbn [bind].
        rewrite upd_app_gt by auto.
        destruct (phys_eq M r rr) eqn:Ep.
        * apply phys_eq_sound in Ep. subst rr. eexists; split; [reflexivity|]. split; [exact Ha0|].
          hs. rewrite <- Hbr. split; [reflexivity|lia].
        * destruct (balanced_ok cmp phys_eq fuel0 l k v rr Hal Harr ltac:(lia) ltac:(lia)) as (t' & Hbal & Hat & Hbt & Hht & Hhe).
          exists t'. split; [exact Hbal|]. split; auto. split; [now rewrite Hbt, Hbr|].
          destruct (Z_le_gt_dec (Z.abs (height rr - height l)) 2).
          -- assert (-2 <= height l - height rr <= 2) as H' by lia. specialize (Hhe H'). lia.
          -- lia.
  Qed.

  (* filter(f) for a total predicate *)
  Theorem filter_ok (f : K -> V -> res bool) (g : K -> V -> bool) :
    (forall k v, f k v = Ok (g k v)) ->
    forall t fuel, avl t -> 2 * height t + 5 <= Z.of_nat fuel ->
    exists t', @Map_filter phys_eq K V cmp fuel t f = Ok t' /\ avl t'
      /\ bindings t' = afilter g (bindings t) /\ height t' <= height t.
  Proof.
    intros Hfg.
    induction t as [|k v|h k v l IHl r IHr]; intros fuel Ha Hf; hs.
    - need 1%nat fuel. cbn [Map_filter]. eexists; split; [reflexivity|]. hs. cbn. repeat split; auto; lia.
    - need 2%nat fuel. cbn [Map_filter]. rewrite Hfg. cbn [bind]. unfold afilter. cbn [filter fst snd].
      destruct (g k v).
      + eexists; split; [reflexivity|]. hs. repeat split; auto; lia.
      + rewrite empty_ok by lia. eexists; split; [reflexivity|]. hs. repeat split; auto; lia.
    - pose proof Ha as Ha0. destruct Ha as (Hal & Har & Hh & Hb).
      pose proof (height_nonneg l Hal) as Nl. pose proof (height_nonneg r Har) as Nr.
      need 1%nat fuel. cbn [Map_filter].
      destruct (IHl fuel0 Hal ltac:(lia)) as (nl & Hrl & Hanl & Hbnl & Hhnl). rewrite Hrl. cbn [bind].
      rewrite Hfg. cbn [bind].
      destruct (IHr fuel0 Har ltac:(lia)) as (nr & Hrr & Hanr & Hbnr & Hhnr). rewrite Hrr. cbn [bind].
      pose proof (height_nonneg _ Hanl). pose proof (height_nonneg _ Hanr).
      rewrite afilter_app. unfold afilter at 2. cbn [filter fst snd]. fold (afilter g (bindings r)).
      destruct (g k v).
      + destruct (phys_eq M l nl && phys_eq M r nr) eqn:Ep.
        * apply andb_true_iff in Ep. destruct Ep as [E1 E2]. apply phys_eq_sound in E1, E2. subst nl nr.
          eexists; split; [reflexivity|]. split; [exact Ha0|]. hs. rewrite <- Hbnl, <- Hbnr. split; [reflexivity|lia].
        * destruct (join_ok cmp phys_eq k v nl nr fuel0 Hanl Hanr ltac:(lia)) as (t' & Hj & Hat & Hbt & Hht & _).
          exists t'. split; [exact Hj|]. split; auto. split; [now rewrite Hbt, Hbnl, Hbnr|lia].
      + destruct (concat_ok cmp phys_eq nl nr fuel0 Hanl Hanr ltac:(lia)) as (t' & Hc & Hat & Hbt & Hht).
        exists t'. split; [exact Hc|]. split; auto. split; [now rewrite Hbt, Hbnl, Hbnr|lia].
  Qed.

  Theorem partition_ok (f : K -> V -> res bool) (g : K -> V -> bool) :
    (forall k v, f k v = Ok (g k v)) ->
    forall t fuel, avl t -> 2 * height t + 5 <= Z.of_nat fuel ->
    exists tt tf, @Map_partition phys_eq K V cmp fuel t f = Ok (Pair_init tt tf) /\ avl tt /\ avl tf
      /\ bindings tt = afilter g (bindings t) /\ bindings tf = afilter (fun k v => negb (g k v)) (bindings t)
      /\ height tt <= height t /\ height tf <= height t.
  Proof.
    intros Hfg.
    induction t as [|k v|h k v l IHl r IHr]; intros fuel Ha Hf; hs.
    - need 2%nat fuel. cbn [Map_partition]. rewrite !empty_ok by lia. cbn [bind].
      do 2 eexists; split; [reflexivity|]. hs. cbn. repeat split; auto; lia.
    - need 2%nat fuel. cbn [Map_partition]. rewrite Hfg. cbn [bind]. unfold afilter. cbn [filter fst snd].
      destruct (g k v); rewrite empty_ok by lia; cbn [bind negb];
        (do 2 eexists; split; [reflexivity|]; hs; repeat split; auto; lia).
    - destruct Ha as (Hal & Har & Hh & Hb).
      pose proof (height_nonneg l Hal) as Nl. pose proof (height_nonneg r Har) as Nr.
      need 1%nat fuel. cbn [Map_partition].
      destruct (IHl fuel0 Hal ltac:(lia)) as (lt' & lf & Hrl & Halt & Half & Hblt & Hblf & Hhlt & Hhlf). rewrite Hrl. cbn [bind].
      rewrite Hfg. cbn [bind].
      destruct (IHr fuel0 Har ltac:(lia)) as (rt & rf & Hrr & Hart & Harf & Hbrt & Hbrf & Hhrt & Hhrf). rewrite Hrr. cbn [bind].
      pose proof (height_nonneg _ Halt). pose proof (height_nonneg _ Half).
      pose proof (height_nonneg _ Hart). pose proof (height_nonneg _ Harf).
      rewrite !afilter_app. unfold afilter at 2 4. cbn [filter fst snd].
      fold (afilter g (bindings r)). fold (afilter (fun k v => negb (g k v)) (bindings r)).
      destruct (g k v); cbn [negb].
      + destruct (join_ok cmp phys_eq k v lt' rt fuel0 Halt Hart ltac:(lia)) as (a & Hj & Haa & Hba & Hha & _).
        rewrite Hj. cbn [bind].
        destruct (concat_ok cmp phys_eq lf rf fuel0 Half Harf ltac:(lia)) as (b & Hc & Hab & Hbb & Hhb).
        rewrite Hc. cbn [bind]. do 2 eexists; split; [reflexivity|].
        split; auto. split; auto. split; [now rewrite Hba, Hblt, Hbrt|]. split; [now rewrite Hbb, Hblf, Hbrf|lia].
      + destruct (concat_ok cmp phys_eq lt' rt fuel0 Halt Hart ltac:(lia)) as (a & Hc & Haa & Hba & Hha).
        rewrite Hc. cbn [bind].
        destruct (join_ok cmp phys_eq k v lf rf fuel0 Half Harf ltac:(lia)) as (b & Hj & Hab & Hbb & Hhb & _).
        rewrite Hj. cbn [bind]. do 2 eexists; split; [reflexivity|].
        split; auto. split; auto. split; [now rewrite Hba, Hblt, Hbrt|]. split; [now rewrite Hbb, Hblf, Hbrf|lia].
  Qed.
End MapOps4.
