(* C18 — Map: the observers: fold, iter, forAll, exists, size, entries, keys, min, max, minKey, maxKey, map. *)
From Coq Require Import List ZArith Lia Bool ZifyBool.
Import ListNotations.
From SVG Require Import StdPrelude StdTuples StdOption StdList StdMap.
From SV Require Import C18.Spec C18.Tactics C18.Conv C18.MapBase.
Open Scope Z_scope.

Section MapOps5.
  Context {K V : Type}.
  Variable cmp : K -> K -> Z.
  Variable phys_eq : forall A : Type, A -> A -> bool.
  Notation M := (Map_t K V).
  Notation bindings := (@bindings K V).
  Notation height := (@height K V).
  Notation avl := (@avl K V).

  Ltac hs := cbn [MapBase.height MapBase.bindings MapBase.avl] in *.
  Ltac node_case Ha Hal Har Nl Nr :=
    destruct Ha as (Hal & Har & ? & ?);
    pose proof (height_nonneg _ Hal) as Nl; pose proof (height_nonneg _ Har) as Nr.

  Theorem fold_ok {A} (f : A -> K -> V -> res A) (g : A -> K -> V -> A) :
    (forall a k v, f a k v = Ok (g a k v)) ->
    forall t acc fuel, avl t -> height t + 1 <= Z.of_nat fuel ->
    @Map_fold phys_eq K V A cmp fuel t acc f = Ok (afold g (bindings t) acc).
  Proof.
    intros Hfg. induction t as [|k v|h k v l IHl r IHr]; intros acc fuel Ha Hf; hs.
    - need 1%nat fuel. reflexivity.
    - need 1%nat fuel. cbn [Map_fold]. now rewrite Hfg.
    - node_case Ha Hal Har Nl Nr. need 1%nat fuel. cbn [Map_fold].
      rewrite IHl by (auto; lia). cbn [bind]. rewrite Hfg. cbn [bind]. rewrite IHr by (auto; lia).
      unfold afold. rewrite fold_left_app. reflexivity.
  Qed.

  Theorem iter_ok (f : K -> V -> res unit) : (forall k v, f k v = Ok tt) ->
    forall t fuel, avl t -> height t + 1 <= Z.of_nat fuel -> @Map_iter phys_eq K V cmp fuel t f = Ok tt.
  Proof.
    intros Hfg. induction t as [|k v|h k v l IHl r IHr]; intros fuel Ha Hf; hs.
    - need 1%nat fuel. reflexivity.
    - need 1%nat fuel. cbn [Map_iter]. now rewrite Hfg.
    - node_case Ha Hal Har Nl Nr. need 1%nat fuel. cbn [Map_iter].
      rewrite IHl by (auto; lia). cbn [bind]. rewrite Hfg. cbn [bind]. rewrite IHr by (auto; lia). reflexivity.
  Qed.

  Definition pred_of (g : K -> V -> bool) : K * V -> bool := fun p => g (fst p) (snd p).

  Theorem forAll_ok (f : K -> V -> res bool) (g : K -> V -> bool) : (forall k v, f k v = Ok (g k v)) ->
    forall t fuel, avl t -> height t + 1 <= Z.of_nat fuel ->
    @Map_forAll phys_eq K V cmp fuel t f = Ok (forallb (pred_of g) (bindings t)).
  Proof.
    intros Hfg. induction t as [|k v|h k v l IHl r IHr]; intros fuel Ha Hf; hs.
    - need 1%nat fuel. reflexivity.
    - need 1%nat fuel. cbn [Map_forAll forallb pred_of fst snd]. rewrite Hfg, andb_true_r. reflexivity.
    - node_case Ha Hal Har Nl Nr. need 1%nat fuel. cbn [Map_forAll].
      rewrite Hfg. cbn [bind]. rewrite forallb_app. cbn [forallb]. unfold pred_of at 2. cbn [fst snd].
      destruct (g k v); cbn [bind].
      + rewrite IHl by (auto; lia). cbn [bind]. destruct (forallb (pred_of g) (bindings l)); cbn [andb].
        * now rewrite IHr by (auto; lia).
        * reflexivity.
      + now rewrite andb_false_r.
  Qed.

  Theorem exists_ok (f : K -> V -> res bool) (g : K -> V -> bool) : (forall k v, f k v = Ok (g k v)) ->
    forall t fuel, avl t -> height t + 1 <= Z.of_nat fuel ->
    @Map_exists phys_eq K V cmp fuel t f = Ok (existsb (pred_of g) (bindings t)).
  Proof.
    intros Hfg. induction t as [|k v|h k v l IHl r IHr]; intros fuel Ha Hf; hs.
    - need 1%nat fuel. reflexivity.
    - need 1%nat fuel. cbn [Map_exists existsb pred_of fst snd]. rewrite Hfg, orb_false_r. reflexivity.
    - node_case Ha Hal Har Nl Nr. need 1%nat fuel. cbn [Map_exists].
      rewrite Hfg. cbn [bind]. rewrite existsb_app. cbn [existsb]. unfold pred_of at 2. cbn [fst snd].
      destruct (g k v); cbn [bind].
      + now rewrite orb_true_r.
      + rewrite IHl by (auto; lia). cbn [bind]. destruct (existsb (pred_of g) (bindings l)); cbn [orb].
        * reflexivity.
        * now rewrite IHr by (auto; lia).
  Qed.

  Theorem size_ok : forall t fuel, avl t -> height t + 1 <= Z.of_nat fuel ->
    @Map_size phys_eq K V cmp fuel t = Ok (Z.of_nat (length (bindings t))).
  Proof.
    induction t as [|k v|h k v l IHl r IHr]; intros fuel Ha Hf; hs.
    - need 1%nat fuel. reflexivity.
    - need 1%nat fuel. reflexivity.
    - node_case Ha Hal Har Nl Nr. need 1%nat fuel. cbn [Map_size].
      rewrite IHl by (auto; lia). cbn [bind]. rewrite IHr by (auto; lia). cbn [bind].
      rewrite app_length. cbn [length]. f_equal. lia.
  Qed.

  Lemma entriesHelper_ok : forall t acc fuel, avl t -> height t + 1 <= Z.of_nat fuel ->
    @Map_entriesHelper phys_eq K V cmp fuel t (of_list acc) = Ok (of_list (map of_pair (bindings t) ++ acc)).
  Proof.
    induction t as [|k v|h k v l IHl r IHr]; intros acc fuel Ha Hf; hs.
    - need 1%nat fuel. reflexivity.
    - need 1%nat fuel. reflexivity.
    - node_case Ha Hal Har Nl Nr. need 1%nat fuel. cbn [Map_entriesHelper].
      rewrite IHr by (auto; lia). cbn [bind].
      change (List_Cons (Pair_init k v) (of_list (map of_pair (bindings r) ++ acc)))
        with (of_list (of_pair (k, v) :: map of_pair (bindings r) ++ acc)).
      rewrite IHl by (auto; lia). rewrite map_app. cbn [map]. rewrite <- app_assoc. reflexivity.
  Qed.

  Theorem entries_ok : forall t fuel, avl t -> height t + 2 <= Z.of_nat fuel ->
    @Map_entries phys_eq K V cmp fuel t = Ok (of_list (map of_pair (bindings t))).
  Proof.
    intros t fuel Ha Hf. pose proof (height_nonneg _ Ha). need 2%nat fuel. cbn [Map_entries List_nil bind].
    change (@List_Nil (Pair_t K V)) with (@of_list (Pair_t K V) []).
    rewrite entriesHelper_ok by (auto; lia). now rewrite app_nil_r.
  Qed.

  Lemma keysHelper_ok : forall t acc fuel, avl t -> height t + 1 <= Z.of_nat fuel ->
    @Map_keysHelper phys_eq K V cmp fuel t (of_list acc) = Ok (of_list (map fst (bindings t) ++ acc)).
  Proof.
    induction t as [|k v|h k v l IHl r IHr]; intros acc fuel Ha Hf; hs.
    - need 1%nat fuel. reflexivity.
    - need 1%nat fuel. reflexivity.
    - node_case Ha Hal Har Nl Nr. need 1%nat fuel. cbn [Map_keysHelper].
      rewrite IHr by (auto; lia). cbn [bind].
      change (List_Cons k (of_list (map fst (bindings r) ++ acc)))
        with (of_list (k :: map fst (bindings r) ++ acc)).
      rewrite IHl by (auto; lia). rewrite map_app. cbn [map fst]. rewrite <- app_assoc. reflexivity.
  Qed.

  Theorem keys_ok : forall t fuel, avl t -> height t + 2 <= Z.of_nat fuel ->
    @Map_keys phys_eq K V cmp fuel t = Ok (of_list (map fst (bindings t))).
  Proof.
    intros t fuel Ha Hf. pose proof (height_nonneg _ Ha). need 2%nat fuel. cbn [Map_keys List_nil bind].
    change (@List_Nil K) with (@of_list K []).
    rewrite keysHelper_ok by (auto; lia). now rewrite app_nil_r.
  Qed.

  Lemma bindings_nil t : bindings t = [] -> t = Map_Empty.
  Proof. destruct t; cbn; intros H; auto; [discriminate|]. now destruct (bindings t1). Qed.

  Theorem min_ok : forall t fuel, avl t -> height t + 2 <= Z.of_nat fuel ->
    @Map_min phys_eq K V cmp fuel t = Ok (of_option (option_map of_pair (hd_error (bindings t)))).
  Proof.
    induction t as [|k v|h k v l IHl r IHr]; intros fuel Ha Hf; hs.
    - need 1%nat fuel. reflexivity.
    - need 1%nat fuel. reflexivity.
    - node_case Ha Hal Har Nl Nr. need 1%nat fuel. cbn [Map_min].
      rewrite isEmpty_ok by lia. cbn [bind].
      destruct l as [|lk lv|lh lk lv ll lr]; [reflexivity|..].
      + rewrite IHl by (hs; auto; lia). reflexivity.
      + rewrite IHl by (hs; auto; lia). cbn [MapBase.bindings].
        destruct (MapBase.bindings ll); reflexivity.
  Qed.

  Theorem max_ok : forall t fuel, avl t -> height t + 2 <= Z.of_nat fuel ->
    @Map_max phys_eq K V cmp fuel t = Ok (of_option (option_map of_pair (last_opt (bindings t)))).
  Proof.
    induction t as [|k v|h k v l IHl r IHr]; intros fuel Ha Hf; hs.
    - need 1%nat fuel. reflexivity.
    - need 1%nat fuel. reflexivity.
    - node_case Ha Hal Har Nl Nr. need 1%nat fuel. cbn [Map_max].
      rewrite isEmpty_ok by lia. cbn [bind]. rewrite last_opt_app.
      destruct r as [|rk rv|rh rk rv rl rr]; [reflexivity|..].
      + rewrite IHr by (hs; auto; lia). reflexivity.
      + rewrite IHr by (hs; auto; lia). rewrite last_opt_cons; [reflexivity|].
        cbn [MapBase.bindings]. now destruct (MapBase.bindings rl).
  Qed.

  Lemma option_map_run {A B} fuel (o : Option_t A) (g : A -> B) : (1 <= fuel)%nat ->
    @Option_map phys_eq A B fuel o (fun x => Ok (g x)) = Ok (of_option (option_map g (to_option o))).
  Proof. intros. need 1%nat fuel. destruct o; reflexivity. Qed.

  Theorem minKey_ok : forall t fuel, avl t -> height t + 3 <= Z.of_nat fuel ->
    @Map_minKey phys_eq K V cmp fuel t = Ok (of_option (option_map fst (hd_error (bindings t)))).
  Proof.
    intros t fuel Ha Hf. pose proof (height_nonneg _ Ha). need 1%nat fuel. cbn [Map_minKey].
    rewrite min_ok by (auto; lia). cbn [bind]. rewrite (option_map_run fuel0 _ Pair_e0) by lia.
    rewrite to_of_option. destruct (hd_error (bindings t)) as [[a b]|]; reflexivity.
  Qed.

  Theorem maxKey_ok : forall t fuel, avl t -> height t + 3 <= Z.of_nat fuel ->
    @Map_maxKey phys_eq K V cmp fuel t = Ok (of_option (option_map fst (last_opt (bindings t)))).
  Proof.
    intros t fuel Ha Hf. pose proof (height_nonneg _ Ha). need 1%nat fuel. cbn [Map_maxKey].
    rewrite max_ok by (auto; lia). cbn [bind]. rewrite (option_map_run fuel0 _ Pair_e0) by lia.
    rewrite to_of_option. destruct (last_opt (bindings t)) as [[a b]|]; reflexivity.
  Qed.
End MapOps5.

Section MapMap.
  Context {K V V2 : Type}.
  Variable cmp : K -> K -> Z.
  Variable phys_eq : forall A : Type, A -> A -> bool.

  (* map keeps the shape: same heights, same keys *)
  Theorem map_ok (f : K -> V -> res V2) (g : K -> V -> V2) : (forall k v, f k v = Ok (g k v)) ->
    forall (t : Map_t K V) fuel, avl t -> height t + 1 <= Z.of_nat fuel ->
    exists t', @Map_map phys_eq K V V2 cmp fuel t f = Ok t' /\ avl t' /\ height t' = height t
      /\ bindings t' = map (fun p => (fst p, g (fst p) (snd p))) (bindings t).
  Proof.
    intros Hfg. induction t as [|k v|h k v l IHl r IHr]; intros fuel Ha Hf;
      cbn [MapBase.height MapBase.bindings MapBase.avl] in *.
    - need 1%nat fuel. eexists; split; [reflexivity|]. cbn. auto.
    - need 1%nat fuel. cbn [Map_map]. rewrite Hfg. eexists; split; [reflexivity|]. cbn. auto.
    - destruct Ha as (Hal & Har & Hh & Hb).
      pose proof (height_nonneg _ Hal). pose proof (height_nonneg _ Har).
      need 1%nat fuel. cbn [Map_map]. rewrite Hfg. cbn [bind].
      destruct (IHl fuel0 Hal ltac:(lia)) as (l' & Hrl & Hal' & Hhl' & Hbl'). rewrite Hrl. cbn [bind].
      destruct (IHr fuel0 Har ltac:(lia)) as (r' & Hrr & Har' & Hhr' & Hbr'). rewrite Hrr. cbn [bind].
      eexists; split; [reflexivity|]. cbn [MapBase.height MapBase.bindings MapBase.avl].
      rewrite Hhl', Hhr', Hbl', Hbr', map_app. cbn [map fst snd]. repeat split; auto; lia.
  Qed.
End MapMap.
