(* C18 — Map: customizedUnion, union (pointwise specification through lookup). *)
From Coq Require Import List ZArith Lia Bool ZifyBool.
Import ListNotations.
From SVG Require Import StdPrelude StdTuples StdOption StdList StdMap.
From SV Require Import C18.Spec C18.Tactics C18.Conv C18.MapBase C18.MapOps1 C18.MapOps2 C18.MapOps3 C18.MapOps4.
Open Scope Z_scope.

(* customizedUnion(f): keys of either map; on a common key f decides (None drops the key) *)
Definition cu_comb {K V} (g : K -> V -> V -> option V) (k : K) (a b : option V) : option V :=
  match a, b with
  | None, None => None
  | Some x, None => Some x
  | None, Some y => Some y
  | Some x, Some y => g k x y
  end.
(* union: left-biased *)
Definition left_comb {K V} (_ : K) (a b : option V) : option V := match a with Some x => Some x | None => b end.

Section MapOps6.
  Context {K V : Type}.
  Variable cmp : K -> K -> Z.
  Hypothesis O : cmp_order cmp.
  Variable phys_eq : forall A : Type, A -> A -> bool.
  Hypothesis phys_eq_sound : forall A (a b : A), phys_eq A a b = true -> a = b.
  Notation M := (Map_t K V).
  Notation bindings := (@bindings K V).
  Notation height := (@height K V).
  Notation avl := (@avl K V).
  Notation bst := (bst cmp).

  Ltac hs := cbn [MapBase.height MapBase.bindings MapBase.avl] in *.

  Lemma opt_entry_of (k : K) (o : option V) :
    match of_option o with Option_Some v => [(k, v)] | Option_None => @nil (K * V) end = opt_entry k o.
  Proof. destruct o; reflexivity. Qed.

  Theorem customizedUnion_ok (f : K -> V -> V -> res (Option_t V)) (g : K -> V -> V -> option V) :
    (forall k x y, f k x y = Ok (of_option (g k x y))) ->
    forall fuel t1 t2, avl t1 -> bst t1 -> avl t2 -> bst t2 ->
    2 * (height t1 + height t2) + 10 <= Z.of_nat fuel ->
    exists t, @Map_customizedUnion phys_eq K V cmp fuel t1 t2 f = Ok t /\ avl t /\ bst t
      /\ pointwise cmp (cu_comb g) (bindings t1) (bindings t2) (bindings t)
      /\ height t <= height t1 + height t2.
  Proof.
    intros Hfg.
    induction fuel as [|fuel IH]; intros t1 t2 Ha1 Hs1 Ha2 Hs2 Hf;
      pose proof (height_nonneg _ Ha1) as N1; pose proof (height_nonneg _ Ha2) as N2; [lia|].
    cbn [Map_customizedUnion].
    (* this.update(k, ..) for other = Leaf(k, v) *)
    assert (HupdR : forall k v, t2 = Map_Leaf k v -> t1 <> Map_Empty ->
      exists t, @Map_update phys_eq K V cmp fuel t1 k (fun d => match d with
                  | Option_None => Ok (Option_Some v) | Option_Some v2 => f k v2 v end) = Ok t
        /\ avl t /\ bst t /\ pointwise cmp (cu_comb g) (bindings t1) (bindings t2) (bindings t)
        /\ height t <= height t1 + height t2).
    { intros k v -> Hne. hs.
      assert (Hf' : forall o, (fun d : Option_t V => match d with Option_None => Ok (Option_Some v) | Option_Some v2 => f k v2 v end) o
                = Ok (of_option ((fun o => match o with None => Some v | Some v2 => g k v2 v end) (to_option o))))
        by (intros [|v2]; cbn [to_option of_option]; [reflexivity|apply Hfg]).
      destruct (update_ok cmp O phys_eq phys_eq_sound k _ _ Hf' t1 fuel Ha1 Hs1 ltac:(lia))
        as (t & Hr & Hat & Hbt & Hht).
      exists t. split; [exact Hr|]. split; auto.
      split; [unfold MapBase.bst; rewrite Hbt; now apply upd_sorted|]. split; [|lia].
      intros k'. rewrite Hbt, (find_upd O) by exact Hs1. cbn [find].
      destruct (Z.eqb_spec (cmp k' k) 0) as [E|N].
      - apply (cmp_eq O) in E. subst k'. unfold cu_comb. destruct (find cmp k (bindings t1)); reflexivity.
      - unfold cu_comb. destruct (find cmp k' (bindings t1)); reflexivity. }
    assert (HupdL : forall k v, t1 = Map_Leaf k v -> t2 <> Map_Empty ->
      exists t, @Map_update phys_eq K V cmp fuel t2 k (fun d => match d with
                  | Option_None => Ok (Option_Some v) | Option_Some v2 => f k v v2 end) = Ok t
        /\ avl t /\ bst t /\ pointwise cmp (cu_comb g) (bindings t1) (bindings t2) (bindings t)
        /\ height t <= height t1 + height t2).
    { intros k v -> Hne. hs.
      assert (Hf' : forall o, (fun d : Option_t V => match d with Option_None => Ok (Option_Some v) | Option_Some v2 => f k v v2 end) o
                = Ok (of_option ((fun o => match o with None => Some v | Some v2 => g k v v2 end) (to_option o))))
        by (intros [|v2]; cbn [to_option of_option]; [reflexivity|apply Hfg]).
      destruct (update_ok cmp O phys_eq phys_eq_sound k _ _ Hf' t2 fuel Ha2 Hs2 ltac:(lia))
        as (t & Hr & Hat & Hbt & Hht).
      exists t. split; [exact Hr|]. split; auto.
      split; [unfold MapBase.bst; rewrite Hbt; now apply upd_sorted|]. split; [|lia].
      intros k'. rewrite Hbt, (find_upd O) by exact Hs2. cbn [find].
      destruct (Z.eqb_spec (cmp k' k) 0) as [E|N].
      - apply (cmp_eq O) in E. subst k'. unfold cu_comb. destruct (find cmp k (bindings t2)); reflexivity.
      - unfold cu_comb. destruct (find cmp k' (bindings t2)); reflexivity. }
    destruct t1 as [|k1 v1|h1 k1 v1 l1 r1]; [|destruct t2 as [|k2 v2|h2 k2 v2 l2 r2]..].
    - eexists; split; [reflexivity|]. split; auto. split; auto. split; [|hs; lia]. intros k. cbn [find MapBase.bindings cu_comb].
      now destruct (find cmp k (bindings t2)).
    - eexists; split; [reflexivity|]. split; auto. split; auto. split; [|hs; lia]. intros k. cbn [find MapBase.bindings].
      unfold cu_comb. now destruct (cmp k k1 =? 0).
    - apply (HupdR k2 v2 eq_refl). congruence.
    - apply (HupdL k1 v1 eq_refl). congruence.
    - eexists; split; [reflexivity|]. split; auto. split; auto. split; [|hs; lia]. intros k. cbn [find].
      unfold cu_comb. now destruct (find cmp k _).
    - apply (HupdR k2 v2 eq_refl). congruence.
    - clear HupdL HupdR.
      pose proof (node_height_pos _ _ _ _ _ Ha1) as P1. pose proof (node_height_pos _ _ _ _ _ Ha2) as P2.
      destruct (bst_node_inv cmp _ _ _ _ _ Hs1) as (Hsl1 & Hsr1 & Hkl1 & Hkr1).
      destruct (bst_node_inv cmp _ _ _ _ _ Hs2) as (Hsl2 & Hsr2 & Hkl2 & Hkr2).
      pose proof Ha1 as Ha1'. pose proof Ha2 as Ha2'.
      destruct Ha1' as (Hal1 & Har1 & Hh1 & Hb1). destruct Ha2' as (Hal2 & Har2 & Hh2 & Hb2).
      pose proof (height_nonneg _ Hal1). pose proof (height_nonneg _ Har1).
      pose proof (height_nonneg _ Hal2). pose proof (height_nonneg _ Har2). hs.
      destruct (Z.geb_spec h1 h2) as [G|G].
      + destruct (split_ok cmp O phys_eq k1 (Map_Node h2 k2 v2 l2 r2) fuel Ha2 Hs2 ltac:(hs; lia))
          as (l2n & d & r2n & Hsp & Hal2n & Har2n & Hhl2n & Hhr2n & Hbl2n & Hbr2n & Hd).
        rewrite Hsp. cbn [bind]. hs.
        pose proof (height_nonneg _ Hal2n). pose proof (height_nonneg _ Har2n).
        assert (Hsl2n : bst l2n) by (unfold MapBase.bst; rewrite Hbl2n; now apply below_sorted).
        assert (Hsr2n : bst r2n) by (unfold MapBase.bst; rewrite Hbr2n; now apply above_sorted).
        destruct (IH l1 l2n Hal1 Hsl1 Hal2n Hsl2n ltac:(lia)) as (ul & Hul & Haul & Hsul & Hpul & Hhul).
        rewrite Hul. cbn [bind].
        destruct (IH r1 r2n Har1 Hsr1 Har2n Hsr2n ltac:(lia)) as (ur & Hur & Haur & Hsur & Hpur & Hhur).
        rewrite Hur. cbn [bind].
        pose proof (height_nonneg _ Haul). pose proof (height_nonneg _ Haur).
        rewrite Hbl2n in Hpul. rewrite Hbr2n in Hpur.
        destruct (merge_split_l O (cu_comb g) (fun _ => eq_refl) _ k1 v1 _ _ _ _ Hs1 Hsul Hsur Hpul Hpur) as [Sm Pm].
        subst d. destruct (find cmp k1 (bindings l2 ++ (k2, v2) :: bindings r2)) as [y|]; cbn [of_option cu_comb] in *.
        * rewrite Hfg. cbn [bind].
          destruct (concatOrJoin_ok cmp phys_eq ul k1 (of_option (g k1 v1 y)) ur fuel Haul Haur ltac:(lia))
            as (t & Hc & Hat & Hbt & Hht).
          rewrite opt_entry_of in Hbt.
          exists t. split; [exact Hc|]. split; auto.
          split; [unfold MapBase.bst; rewrite Hbt; exact Sm|]. split; [rewrite Hbt; exact Pm|lia].
        * destruct (join_ok cmp phys_eq k1 v1 ul ur fuel Haul Haur ltac:(lia)) as (t & Hj & Hat & Hbt & Hht & _).
          cbn [opt_entry app] in Sm, Pm.
          exists t. split; [exact Hj|]. split; auto.
          split; [unfold MapBase.bst; rewrite Hbt; exact Sm|]. split; [rewrite Hbt; exact Pm|lia].
      + destruct (split_ok cmp O phys_eq k2 (Map_Node h1 k1 v1 l1 r1) fuel Ha1 Hs1 ltac:(hs; lia))
          as (l1n & d & r1n & Hsp & Hal1n & Har1n & Hhl1n & Hhr1n & Hbl1n & Hbr1n & Hd).
        rewrite Hsp. cbn [bind]. hs.
        pose proof (height_nonneg _ Hal1n). pose proof (height_nonneg _ Har1n).
        assert (Hsl1n : bst l1n) by (unfold MapBase.bst; rewrite Hbl1n; now apply below_sorted).
        assert (Hsr1n : bst r1n) by (unfold MapBase.bst; rewrite Hbr1n; now apply above_sorted).
        destruct (IH l1n l2 Hal1n Hsl1n Hal2 Hsl2 ltac:(lia)) as (ul & Hul & Haul & Hsul & Hpul & Hhul).
        rewrite Hul. cbn [bind].
        destruct (IH r1n r2 Har1n Hsr1n Har2 Hsr2 ltac:(lia)) as (ur & Hur & Haur & Hsur & Hpur & Hhur).
        rewrite Hur. cbn [bind].
        pose proof (height_nonneg _ Haul). pose proof (height_nonneg _ Haur).
        rewrite Hbl1n in Hpul. rewrite Hbr1n in Hpur.
        destruct (merge_split_r O (cu_comb g) (fun _ => eq_refl) _ _ k2 v2 _ _ _ Hs2 Hsul Hsur Hpul Hpur) as [Sm Pm].
        subst d. destruct (find cmp k2 (bindings l1 ++ (k1, v1) :: bindings r1)) as [x|]; cbn [of_option cu_comb] in *.
        * rewrite Hfg. cbn [bind].
          destruct (concatOrJoin_ok cmp phys_eq ul k2 (of_option (g k2 x v2)) ur fuel Haul Haur ltac:(lia))
            as (t & Hc & Hat & Hbt & Hht).
          rewrite opt_entry_of in Hbt.
          exists t. split; [exact Hc|]. split; auto.
          split; [unfold MapBase.bst; rewrite Hbt; exact Sm|]. split; [rewrite Hbt; exact Pm|lia].
        * destruct (join_ok cmp phys_eq k2 v2 ul ur fuel Haul Haur ltac:(lia)) as (t & Hj & Hat & Hbt & Hht & _).
          cbn [opt_entry app] in Sm, Pm.
          exists t. split; [exact Hj|]. split; auto.
          split; [unfold MapBase.bst; rewrite Hbt; exact Sm|]. split; [rewrite Hbt; exact Pm|lia].
  Qed.

  Theorem union_ok fuel t1 t2 : avl t1 -> bst t1 -> avl t2 -> bst t2 ->
    2 * (height t1 + height t2) + 11 <= Z.of_nat fuel ->
    exists t, @Map_union phys_eq K V cmp fuel t1 t2 = Ok t /\ avl t /\ bst t
      /\ pointwise cmp left_comb (bindings t1) (bindings t2) (bindings t)
      /\ height t <= height t1 + height t2.
  Proof.
    intros Ha1 Hs1 Ha2 Hs2 Hf. pose proof (height_nonneg _ Ha1). pose proof (height_nonneg _ Ha2).
    need 1%nat fuel. cbn [Map_union].
    destruct (customizedUnion_ok (fun a b c => @Map_defaultUnionMerger phys_eq K V cmp fuel0 a b c) (fun _ x _ => Some x)
                ltac:(intros; need 1%nat fuel0; reflexivity) fuel0 t1 t2 Ha1 Hs1 Ha2 Hs2 ltac:(lia))
      as (t & Hr & Hat & Hst & Hp & Hh).
    exists t. split; [exact Hr|]. split; auto. split; auto. split; auto.
    intros k. rewrite (Hp k). unfold cu_comb, left_comb.
    destruct (find cmp k (bindings t1)), (find cmp k (bindings t2)); reflexivity.
  Qed.
End MapOps6.
