(* C18 — Map: merge (pointwise specification through lookup; "Invalid state" unreachable). *)
From Coq Require Import List ZArith Lia Bool ZifyBool.
Import ListNotations.
From SVG Require Import StdPrelude StdTuples StdOption StdList StdMap.
From SV Require Import C18.Spec C18.Tactics C18.Conv C18.MapBase C18.MapOps1 C18.MapOps2 C18.MapOps3.
Open Scope Z_scope.

(* merge(f): f sees the two optional values of every key present in at least one map *)
Definition merge_comb {K V1 V2 V3} (g : K -> option V1 -> option V2 -> option V3) (k : K)
  (a : option V1) (b : option V2) : option V3 :=
  match a, b with None, None => None | _, _ => g k a b end.

Section MapMerge.
  Context {K V V2 V3 : Type}.
  Variable cmp : K -> K -> Z.
  Hypothesis O : cmp_order cmp.
  Variable phys_eq : forall A : Type, A -> A -> bool.

  Ltac hs := cbn [MapBase.height MapBase.bindings MapBase.avl] in *.

  Lemma opt_entry_of3 (k : K) (o : option V3) :
    match of_option o with Option_Some v => [(k, v)] | Option_None => @nil (K * V3) end = opt_entry k o.
  Proof. destruct o; reflexivity. Qed.

  Theorem merge_ok (f : K -> Option_t V -> Option_t V2 -> res (Option_t V3))
    (g : K -> option V -> option V2 -> option V3) :
    (forall k a b, f k a b = Ok (of_option (g k (to_option a) (to_option b)))) ->
    forall fuel (t1 : Map_t K V) (t2 : Map_t K V2), avl t1 -> bst cmp t1 -> avl t2 -> bst cmp t2 ->
    2 * (height t1 + height t2) + 10 <= Z.of_nat fuel ->
    exists t, @Map_merge phys_eq K V V2 V3 cmp fuel t1 t2 f = Ok t /\ avl t /\ bst cmp t
      /\ pointwise cmp (merge_comb g) (bindings t1) (bindings t2) (bindings t)
      /\ height t <= height t1 + height t2.
  Proof.
    intros Hfg.
    induction fuel as [|fuel IH]; intros t1 t2 Ha1 Hs1 Ha2 Hs2 Hf;
      pose proof (height_nonneg _ Ha1) as N1; pose proof (height_nonneg _ Ha2) as N2; [lia|].
    cbn [Map_merge].
    (* split other at a key k1 of this = l1 ++ (k1,v1) :: r1 *)
    assert (HsplitL : forall (l1 r1 : Map_t K V) k1 v1,
      bindings t1 = bindings l1 ++ (k1, v1) :: bindings r1 -> avl l1 -> avl r1 -> bst cmp l1 -> bst cmp r1 ->
      height l1 + 1 <= height t1 -> height r1 + 1 <= height t1 ->
      exists t, (let* '(Triple_init l2 v2 r2) := @Map_split phys_eq K V2 cmp fuel t2 k1 in
                 let* x8__ := @Map_merge phys_eq K V V2 V3 cmp fuel l1 l2 f in
                 let* x9__ := f k1 (Option_Some v1) v2 in
                 let* x10__ := @Map_merge phys_eq K V V2 V3 cmp fuel r1 r2 f in
                 @Map_concatOrJoin phys_eq K V3 cmp fuel x8__ k1 x9__ x10__) = Ok t
        /\ avl t /\ bst cmp t /\ pointwise cmp (merge_comb g) (bindings t1) (bindings t2) (bindings t)
        /\ height t <= height t1 + height t2).
    { intros l1 r1 k1 v1 Hb1 Hal1 Har1 Hsl1 Hsr1 Hhl1 Hhr1.
      pose proof (height_nonneg _ Hal1). pose proof (height_nonneg _ Har1).
      destruct (split_ok cmp O phys_eq k1 t2 fuel Ha2 Hs2 ltac:(lia))
        as (l2 & d & r2 & Hsp & Hal2 & Har2 & Hhl2 & Hhr2 & Hbl2 & Hbr2 & Hd).
      rewrite Hsp. cbn [bind].
      pose proof (height_nonneg _ Hal2). pose proof (height_nonneg _ Har2).
      assert (Hsl2 : bst cmp l2) by (unfold MapBase.bst; rewrite Hbl2; now apply below_sorted).
      assert (Hsr2 : bst cmp r2) by (unfold MapBase.bst; rewrite Hbr2; now apply above_sorted).
      destruct (IH l1 l2 Hal1 Hsl1 Hal2 Hsl2 ltac:(lia)) as (ml & Hml & Haml & Hsml & Hpml & Hhml).
      rewrite Hml. cbn [bind]. rewrite Hfg. cbn [bind].
      destruct (IH r1 r2 Har1 Hsr1 Har2 Hsr2 ltac:(lia)) as (mr & Hmr & Hamr & Hsmr & Hpmr & Hhmr).
      rewrite Hmr. cbn [bind].
      pose proof (height_nonneg _ Haml). pose proof (height_nonneg _ Hamr).
      rewrite Hbl2 in Hpml. rewrite Hbr2 in Hpmr.
      assert (Hs1' : sorted cmp (bindings l1 ++ (k1, v1) :: bindings r1)) by (rewrite <- Hb1; exact Hs1).
      destruct (merge_split_l O (merge_comb g) (fun _ => eq_refl) _ k1 v1 _ _ _ _ Hs1' Hsml Hsmr Hpml Hpmr) as [Sm Pm].
      subst d. rewrite to_of_option. cbn [to_option].
      destruct (concatOrJoin_ok cmp phys_eq ml k1 (of_option (g k1 (Some v1) (find cmp k1 (bindings t2)))) mr fuel Haml Hamr ltac:(lia))
        as (t & Hc & Hat & Hbt & Hht).
      rewrite opt_entry_of3 in Hbt.
      exists t. split; [exact Hc|]. split; auto.
      cbn [merge_comb] in Sm, Pm. rewrite Hb1.
      split; [unfold MapBase.bst; rewrite Hbt; exact Sm|]. split; [rewrite Hbt; exact Pm|lia]. }
    (* split this at the root key k2 of other = Node(_, k2, v2, l2, r2) *)
    assert (HsplitR : forall h2 k2 v2 (l2 r2 : Map_t K V2), t2 = Map_Node h2 k2 v2 l2 r2 ->
      exists t, (let* '(Triple_init l1 v1 r1) := @Map_split phys_eq K V cmp fuel t1 k2 in
                 let* x16__ := @Map_merge phys_eq K V V2 V3 cmp fuel l1 l2 f in
                 let* x17__ := f k2 v1 (Option_Some v2) in
                 let* x18__ := @Map_merge phys_eq K V V2 V3 cmp fuel r1 r2 f in
                 @Map_concatOrJoin phys_eq K V3 cmp fuel x16__ k2 x17__ x18__) = Ok t
        /\ avl t /\ bst cmp t /\ pointwise cmp (merge_comb g) (bindings t1) (bindings t2) (bindings t)
        /\ height t <= height t1 + height t2).
    { intros h2 k2 v2 l2 r2 ->.
      destruct (bst_node_inv cmp _ _ _ _ _ Hs2) as (Hsl2 & Hsr2 & Hkl2 & Hkr2).
      pose proof Ha2 as Ha2'. destruct Ha2' as (Hal2 & Har2 & Hh2 & Hb2).
      pose proof (height_nonneg _ Hal2). pose proof (height_nonneg _ Har2). hs.
      destruct (split_ok cmp O phys_eq k2 t1 fuel Ha1 Hs1 ltac:(lia))
        as (l1 & d & r1 & Hsp & Hal1 & Har1 & Hhl1 & Hhr1 & Hbl1 & Hbr1 & Hd).
      rewrite Hsp. cbn [bind].
      pose proof (height_nonneg _ Hal1). pose proof (height_nonneg _ Har1).
      assert (Hsl1 : bst cmp l1) by (unfold MapBase.bst; rewrite Hbl1; now apply below_sorted).
      assert (Hsr1 : bst cmp r1) by (unfold MapBase.bst; rewrite Hbr1; now apply above_sorted).
      destruct (IH l1 l2 Hal1 Hsl1 Hal2 Hsl2 ltac:(lia)) as (ml & Hml & Haml & Hsml & Hpml & Hhml).
      rewrite Hml. cbn [bind]. rewrite Hfg. cbn [bind].
      destruct (IH r1 r2 Har1 Hsr1 Har2 Hsr2 ltac:(lia)) as (mr & Hmr & Hamr & Hsmr & Hpmr & Hhmr).
      rewrite Hmr. cbn [bind].
      pose proof (height_nonneg _ Haml). pose proof (height_nonneg _ Hamr).
      rewrite Hbl1 in Hpml. rewrite Hbr1 in Hpmr.
      destruct (merge_split_r O (merge_comb g) (fun _ => eq_refl) _ _ k2 v2 _ _ _ Hs2 Hsml Hsmr Hpml Hpmr) as [Sm Pm].
      subst d. rewrite to_of_option. cbn [to_option].
      destruct (concatOrJoin_ok cmp phys_eq ml k2 (of_option (g k2 (find cmp k2 (bindings t1)) (Some v2))) mr fuel Haml Hamr ltac:(lia))
        as (t & Hc & Hat & Hbt & Hht).
      rewrite opt_entry_of3 in Hbt.
      exists t. split; [exact Hc|]. split; auto.
      assert (Em : merge_comb g k2 (find cmp k2 (bindings t1)) (Some v2) = g k2 (find cmp k2 (bindings t1)) (Some v2))
        by (unfold merge_comb; now destruct (find cmp k2 (bindings t1))).
      rewrite Em in Sm, Pm.
      split; [unfold MapBase.bst; rewrite Hbt; exact Sm|]. split; [rewrite Hbt; exact Pm|lia]. }
    destruct t1 as [|k1 v1|h1 k1 v1 l1 r1].
    - destruct t2 as [|k2 v2|h2 k2 v2 l2 r2].
      + rewrite empty_ok by lia. eexists; split; [reflexivity|]. hs. split; [exact I|]. split; [exact I|]. split; [|lia]. intros k. reflexivity.
      + rewrite Hfg. cbn [bind to_option]. destruct (g k2 None (Some v2)) as [d|] eqn:E; cbn [of_option].
        * eexists; split; [reflexivity|]. hs. split; auto. split; [cbn; repeat constructor|]. split; [|lia].
          intros k. cbn [find]. destruct (Z.eqb_spec (cmp k k2) 0) as [E0|]; cbn [merge_comb]; auto.
          apply (cmp_eq O) in E0. subst. auto.
        * rewrite empty_ok by lia. eexists; split; [reflexivity|]. hs. split; auto. split; [exact I|]. split; [|lia].
          intros k. cbn [find]. destruct (Z.eqb_spec (cmp k k2) 0) as [E0|]; cbn [merge_comb]; auto.
          apply (cmp_eq O) in E0. subst. auto.
      + apply (HsplitR _ _ _ _ _ eq_refl).
    - destruct t2 as [|k2 v2|h2 k2 v2 l2 r2].
      + rewrite Hfg. cbn [bind to_option]. destruct (g k1 (Some v1) None) as [d|] eqn:E; cbn [of_option].
        * eexists; split; [reflexivity|]. hs. split; auto. split; [cbn; repeat constructor|]. split; [|lia].
          intros k. cbn [find]. destruct (Z.eqb_spec (cmp k k1) 0) as [E0|]; cbn [merge_comb]; auto.
          apply (cmp_eq O) in E0. subst. auto.
        * rewrite empty_ok by lia. eexists; split; [reflexivity|]. hs. split; auto. split; [exact I|]. split; [|lia].
          intros k. cbn [find]. destruct (Z.eqb_spec (cmp k k1) 0) as [E0|]; cbn [merge_comb]; auto.
          apply (cmp_eq O) in E0. subst. auto.
      + (* Leaf, Leaf: the two recursive calls are on the empty map *)
        hs. rewrite !empty_ok by lia. cbn [bind].
        destruct (HsplitL Map_Empty Map_Empty k1 v1 eq_refl I I I I ltac:(hs; lia) ltac:(hs; lia))
          as (t & Hr & Hrest).
        exists t. split; [exact Hr|exact Hrest].
      + apply (HsplitR _ _ _ _ _ eq_refl).
    - rewrite height_ok by lia. cbn [bind].
      destruct (bst_node_inv cmp _ _ _ _ _ Hs1) as (Hsl1 & Hsr1 & Hkl1 & Hkr1).
      pose proof Ha1 as Ha1'. destruct Ha1' as (Hal1 & Har1 & Hh1 & Hb1).
      pose proof (height_nonneg _ Hal1). pose proof (height_nonneg _ Har1).
      destruct (Z.geb_spec h1 (height t2)) as [G|G].
      + apply (HsplitL l1 r1 k1 v1 eq_refl Hal1 Har1 Hsl1 Hsr1); hs; lia.
      + destruct t2 as [|k2 v2|h2 k2 v2 l2 r2]; hs; [lia|lia|].
        apply (HsplitR _ _ _ _ _ eq_refl).
  Qed.
End MapMerge.
