(* C18 — Map: compare, equal (through the NodeEnumerationHelper enumeration). *)
From Coq Require Import List ZArith Lia Bool ZifyBool.
Import ListNotations.
From SVG Require Import StdPrelude StdTuples StdOption StdList StdMap.
From SV Require Import C18.Spec C18.Tactics C18.Conv C18.MapBase.
Open Scope Z_scope.

Section MapCompare.
  Context {K V : Type}.
  Variable cmp : K -> K -> Z.
  Variable phys_eq : forall A : Type, A -> A -> bool.
  Notation M := (Map_t K V).
  Notation E := (NodeEnumerationHelper_t K V).
  Notation bindings := (@bindings K V).
  Notation height := (@height K V).
  Notation avl := (@avl K V).

  Ltac hs := cbn [MapBase.height MapBase.bindings MapBase.avl] in *.

  (* the bindings still to be enumerated *)
  Fixpoint flat (e : E) : list (K * V) :=
    match e with
    | NodeEnumerationHelper_End => []
    | NodeEnumerationHelper_More k v r e' => (k, v) :: bindings r ++ flat e'
    end.
  (* every pending subtree is an AVL tree of height at most H *)
  Fixpoint e_ok (H : Z) (e : E) : Prop :=
    match e with
    | NodeEnumerationHelper_End => True
    | NodeEnumerationHelper_More _ _ r e' => avl r /\ height r <= H /\ e_ok H e'
    end.

  Lemma cons_ok H : forall t e fuel, avl t -> height t <= H -> e_ok H e -> height t + 2 <= Z.of_nat fuel ->
    exists e', @NodeEnumerationHelper_cons phys_eq K V cmp fuel e t = Ok e' /\ e_ok H e'
      /\ flat e' = bindings t ++ flat e.
  Proof.
    induction t as [|k v|h k v l IHl r IHr]; intros e fuel Ha Hh He Hf; hs.
    - need 1%nat fuel. eexists; split; [reflexivity|]. auto.
    - need 2%nat fuel. cbn [NodeEnumerationHelper_cons]. rewrite empty_ok by lia. cbn [bind].
      eexists; split; [reflexivity|]. cbn. split; auto. pose proof Hh. repeat split; auto; lia.
    - destruct Ha as (Hal & Har & Hh' & Hb).
      pose proof (height_nonneg _ Hal). pose proof (height_nonneg _ Har).
      need 1%nat fuel. cbn [NodeEnumerationHelper_cons].
      destruct (IHl (NodeEnumerationHelper_More k v r e) fuel0 Hal ltac:(lia) ltac:(cbn; repeat split; auto; lia) ltac:(lia))
        as (e' & Hr & He' & Hfl).
      exists e'. split; [exact Hr|]. split; auto. rewrite Hfl. cbn [flat]. now rewrite <- app_assoc.
  Qed.

  Theorem compareHelper_ok (f : V -> V -> res Z) (g : V -> V -> Z) (H : Z) :
    (forall a b, f a b = Ok (g a b)) -> 0 <= H ->
    forall n e1 e2 fuel, (length (flat e1) <= n)%nat -> e_ok H e1 -> e_ok H e2 ->
    Z.of_nat n + H + 3 <= Z.of_nat fuel ->
    @Map_compareHelper phys_eq K V cmp fuel f e1 e2 = Ok (alex cmp g (flat e1) (flat e2)).
  Proof.
    intros Hfg HH. induction n as [|n IH]; intros e1 e2 fuel Hn H1 H2 Hf.
    - destruct e1; cbn [flat length] in Hn; [|lia]. need 1%nat fuel. destruct e2; reflexivity.
    - need 1%nat fuel. cbn [Map_compareHelper].
      destruct e1 as [|k1 v1 r1 e1']; [destruct e2; reflexivity|].
      destruct e2 as [|k2 v2 r2 e2']; [reflexivity|].
      cbn [flat alex]. destruct (negb (cmp k1 k2 =? 0)); [reflexivity|].
      rewrite Hfg. cbn [bind]. destruct (negb (g v1 v2 =? 0)); [reflexivity|].
      cbn [e_ok] in H1, H2. destruct H1 as (Ha1 & Hh1 & He1). destruct H2 as (Ha2 & Hh2 & He2).
      pose proof (height_nonneg _ Ha1). pose proof (height_nonneg _ Ha2).
      destruct (cons_ok H r1 e1' fuel0 Ha1 Hh1 He1 ltac:(lia)) as (x1 & Hr1 & Hx1 & Hf1). rewrite Hr1. cbn [bind].
      destruct (cons_ok H r2 e2' fuel0 Ha2 Hh2 He2 ltac:(lia)) as (x2 & Hr2 & Hx2 & Hf2). rewrite Hr2. cbn [bind].
      rewrite IH; auto; [now rewrite Hf1, Hf2| |lia].
      rewrite Hf1. cbn [flat length] in Hn. lia.
  Qed.

  Theorem compare_ok (f : V -> V -> res Z) (g : V -> V -> Z) : (forall a b, f a b = Ok (g a b)) ->
    forall t1 t2 fuel, avl t1 -> avl t2 ->
    Z.of_nat (length (bindings t1)) + Z.max (height t1) (height t2) + 4 <= Z.of_nat fuel ->
    @Map_compare phys_eq K V cmp fuel t1 t2 f = Ok (alex cmp g (bindings t1) (bindings t2)).
  Proof.
    intros Hfg t1 t2 fuel Ha1 Ha2 Hf. pose proof (height_nonneg _ Ha1) as N1. pose proof (height_nonneg _ Ha2) as N2.
    need 1%nat fuel. cbn [Map_compare].
    set (H := Z.max (height t1) (height t2)) in *.
    destruct (cons_ok H t1 NodeEnumerationHelper_End fuel0 Ha1 ltac:(lia) I ltac:(lia)) as (x1 & Hr1 & Hx1 & Hf1).
    rewrite Hr1. cbn [bind].
    destruct (cons_ok H t2 NodeEnumerationHelper_End fuel0 Ha2 ltac:(lia) I ltac:(lia)) as (x2 & Hr2 & Hx2 & Hf2).
    rewrite Hr2. cbn [bind]. cbn [flat] in Hf1, Hf2. rewrite app_nil_r in Hf1, Hf2.
    rewrite (compareHelper_ok f g H Hfg ltac:(lia) (length (bindings t1))); auto.
    - now rewrite Hf1, Hf2.
    - rewrite Hf1. lia.
    - lia.
  Qed.

  Theorem equalHelper_ok (f : V -> V -> res bool) (g : V -> V -> bool) (H : Z) :
    (forall a b, f a b = Ok (g a b)) -> 0 <= H ->
    forall n e1 e2 fuel, (length (flat e1) <= n)%nat -> e_ok H e1 -> e_ok H e2 ->
    Z.of_nat n + H + 3 <= Z.of_nat fuel ->
    @Map_equalHelper phys_eq K V cmp fuel f e1 e2 = Ok (aeqb cmp g (flat e1) (flat e2)).
  Proof.
    intros Hfg HH. induction n as [|n IH]; intros e1 e2 fuel Hn H1 H2 Hf.
    - destruct e1; cbn [flat length] in Hn; [|lia]. need 1%nat fuel. destruct e2; reflexivity.
    - need 1%nat fuel. cbn [Map_equalHelper].
      destruct e1 as [|k1 v1 r1 e1']; [destruct e2; reflexivity|].
      destruct e2 as [|k2 v2 r2 e2']; [reflexivity|].
      cbn [flat aeqb]. destruct (cmp k1 k2 =? 0); cbn [bind andb]; [|reflexivity].
      rewrite Hfg. cbn [bind]. destruct (g v1 v2); cbn [andb]; [|reflexivity].
      cbn [e_ok] in H1, H2. destruct H1 as (Ha1 & Hh1 & He1). destruct H2 as (Ha2 & Hh2 & He2).
      pose proof (height_nonneg _ Ha1). pose proof (height_nonneg _ Ha2).
      destruct (cons_ok H r1 e1' fuel0 Ha1 Hh1 He1 ltac:(lia)) as (x1 & Hr1 & Hx1 & Hf1). rewrite Hr1. cbn [bind].
      destruct (cons_ok H r2 e2' fuel0 Ha2 Hh2 He2 ltac:(lia)) as (x2 & Hr2 & Hx2 & Hf2). rewrite Hr2. cbn [bind].
      rewrite IH; auto; [now rewrite Hf1, Hf2| |lia].
      rewrite Hf1. cbn [flat length] in Hn. lia.
  Qed.

  Theorem equal_ok (f : V -> V -> res bool) (g : V -> V -> bool) : (forall a b, f a b = Ok (g a b)) ->
    forall t1 t2 fuel, avl t1 -> avl t2 ->
    Z.of_nat (length (bindings t1)) + Z.max (height t1) (height t2) + 4 <= Z.of_nat fuel ->
    @Map_equal phys_eq K V cmp fuel t1 t2 f = Ok (aeqb cmp g (bindings t1) (bindings t2)).
  Proof.
    intros Hfg t1 t2 fuel Ha1 Ha2 Hf. pose proof (height_nonneg _ Ha1) as N1. pose proof (height_nonneg _ Ha2) as N2.
    need 1%nat fuel. cbn [Map_equal].
    set (H := Z.max (height t1) (height t2)) in *.
    destruct (cons_ok H t1 NodeEnumerationHelper_End fuel0 Ha1 ltac:(lia) I ltac:(lia)) as (x1 & Hr1 & Hx1 & Hf1).
    rewrite Hr1. cbn [bind].
    destruct (cons_ok H t2 NodeEnumerationHelper_End fuel0 Ha2 ltac:(lia) I ltac:(lia)) as (x2 & Hr2 & Hx2 & Hf2).
    rewrite Hr2. cbn [bind]. cbn [flat] in Hf1, Hf2. rewrite app_nil_r in Hf1, Hf2.
    rewrite (equalHelper_ok f g H Hfg ltac:(lia) (length (bindings t1))); auto.
    - now rewrite Hf1, Hf2.
    - rewrite Hf1. lia.
    - lia.
  Qed.
End MapCompare.
