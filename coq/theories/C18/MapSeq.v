(* C18 — Map: the property in its literal form: any sequence of modifying operations, started from a valid map,
   never panics, never runs out of the stated fuel, keeps the invariants, and ends in the map that the same
   sequence of specification operations computes on the sorted association list. *)
From Coq Require Import List ZArith Lia Bool ZifyBool.
Import ListNotations.
From SVG Require Import StdPrelude StdTuples StdOption StdList StdMap.
From SV Require Import C18.Spec C18.Tactics C18.Conv C18.MapBase C18.MapOps1 C18.MapOps3 C18.MapOps4 C18.MapOps6.
Open Scope Z_scope.

Section MapSeq.
  Context {K V : Type}.
  Variable cmp : K -> K -> Z.
  Hypothesis O : cmp_order cmp.
  Variable phys_eq : forall A : Type, A -> A -> bool.
  Hypothesis phys_eq_sound : forall A (a b : A), phys_eq A a b = true -> a = b.
  Notation M := (Map_t K V).

  Inductive mop : Type :=
  | OInsert (k : K) (v : V)
  | ORemove (k : K)
  | OUpdate (k : K) (g : option V -> option V)
  | OFilter (g : K -> V -> bool)
  | OUnion (kvs : list (K * V)).        (* union with the map built by inserting kvs one after the other *)

  (* the implementation side, with the generated functions *)
  Fixpoint build (fuel : nat) (kvs : list (K * V)) (t : M) : res M :=
    match kvs with
    | [] => Ok t
    | (k, v) :: r => let* t' := @Map_insert phys_eq K V cmp fuel t k v in build fuel r t'
    end.
  Definition step (fuel : nat) (t : M) (o : mop) : res M :=
    match o with
    | OInsert k v => @Map_insert phys_eq K V cmp fuel t k v
    | ORemove k => @Map_remove phys_eq K V cmp fuel t k
    | OUpdate k g => @Map_update phys_eq K V cmp fuel t k (fun o => Ok (of_option (g (to_option o))))
    | OFilter g => @Map_filter phys_eq K V cmp fuel t (fun k v => Ok (g k v))
    | OUnion kvs => let* u := build fuel kvs Map_Empty in @Map_union phys_eq K V cmp fuel t u
    end.
  Fixpoint run (fuel : nat) (t : M) (ops : list mop) : res M :=
    match ops with [] => Ok t | o :: r => let* t' := step fuel t o in run fuel t' r end.

  (* the specification side *)
  Definition spec_build (kvs : list (K * V)) (l : list (K * V)) : list (K * V) :=
    fold_left (fun l p => put cmp (fst p) (snd p) l) kvs l.
  Definition spec_step (l : list (K * V)) (o : mop) : list (K * V) :=
    match o with
    | OInsert k v => put cmp k v l
    | ORemove k => del cmp k l
    | OUpdate k g => upd cmp k g l
    | OFilter g => afilter g l
    | OUnion kvs => aunion cmp l (spec_build kvs [])
    end.
  (* by how much an operation can make the tree taller *)
  Definition cost (o : mop) : Z := match o with OUnion kvs => Z.of_nat (length kvs) | _ => 1 end.
  Definition total_cost (ops : list mop) : Z := fold_right (fun o a => cost o + a) 0 ops.

  Lemma build_ok : forall kvs t fuel, avl t -> bst cmp t -> height t + Z.of_nat (length kvs) + 4 <= Z.of_nat fuel ->
    exists t', build fuel kvs t = Ok t' /\ avl t' /\ bst cmp t' /\ bindings t' = spec_build kvs (bindings t)
      /\ height t' <= height t + Z.of_nat (length kvs).
  Proof.
    induction kvs as [|[k v] kvs IH]; intros t fuel Ha Hs Hf; cbn [build length] in *.
    - eexists; split; [reflexivity|]. repeat split; auto; lia.
    - destruct (insert_ok cmp O phys_eq phys_eq_sound k v t fuel Ha Hs ltac:(lia)) as (t1 & Hr & Hat & Hbt & Hht).
      rewrite Hr. cbn [bind].
      assert (Hs1 : bst cmp t1) by (unfold bst; rewrite Hbt; now apply put_sorted).
      destruct (IH t1 fuel Hat Hs1 ltac:(lia)) as (t' & Hr' & Hat' & Hst' & Hbt' & Hht').
      exists t'. split; [exact Hr'|]. split; auto. split; auto. split; [|lia].
      rewrite Hbt', Hbt. reflexivity.
  Qed.

  Lemma step_ok o t fuel : avl t -> bst cmp t -> 2 * (height t + cost o) + 11 <= Z.of_nat fuel ->
    exists t', step fuel t o = Ok t' /\ avl t' /\ bst cmp t' /\ bindings t' = spec_step (bindings t) o
      /\ height t' <= height t + cost o.
  Proof.
    intros Ha Hs Hf. pose proof (height_nonneg _ Ha). destruct o as [k v|k|k g|g|kvs]; cbn [step spec_step cost] in *.
    - destruct (insert_ok cmp O phys_eq phys_eq_sound k v t fuel Ha Hs ltac:(lia)) as (t' & Hr & Hat & Hbt & Hht).
      exists t'. repeat split; auto; try lia. unfold bst. rewrite Hbt. now apply put_sorted.
    - destruct (remove_ok cmp O phys_eq phys_eq_sound k t fuel Ha Hs ltac:(lia)) as (t' & Hr & Hat & Hbt & Hht).
      exists t'. repeat split; auto; try lia. unfold bst. rewrite Hbt. now apply del_sorted.
    - destruct (update_ok cmp O phys_eq phys_eq_sound k _ g (fun o => eq_refl) t fuel Ha Hs ltac:(lia)) as (t' & Hr & Hat & Hbt & Hht).
      exists t'. repeat split; auto; try lia. unfold bst. rewrite Hbt. now apply upd_sorted.
    - destruct (filter_ok cmp phys_eq phys_eq_sound _ g (fun k v => eq_refl) t fuel Ha ltac:(lia)) as (t' & Hr & Hat & Hbt & Hht).
      exists t'. repeat split; auto; try lia. unfold bst. rewrite Hbt. now apply afilter_sorted.
    - destruct (build_ok kvs Map_Empty fuel I I ltac:(cbn; lia)) as (u & Hu & Hau & Hsu & Hbu & Hhu).
      rewrite Hu. cbn [bind]. cbn [MapBase.height MapBase.bindings] in Hbu, Hhu.
      pose proof (height_nonneg _ Hau).
      destruct (union_ok cmp O phys_eq phys_eq_sound fuel t u Ha Hs Hau Hsu ltac:(lia)) as (t' & Hr & Hat & Hst & Hp & Hht).
      exists t'. split; [exact Hr|]. split; auto. split; auto. split; [|lia].
      destruct (aunion_spec O (bindings u) Hsu (bindings t) Hs) as [Sa Pa].
      rewrite <- Hbu. apply (find_ext O); auto. intros k. rewrite (Hp k), Pa. reflexivity.
  Qed.

  Theorem run_ok : forall ops t fuel, avl t -> bst cmp t ->
    2 * (height t + total_cost ops) + 11 <= Z.of_nat fuel ->
    exists t', run fuel t ops = Ok t' /\ avl t' /\ bst cmp t'
      /\ bindings t' = fold_left spec_step ops (bindings t).
  Proof.
    assert (Hc : forall o, 0 <= cost o) by (intros []; cbn; lia).
    assert (Htc : forall ops, 0 <= total_cost ops).
    { induction ops as [|o ops IH]; cbn [total_cost fold_right]; [lia|]. specialize (Hc o). fold (total_cost ops). lia. }
    induction ops as [|o ops IH]; intros t fuel Ha Hs Hf; cbn [run fold_left total_cost fold_right] in *.
    - eexists; split; [reflexivity|]. auto.
    - fold (total_cost ops) in Hf. specialize (Htc ops). specialize (Hc o). pose proof (height_nonneg _ Ha).
      destruct (step_ok o t fuel Ha Hs ltac:(lia)) as (t1 & Hr & Hat & Hst & Hbt & Hht).
      rewrite Hr. cbn [bind].
      destruct (IH t1 fuel Hat Hst ltac:(lia)) as (t' & Hr' & Hat' & Hst' & Hbt').
      exists t'. split; [exact Hr'|]. split; auto. split; auto. rewrite Hbt', Hbt. reflexivity.
  Qed.
End MapSeq.
