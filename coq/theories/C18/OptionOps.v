(* C18 — Option: every member against Coq's option (used by the collections: min().unwrap(), minKey, ...). *)
From Coq Require Import List ZArith Lia Bool.
From SVG Require Import StdPrelude StdTuples StdOption.
From SV Require Import C18.Tactics C18.Conv.

Section OptionOps.
  Variable phys_eq : forall A : Type, A -> A -> bool.
  Context {T R : Type}.

  Lemma obasic_ok fuel (o : option T) : (1 <= fuel)%nat ->
    Option_isSome phys_eq fuel (of_option o) = Ok (match o with Some _ => true | None => false end) /\
    Option_isNone phys_eq fuel (of_option o) = Ok (match o with Some _ => false | None => true end) /\
    Option_tryUnwrap phys_eq fuel (of_option o) = Ok (of_option o).
  Proof. intros. need 1%nat fuel. destruct o; repeat split. Qed.

  Lemma omap_ok fuel (o : option T) (f : T -> res R) (g : T -> R) : (forall x, f x = Ok (g x)) -> (1 <= fuel)%nat ->
    Option_map phys_eq fuel (of_option o) f = Ok (of_option (option_map g o)).
  Proof. intros Hfg H. need 1%nat fuel. destruct o; cbn; [now rewrite Hfg|reflexivity]. Qed.

  Lemma ofilter_ok fuel (o : option T) (f : T -> res bool) (g : T -> bool) : (forall x, f x = Ok (g x)) -> (1 <= fuel)%nat ->
    Option_filter phys_eq fuel (of_option o) f =
      Ok (of_option (match o with Some x => if g x then Some x else None | None => None end)).
  Proof. intros Hfg H. need 1%nat fuel. destruct o as [x|]; cbn; [rewrite Hfg; cbn; now destruct (g x)|reflexivity]. Qed.

  Lemma ovalueMap_ok fuel (o : option T) (d : R) (f : T -> res R) (g : T -> R) : (forall x, f x = Ok (g x)) -> (1 <= fuel)%nat ->
    Option_valueMap phys_eq fuel (of_option o) d f = Ok (match o with Some x => g x | None => d end).
  Proof. intros Hfg H. need 1%nat fuel. destruct o; cbn; [now rewrite Hfg|reflexivity]. Qed.

  Lemma obind_ok fuel (o : option T) (f : T -> res (Option_t R)) (g : T -> option R) :
    (forall x, f x = Ok (of_option (g x))) -> (1 <= fuel)%nat ->
    Option_bind phys_eq fuel (of_option o) f = Ok (of_option (match o with Some x => g x | None => None end)).
  Proof. intros Hfg H. need 1%nat fuel. destruct o; cbn; [now rewrite Hfg|reflexivity]. Qed.

  Lemma oiter_ok fuel (o : option T) (f : T -> res unit) : (forall x, f x = Ok tt) -> (1 <= fuel)%nat ->
    Option_iter phys_eq fuel (of_option o) f = Ok tt.
  Proof. intros Hfg H. need 1%nat fuel. destruct o; cbn; [now rewrite Hfg|reflexivity]. Qed.

  (* unwrap / expect: Ok on Some, Panic (and nothing else) on None *)
  Lemma ounwrap_ok fuel (o : option T) : (2 <= fuel)%nat ->
    Option_unwrap phys_eq fuel (of_option o) = match o with Some x => Ok x | None => Panic end /\
    Option_expect phys_eq fuel (of_option o) Str_lit = match o with Some x => Ok x | None => Panic end.
  Proof. intros. need 2%nat fuel. destruct o; split; reflexivity. Qed.

  Lemma oboth_ok fuel (a : option T) (b : option R) : (1 <= fuel)%nat ->
    Option_both phys_eq fuel (of_option a) (of_option b) =
      Ok (of_option (match a, b with Some x, Some y => Some (Pair_init x y) | _, _ => None end)).
  Proof. intros. need 1%nat fuel. destruct a, b; reflexivity. Qed.
End OptionOps.
