(* C18 — the property theorems.  Nothing but statements closed by `exact`, their Print Assumptions,
   and non-vacuity examples.  Parsed by /verif/check.
   The functions Map_*, Set_*, List_* are the Gallina definitions that T-std (vh std-dump) regenerates
   from /repo/std/*.sam on every run (coq/generated/Std*.v); `res` is Ok | Panic | OutOfFuel. *)
From Coq Require Import List ZArith Lia Bool.
Import ListNotations.
From SVG Require Import StdPrelude StdTuples StdOption StdList StdMap.
From SV Require Import C18.Spec C18.Conv C18.MapBase C18.MapOps1.
Open Scope Z_scope.

(* the oracle for `==` on non-primitive values may say `true` only on equal values *)
Definition oracle_sound (phys_eq : forall A : Type, A -> A -> bool) : Prop :=
  forall A (a b : A), phys_eq A a b = true -> a = b.

(* rebalancing: for sibling heights at most 3 apart (what insert/remove/join produce) `balanced` never
   reaches "Bad tree", restores the AVL invariant, keeps the bindings in order, fuel 3 suffices *)
Theorem C18_map_balanced : forall (K V : Type) (cmp : K -> K -> Z) (phys_eq : forall A : Type, A -> A -> bool)
  (fuel : nat) (l : Map_t K V) (k : K) (v : V) (r : Map_t K V),
  avl l -> avl r -> -3 <= height l - height r <= 3 -> (3 <= fuel)%nat ->
  exists t, Map_balanced phys_eq cmp fuel l k v r = Ok t /\ avl t
    /\ bindings t = bindings l ++ (k, v) :: bindings r
    /\ (Z.max (height l) (height r) <= height t <= Z.max (height l) (height r) + 1)
    /\ (-2 <= height l - height r <= 2 -> height t = Z.max (height l) (height r) + 1).
Proof. exact (@balanced_ok). Qed.

Theorem C18_map_get : forall (K V : Type) (cmp : K -> K -> Z), cmp_order cmp ->
  forall (phys_eq : forall A : Type, A -> A -> bool) (t : Map_t K V) (key : K) (fuel : nat),
  avl t -> bst cmp t -> height t + 1 <= Z.of_nat fuel ->
  Map_get phys_eq cmp fuel t key = Ok (of_option (find cmp key (bindings t))).
Proof. exact (@get_ok). Qed.

Theorem C18_map_containsKey : forall (K V : Type) (cmp : K -> K -> Z), cmp_order cmp ->
  forall (phys_eq : forall A : Type, A -> A -> bool) (t : Map_t K V) (key : K) (fuel : nat),
  avl t -> bst cmp t -> height t + 1 <= Z.of_nat fuel ->
  Map_containsKey phys_eq cmp fuel t key = Ok (is_some (find cmp key (bindings t))).
Proof. exact (@containsKey_ok). Qed.

Theorem C18_map_insert : forall (K V : Type) (cmp : K -> K -> Z), cmp_order cmp ->
  forall (phys_eq : forall A : Type, A -> A -> bool), oracle_sound phys_eq ->
  forall (k : K) (v : V) (t : Map_t K V) (fuel : nat),
  avl t -> bst cmp t -> height t + 4 <= Z.of_nat fuel ->
  exists t', Map_insert phys_eq cmp fuel t k v = Ok t' /\ avl t' /\ bindings t' = put cmp k v (bindings t)
             /\ height t <= height t' <= height t + 1.
Proof. exact (@insert_ok). Qed.

(* the specification side: `put` on a sorted association list is finite-map update *)
Theorem C18_spec_put_sorted : forall (K : Type) (cmp : K -> K -> Z), cmp_order cmp ->
  forall (V : Type) (k : K) (v : V) (l : list (K * V)), sorted cmp l -> sorted cmp (put cmp k v l).
Proof. exact (@put_sorted). Qed.

Theorem C18_spec_find_put : forall (K : Type) (cmp : K -> K -> Z), cmp_order cmp ->
  forall (V : Type) (k : K) (v : V) (k' : K) (l : list (K * V)),
  find cmp k' (put cmp k v l) = if cmp k' k =? 0 then Some v else find cmp k' l.
Proof. exact (@find_put). Qed.

(* ---- non-vacuity: the hypotheses hold of compare = a - b on Z and of a concrete 5-element tree *)
Lemma Zsub_order : cmp_order Z.sub.
Proof. split; intros; lia. Qed.

Definition demo : Map_t Z Z :=
  Map_Node 3 2 20 (Map_Leaf 1 10) (Map_Node 2 4 40 (Map_Leaf 3 30) (Map_Leaf 5 50)).

Example C18_nonvacuous :
  avl demo /\ bst Z.sub demo /\ oracle_sound (fun _ _ _ => false) /\
  Map_insert (fun _ _ _ => false) Z.sub 7 demo 6 60 =
    Ok (Map_Node 4 2 20 (Map_Leaf 1 10) (Map_Node 3 4 40 (Map_Leaf 3 30) (Map_Node 2 6 60 (Map_Leaf 5 50) Map_Empty))).
Proof.
  split; [cbn; lia|]. split; [cbn; repeat constructor; cbn; unfold lt; lia|]. split; [discriminate|].
  vm_compute. reflexivity.
Qed.

Print Assumptions C18_map_balanced.
Print Assumptions C18_map_get.
Print Assumptions C18_map_containsKey.
Print Assumptions C18_map_insert.
Print Assumptions C18_spec_put_sorted.
Print Assumptions C18_spec_find_put.
