(* C18 — the property theorems.  Nothing but statements closed by `exact`, their Print Assumptions,
   and non-vacuity examples.  Parsed by /verif/check.
   The functions Map_*, Set_*, List_* are the Gallina definitions that T-std (vh std-dump) regenerates
   from /repo/std/*.sam on every run (coq/generated/Std*.v); `res` is Ok | Panic | OutOfFuel. *)
From Coq Require Import List ZArith Lia Bool.
Import ListNotations.
From SVG Require Import StdPrelude StdTuples StdOption StdList StdMap StdSet.
From SV Require Import C18.Spec C18.Conv C18.MapBase C18.MapOps1 C18.MapOps2 C18.MapOps3 C18.MapOps4 C18.MapOps5 C18.MapOps6
  C18.SetBase C18.SetOps1 C18.SetOps2 C18.SetOps3.
Open Scope Z_scope.

(* the oracle for `==` on non-primitive values may say `true` only on equal values *)
Definition oracle_sound (phys_eq : forall A : Type, A -> A -> bool) : Prop :=
  forall A (a b : A), phys_eq A a b = true -> a = b.

(* rebalancing: for sibling heights at most 3 apart (what insert/remove/join produce) `balanced` never
   reaches "Bad tree", restores the AVL invariant, keeps the bindings in order, fuel 3 suffices *)
Theorem C18_map_balanced : forall (K V : Type) (cmp : K -> K -> Z) (phys_eq : forall A : Type, A -> A -> bool)
  (fuel : nat) (l : Map_t K V) (k : K) (v : V) (r : Map_t K V),
  avl l -> avl r -> -3 <= height l - height r <= 3 -> (3 <= fuel)%nat ->
  exists t, Map_balanced phys_eq cmp fuel l k v r = Ok t /\ avl t
    /\ bindings t = bindings l ++ (k, v) :: bindings r
    /\ (Z.max (height l) (height r) <= height t <= Z.max (height l) (height r) + 1)
    /\ (-2 <= height l - height r <= 2 -> height t = Z.max (height l) (height r) + 1).
Proof. exact (@balanced_ok). Qed.

Theorem C18_map_get : forall (K V : Type) (cmp : K -> K -> Z), cmp_order cmp ->
  forall (phys_eq : forall A : Type, A -> A -> bool) (t : Map_t K V) (key : K) (fuel : nat),
  avl t -> bst cmp t -> height t + 1 <= Z.of_nat fuel ->
  Map_get phys_eq cmp fuel t key = Ok (of_option (find cmp key (bindings t))).
Proof. exact (@get_ok). Qed.

Theorem C18_map_containsKey : forall (K V : Type) (cmp : K -> K -> Z), cmp_order cmp ->
  forall (phys_eq : forall A : Type, A -> A -> bool) (t : Map_t K V) (key : K) (fuel : nat),
  avl t -> bst cmp t -> height t + 1 <= Z.of_nat fuel ->
  Map_containsKey phys_eq cmp fuel t key = Ok (is_some (find cmp key (bindings t))).
Proof. exact (@containsKey_ok). Qed.

Theorem C18_map_insert : forall (K V : Type) (cmp : K -> K -> Z), cmp_order cmp ->
  forall (phys_eq : forall A : Type, A -> A -> bool), oracle_sound phys_eq ->
  forall (k : K) (v : V) (t : Map_t K V) (fuel : nat),
  avl t -> bst cmp t -> height t + 4 <= Z.of_nat fuel ->
  exists t', Map_insert phys_eq cmp fuel t k v = Ok t' /\ avl t' /\ bindings t' = put cmp k v (bindings t)
             /\ height t <= height t' <= height t + 1.
Proof. exact (@insert_ok). Qed.

(* ---- internal building blocks (private members), all with "never Panic" and explicit fuel *)
Theorem C18_map_addMinBinding : forall (K V : Type) (cmp : K -> K -> Z) (phys_eq : forall A : Type, A -> A -> bool)
  (nk : K) (nv : V) (t : Map_t K V) (fuel : nat), avl t -> height t + 4 <= Z.of_nat fuel ->
  exists t', Map_addMinBinding phys_eq cmp fuel nk nv t = Ok t' /\ avl t'
    /\ bindings t' = (nk, nv) :: bindings t /\ height t <= height t' <= height t + 1 /\ 1 <= height t'.
Proof. exact (@addMinBinding_ok). Qed.

Theorem C18_map_addMaxBinding : forall (K V : Type) (cmp : K -> K -> Z) (phys_eq : forall A : Type, A -> A -> bool)
  (nk : K) (nv : V) (t : Map_t K V) (fuel : nat), avl t -> height t + 4 <= Z.of_nat fuel ->
  exists t', Map_addMaxBinding phys_eq cmp fuel nk nv t = Ok t' /\ avl t'
    /\ bindings t' = bindings t ++ [(nk, nv)] /\ height t <= height t' <= height t + 1 /\ 1 <= height t'.
Proof. exact (@addMaxBinding_ok). Qed.

Theorem C18_map_addMinNode : forall (K V : Type) (cmp : K -> K -> Z) (phys_eq : forall A : Type, A -> A -> bool)
  (nk : K) (nv : V) (t : Map_t K V) (fuel : nat), avl t -> height t + 4 <= Z.of_nat fuel ->
  exists t', Map_addMinNode phys_eq cmp fuel (Map_Leaf nk nv) t = Ok t' /\ avl t'
    /\ bindings t' = (nk, nv) :: bindings t /\ height t <= height t' <= height t + 1 /\ 1 <= height t'.
Proof. exact (@addMinNode_ok). Qed.

Theorem C18_map_addMaxNode : forall (K V : Type) (cmp : K -> K -> Z) (phys_eq : forall A : Type, A -> A -> bool)
  (nk : K) (nv : V) (t : Map_t K V) (fuel : nat), avl t -> height t + 4 <= Z.of_nat fuel ->
  exists t', Map_addMaxNode phys_eq cmp fuel (Map_Leaf nk nv) t = Ok t' /\ avl t'
    /\ bindings t' = bindings t ++ [(nk, nv)] /\ height t <= height t' <= height t + 1 /\ 1 <= height t'.
Proof. exact (@addMaxNode_ok). Qed.

(* join: any two AVL trees, no assumption on their relative heights *)
Theorem C18_map_join : forall (K V : Type) (cmp : K -> K -> Z) (phys_eq : forall A : Type, A -> A -> bool)
  (k : K) (v : V) (l r : Map_t K V) (fuel : nat), avl l -> avl r -> height l + height r + 5 <= Z.of_nat fuel ->
  exists t, Map_join phys_eq cmp fuel l k v r = Ok t /\ avl t
    /\ bindings t = bindings l ++ (k, v) :: bindings r
    /\ Z.max (height l) (height r) <= height t <= Z.max (height l) (height r) + 1 /\ 1 <= height t.
Proof. exact (@join_ok). Qed.

Theorem C18_map_removeMinBinding : forall (K V : Type) (cmp : K -> K -> Z) (phys_eq : forall A : Type, A -> A -> bool)
  (t : Map_t K V) (fuel : nat) h k v l r, t = Map_Node h k v l r -> avl t -> height t + 4 <= Z.of_nat fuel ->
  exists t' p, Map_removeMinBindingFromNodeUnsafe phys_eq cmp fuel t = Ok t' /\ avl t'
    /\ bindings t = p :: bindings t' /\ height t - 1 <= height t' <= height t.
Proof. exact (@removeMin_ok). Qed.

Theorem C18_map_minBinding : forall (K V : Type) (cmp : K -> K -> Z) (phys_eq : forall A : Type, A -> A -> bool)
  (t : Map_t K V) (fuel : nat) h k v l r, t = Map_Node h k v l r -> avl t -> height t + 2 <= Z.of_nat fuel ->
  exists mk mv rest, bindings t = (mk, mv) :: rest
    /\ Map_minBindingFromNodeUnsafe phys_eq cmp fuel t = Ok (Pair_init mk mv).
Proof. exact (@minBinding_ok). Qed.

Theorem C18_map_concat : forall (K V : Type) (cmp : K -> K -> Z) (phys_eq : forall A : Type, A -> A -> bool)
  (t1 t2 : Map_t K V) (fuel : nat), avl t1 -> avl t2 -> height t1 + height t2 + 6 <= Z.of_nat fuel ->
  exists t, Map_concat phys_eq cmp fuel t1 t2 = Ok t /\ avl t
    /\ bindings t = bindings t1 ++ bindings t2 /\ height t <= Z.max (height t1) (height t2) + 1.
Proof. exact (@concat_ok). Qed.

Theorem C18_map_internalMerge : forall (K V : Type) (cmp : K -> K -> Z) (phys_eq : forall A : Type, A -> A -> bool)
  (t1 t2 : Map_t K V) (fuel : nat), avl t1 -> avl t2 -> -2 <= height t1 - height t2 <= 2 ->
  Z.max (height t1) (height t2) + 6 <= Z.of_nat fuel ->
  exists t, Map_internalMerge phys_eq cmp fuel t1 t2 = Ok t /\ avl t
    /\ bindings t = bindings t1 ++ bindings t2
    /\ Z.max (height t1) (height t2) <= height t <= Z.max (height t1) (height t2) + 1.
Proof. exact (@internalMerge_ok). Qed.

Theorem C18_map_split : forall (K V : Type) (cmp : K -> K -> Z), cmp_order cmp ->
  forall (phys_eq : forall A : Type, A -> A -> bool) (key : K) (t : Map_t K V) (fuel : nat),
  avl t -> bst cmp t -> 2 * height t + 4 <= Z.of_nat fuel ->
  exists l o r, Map_split phys_eq cmp fuel t key = Ok (Triple_init l o r)
    /\ avl l /\ avl r /\ height l <= height t /\ height r <= height t
    /\ bindings l = below cmp key (bindings t) /\ bindings r = above cmp key (bindings t)
    /\ o = of_option (find cmp key (bindings t)).
Proof. exact (@split_ok). Qed.

(* ---- public modifiers *)
Theorem C18_map_remove : forall (K V : Type) (cmp : K -> K -> Z), cmp_order cmp ->
  forall (phys_eq : forall A : Type, A -> A -> bool), oracle_sound phys_eq ->
  forall (key : K) (t : Map_t K V) (fuel : nat),
  avl t -> bst cmp t -> height t + 7 <= Z.of_nat fuel ->
  exists t', Map_remove phys_eq cmp fuel t key = Ok t' /\ avl t' /\ bindings t' = del cmp key (bindings t)
             /\ height t - 1 <= height t' <= height t.
Proof. exact (@remove_ok). Qed.

Theorem C18_map_update : forall (K V : Type) (cmp : K -> K -> Z), cmp_order cmp ->
  forall (phys_eq : forall A : Type, A -> A -> bool), oracle_sound phys_eq ->
  forall (key : K) (f : Option_t V -> res (Option_t V)) (g : option V -> option V),
  (forall o, f o = Ok (of_option (g (to_option o)))) ->
  forall (t : Map_t K V) (fuel : nat), avl t -> bst cmp t -> height t + 8 <= Z.of_nat fuel ->
  exists t', Map_update phys_eq cmp fuel t key f = Ok t' /\ avl t'
    /\ bindings t' = upd cmp key g (bindings t) /\ height t - 1 <= height t' <= height t + 1.
Proof. exact (@update_ok). Qed.

Theorem C18_map_filter : forall (K V : Type) (cmp : K -> K -> Z) (phys_eq : forall A : Type, A -> A -> bool),
  oracle_sound phys_eq ->
  forall (f : K -> V -> res bool) (g : K -> V -> bool), (forall k v, f k v = Ok (g k v)) ->
  forall (t : Map_t K V) (fuel : nat), avl t -> 2 * height t + 5 <= Z.of_nat fuel ->
  exists t', Map_filter phys_eq cmp fuel t f = Ok t' /\ avl t'
    /\ bindings t' = afilter g (bindings t) /\ height t' <= height t.
Proof. exact (@filter_ok). Qed.

Theorem C18_map_partition : forall (K V : Type) (cmp : K -> K -> Z) (phys_eq : forall A : Type, A -> A -> bool)
  (f : K -> V -> res bool) (g : K -> V -> bool), (forall k v, f k v = Ok (g k v)) ->
  forall (t : Map_t K V) (fuel : nat), avl t -> 2 * height t + 5 <= Z.of_nat fuel ->
  exists tt tf, Map_partition phys_eq cmp fuel t f = Ok (Pair_init tt tf) /\ avl tt /\ avl tf
    /\ bindings tt = afilter g (bindings t) /\ bindings tf = afilter (fun k v => negb (g k v)) (bindings t)
    /\ height tt <= height t /\ height tf <= height t.
Proof. exact (@partition_ok). Qed.

(* ---- observers *)
Theorem C18_map_fold : forall (K V : Type) (cmp : K -> K -> Z) (phys_eq : forall A : Type, A -> A -> bool)
  (A : Type) (f : A -> K -> V -> res A) (g : A -> K -> V -> A), (forall a k v, f a k v = Ok (g a k v)) ->
  forall (t : Map_t K V) (acc : A) (fuel : nat), avl t -> height t + 1 <= Z.of_nat fuel ->
  Map_fold phys_eq cmp fuel t acc f = Ok (afold g (bindings t) acc).
Proof. exact (@fold_ok). Qed.

Theorem C18_map_iter : forall (K V : Type) (cmp : K -> K -> Z) (phys_eq : forall A : Type, A -> A -> bool)
  (f : K -> V -> res unit), (forall k v, f k v = Ok tt) ->
  forall (t : Map_t K V) (fuel : nat), avl t -> height t + 1 <= Z.of_nat fuel -> Map_iter phys_eq cmp fuel t f = Ok tt.
Proof. exact (@iter_ok). Qed.

Theorem C18_map_forAll : forall (K V : Type) (cmp : K -> K -> Z) (phys_eq : forall A : Type, A -> A -> bool)
  (f : K -> V -> res bool) (g : K -> V -> bool), (forall k v, f k v = Ok (g k v)) ->
  forall (t : Map_t K V) (fuel : nat), avl t -> height t + 1 <= Z.of_nat fuel ->
  Map_forAll phys_eq cmp fuel t f = Ok (forallb (pred_of g) (bindings t)).
Proof. exact (@forAll_ok). Qed.

Theorem C18_map_exists : forall (K V : Type) (cmp : K -> K -> Z) (phys_eq : forall A : Type, A -> A -> bool)
  (f : K -> V -> res bool) (g : K -> V -> bool), (forall k v, f k v = Ok (g k v)) ->
  forall (t : Map_t K V) (fuel : nat), avl t -> height t + 1 <= Z.of_nat fuel ->
  Map_exists phys_eq cmp fuel t f = Ok (existsb (pred_of g) (bindings t)).
Proof. exact (@exists_ok). Qed.

Theorem C18_map_size : forall (K V : Type) (cmp : K -> K -> Z) (phys_eq : forall A : Type, A -> A -> bool)
  (t : Map_t K V) (fuel : nat), avl t -> height t + 1 <= Z.of_nat fuel ->
  Map_size phys_eq cmp fuel t = Ok (Z.of_nat (length (bindings t))).
Proof. exact (@size_ok). Qed.

Theorem C18_map_isEmpty : forall (K V : Type) (cmp : K -> K -> Z) (phys_eq : forall A : Type, A -> A -> bool)
  (fuel : nat) (t : Map_t K V), (1 <= fuel)%nat ->
  Map_isEmpty phys_eq cmp fuel t = Ok (match t with Map_Empty => true | _ => false end).
Proof. exact (@isEmpty_ok). Qed.

Theorem C18_map_entries : forall (K V : Type) (cmp : K -> K -> Z) (phys_eq : forall A : Type, A -> A -> bool)
  (t : Map_t K V) (fuel : nat), avl t -> height t + 2 <= Z.of_nat fuel ->
  Map_entries phys_eq cmp fuel t = Ok (of_list (map of_pair (bindings t))).
Proof. exact (@entries_ok). Qed.

Theorem C18_map_keys : forall (K V : Type) (cmp : K -> K -> Z) (phys_eq : forall A : Type, A -> A -> bool)
  (t : Map_t K V) (fuel : nat), avl t -> height t + 2 <= Z.of_nat fuel ->
  Map_keys phys_eq cmp fuel t = Ok (of_list (map fst (bindings t))).
Proof. exact (@keys_ok). Qed.

Theorem C18_map_min : forall (K V : Type) (cmp : K -> K -> Z) (phys_eq : forall A : Type, A -> A -> bool)
  (t : Map_t K V) (fuel : nat), avl t -> height t + 2 <= Z.of_nat fuel ->
  Map_min phys_eq cmp fuel t = Ok (of_option (option_map of_pair (hd_error (bindings t)))).
Proof. exact (@min_ok). Qed.

Theorem C18_map_max : forall (K V : Type) (cmp : K -> K -> Z) (phys_eq : forall A : Type, A -> A -> bool)
  (t : Map_t K V) (fuel : nat), avl t -> height t + 2 <= Z.of_nat fuel ->
  Map_max phys_eq cmp fuel t = Ok (of_option (option_map of_pair (last_opt (bindings t)))).
Proof. exact (@max_ok). Qed.

Theorem C18_map_minKey : forall (K V : Type) (cmp : K -> K -> Z) (phys_eq : forall A : Type, A -> A -> bool)
  (t : Map_t K V) (fuel : nat), avl t -> height t + 3 <= Z.of_nat fuel ->
  Map_minKey phys_eq cmp fuel t = Ok (of_option (option_map fst (hd_error (bindings t)))).
Proof. exact (@minKey_ok). Qed.

Theorem C18_map_maxKey : forall (K V : Type) (cmp : K -> K -> Z) (phys_eq : forall A : Type, A -> A -> bool)
  (t : Map_t K V) (fuel : nat), avl t -> height t + 3 <= Z.of_nat fuel ->
  Map_maxKey phys_eq cmp fuel t = Ok (of_option (option_map fst (last_opt (bindings t)))).
Proof. exact (@maxKey_ok). Qed.

Theorem C18_map_map : forall (K V V2 : Type) (cmp : K -> K -> Z) (phys_eq : forall A : Type, A -> A -> bool)
  (f : K -> V -> res V2) (g : K -> V -> V2), (forall k v, f k v = Ok (g k v)) ->
  forall (t : Map_t K V) (fuel : nat), avl t -> height t + 1 <= Z.of_nat fuel ->
  exists t', Map_map phys_eq cmp fuel t f = Ok t' /\ avl t' /\ height t' = height t
    /\ bindings t' = map (fun p => (fst p, g (fst p) (snd p))) (bindings t).
Proof. exact (@map_ok). Qed.

(* ---- union: the lookup function of the result is the combination of the lookups (and the result is a
   search tree, so by C18_spec_find_ext its bindings are determined) *)
Theorem C18_map_customizedUnion : forall (K V : Type) (cmp : K -> K -> Z), cmp_order cmp ->
  forall (phys_eq : forall A : Type, A -> A -> bool), oracle_sound phys_eq ->
  forall (f : K -> V -> V -> res (Option_t V)) (g : K -> V -> V -> option V),
  (forall k x y, f k x y = Ok (of_option (g k x y))) ->
  forall (fuel : nat) (t1 t2 : Map_t K V), avl t1 -> bst cmp t1 -> avl t2 -> bst cmp t2 ->
  2 * (height t1 + height t2) + 10 <= Z.of_nat fuel ->
  exists t, Map_customizedUnion phys_eq cmp fuel t1 t2 f = Ok t /\ avl t /\ bst cmp t
    /\ pointwise cmp (cu_comb g) (bindings t1) (bindings t2) (bindings t)
    /\ height t <= height t1 + height t2.
Proof. exact (@customizedUnion_ok). Qed.

Theorem C18_map_union : forall (K V : Type) (cmp : K -> K -> Z), cmp_order cmp ->
  forall (phys_eq : forall A : Type, A -> A -> bool), oracle_sound phys_eq ->
  forall (fuel : nat) (t1 t2 : Map_t K V), avl t1 -> bst cmp t1 -> avl t2 -> bst cmp t2 ->
  2 * (height t1 + height t2) + 11 <= Z.of_nat fuel ->
  exists t, Map_union phys_eq cmp fuel t1 t2 = Ok t /\ avl t /\ bst cmp t
    /\ pointwise cmp left_comb (bindings t1) (bindings t2) (bindings t)
    /\ height t <= height t1 + height t2.
Proof. exact (@union_ok). Qed.

(* =====================================================================  Set<V>
   A set is a finite map to unit: sbindings t : list (K * unit), elements t = map fst (sbindings t);
   savl / sbst are the AVL and search-tree invariants. *)
Theorem C18_set_balanced : forall (K : Type) (cmp : K -> K -> Z) (phys_eq : forall A : Type, A -> A -> bool)
  (fuel : nat) (l : Set_t K) (v : K) (r : Set_t K),
  savl l -> savl r -> -3 <= sheight l - sheight r <= 3 -> (3 <= fuel)%nat ->
  exists t, Set_balanced phys_eq cmp fuel l v r = Ok t /\ savl t
    /\ sbindings t = sbindings l ++ (v, tt) :: sbindings r
    /\ (Z.max (sheight l) (sheight r) <= sheight t <= Z.max (sheight l) (sheight r) + 1)
    /\ (-2 <= sheight l - sheight r <= 2 -> sheight t = Z.max (sheight l) (sheight r) + 1).
Proof. exact (@sbalanced_ok). Qed.

Theorem C18_set_contains : forall (K : Type) (cmp : K -> K -> Z), cmp_order cmp ->
  forall (phys_eq : forall A : Type, A -> A -> bool) (t : Set_t K) (x : K) (fuel : nat),
  savl t -> sbst cmp t -> sheight t + 1 <= Z.of_nat fuel ->
  Set_contains phys_eq cmp fuel t x = Ok (SetOps1.is_some (find cmp x (sbindings t))).
Proof. exact (@contains_ok). Qed.

Theorem C18_set_insert : forall (K : Type) (cmp : K -> K -> Z), cmp_order cmp ->
  forall (phys_eq : forall A : Type, A -> A -> bool), oracle_sound phys_eq ->
  forall (x : K) (t : Set_t K) (fuel : nat), savl t -> sbst cmp t -> sheight t + 4 <= Z.of_nat fuel ->
  exists t', Set_insert phys_eq cmp fuel t x = Ok t' /\ savl t' /\ sbindings t' = put cmp x tt (sbindings t)
             /\ sheight t <= sheight t' <= sheight t + 1.
Proof. exact (@sinsert_ok). Qed.

Theorem C18_set_join : forall (K : Type) (cmp : K -> K -> Z) (phys_eq : forall A : Type, A -> A -> bool)
  (v : K) (l r : Set_t K) (fuel : nat), savl l -> savl r -> sheight l + sheight r + 5 <= Z.of_nat fuel ->
  exists t, Set_join phys_eq cmp fuel l v r = Ok t /\ savl t
    /\ sbindings t = sbindings l ++ (v, tt) :: sbindings r
    /\ Z.max (sheight l) (sheight r) <= sheight t <= Z.max (sheight l) (sheight r) + 1 /\ 1 <= sheight t.
Proof. exact (@sjoin_ok). Qed.

Theorem C18_set_split : forall (K : Type) (cmp : K -> K -> Z), cmp_order cmp ->
  forall (phys_eq : forall A : Type, A -> A -> bool) (x : K) (t : Set_t K) (fuel : nat),
  savl t -> sbst cmp t -> 2 * sheight t + 4 <= Z.of_nat fuel ->
  exists l b r, Set_split phys_eq cmp fuel t x = Ok (Triple_init l b r)
    /\ savl l /\ savl r /\ sheight l <= sheight t /\ sheight r <= sheight t
    /\ sbindings l = below cmp x (sbindings t) /\ sbindings r = above cmp x (sbindings t)
    /\ b = SetOps1.is_some (find cmp x (sbindings t)).
Proof. exact (@ssplit_ok). Qed.

Theorem C18_set_min : forall (K : Type) (cmp : K -> K -> Z) (phys_eq : forall A : Type, A -> A -> bool)
  (t : Set_t K) (fuel : nat), savl t -> sheight t + 2 <= Z.of_nat fuel ->
  Set_min phys_eq cmp fuel t = Ok (of_option (option_map fst (hd_error (sbindings t)))).
Proof. exact (@smin_ok). Qed.

Theorem C18_set_max : forall (K : Type) (cmp : K -> K -> Z) (phys_eq : forall A : Type, A -> A -> bool)
  (t : Set_t K) (fuel : nat), savl t -> sheight t + 2 <= Z.of_nat fuel ->
  Set_max phys_eq cmp fuel t = Ok (of_option (option_map fst (last_opt (sbindings t)))).
Proof. exact (@smax_ok). Qed.

(* removeMin: "Invalid state for Set.removeMin" is unreachable on a non-empty set *)
Theorem C18_set_removeMin : forall (K : Type) (cmp : K -> K -> Z) (phys_eq : forall A : Type, A -> A -> bool)
  (t : Set_t K) (fuel : nat), savl t -> t <> Set_Empty -> sheight t + 4 <= Z.of_nat fuel ->
  exists t' p, Set_removeMin phys_eq cmp fuel t = Ok t' /\ savl t'
    /\ sbindings t = p :: sbindings t' /\ sheight t - 1 <= sheight t' <= sheight t.
Proof. exact (@sremoveMin_ok). Qed.

Theorem C18_set_concat : forall (K : Type) (cmp : K -> K -> Z) (phys_eq : forall A : Type, A -> A -> bool)
  (t1 t2 : Set_t K) (fuel : nat), savl t1 -> savl t2 -> sheight t1 + sheight t2 + 6 <= Z.of_nat fuel ->
  exists t, Set_concat phys_eq cmp fuel t1 t2 = Ok t /\ savl t
    /\ sbindings t = sbindings t1 ++ sbindings t2 /\ sheight t <= Z.max (sheight t1) (sheight t2) + 1.
Proof. exact (@sconcat_ok). Qed.

Theorem C18_set_remove : forall (K : Type) (cmp : K -> K -> Z), cmp_order cmp ->
  forall (phys_eq : forall A : Type, A -> A -> bool), oracle_sound phys_eq ->
  forall (x : K) (t : Set_t K) (fuel : nat), savl t -> sbst cmp t -> sheight t + 7 <= Z.of_nat fuel ->
  exists t', Set_remove phys_eq cmp fuel t x = Ok t' /\ savl t' /\ sbindings t' = del cmp x (sbindings t)
             /\ sheight t - 1 <= sheight t' <= sheight t.
Proof. exact (@sremove_ok). Qed.

Theorem C18_set_filter : forall (K : Type) (cmp : K -> K -> Z) (phys_eq : forall A : Type, A -> A -> bool),
  oracle_sound phys_eq ->
  forall (f : K -> res bool) (g : K -> bool), (forall k, f k = Ok (g k)) ->
  forall (t : Set_t K) (fuel : nat), savl t -> 2 * sheight t + 5 <= Z.of_nat fuel ->
  exists t', Set_filter phys_eq cmp fuel t f = Ok t' /\ savl t'
    /\ sbindings t' = afilter (kpred g) (sbindings t) /\ sheight t' <= sheight t.
Proof. exact (@sfilter_ok). Qed.

Theorem C18_set_partition : forall (K : Type) (cmp : K -> K -> Z) (phys_eq : forall A : Type, A -> A -> bool)
  (f : K -> res bool) (g : K -> bool), (forall k, f k = Ok (g k)) ->
  forall (t : Set_t K) (fuel : nat), savl t -> 2 * sheight t + 5 <= Z.of_nat fuel ->
  exists tt' tf, Set_partition phys_eq cmp fuel t f = Ok (Pair_init tt' tf) /\ savl tt' /\ savl tf
    /\ sbindings tt' = afilter (kpred g) (sbindings t)
    /\ sbindings tf = afilter (kpred (fun k => negb (g k))) (sbindings t)
    /\ sheight tt' <= sheight t /\ sheight tf <= sheight t.
Proof. exact (@spartition_ok). Qed.

Theorem C18_set_fold : forall (K : Type) (cmp : K -> K -> Z) (phys_eq : forall A : Type, A -> A -> bool)
  (A : Type) (f : A -> K -> res A) (g : A -> K -> A), (forall a k, f a k = Ok (g a k)) ->
  forall (t : Set_t K) (acc : A) (fuel : nat), savl t -> sheight t + 1 <= Z.of_nat fuel ->
  Set_fold phys_eq cmp fuel t acc f = Ok (fold_left g (elements t) acc).
Proof. exact (@sfold_ok). Qed.

Theorem C18_set_iter : forall (K : Type) (cmp : K -> K -> Z) (phys_eq : forall A : Type, A -> A -> bool)
  (f : K -> res unit), (forall k, f k = Ok tt) ->
  forall (t : Set_t K) (fuel : nat), savl t -> sheight t + 1 <= Z.of_nat fuel -> Set_iter phys_eq cmp fuel t f = Ok tt.
Proof. exact (@siter_ok). Qed.

Theorem C18_set_forAll : forall (K : Type) (cmp : K -> K -> Z) (phys_eq : forall A : Type, A -> A -> bool)
  (f : K -> res bool) (g : K -> bool), (forall k, f k = Ok (g k)) ->
  forall (t : Set_t K) (fuel : nat), savl t -> sheight t + 1 <= Z.of_nat fuel ->
  Set_forAll phys_eq cmp fuel t f = Ok (forallb g (elements t)).
Proof. exact (@sforAll_ok). Qed.

Theorem C18_set_exists : forall (K : Type) (cmp : K -> K -> Z) (phys_eq : forall A : Type, A -> A -> bool)
  (f : K -> res bool) (g : K -> bool), (forall k, f k = Ok (g k)) ->
  forall (t : Set_t K) (fuel : nat), savl t -> sheight t + 1 <= Z.of_nat fuel ->
  Set_exists phys_eq cmp fuel t f = Ok (existsb g (elements t)).
Proof. exact (@sexists_ok). Qed.

Theorem C18_set_size : forall (K : Type) (cmp : K -> K -> Z) (phys_eq : forall A : Type, A -> A -> bool)
  (t : Set_t K) (fuel : nat), savl t -> sheight t + 1 <= Z.of_nat fuel ->
  Set_size phys_eq cmp fuel t = Ok (Z.of_nat (length (elements t))).
Proof. exact (@ssize_ok). Qed.

Theorem C18_set_elements : forall (K : Type) (cmp : K -> K -> Z) (phys_eq : forall A : Type, A -> A -> bool)
  (t : Set_t K) (fuel : nat), savl t -> sheight t + 2 <= Z.of_nat fuel ->
  Set_elements phys_eq cmp fuel t = Ok (of_list (elements t)).
Proof. exact (@selements_ok). Qed.

Theorem C18_set_fromList : forall (K : Type) (cmp : K -> K -> Z), cmp_order cmp ->
  forall (phys_eq : forall A : Type, A -> A -> bool), oracle_sound phys_eq ->
  forall (l : list K) (fuel : nat), Z.of_nat (length l) + 6 <= Z.of_nat fuel ->
  exists t, Set_fromList phys_eq cmp fuel (of_list l) = Ok t /\ savl t /\ sbst cmp t
    /\ sbindings t = sadd_all cmp l [].
Proof. exact (@sfromList_ok). Qed.

Theorem C18_set_union : forall (K : Type) (cmp : K -> K -> Z), cmp_order cmp ->
  forall (phys_eq : forall A : Type, A -> A -> bool), oracle_sound phys_eq ->
  forall (fuel : nat) (t1 t2 : Set_t K), savl t1 -> sbst cmp t1 -> savl t2 -> sbst cmp t2 ->
  2 * (sheight t1 + sheight t2) + 8 <= Z.of_nat fuel ->
  exists t, Set_union phys_eq cmp fuel t1 t2 = Ok t /\ savl t /\ sbst cmp t
    /\ pointwise cmp or_comb (sbindings t1) (sbindings t2) (sbindings t)
    /\ sheight t <= sheight t1 + sheight t2.
Proof. exact (@sunion_ok). Qed.

Theorem C18_set_intersection : forall (K : Type) (cmp : K -> K -> Z), cmp_order cmp ->
  forall (phys_eq : forall A : Type, A -> A -> bool)
  (fuel : nat) (t1 t2 : Set_t K), savl t1 -> sbst cmp t1 -> savl t2 -> sbst cmp t2 ->
  2 * (sheight t1 + sheight t2) + 8 <= Z.of_nat fuel ->
  exists t, Set_intersection phys_eq cmp fuel t1 t2 = Ok t /\ savl t /\ sbst cmp t
    /\ pointwise cmp and_comb (sbindings t1) (sbindings t2) (sbindings t)
    /\ sheight t <= sheight t1 + sheight t2.
Proof. exact (@sinter_ok). Qed.

Theorem C18_set_disjoint : forall (K : Type) (cmp : K -> K -> Z), cmp_order cmp ->
  forall (phys_eq : forall A : Type, A -> A -> bool)
  (fuel : nat) (t1 t2 : Set_t K), savl t1 -> sbst cmp t1 -> savl t2 -> sbst cmp t2 ->
  2 * (sheight t1 + sheight t2) + 9 <= Z.of_nat fuel ->
  exists b, Set_disjoint phys_eq cmp fuel t1 t2 = Ok b /\
    (b = true <-> forall k, and_comb k (find cmp k (sbindings t1)) (find cmp k (sbindings t2)) = None).
Proof. exact (@sdisjoint_ok). Qed.

Theorem C18_set_diff : forall (K : Type) (cmp : K -> K -> Z), cmp_order cmp ->
  forall (phys_eq : forall A : Type, A -> A -> bool)
  (fuel : nat) (t1 t2 : Set_t K), savl t1 -> sbst cmp t1 -> savl t2 -> sbst cmp t2 ->
  2 * (sheight t1 + sheight t2) + 8 <= Z.of_nat fuel ->
  exists t, Set_diff phys_eq cmp fuel t1 t2 = Ok t /\ savl t /\ sbst cmp t
    /\ pointwise cmp diff_comb (sbindings t1) (sbindings t2) (sbindings t)
    /\ sheight t <= sheight t1 + sheight t2.
Proof. exact (@sdiff_ok). Qed.

(* the specification side: `put` on a sorted association list is finite-map update *)
Theorem C18_spec_put_sorted : forall (K : Type) (cmp : K -> K -> Z), cmp_order cmp ->
  forall (V : Type) (k : K) (v : V) (l : list (K * V)), sorted cmp l -> sorted cmp (put cmp k v l).
Proof. exact (@put_sorted). Qed.

Theorem C18_spec_find_put : forall (K : Type) (cmp : K -> K -> Z), cmp_order cmp ->
  forall (V : Type) (k : K) (v : V) (k' : K) (l : list (K * V)),
  find cmp k' (put cmp k v l) = if cmp k' k =? 0 then Some v else find cmp k' l.
Proof. exact (@find_put). Qed.

Theorem C18_spec_del_sorted : forall (K : Type) (cmp : K -> K -> Z) (V : Type) (k : K) (l : list (K * V)),
  sorted cmp l -> sorted cmp (del cmp k l).
Proof. exact (@del_sorted). Qed.

Theorem C18_spec_find_del : forall (K : Type) (cmp : K -> K -> Z), cmp_order cmp ->
  forall (V : Type) (k k' : K) (l : list (K * V)), sorted cmp l ->
  find cmp k' (del cmp k l) = if cmp k' k =? 0 then None else find cmp k' l.
Proof. exact (@find_del). Qed.

Theorem C18_spec_upd_sorted : forall (K : Type) (cmp : K -> K -> Z), cmp_order cmp ->
  forall (V : Type) (k : K) (g : option V -> option V) (l : list (K * V)), sorted cmp l -> sorted cmp (upd cmp k g l).
Proof. exact (@upd_sorted). Qed.

Theorem C18_spec_filter_sorted : forall (K : Type) (cmp : K -> K -> Z) (V : Type) (f : K -> V -> bool) (l : list (K * V)),
  sorted cmp l -> sorted cmp (afilter f l).
Proof. exact (@afilter_sorted). Qed.

(* a sorted association list is determined by its lookup function: this turns the pointwise
   statements about union / intersection / difference into statements about the bindings *)
Theorem C18_spec_find_ext : forall (K : Type) (cmp : K -> K -> Z), cmp_order cmp ->
  forall (V : Type) (l1 l2 : list (K * V)), sorted cmp l1 -> sorted cmp l2 ->
  (forall k, find cmp k l1 = find cmp k l2) -> l1 = l2.
Proof. exact (@find_ext). Qed.

(* ---- non-vacuity: the hypotheses hold of compare = a - b on Z and of a concrete 5-element tree *)
Lemma Zsub_order : cmp_order Z.sub.
Proof. split; intros; lia. Qed.

Definition demo : Map_t Z Z :=
  Map_Node 3 2 20 (Map_Leaf 1 10) (Map_Node 2 4 40 (Map_Leaf 3 30) (Map_Leaf 5 50)).

Example C18_nonvacuous :
  avl demo /\ bst Z.sub demo /\ oracle_sound (fun _ _ _ => false) /\
  Map_insert (fun _ _ _ => false) Z.sub 7 demo 6 60 =
    Ok (Map_Node 4 2 20 (Map_Leaf 1 10) (Map_Node 3 4 40 (Map_Leaf 3 30) (Map_Node 2 6 60 (Map_Leaf 5 50) Map_Empty))).
Proof.
  split; [cbn; lia|]. split; [cbn; repeat constructor; cbn; unfold lt; lia|]. split; [discriminate|].
  vm_compute. reflexivity.
Qed.

Print Assumptions C18_map_balanced.
Print Assumptions C18_map_get.
Print Assumptions C18_map_containsKey.
Print Assumptions C18_map_insert.
Print Assumptions C18_spec_put_sorted.
Print Assumptions C18_spec_find_put.
Print Assumptions C18_map_addMinBinding.
Print Assumptions C18_map_addMaxBinding.
Print Assumptions C18_map_addMinNode.
Print Assumptions C18_map_addMaxNode.
Print Assumptions C18_map_join.
Print Assumptions C18_map_removeMinBinding.
Print Assumptions C18_map_minBinding.
Print Assumptions C18_map_concat.
Print Assumptions C18_map_internalMerge.
Print Assumptions C18_map_split.
Print Assumptions C18_map_remove.
Print Assumptions C18_map_update.
Print Assumptions C18_map_filter.
Print Assumptions C18_map_partition.
Print Assumptions C18_map_fold.
Print Assumptions C18_map_iter.
Print Assumptions C18_map_forAll.
Print Assumptions C18_map_exists.
Print Assumptions C18_map_size.
Print Assumptions C18_map_isEmpty.
Print Assumptions C18_map_entries.
Print Assumptions C18_map_keys.
Print Assumptions C18_map_min.
Print Assumptions C18_map_max.
Print Assumptions C18_map_minKey.
Print Assumptions C18_map_maxKey.
Print Assumptions C18_map_map.
Print Assumptions C18_map_customizedUnion.
Print Assumptions C18_map_union.
Print Assumptions C18_set_balanced.
Print Assumptions C18_set_contains.
Print Assumptions C18_set_insert.
Print Assumptions C18_set_join.
Print Assumptions C18_set_split.
Print Assumptions C18_set_min.
Print Assumptions C18_set_max.
Print Assumptions C18_set_removeMin.
Print Assumptions C18_set_concat.
Print Assumptions C18_set_remove.
Print Assumptions C18_set_filter.
Print Assumptions C18_set_partition.
Print Assumptions C18_set_fold.
Print Assumptions C18_set_iter.
Print Assumptions C18_set_forAll.
Print Assumptions C18_set_exists.
Print Assumptions C18_set_size.
Print Assumptions C18_set_elements.
Print Assumptions C18_set_fromList.
Print Assumptions C18_set_union.
Print Assumptions C18_set_intersection.
Print Assumptions C18_set_disjoint.
Print Assumptions C18_set_diff.
Print Assumptions C18_spec_del_sorted.
Print Assumptions C18_spec_find_del.
Print Assumptions C18_spec_upd_sorted.
Print Assumptions C18_spec_filter_sorted.
Print Assumptions C18_spec_find_ext.
