(* C18 — the property theorems.  Nothing but statements closed by `exact`, their Print Assumptions,
   and non-vacuity examples.  Parsed by /verif/check.
   The functions Map_*, Set_*, List_* are the Gallina definitions that T-std (vh std-dump) regenerates
   from /repo/std/*.sam on every run (coq/generated/Std*.v); `res` is Ok | Panic | OutOfFuel. *)
From Coq Require Import List ZArith Lia Bool.
Import ListNotations.
From SVG Require Import StdPrelude StdInterfaces StdBoxed StdTuples StdOption StdList StdMap StdSet.
From SV Require Import C18.Spec C18.Conv C18.MapBase C18.MapOps1 C18.MapOps2 C18.MapOps3 C18.MapOps4 C18.MapOps5 C18.MapOps6
  C18.MapOps7 C18.MapOps8 C18.SetBase C18.SetOps1 C18.SetOps2 C18.SetOps3 C18.SetOps4 C18.ListOps C18.IntKey C18.MapSeq C18.SetSeq C18.SetOps5 C18.SetOps6 C18.OptionOps.
Open Scope Z_scope.

(* the oracle for `==` on non-primitive values may say `true` only on equal values *)
Definition oracle_sound (phys_eq : forall A : Type, A -> A -> bool) : Prop :=
  forall A (a b : A), phys_eq A a b = true -> a = b.

(* rebalancing: for sibling heights at most 3 apart (what insert/remove/join produce) `balanced` never
   reaches "Bad tree", restores the AVL invariant, keeps the bindings in order, fuel 3 suffices *)
Theorem C18_map_balanced : forall (K V : Type) (cmp : K -> K -> Z) (phys_eq : forall A : Type, A -> A -> bool)
  (fuel : nat) (l : Map_t K V) (k : K) (v : V) (r : Map_t K V),
  avl l -> avl r -> -3 <= height l - height r <= 3 -> (3 <= fuel)%nat ->
  exists t, Map_balanced phys_eq cmp fuel l k v r = Ok t /\ avl t
    /\ bindings t = bindings l ++ (k, v) :: bindings r
    /\ (Z.max (height l) (height r) <= height t <= Z.max (height l) (height r) + 1)
    /\ (-2 <= height l - height r <= 2 -> height t = Z.max (height l) (height r) + 1).
Proof. exact (@balanced_ok). Qed.

Theorem C18_map_get : forall (K V : Type) (cmp : K -> K -> Z), cmp_order cmp ->
  forall (phys_eq : forall A : Type, A -> A -> bool) (t : Map_t K V) (key : K) (fuel : nat),
  avl t -> bst cmp t -> height t + 1 <= Z.of_nat fuel ->
  Map_get phys_eq cmp fuel t key = Ok (of_option (find cmp key (bindings t))).
Proof. exact (@get_ok). Qed.

Theorem C18_map_containsKey : forall (K V : Type) (cmp : K -> K -> Z), cmp_order cmp ->
  forall (phys_eq : forall A : Type, A -> A -> bool) (t : Map_t K V) (key : K) (fuel : nat),
  avl t -> bst cmp t -> height t + 1 <= Z.of_nat fuel ->
  Map_containsKey phys_eq cmp fuel t key = Ok (is_some (find cmp key (bindings t))).
Proof. exact (@containsKey_ok). Qed.

Theorem C18_map_insert : forall (K V : Type) (cmp : K -> K -> Z), cmp_order cmp ->
  forall (phys_eq : forall A : Type, A -> A -> bool), oracle_sound phys_eq ->
  forall (k : K) (v : V) (t : Map_t K V) (fuel : nat),
  avl t -> bst cmp t -> height t + 4 <= Z.of_nat fuel ->
  exists t', Map_insert phys_eq cmp fuel t k v = Ok t' /\ avl t' /\ bindings t' = put cmp k v (bindings t)
             /\ height t <= height t' <= height t + 1.
Proof. exact (@insert_ok). Qed.

(* ---- internal building blocks (private members), all with "never Panic" and explicit fuel *)
Theorem C18_map_addMinBinding : forall (K V : Type) (cmp : K -> K -> Z) (phys_eq : forall A : Type, A -> A -> bool)
  (nk : K) (nv : V) (t : Map_t K V) (fuel : nat), avl t -> height t + 4 <= Z.of_nat fuel ->
  exists t', Map_addMinBinding phys_eq cmp fuel nk nv t = Ok t' /\ avl t'
    /\ bindings t' = (nk, nv) :: bindings t /\ height t <= height t' <= height t + 1 /\ 1 <= height t'.
Proof. exact (@addMinBinding_ok). Qed.

Theorem C18_map_addMaxBinding : forall (K V : Type) (cmp : K -> K -> Z) (phys_eq : forall A : Type, A -> A -> bool)
  (nk : K) (nv : V) (t : Map_t K V) (fuel : nat), avl t -> height t + 4 <= Z.of_nat fuel ->
  exists t', Map_addMaxBinding phys_eq cmp fuel nk nv t = Ok t' /\ avl t'
    /\ bindings t' = bindings t ++ [(nk, nv)] /\ height t <= height t' <= height t + 1 /\ 1 <= height t'.
Proof. exact (@addMaxBinding_ok). Qed.

Theorem C18_map_addMinNode : forall (K V : Type) (cmp : K -> K -> Z) (phys_eq : forall A : Type, A -> A -> bool)
  (nk : K) (nv : V) (t : Map_t K V) (fuel : nat), avl t -> height t + 4 <= Z.of_nat fuel ->
  exists t', Map_addMinNode phys_eq cmp fuel (Map_Leaf nk nv) t = Ok t' /\ avl t'
    /\ bindings t' = (nk, nv) :: bindings t /\ height t <= height t' <= height t + 1 /\ 1 <= height t'.
Proof. exact (@addMinNode_ok). Qed.

Theorem C18_map_addMaxNode : forall (K V : Type) (cmp : K -> K -> Z) (phys_eq : forall A : Type, A -> A -> bool)
  (nk : K) (nv : V) (t : Map_t K V) (fuel : nat), avl t -> height t + 4 <= Z.of_nat fuel ->
  exists t', Map_addMaxNode phys_eq cmp fuel (Map_Leaf nk nv) t = Ok t' /\ avl t'
    /\ bindings t' = bindings t ++ [(nk, nv)] /\ height t <= height t' <= height t + 1 /\ 1 <= height t'.
Proof. exact (@addMaxNode_ok). Qed.

(* join: any two AVL trees, no assumption on their relative heights *)
Theorem C18_map_join : forall (K V : Type) (cmp : K -> K -> Z) (phys_eq : forall A : Type, A -> A -> bool)
  (k : K) (v : V) (l r : Map_t K V) (fuel : nat), avl l -> avl r -> height l + height r + 5 <= Z.of_nat fuel ->
  exists t, Map_join phys_eq cmp fuel l k v r = Ok t /\ avl t
    /\ bindings t = bindings l ++ (k, v) :: bindings r
    /\ Z.max (height l) (height r) <= height t <= Z.max (height l) (height r) + 1 /\ 1 <= height t.
Proof. exact (@join_ok). Qed.

Theorem C18_map_removeMinBinding : forall (K V : Type) (cmp : K -> K -> Z) (phys_eq : forall A : Type, A -> A -> bool)
  (t : Map_t K V) (fuel : nat) h k v l r, t = Map_Node h k v l r -> avl t -> height t + 4 <= Z.of_nat fuel ->
  exists t' p, Map_removeMinBindingFromNodeUnsafe phys_eq cmp fuel t = Ok t' /\ avl t'
    /\ bindings t = p :: bindings t' /\ height t - 1 <= height t' <= height t.
Proof. exact (@removeMin_ok). Qed.

Theorem C18_map_minBinding : forall (K V : Type) (cmp : K -> K -> Z) (phys_eq : forall A : Type, A -> A -> bool)
  (t : Map_t K V) (fuel : nat) h k v l r, t = Map_Node h k v l r -> avl t -> height t + 2 <= Z.of_nat fuel ->
  exists mk mv rest, bindings t = (mk, mv) :: rest
    /\ Map_minBindingFromNodeUnsafe phys_eq cmp fuel t = Ok (Pair_init mk mv).
Proof. exact (@minBinding_ok). Qed.

Theorem C18_map_concat : forall (K V : Type) (cmp : K -> K -> Z) (phys_eq : forall A : Type, A -> A -> bool)
  (t1 t2 : Map_t K V) (fuel : nat), avl t1 -> avl t2 -> height t1 + height t2 + 6 <= Z.of_nat fuel ->
  exists t, Map_concat phys_eq cmp fuel t1 t2 = Ok t /\ avl t
    /\ bindings t = bindings t1 ++ bindings t2 /\ height t <= Z.max (height t1) (height t2) + 1.
Proof. exact (@concat_ok). Qed.

Theorem C18_map_internalMerge : forall (K V : Type) (cmp : K -> K -> Z) (phys_eq : forall A : Type, A -> A -> bool)
  (t1 t2 : Map_t K V) (fuel : nat), avl t1 -> avl t2 -> -2 <= height t1 - height t2 <= 2 ->
  Z.max (height t1) (height t2) + 6 <= Z.of_nat fuel ->
  exists t, Map_internalMerge phys_eq cmp fuel t1 t2 = Ok t /\ avl t
    /\ bindings t = bindings t1 ++ bindings t2
    /\ Z.max (height t1) (height t2) <= height t <= Z.max (height t1) (height t2) + 1.
Proof. exact (@internalMerge_ok). Qed.

Theorem C18_map_split : forall (K V : Type) (cmp : K -> K -> Z), cmp_order cmp ->
  forall (phys_eq : forall A : Type, A -> A -> bool) (key : K) (t : Map_t K V) (fuel : nat),
  avl t -> bst cmp t -> 2 * height t + 4 <= Z.of_nat fuel ->
  exists l o r, Map_split phys_eq cmp fuel t key = Ok (Triple_init l o r)
    /\ avl l /\ avl r /\ height l <= height t /\ height r <= height t
    /\ bindings l = below cmp key (bindings t) /\ bindings r = above cmp key (bindings t)
    /\ o = of_option (find cmp key (bindings t)).
Proof. exact (@split_ok). Qed.

(* ---- public modifiers *)
Theorem C18_map_remove : forall (K V : Type) (cmp : K -> K -> Z), cmp_order cmp ->
  forall (phys_eq : forall A : Type, A -> A -> bool), oracle_sound phys_eq ->
  forall (key : K) (t : Map_t K V) (fuel : nat),
  avl t -> bst cmp t -> height t + 7 <= Z.of_nat fuel ->
  exists t', Map_remove phys_eq cmp fuel t key = Ok t' /\ avl t' /\ bindings t' = del cmp key (bindings t)
             /\ height t - 1 <= height t' <= height t.
Proof. exact (@remove_ok). Qed.

Theorem C18_map_update : forall (K V : Type) (cmp : K -> K -> Z), cmp_order cmp ->
  forall (phys_eq : forall A : Type, A -> A -> bool), oracle_sound phys_eq ->
  forall (key : K) (f : Option_t V -> res (Option_t V)) (g : option V -> option V),
  (forall o, f o = Ok (of_option (g (to_option o)))) ->
  forall (t : Map_t K V) (fuel : nat), avl t -> bst cmp t -> height t + 8 <= Z.of_nat fuel ->
  exists t', Map_update phys_eq cmp fuel t key f = Ok t' /\ avl t'
    /\ bindings t' = upd cmp key g (bindings t) /\ height t - 1 <= height t' <= height t + 1.
Proof. exact (@update_ok). Qed.

Theorem C18_map_filter : forall (K V : Type) (cmp : K -> K -> Z) (phys_eq : forall A : Type, A -> A -> bool),
  oracle_sound phys_eq ->
  forall (f : K -> V -> res bool) (g : K -> V -> bool), (forall k v, f k v = Ok (g k v)) ->
  forall (t : Map_t K V) (fuel : nat), avl t -> 2 * height t + 5 <= Z.of_nat fuel ->
  exists t', Map_filter phys_eq cmp fuel t f = Ok t' /\ avl t'
    /\ bindings t' = afilter g (bindings t) /\ height t' <= height t.
Proof. exact (@filter_ok). Qed.

Theorem C18_map_partition : forall (K V : Type) (cmp : K -> K -> Z) (phys_eq : forall A : Type, A -> A -> bool)
  (f : K -> V -> res bool) (g : K -> V -> bool), (forall k v, f k v = Ok (g k v)) ->
  forall (t : Map_t K V) (fuel : nat), avl t -> 2 * height t + 5 <= Z.of_nat fuel ->
  exists tt tf, Map_partition phys_eq cmp fuel t f = Ok (Pair_init tt tf) /\ avl tt /\ avl tf
    /\ bindings tt = afilter g (bindings t) /\ bindings tf = afilter (fun k v => negb (g k v)) (bindings t)
    /\ height tt <= height t /\ height tf <= height t.
Proof. exact (@partition_ok). Qed.

(* ---- observers *)
Theorem C18_map_fold : forall (K V : Type) (cmp : K -> K -> Z) (phys_eq : forall A : Type, A -> A -> bool)
  (A : Type) (f : A -> K -> V -> res A) (g : A -> K -> V -> A), (forall a k v, f a k v = Ok (g a k v)) ->
  forall (t : Map_t K V) (acc : A) (fuel : nat), avl t -> height t + 1 <= Z.of_nat fuel ->
  Map_fold phys_eq cmp fuel t acc f = Ok (afold g (bindings t) acc).
Proof. exact (@fold_ok). Qed.

Theorem C18_map_iter : forall (K V : Type) (cmp : K -> K -> Z) (phys_eq : forall A : Type, A -> A -> bool)
  (f : K -> V -> res unit), (forall k v, f k v = Ok tt) ->
  forall (t : Map_t K V) (fuel : nat), avl t -> height t + 1 <= Z.of_nat fuel -> Map_iter phys_eq cmp fuel t f = Ok tt.
Proof. exact (@iter_ok). Qed.

Theorem C18_map_forAll : forall (K V : Type) (cmp : K -> K -> Z) (phys_eq : forall A : Type, A -> A -> bool)
  (f : K -> V -> res bool) (g : K -> V -> bool), (forall k v, f k v = Ok (g k v)) ->
  forall (t : Map_t K V) (fuel : nat), avl t -> height t + 1 <= Z.of_nat fuel ->
  Map_forAll phys_eq cmp fuel t f = Ok (forallb (pred_of g) (bindings t)).
Proof. exact (@forAll_ok). Qed.

Theorem C18_map_exists : forall (K V : Type) (cmp : K -> K -> Z) (phys_eq : forall A : Type, A -> A -> bool)
  (f : K -> V -> res bool) (g : K -> V -> bool), (forall k v, f k v = Ok (g k v)) ->
  forall (t : Map_t K V) (fuel : nat), avl t -> height t + 1 <= Z.of_nat fuel ->
  Map_exists phys_eq cmp fuel t f = Ok (existsb (pred_of g) (bindings t)).
Proof. exact (@exists_ok). Qed.

Theorem C18_map_size : forall (K V : Type) (cmp : K -> K -> Z) (phys_eq : forall A : Type, A -> A -> bool)
  (t : Map_t K V) (fuel : nat), avl t -> height t + 1 <= Z.of_nat fuel ->
  Map_size phys_eq cmp fuel t = Ok (Z.of_nat (length (bindings t))).
Proof. exact (@size_ok). Qed.

Theorem C18_map_isEmpty : forall (K V : Type) (cmp : K -> K -> Z) (phys_eq : forall A : Type, A -> A -> bool)
  (fuel : nat) (t : Map_t K V), (1 <= fuel)%nat ->
  Map_isEmpty phys_eq cmp fuel t = Ok (match t with Map_Empty => true | _ => false end).
Proof. exact (@isEmpty_ok). Qed.

Theorem C18_map_entries : forall (K V : Type) (cmp : K -> K -> Z) (phys_eq : forall A : Type, A -> A -> bool)
  (t : Map_t K V) (fuel : nat), avl t -> height t + 2 <= Z.of_nat fuel ->
  Map_entries phys_eq cmp fuel t = Ok (of_list (map of_pair (bindings t))).
Proof. exact (@entries_ok). Qed.

Theorem C18_map_keys : forall (K V : Type) (cmp : K -> K -> Z) (phys_eq : forall A : Type, A -> A -> bool)
  (t : Map_t K V) (fuel : nat), avl t -> height t + 2 <= Z.of_nat fuel ->
  Map_keys phys_eq cmp fuel t = Ok (of_list (map fst (bindings t))).
Proof. exact (@keys_ok). Qed.

Theorem C18_map_min : forall (K V : Type) (cmp : K -> K -> Z) (phys_eq : forall A : Type, A -> A -> bool)
  (t : Map_t K V) (fuel : nat), avl t -> height t + 2 <= Z.of_nat fuel ->
  Map_min phys_eq cmp fuel t = Ok (of_option (option_map of_pair (hd_error (bindings t)))).
Proof. exact (@min_ok). Qed.

Theorem C18_map_max : forall (K V : Type) (cmp : K -> K -> Z) (phys_eq : forall A : Type, A -> A -> bool)
  (t : Map_t K V) (fuel : nat), avl t -> height t + 2 <= Z.of_nat fuel ->
  Map_max phys_eq cmp fuel t = Ok (of_option (option_map of_pair (last_opt (bindings t)))).
Proof. exact (@max_ok). Qed.

Theorem C18_map_minKey : forall (K V : Type) (cmp : K -> K -> Z) (phys_eq : forall A : Type, A -> A -> bool)
  (t : Map_t K V) (fuel : nat), avl t -> height t + 3 <= Z.of_nat fuel ->
  Map_minKey phys_eq cmp fuel t = Ok (of_option (option_map fst (hd_error (bindings t)))).
Proof. exact (@minKey_ok). Qed.

Theorem C18_map_maxKey : forall (K V : Type) (cmp : K -> K -> Z) (phys_eq : forall A : Type, A -> A -> bool)
  (t : Map_t K V) (fuel : nat), avl t -> height t + 3 <= Z.of_nat fuel ->
  Map_maxKey phys_eq cmp fuel t = Ok (of_option (option_map fst (last_opt (bindings t)))).
Proof. exact (@maxKey_ok). Qed.

Theorem C18_map_map : forall (K V V2 : Type) (cmp : K -> K -> Z) (phys_eq : forall A : Type, A -> A -> bool)
  (f : K -> V -> res V2) (g : K -> V -> V2), (forall k v, f k v = Ok (g k v)) ->
  forall (t : Map_t K V) (fuel : nat), avl t -> height t + 1 <= Z.of_nat fuel ->
  exists t', Map_map phys_eq cmp fuel t f = Ok t' /\ avl t' /\ height t' = height t
    /\ bindings t' = map (fun p => (fst p, g (fst p) (snd p))) (bindings t).
Proof. exact (@map_ok). Qed.

(* ---- union: the lookup function of the result is the combination of the lookups (and the result is a
   search tree, so by C18_spec_find_ext its bindings are determined) *)
Theorem C18_map_customizedUnion : forall (K V : Type) (cmp : K -> K -> Z), cmp_order cmp ->
  forall (phys_eq : forall A : Type, A -> A -> bool), oracle_sound phys_eq ->
  forall (f : K -> V -> V -> res (Option_t V)) (g : K -> V -> V -> option V),
  (forall k x y, f k x y = Ok (of_option (g k x y))) ->
  forall (fuel : nat) (t1 t2 : Map_t K V), avl t1 -> bst cmp t1 -> avl t2 -> bst cmp t2 ->
  2 * (height t1 + height t2) + 10 <= Z.of_nat fuel ->
  exists t, Map_customizedUnion phys_eq cmp fuel t1 t2 f = Ok t /\ avl t /\ bst cmp t
    /\ pointwise cmp (cu_comb g) (bindings t1) (bindings t2) (bindings t)
    /\ height t <= height t1 + height t2.
Proof. exact (@customizedUnion_ok). Qed.

Theorem C18_map_union : forall (K V : Type) (cmp : K -> K -> Z), cmp_order cmp ->
  forall (phys_eq : forall A : Type, A -> A -> bool), oracle_sound phys_eq ->
  forall (fuel : nat) (t1 t2 : Map_t K V), avl t1 -> bst cmp t1 -> avl t2 -> bst cmp t2 ->
  2 * (height t1 + height t2) + 11 <= Z.of_nat fuel ->
  exists t, Map_union phys_eq cmp fuel t1 t2 = Ok t /\ avl t /\ bst cmp t
    /\ pointwise cmp left_comb (bindings t1) (bindings t2) (bindings t)
    /\ height t <= height t1 + height t2.
Proof. exact (@union_ok). Qed.

(* merge: "Invalid state" is unreachable; f sees both optional values of every key of either map *)
Theorem C18_map_merge : forall (K V V2 V3 : Type) (cmp : K -> K -> Z), cmp_order cmp ->
  forall (phys_eq : forall A : Type, A -> A -> bool)
  (f : K -> Option_t V -> Option_t V2 -> res (Option_t V3)) (g : K -> option V -> option V2 -> option V3),
  (forall k a b, f k a b = Ok (of_option (g k (to_option a) (to_option b)))) ->
  forall (fuel : nat) (t1 : Map_t K V) (t2 : Map_t K V2), avl t1 -> bst cmp t1 -> avl t2 -> bst cmp t2 ->
  2 * (height t1 + height t2) + 10 <= Z.of_nat fuel ->
  exists t, Map_merge phys_eq cmp fuel t1 t2 f = Ok t /\ avl t /\ bst cmp t
    /\ pointwise cmp (merge_comb g) (bindings t1) (bindings t2) (bindings t)
    /\ height t <= height t1 + height t2.
Proof. exact (@merge_ok). Qed.

(* compare / equal: lexicographic on the bindings in key order (fuel: one step per binding) *)
Theorem C18_map_compare : forall (K V : Type) (cmp : K -> K -> Z) (phys_eq : forall A : Type, A -> A -> bool)
  (f : V -> V -> res Z) (g : V -> V -> Z), (forall a b, f a b = Ok (g a b)) ->
  forall (t1 t2 : Map_t K V) (fuel : nat), avl t1 -> avl t2 ->
  Z.of_nat (length (bindings t1)) + Z.max (height t1) (height t2) + 4 <= Z.of_nat fuel ->
  Map_compare phys_eq cmp fuel t1 t2 f = Ok (alex cmp g (bindings t1) (bindings t2)).
Proof. exact (@compare_ok). Qed.

Theorem C18_map_equal : forall (K V : Type) (cmp : K -> K -> Z) (phys_eq : forall A : Type, A -> A -> bool)
  (f : V -> V -> res bool) (g : V -> V -> bool), (forall a b, f a b = Ok (g a b)) ->
  forall (t1 t2 : Map_t K V) (fuel : nat), avl t1 -> avl t2 ->
  Z.of_nat (length (bindings t1)) + Z.max (height t1) (height t2) + 4 <= Z.of_nat fuel ->
  Map_equal phys_eq cmp fuel t1 t2 f = Ok (aeqb cmp g (bindings t1) (bindings t2)).
Proof. exact (@equal_ok). Qed.

(* ---- the property in its literal form for Map: ANY sequence of insert / remove / update / filter / union
   (MapSeq.mop; `run` applies the generated functions, `spec_step` the sorted-association-list operations),
   started from any valid map (e.g. Map_Empty), never panics, needs fuel linear in the number of operations,
   keeps the invariants and ends in exactly the specified bindings.  The observers (get, containsKey, fold,
   entries, keys, min, max, size, ...) are then given by their own theorems on that valid state. *)
Theorem C18_map_sequences : forall (K V : Type) (cmp : K -> K -> Z), cmp_order cmp ->
  forall (phys_eq : forall A : Type, A -> A -> bool), oracle_sound phys_eq ->
  forall (ops : list (MapSeq.mop (K:=K) (V:=V))) (t : Map_t K V) (fuel : nat), avl t -> bst cmp t ->
  2 * (height t + MapSeq.total_cost ops) + 11 <= Z.of_nat fuel ->
  exists t', MapSeq.run cmp phys_eq fuel t ops = Ok t' /\ avl t' /\ bst cmp t'
    /\ bindings t' = fold_left (MapSeq.spec_step cmp) ops (bindings t).
Proof. exact (@MapSeq.run_ok). Qed.

(* =====================================================================  Set<V>
   A set is a finite map to unit: sbindings t : list (K * unit), elements t = map fst (sbindings t);
   savl / sbst are the AVL and search-tree invariants. *)
Theorem C18_set_balanced : forall (K : Type) (cmp : K -> K -> Z) (phys_eq : forall A : Type, A -> A -> bool)
  (fuel : nat) (l : Set_t K) (v : K) (r : Set_t K),
  savl l -> savl r -> -3 <= sheight l - sheight r <= 3 -> (3 <= fuel)%nat ->
  exists t, Set_balanced phys_eq cmp fuel l v r = Ok t /\ savl t
    /\ sbindings t = sbindings l ++ (v, tt) :: sbindings r
    /\ (Z.max (sheight l) (sheight r) <= sheight t <= Z.max (sheight l) (sheight r) + 1)
    /\ (-2 <= sheight l - sheight r <= 2 -> sheight t = Z.max (sheight l) (sheight r) + 1).
Proof. exact (@sbalanced_ok). Qed.

Theorem C18_set_contains : forall (K : Type) (cmp : K -> K -> Z), cmp_order cmp ->
  forall (phys_eq : forall A : Type, A -> A -> bool) (t : Set_t K) (x : K) (fuel : nat),
  savl t -> sbst cmp t -> sheight t + 1 <= Z.of_nat fuel ->
  Set_contains phys_eq cmp fuel t x = Ok (SetOps1.is_some (find cmp x (sbindings t))).
Proof. exact (@contains_ok). Qed.

Theorem C18_set_insert : forall (K : Type) (cmp : K -> K -> Z), cmp_order cmp ->
  forall (phys_eq : forall A : Type, A -> A -> bool), oracle_sound phys_eq ->
  forall (x : K) (t : Set_t K) (fuel : nat), savl t -> sbst cmp t -> sheight t + 4 <= Z.of_nat fuel ->
  exists t', Set_insert phys_eq cmp fuel t x = Ok t' /\ savl t' /\ sbindings t' = put cmp x tt (sbindings t)
             /\ sheight t <= sheight t' <= sheight t + 1.
Proof. exact (@sinsert_ok). Qed.

Theorem C18_set_join : forall (K : Type) (cmp : K -> K -> Z) (phys_eq : forall A : Type, A -> A -> bool)
  (v : K) (l r : Set_t K) (fuel : nat), savl l -> savl r -> sheight l + sheight r + 5 <= Z.of_nat fuel ->
  exists t, Set_join phys_eq cmp fuel l v r = Ok t /\ savl t
    /\ sbindings t = sbindings l ++ (v, tt) :: sbindings r
    /\ Z.max (sheight l) (sheight r) <= sheight t <= Z.max (sheight l) (sheight r) + 1 /\ 1 <= sheight t.
Proof. exact (@sjoin_ok). Qed.

Theorem C18_set_split : forall (K : Type) (cmp : K -> K -> Z), cmp_order cmp ->
  forall (phys_eq : forall A : Type, A -> A -> bool) (x : K) (t : Set_t K) (fuel : nat),
  savl t -> sbst cmp t -> 2 * sheight t + 4 <= Z.of_nat fuel ->
  exists l b r, Set_split phys_eq cmp fuel t x = Ok (Triple_init l b r)
    /\ savl l /\ savl r /\ sheight l <= sheight t /\ sheight r <= sheight t
    /\ sbindings l = below cmp x (sbindings t) /\ sbindings r = above cmp x (sbindings t)
    /\ b = SetOps1.is_some (find cmp x (sbindings t)).
Proof. exact (@ssplit_ok). Qed.

Theorem C18_set_min : forall (K : Type) (cmp : K -> K -> Z) (phys_eq : forall A : Type, A -> A -> bool)
  (t : Set_t K) (fuel : nat), savl t -> sheight t + 2 <= Z.of_nat fuel ->
  Set_min phys_eq cmp fuel t = Ok (of_option (option_map fst (hd_error (sbindings t)))).
Proof. exact (@smin_ok). Qed.

Theorem C18_set_max : forall (K : Type) (cmp : K -> K -> Z) (phys_eq : forall A : Type, A -> A -> bool)
  (t : Set_t K) (fuel : nat), savl t -> sheight t + 2 <= Z.of_nat fuel ->
  Set_max phys_eq cmp fuel t = Ok (of_option (option_map fst (last_opt (sbindings t)))).
Proof. exact (@smax_ok). Qed.

(* removeMin: "Invalid state for Set.removeMin" is unreachable on a non-empty set *)
Theorem C18_set_removeMin : forall (K : Type) (cmp : K -> K -> Z) (phys_eq : forall A : Type, A -> A -> bool)
  (t : Set_t K) (fuel : nat), savl t -> t <> Set_Empty -> sheight t + 4 <= Z.of_nat fuel ->
  exists t' p, Set_removeMin phys_eq cmp fuel t = Ok t' /\ savl t'
    /\ sbindings t = p :: sbindings t' /\ sheight t - 1 <= sheight t' <= sheight t.
Proof. exact (@sremoveMin_ok). Qed.

Theorem C18_set_concat : forall (K : Type) (cmp : K -> K -> Z) (phys_eq : forall A : Type, A -> A -> bool)
  (t1 t2 : Set_t K) (fuel : nat), savl t1 -> savl t2 -> sheight t1 + sheight t2 + 6 <= Z.of_nat fuel ->
  exists t, Set_concat phys_eq cmp fuel t1 t2 = Ok t /\ savl t
    /\ sbindings t = sbindings t1 ++ sbindings t2 /\ sheight t <= Z.max (sheight t1) (sheight t2) + 1.
Proof. exact (@sconcat_ok). Qed.

Theorem C18_set_remove : forall (K : Type) (cmp : K -> K -> Z), cmp_order cmp ->
  forall (phys_eq : forall A : Type, A -> A -> bool), oracle_sound phys_eq ->
  forall (x : K) (t : Set_t K) (fuel : nat), savl t -> sbst cmp t -> sheight t + 7 <= Z.of_nat fuel ->
  exists t', Set_remove phys_eq cmp fuel t x = Ok t' /\ savl t' /\ sbindings t' = del cmp x (sbindings t)
             /\ sheight t - 1 <= sheight t' <= sheight t.
Proof. exact (@sremove_ok). Qed.

Theorem C18_set_filter : forall (K : Type) (cmp : K -> K -> Z) (phys_eq : forall A : Type, A -> A -> bool),
  oracle_sound phys_eq ->
  forall (f : K -> res bool) (g : K -> bool), (forall k, f k = Ok (g k)) ->
  forall (t : Set_t K) (fuel : nat), savl t -> 2 * sheight t + 5 <= Z.of_nat fuel ->
  exists t', Set_filter phys_eq cmp fuel t f = Ok t' /\ savl t'
    /\ sbindings t' = afilter (kpred g) (sbindings t) /\ sheight t' <= sheight t.
Proof. exact (@sfilter_ok). Qed.

Theorem C18_set_partition : forall (K : Type) (cmp : K -> K -> Z) (phys_eq : forall A : Type, A -> A -> bool)
  (f : K -> res bool) (g : K -> bool), (forall k, f k = Ok (g k)) ->
  forall (t : Set_t K) (fuel : nat), savl t -> 2 * sheight t + 5 <= Z.of_nat fuel ->
  exists tt' tf, Set_partition phys_eq cmp fuel t f = Ok (Pair_init tt' tf) /\ savl tt' /\ savl tf
    /\ sbindings tt' = afilter (kpred g) (sbindings t)
    /\ sbindings tf = afilter (kpred (fun k => negb (g k))) (sbindings t)
    /\ sheight tt' <= sheight t /\ sheight tf <= sheight t.
Proof. exact (@spartition_ok). Qed.

Theorem C18_set_fold : forall (K : Type) (cmp : K -> K -> Z) (phys_eq : forall A : Type, A -> A -> bool)
  (A : Type) (f : A -> K -> res A) (g : A -> K -> A), (forall a k, f a k = Ok (g a k)) ->
  forall (t : Set_t K) (acc : A) (fuel : nat), savl t -> sheight t + 1 <= Z.of_nat fuel ->
  Set_fold phys_eq cmp fuel t acc f = Ok (fold_left g (elements t) acc).
Proof. exact (@sfold_ok). Qed.

Theorem C18_set_iter : forall (K : Type) (cmp : K -> K -> Z) (phys_eq : forall A : Type, A -> A -> bool)
  (f : K -> res unit), (forall k, f k = Ok tt) ->
  forall (t : Set_t K) (fuel : nat), savl t -> sheight t + 1 <= Z.of_nat fuel -> Set_iter phys_eq cmp fuel t f = Ok tt.
Proof. exact (@siter_ok). Qed.

Theorem C18_set_forAll : forall (K : Type) (cmp : K -> K -> Z) (phys_eq : forall A : Type, A -> A -> bool)
  (f : K -> res bool) (g : K -> bool), (forall k, f k = Ok (g k)) ->
  forall (t : Set_t K) (fuel : nat), savl t -> sheight t + 1 <= Z.of_nat fuel ->
  Set_forAll phys_eq cmp fuel t f = Ok (forallb g (elements t)).
Proof. exact (@sforAll_ok). Qed.

Theorem C18_set_exists : forall (K : Type) (cmp : K -> K -> Z) (phys_eq : forall A : Type, A -> A -> bool)
  (f : K -> res bool) (g : K -> bool), (forall k, f k = Ok (g k)) ->
  forall (t : Set_t K) (fuel : nat), savl t -> sheight t + 1 <= Z.of_nat fuel ->
  Set_exists phys_eq cmp fuel t f = Ok (existsb g (elements t)).
Proof. exact (@sexists_ok). Qed.

Theorem C18_set_size : forall (K : Type) (cmp : K -> K -> Z) (phys_eq : forall A : Type, A -> A -> bool)
  (t : Set_t K) (fuel : nat), savl t -> sheight t + 1 <= Z.of_nat fuel ->
  Set_size phys_eq cmp fuel t = Ok (Z.of_nat (length (elements t))).
Proof. exact (@ssize_ok). Qed.

Theorem C18_set_elements : forall (K : Type) (cmp : K -> K -> Z) (phys_eq : forall A : Type, A -> A -> bool)
  (t : Set_t K) (fuel : nat), savl t -> sheight t + 2 <= Z.of_nat fuel ->
  Set_elements phys_eq cmp fuel t = Ok (of_list (elements t)).
Proof. exact (@selements_ok). Qed.

Theorem C18_set_fromList : forall (K : Type) (cmp : K -> K -> Z), cmp_order cmp ->
  forall (phys_eq : forall A : Type, A -> A -> bool), oracle_sound phys_eq ->
  forall (l : list K) (fuel : nat), Z.of_nat (length l) + 6 <= Z.of_nat fuel ->
  exists t, Set_fromList phys_eq cmp fuel (of_list l) = Ok t /\ savl t /\ sbst cmp t
    /\ sbindings t = sadd_all cmp l [].
Proof. exact (@sfromList_ok). Qed.

Theorem C18_set_union : forall (K : Type) (cmp : K -> K -> Z), cmp_order cmp ->
  forall (phys_eq : forall A : Type, A -> A -> bool), oracle_sound phys_eq ->
  forall (fuel : nat) (t1 t2 : Set_t K), savl t1 -> sbst cmp t1 -> savl t2 -> sbst cmp t2 ->
  2 * (sheight t1 + sheight t2) + 8 <= Z.of_nat fuel ->
  exists t, Set_union phys_eq cmp fuel t1 t2 = Ok t /\ savl t /\ sbst cmp t
    /\ pointwise cmp or_comb (sbindings t1) (sbindings t2) (sbindings t)
    /\ sheight t <= sheight t1 + sheight t2.
Proof. exact (@sunion_ok). Qed.

Theorem C18_set_intersection : forall (K : Type) (cmp : K -> K -> Z), cmp_order cmp ->
  forall (phys_eq : forall A : Type, A -> A -> bool)
  (fuel : nat) (t1 t2 : Set_t K), savl t1 -> sbst cmp t1 -> savl t2 -> sbst cmp t2 ->
  2 * (sheight t1 + sheight t2) + 8 <= Z.of_nat fuel ->
  exists t, Set_intersection phys_eq cmp fuel t1 t2 = Ok t /\ savl t /\ sbst cmp t
    /\ pointwise cmp and_comb (sbindings t1) (sbindings t2) (sbindings t)
    /\ sheight t <= sheight t1 + sheight t2.
Proof. exact (@sinter_ok). Qed.

Theorem C18_set_disjoint : forall (K : Type) (cmp : K -> K -> Z), cmp_order cmp ->
  forall (phys_eq : forall A : Type, A -> A -> bool)
  (fuel : nat) (t1 t2 : Set_t K), savl t1 -> sbst cmp t1 -> savl t2 -> sbst cmp t2 ->
  2 * (sheight t1 + sheight t2) + 9 <= Z.of_nat fuel ->
  exists b, Set_disjoint phys_eq cmp fuel t1 t2 = Ok b /\
    (b = true <-> forall k, and_comb k (find cmp k (sbindings t1)) (find cmp k (sbindings t2)) = None).
Proof. exact (@sdisjoint_ok). Qed.

Theorem C18_set_diff : forall (K : Type) (cmp : K -> K -> Z), cmp_order cmp ->
  forall (phys_eq : forall A : Type, A -> A -> bool)
  (fuel : nat) (t1 t2 : Set_t K), savl t1 -> sbst cmp t1 -> savl t2 -> sbst cmp t2 ->
  2 * (sheight t1 + sheight t2) + 8 <= Z.of_nat fuel ->
  exists t, Set_diff phys_eq cmp fuel t1 t2 = Ok t /\ savl t /\ sbst cmp t
    /\ pointwise cmp diff_comb (sbindings t1) (sbindings t2) (sbindings t)
    /\ sheight t <= sheight t1 + sheight t2.
Proof. exact (@sdiff_ok). Qed.

Theorem C18_set_subset : forall (K : Type) (cmp : K -> K -> Z), cmp_order cmp ->
  forall (phys_eq : forall A : Type, A -> A -> bool) (fuel : nat) (t1 t2 : Set_t K),
  savl t1 -> sbst cmp t1 -> savl t2 -> sbst cmp t2 -> sheight t1 + sheight t2 + 4 <= Z.of_nat fuel ->
  Set_subset phys_eq cmp fuel t1 t2 = Ok (forallb (memb cmp (sbindings t2)) (elements t1)).
Proof. exact (@subset_ok). Qed.

Theorem C18_set_tryJoin : forall (K : Type) (cmp : K -> K -> Z), cmp_order cmp ->
  forall (phys_eq : forall A : Type, A -> A -> bool), oracle_sound phys_eq ->
  forall (l : Set_t K) (v : K) (r : Set_t K) (fuel : nat), savl l -> sbst cmp l -> savl r -> sbst cmp r ->
  2 * (sheight l + sheight r) + 14 <= Z.of_nat fuel ->
  exists t, Set_tryJoin phys_eq cmp fuel l v r = Ok t /\ savl t /\ sbst cmp t
    /\ (forall k, memb cmp (sbindings t) k = memb cmp (sbindings l) k || (cmp k v =? 0) || memb cmp (sbindings r) k)
    /\ sheight t <= sheight l + sheight r + 1.
Proof. exact (@tryJoin_ok). Qed.

(* map(f): exactly the images of the elements (fuel in terms of the size of the set) *)
Theorem C18_set_map : forall (K : Type) (cmp : K -> K -> Z), cmp_order cmp ->
  forall (phys_eq : forall A : Type, A -> A -> bool), oracle_sound phys_eq ->
  forall (f : K -> res K) (g : K -> K), (forall x, f x = Ok (g x)) ->
  forall (t : Set_t K) (fuel : nat), savl t -> sbst cmp t -> 4 * Z.of_nat (length (sbindings t)) + 16 <= Z.of_nat fuel ->
  exists t', Set_map phys_eq cmp fuel t f = Ok t' /\ savl t' /\ sbst cmp t'
    /\ (forall k, memb cmp (sbindings t') k = hits cmp g (elements t) k)
    /\ (length (sbindings t') <= length (sbindings t))%nat.
Proof. exact (@smap_ok). Qed.

(* any sequence of insert / remove / filter / union / intersection / difference on sets *)
Theorem C18_set_sequences : forall (K : Type) (cmp : K -> K -> Z), cmp_order cmp ->
  forall (phys_eq : forall A : Type, A -> A -> bool), oracle_sound phys_eq ->
  forall (ops : list (SetSeq.sop (K:=K))) (t : Set_t K) (fuel : nat), savl t -> sbst cmp t ->
  2 * (sheight t + SetSeq.stotal_cost ops) + 11 <= Z.of_nat fuel ->
  exists t', SetSeq.srun cmp phys_eq fuel t ops = Ok t' /\ savl t' /\ sbst cmp t'
    /\ sbindings t' = fold_left (SetSeq.spec_sstep cmp) ops (sbindings t).
Proof. exact (@SetSeq.srun_ok). Qed.

Theorem C18_set_compare : forall (K : Type) (cmp : K -> K -> Z) (phys_eq : forall A : Type, A -> A -> bool)
  (f : K -> K -> res Z) (g : K -> K -> Z), (forall a b, f a b = Ok (g a b)) ->
  forall (t1 t2 : Set_t K) (fuel : nat), savl t1 -> savl t2 ->
  Z.of_nat (length (elements t1)) + Z.max (sheight t1) (sheight t2) + 4 <= Z.of_nat fuel ->
  Set_compare phys_eq cmp fuel t1 t2 f = Ok (slex cmp g (elements t1) (elements t2)).
Proof. exact (@scompare_ok). Qed.

Theorem C18_set_equal : forall (K : Type) (cmp : K -> K -> Z) (phys_eq : forall A : Type, A -> A -> bool)
  (f : K -> K -> res bool) (g : K -> K -> bool), (forall a b, f a b = Ok (g a b)) ->
  forall (t1 t2 : Set_t K) (fuel : nat), savl t1 -> savl t2 ->
  Z.of_nat (length (elements t1)) + Z.max (sheight t1) (sheight t2) + 4 <= Z.of_nat fuel ->
  Set_equal phys_eq cmp fuel t1 t2 f = Ok (seqb cmp g (elements t1) (elements t2)).
Proof. exact (@sequal_ok). Qed.

(* =====================================================================  List<T>  against Coq.Lists.List;
   `of_list l` is the std List holding the sequence l; fuel: one step per element *)
Theorem C18_list_basic : forall (phys_eq : forall A : Type, A -> A -> bool) (T : Type) (fuel : nat) (l : list T) (x : T),
  (1 <= fuel)%nat ->
  List_nil phys_eq fuel = Ok (@of_list T []) /\ List_of phys_eq fuel x = Ok (of_list [x])
  /\ List_cons phys_eq fuel (of_list l) x = Ok (of_list (x :: l))
  /\ List_isEmpty phys_eq fuel (of_list l) = Ok (match l with [] => true | _ => false end)
  /\ List_first phys_eq fuel (of_list l) = Ok (of_option (hd_error l))
  /\ List_rest phys_eq fuel (of_list l) = Ok (match l with [] => Option_None | _ :: r => Option_Some (of_list r) end).
Proof.
  exact (fun phys_eq T fuel l x H => conj (nil_ok phys_eq fuel H) (conj (of_ok phys_eq fuel x H) (conj (cons_ok phys_eq fuel l x H)
    (conj (lisEmpty_ok phys_eq fuel l H) (conj (first_ok phys_eq fuel l H) (rest_ok phys_eq fuel l H)))))).
Qed.

Theorem C18_list_fold : forall (phys_eq : forall A : Type, A -> A -> bool) (T A : Type)
  (f : A -> T -> res A) (g : A -> T -> A), (forall a x, f a x = Ok (g a x)) ->
  forall (l : list T) (acc : A) (fuel : nat), (length l + 1 <= fuel)%nat ->
  List_fold phys_eq fuel (of_list l) f acc = Ok (fold_left g l acc).
Proof. exact (@lfold_ok). Qed.

Theorem C18_list_foldRight : forall (phys_eq : forall A : Type, A -> A -> bool) (T A : Type)
  (f : T -> A -> res A) (g : T -> A -> A), (forall x a, f x a = Ok (g x a)) ->
  forall (l : list T) (init : A) (fuel : nat), (length l + 1 <= fuel)%nat ->
  List_foldRight phys_eq fuel (of_list l) f init = Ok (fold_right g init l).
Proof. exact (@lfoldRight_ok). Qed.

Theorem C18_list_length : forall (phys_eq : forall A : Type, A -> A -> bool) (T : Type) (l : list T) (fuel : nat),
  (length l + 2 <= fuel)%nat -> List_length phys_eq fuel (of_list l) = Ok (Z.of_nat (length l)).
Proof. exact (@length_ok). Qed.

Theorem C18_list_filter : forall (phys_eq : forall A : Type, A -> A -> bool) (T : Type)
  (f : T -> res bool) (g : T -> bool), (forall x, f x = Ok (g x)) ->
  forall (l : list T) (fuel : nat), (length l + 1 <= fuel)%nat ->
  List_filter phys_eq fuel (of_list l) f = Ok (of_list (filter g l)).
Proof. exact (@lfilter_ok). Qed.

Theorem C18_list_map : forall (phys_eq : forall A : Type, A -> A -> bool) (T R : Type)
  (f : T -> res R) (g : T -> R), (forall x, f x = Ok (g x)) ->
  forall (l : list T) (fuel : nat), (length l + 1 <= fuel)%nat ->
  List_map phys_eq fuel (of_list l) f = Ok (of_list (map g l)).
Proof. exact (@lmap_ok). Qed.

Theorem C18_list_filterMap : forall (phys_eq : forall A : Type, A -> A -> bool) (T R : Type)
  (f : T -> res (Option_t R)) (g : T -> option R), (forall x, f x = Ok (of_option (g x))) ->
  forall (l : list T) (fuel : nat), (length l + 1 <= fuel)%nat ->
  List_filterMap phys_eq fuel (of_list l) f = Ok (of_list (fmap g l)).
Proof. exact (@lfilterMap_ok). Qed.

Theorem C18_list_iter : forall (phys_eq : forall A : Type, A -> A -> bool) (T : Type)
  (f : T -> res unit), (forall x, f x = Ok tt) ->
  forall (l : list T) (fuel : nat), (length l + 1 <= fuel)%nat -> List_iter phys_eq fuel (of_list l) f = Ok tt.
Proof. exact (@literate_ok). Qed.

Theorem C18_list_contains : forall (phys_eq : forall A : Type, A -> A -> bool) (T : Type)
  (eq : T -> T -> res bool) (eqb : T -> T -> bool), (forall a b, eq a b = Ok (eqb a b)) ->
  forall (l : list T) (x : T) (fuel : nat), (length l + 1 <= fuel)%nat ->
  List_contains phys_eq fuel (of_list l) x eq = Ok (existsb (eqb x) l).
Proof. exact (@lcontains_ok). Qed.

Theorem C18_list_forAll : forall (phys_eq : forall A : Type, A -> A -> bool) (T : Type)
  (f : T -> res bool) (g : T -> bool), (forall x, f x = Ok (g x)) ->
  forall (l : list T) (fuel : nat), (length l + 1 <= fuel)%nat ->
  List_forAll phys_eq fuel (of_list l) f = Ok (forallb g l).
Proof. exact (@lforAll_ok). Qed.

Theorem C18_list_exists : forall (phys_eq : forall A : Type, A -> A -> bool) (T : Type)
  (f : T -> res bool) (g : T -> bool), (forall x, f x = Ok (g x)) ->
  forall (l : list T) (fuel : nat), (length l + 1 <= fuel)%nat ->
  List_exists phys_eq fuel (of_list l) f = Ok (existsb g l).
Proof. exact (@lexists_ok). Qed.

Theorem C18_list_find : forall (phys_eq : forall A : Type, A -> A -> bool) (T : Type)
  (f : T -> res bool) (g : T -> bool), (forall x, f x = Ok (g x)) ->
  forall (l : list T) (fuel : nat), (length l + 1 <= fuel)%nat ->
  List_find phys_eq fuel (of_list l) f = Ok (of_option (List.find g l)).
Proof. exact (@lfind_ok). Qed.

Theorem C18_list_findMap : forall (phys_eq : forall A : Type, A -> A -> bool) (T R : Type)
  (f : T -> res (Option_t R)) (g : T -> option R), (forall x, f x = Ok (of_option (g x))) ->
  forall (l : list T) (fuel : nat), (length l + 1 <= fuel)%nat ->
  List_findMap phys_eq fuel (of_list l) f = Ok (of_option (find_map g l)).
Proof. exact (@lfindMap_ok). Qed.

Theorem C18_list_append : forall (phys_eq : forall A : Type, A -> A -> bool) (T : Type) (l1 l2 : list T) (fuel : nat),
  (length l1 + 2 <= fuel)%nat -> List_append phys_eq fuel (of_list l1) (of_list l2) = Ok (of_list (l1 ++ l2)).
Proof. exact (@append_ok). Qed.

Theorem C18_list_reverseAndAppend : forall (phys_eq : forall A : Type, A -> A -> bool) (T : Type) (l1 l2 : list T) (fuel : nat),
  (length l1 + 2 <= fuel)%nat -> List_reverseAndAppend phys_eq fuel (of_list l1) (of_list l2) = Ok (of_list (rev l1 ++ l2)).
Proof. exact (@reverseAndAppend_ok). Qed.

Theorem C18_list_reverse : forall (phys_eq : forall A : Type, A -> A -> bool) (T : Type) (l : list T) (fuel : nat),
  (length l + 2 <= fuel)%nat -> List_reverse phys_eq fuel (of_list l) = Ok (of_list (rev l)).
Proof. exact (@reverse_ok). Qed.

Theorem C18_list_bind : forall (phys_eq : forall A : Type, A -> A -> bool) (T R : Type)
  (f : T -> res (List_t R)) (g : T -> list R), (forall x, f x = Ok (of_list (g x))) ->
  forall (l : list T) (fuel : nat), (length l + 2 <= fuel)%nat -> (forall x, In x l -> (length (g x) + 3 <= fuel)%nat) ->
  List_bind phys_eq fuel (of_list l) f = Ok (of_list (flat_map g l)).
Proof. exact (@bind_ok). Qed.

Theorem C18_list_flatten : forall (phys_eq : forall A : Type, A -> A -> bool) (T : Type) (ll : list (list T)) (fuel : nat),
  (length ll + 2 <= fuel)%nat -> (forall l, In l ll -> (length l + 3 <= fuel)%nat) ->
  List_flatten phys_eq fuel (of_list (map of_list ll)) = Ok (of_list (concat ll)).
Proof. exact (fun phys_eq T => @flatten_ok phys_eq T). Qed.

(* =====================================================================  Option<T> (used by the collections) *)
Theorem C18_option_unwrap : forall (phys_eq : forall A : Type, A -> A -> bool) (T : Type) (fuel : nat) (o : option T),
  (2 <= fuel)%nat ->
  Option_unwrap phys_eq fuel (of_option o) = match o with Some x => Ok x | None => Panic end /\
  Option_expect phys_eq fuel (of_option o) Str_lit = match o with Some x => Ok x | None => Panic end.
Proof. exact (@ounwrap_ok). Qed.

Theorem C18_option_map : forall (phys_eq : forall A : Type, A -> A -> bool) (T R : Type) (fuel : nat) (o : option T)
  (f : T -> res R) (g : T -> R), (forall x, f x = Ok (g x)) -> (1 <= fuel)%nat ->
  Option_map phys_eq fuel (of_option o) f = Ok (of_option (option_map g o)).
Proof. exact (@omap_ok). Qed.

Theorem C18_option_bind : forall (phys_eq : forall A : Type, A -> A -> bool) (T R : Type) (fuel : nat) (o : option T)
  (f : T -> res (Option_t R)) (g : T -> option R), (forall x, f x = Ok (of_option (g x))) -> (1 <= fuel)%nat ->
  Option_bind phys_eq fuel (of_option o) f = Ok (of_option (match o with Some x => g x | None => None end)).
Proof. exact (@obind_ok). Qed.

Theorem C18_option_filter : forall (phys_eq : forall A : Type, A -> A -> bool) (T : Type) (fuel : nat) (o : option T)
  (f : T -> res bool) (g : T -> bool), (forall x, f x = Ok (g x)) -> (1 <= fuel)%nat ->
  Option_filter phys_eq fuel (of_option o) f =
    Ok (of_option (match o with Some x => if g x then Some x else None | None => None end)).
Proof. exact (fun phys_eq T => @ofilter_ok phys_eq T). Qed.

(* =====================================================================  the key type of the quantifier:
   boxed Int, compare a b = a - b computed in 32 bits, on any window of keys of width 2^31 *)
Theorem C18_int_compare_model : forall (phys_eq : forall A : Type, A -> A -> bool) (fuel : nat) (a b : Int_t),
  (1 <= fuel)%nat -> Int_compare phys_eq fuel a b = Ok (Int_value a - Int_value b).
Proof. exact Int_compare_ok. Qed.

Theorem C18_int_compare_no_overflow : forall (lo : Z) (a b : IntW lo),
  int_cmp lo a b = Int_value (proj1_sig a) - Int_value (proj1_sig b).
Proof. exact int_cmp_exact. Qed.

Theorem C18_int_compare_is_order : forall lo : Z, cmp_order (int_cmp lo).
Proof. exact int_cmp_order. Qed.

(* the range restriction of the quantifier is necessary: on all of int32 the computed comparison is not transitive *)
Theorem C18_int_compare_overflow_not_transitive :
  exists a b c, int32 a /\ int32 b /\ int32 c /\
    wrap32 (a - b) < 0 /\ wrap32 (b - c) < 0 /\ ~ wrap32 (a - c) < 0.
Proof. exact wrap32_compare_not_transitive. Qed.

(* the specification side: `put` on a sorted association list is finite-map update *)
Theorem C18_spec_put_sorted : forall (K : Type) (cmp : K -> K -> Z), cmp_order cmp ->
  forall (V : Type) (k : K) (v : V) (l : list (K * V)), sorted cmp l -> sorted cmp (put cmp k v l).
Proof. exact (@put_sorted). Qed.

Theorem C18_spec_find_put : forall (K : Type) (cmp : K -> K -> Z), cmp_order cmp ->
  forall (V : Type) (k : K) (v : V) (k' : K) (l : list (K * V)),
  find cmp k' (put cmp k v l) = if cmp k' k =? 0 then Some v else find cmp k' l.
Proof. exact (@find_put). Qed.

Theorem C18_spec_del_sorted : forall (K : Type) (cmp : K -> K -> Z) (V : Type) (k : K) (l : list (K * V)),
  sorted cmp l -> sorted cmp (del cmp k l).
Proof. exact (@del_sorted). Qed.

Theorem C18_spec_find_del : forall (K : Type) (cmp : K -> K -> Z), cmp_order cmp ->
  forall (V : Type) (k k' : K) (l : list (K * V)), sorted cmp l ->
  find cmp k' (del cmp k l) = if cmp k' k =? 0 then None else find cmp k' l.
Proof. exact (@find_del). Qed.

Theorem C18_spec_upd_sorted : forall (K : Type) (cmp : K -> K -> Z), cmp_order cmp ->
  forall (V : Type) (k : K) (g : option V -> option V) (l : list (K * V)), sorted cmp l -> sorted cmp (upd cmp k g l).
Proof. exact (@upd_sorted). Qed.

Theorem C18_spec_filter_sorted : forall (K : Type) (cmp : K -> K -> Z) (V : Type) (f : K -> V -> bool) (l : list (K * V)),
  sorted cmp l -> sorted cmp (afilter f l).
Proof. exact (@afilter_sorted). Qed.

(* a sorted association list is determined by its lookup function: this turns the pointwise
   statements about union / intersection / difference into statements about the bindings *)
Theorem C18_spec_find_ext : forall (K : Type) (cmp : K -> K -> Z), cmp_order cmp ->
  forall (V : Type) (l1 l2 : list (K * V)), sorted cmp l1 -> sorted cmp l2 ->
  (forall k, find cmp k l1 = find cmp k l2) -> l1 = l2.
Proof. exact (@find_ext). Qed.

(* ---- non-vacuity: the hypotheses hold of compare = a - b on Z and of a concrete 5-element tree *)
Lemma Zsub_order : cmp_order Z.sub.
Proof. split; intros; lia. Qed.

Definition demo : Map_t Z Z :=
  Map_Node 3 2 20 (Map_Leaf 1 10) (Map_Node 2 4 40 (Map_Leaf 3 30) (Map_Leaf 5 50)).

Example C18_nonvacuous :
  avl demo /\ bst Z.sub demo /\ oracle_sound (fun _ _ _ => false) /\
  Map_insert (fun _ _ _ => false) Z.sub 7 demo 6 60 =
    Ok (Map_Node 4 2 20 (Map_Leaf 1 10) (Map_Node 3 4 40 (Map_Leaf 3 30) (Map_Node 2 6 60 (Map_Leaf 5 50) Map_Empty))).
Proof.
  split; [cbn; lia|]. split; [cbn; repeat constructor; cbn; unfold lt; lia|]. split; [discriminate|].
  vm_compute. reflexivity.
Qed.

(* a set built by the library itself from a list, and a sequence of operations with its specified outcome *)
Example C18_nonvacuous_set :
  exists t, Set_fromList (fun _ _ _ => false) Z.sub 20 (of_list [5; 1; 4; 2; 3; 1]) = Ok t /\ savl t /\ sbst Z.sub t
    /\ elements t = [1; 2; 3; 4; 5]
    /\ SetSeq.srun Z.sub (fun _ _ _ => false) 40 t [SetSeq.SRemove 3; SetSeq.SUnion [7; 0]; SetSeq.SInter [0; 1; 2; 9]; SetSeq.SDiff [1]]
       = Ok (Set_Node 2 2 (Set_Leaf 0) Set_Empty).
Proof.
  eexists. split; [vm_compute; reflexivity|]. split; [cbn; lia|]. split; [cbn; repeat constructor; cbn; unfold lt; lia|].
  split; vm_compute; reflexivity.
Qed.

Print Assumptions C18_map_balanced.
Print Assumptions C18_map_get.
Print Assumptions C18_map_containsKey.
Print Assumptions C18_map_insert.
Print Assumptions C18_spec_put_sorted.
Print Assumptions C18_spec_find_put.
Print Assumptions C18_map_addMinBinding.
Print Assumptions C18_map_addMaxBinding.
Print Assumptions C18_map_addMinNode.
Print Assumptions C18_map_addMaxNode.
Print Assumptions C18_map_join.
Print Assumptions C18_map_removeMinBinding.
Print Assumptions C18_map_minBinding.
Print Assumptions C18_map_concat.
Print Assumptions C18_map_internalMerge.
Print Assumptions C18_map_split.
Print Assumptions C18_map_remove.
Print Assumptions C18_map_update.
Print Assumptions C18_map_filter.
Print Assumptions C18_map_partition.
Print Assumptions C18_map_fold.
Print Assumptions C18_map_iter.
Print Assumptions C18_map_forAll.
Print Assumptions C18_map_exists.
Print Assumptions C18_map_size.
Print Assumptions C18_map_isEmpty.
Print Assumptions C18_map_entries.
Print Assumptions C18_map_keys.
Print Assumptions C18_map_min.
Print Assumptions C18_map_max.
Print Assumptions C18_map_minKey.
Print Assumptions C18_map_maxKey.
Print Assumptions C18_map_map.
Print Assumptions C18_map_customizedUnion.
Print Assumptions C18_map_union.
Print Assumptions C18_set_balanced.
Print Assumptions C18_set_contains.
Print Assumptions C18_set_insert.
Print Assumptions C18_set_join.
Print Assumptions C18_set_split.
Print Assumptions C18_set_min.
Print Assumptions C18_set_max.
Print Assumptions C18_set_removeMin.
Print Assumptions C18_set_concat.
Print Assumptions C18_set_remove.
Print Assumptions C18_set_filter.
Print Assumptions C18_set_partition.
Print Assumptions C18_set_fold.
Print Assumptions C18_set_iter.
Print Assumptions C18_set_forAll.
Print Assumptions C18_set_exists.
Print Assumptions C18_set_size.
Print Assumptions C18_set_elements.
Print Assumptions C18_set_fromList.
Print Assumptions C18_set_union.
Print Assumptions C18_set_intersection.
Print Assumptions C18_set_disjoint.
Print Assumptions C18_set_diff.
Print Assumptions C18_spec_del_sorted.
Print Assumptions C18_spec_find_del.
Print Assumptions C18_spec_upd_sorted.
Print Assumptions C18_spec_filter_sorted.
Print Assumptions C18_spec_find_ext.
Print Assumptions C18_map_merge.
Print Assumptions C18_map_compare.
Print Assumptions C18_map_equal.
Print Assumptions C18_set_compare.
Print Assumptions C18_set_equal.
Print Assumptions C18_list_basic.
Print Assumptions C18_list_fold.
Print Assumptions C18_list_foldRight.
Print Assumptions C18_list_length.
Print Assumptions C18_list_filter.
Print Assumptions C18_list_map.
Print Assumptions C18_list_filterMap.
Print Assumptions C18_list_iter.
Print Assumptions C18_list_contains.
Print Assumptions C18_list_forAll.
Print Assumptions C18_list_exists.
Print Assumptions C18_list_find.
Print Assumptions C18_list_findMap.
Print Assumptions C18_list_append.
Print Assumptions C18_list_reverseAndAppend.
Print Assumptions C18_list_reverse.
Print Assumptions C18_list_bind.
Print Assumptions C18_list_flatten.
Print Assumptions C18_int_compare_model.
Print Assumptions C18_int_compare_no_overflow.
Print Assumptions C18_int_compare_is_order.
Print Assumptions C18_int_compare_overflow_not_transitive.
Print Assumptions C18_map_sequences.
Print Assumptions C18_set_sequences.
Print Assumptions C18_set_subset.
Print Assumptions C18_set_tryJoin.
Print Assumptions C18_set_map.
Print Assumptions C18_option_unwrap.
Print Assumptions C18_option_map.
Print Assumptions C18_option_bind.
Print Assumptions C18_option_filter.
