(* C18 — Set: invariants, abstraction (a set is a finite map to unit), non-recursive helpers (height .. balanced). *)
From Coq Require Import List ZArith Lia Bool ZifyBool.
Import ListNotations.
From SVG Require Import StdPrelude StdTuples StdOption StdList StdSet.
From SV Require Import C18.Spec C18.Tactics.
Open Scope Z_scope.

Section SetBase.
  Context {K : Type}.
  Variable cmp : K -> K -> Z.
  Variable phys_eq : forall A : Type, A -> A -> bool.
  Notation S := (Set_t K).

  (* abstraction: the elements in order, as bindings to tt so that the finite-map specification applies *)
  Fixpoint sbindings (t : S) : list (K * unit) :=
    match t with
    | Set_Empty => []
    | Set_Leaf v => [(v, tt)]
    | Set_Node _ v l r => sbindings l ++ (v, tt) :: sbindings r
    end.
  Definition elements (t : S) : list K := map fst (sbindings t).

  Definition sheight (t : S) : Z :=
    match t with Set_Empty => 0 | Set_Leaf _ => 1 | Set_Node h _ _ _ => h end.

  Fixpoint savl (t : S) : Prop :=
    match t with
    | Set_Empty => True
    | Set_Leaf _ => True
    | Set_Node h _ l r => savl l /\ savl r /\ h = Z.max (sheight l) (sheight r) + 1
                          /\ -2 <= sheight l - sheight r <= 2
    end.

  Definition sbst (t : S) : Prop := sorted cmp (sbindings t).

  Lemma sheight_nonneg t : savl t -> 0 <= sheight t.
  Proof.
    induction t as [| |h v l IHl r IHr]; cbn; intros; try lia.
    destruct H as (Hl & Hr & Hh & Hb). specialize (IHl Hl). specialize (IHr Hr). lia.
  Qed.

  Lemma sheight_zero t : savl t -> sheight t = 0 -> t = Set_Empty.
  Proof.
    destruct t; cbn; intros Ha Hh; auto; [lia|].
    destruct Ha as (Hl & Hr & Hh' & Hb). pose proof (sheight_nonneg _ Hl). pose proof (sheight_nonneg _ Hr). lia.
  Qed.

  Lemma snode_height_pos h v l r : savl (Set_Node h v l r) -> 1 <= h.
  Proof.
    intros (Hl & Hr & Hh & Hb). pose proof (sheight_nonneg _ Hl). pose proof (sheight_nonneg _ Hr). lia.
  Qed.

  Lemma sempty_ok fuel : (1 <= fuel)%nat -> @Set_empty phys_eq K cmp fuel = Ok Set_Empty.
  Proof. intros. need 1%nat fuel. reflexivity. Qed.

  Lemma ssingleton_ok fuel v : (1 <= fuel)%nat -> @Set_singleton phys_eq K cmp fuel v = Ok (Set_Leaf v).
  Proof. intros. need 1%nat fuel. reflexivity. Qed.

  Lemma sisEmpty_ok fuel t : (1 <= fuel)%nat ->
    @Set_isEmpty phys_eq K cmp fuel t = Ok (match t with Set_Empty => true | _ => false end).
  Proof. intros. need 1%nat fuel. destruct t; reflexivity. Qed.

  Lemma sheight_ok fuel t : (1 <= fuel)%nat -> @Set_height phys_eq K cmp fuel t = Ok (sheight t).
  Proof. intros. need 1%nat fuel. destruct t; reflexivity. Qed.

  (* Set.create always builds a Node; Set.unsafeNode builds a Leaf when both children are empty *)
  Definition snode (l : S) (v : K) (r : S) : S := Set_Node (Z.max (sheight l) (sheight r) + 1) v l r.
  Definition screate (l : S) (v : K) (r : S) : S :=
    let h := Z.max (sheight l) (sheight r) + 1 in
    if h =? 1 then Set_Leaf v else Set_Node h v l r.

  Lemma smax_if a b : (if a >=? b then a + 1 else b + 1) = Z.max a b + 1.
  Proof. destruct (Z.geb_spec a b); lia. Qed.

  Lemma screate_node_ok fuel l v r : (2 <= fuel)%nat -> @Set_create phys_eq K cmp fuel l v r = Ok (snode l v r).
  Proof.
    intros. need 2%nat fuel. cbn [Set_create]. rewrite !sheight_ok by lia. cbn [bind].
    unfold snode. now rewrite smax_if.
  Qed.

  Lemma sunsafeNode_ok fuel l v r : savl l -> savl r -> (2 <= fuel)%nat ->
    @Set_unsafeNode phys_eq K cmp fuel l v r = Ok (screate l v r).
  Proof.
    intros Hl Hr Hf. need 2%nat fuel. cbn [Set_unsafeNode]. unfold screate.
    destruct l as [|lv|lh lv ll lr], r as [|rv|rh rv rl rr]; cbn [sheight];
      try (pose proof (snode_height_pos _ _ _ _ Hl)); try (pose proof (snode_height_pos _ _ _ _ Hr));
      try reflexivity.
    - destruct (Z.eqb_spec (Z.max 0 rh + 1) 1); [lia|]. do 2 f_equal. lia.
    - destruct (Z.eqb_spec (Z.max 1 rh + 1) 1); [lia|]. do 2 f_equal. lia.
    - destruct (Z.eqb_spec (Z.max lh 0 + 1) 1); [lia|]. do 2 f_equal. lia.
    - destruct (Z.eqb_spec (Z.max lh 1 + 1) 1); [lia|]. do 2 f_equal. lia.
    - rewrite smax_if. destruct (Z.eqb_spec (Z.max lh rh + 1) 1); [lia|]. reflexivity.
  Qed.

  Lemma sforced_ok fuel h v l r : (1 <= fuel)%nat ->
    @Set_forcedNodeWithoutHeight phys_eq K cmp fuel (Set_Node h v l r) = Ok (Triple_init v l r).
  Proof. intros. need 1%nat fuel. reflexivity. Qed.

  Lemma screate_avl l v r : savl l -> savl r -> -2 <= sheight l - sheight r <= 2 ->
    savl (screate l v r) /\ sheight (screate l v r) = Z.max (sheight l) (sheight r) + 1
    /\ sbindings (screate l v r) = sbindings l ++ (v, tt) :: sbindings r.
  Proof.
    intros Hl Hr Hb. pose proof (sheight_nonneg l Hl). pose proof (sheight_nonneg r Hr).
    unfold screate. destruct (Z.eqb_spec (Z.max (sheight l) (sheight r) + 1) 1) as [E|E].
    - assert (l = Set_Empty) by (apply sheight_zero; auto; lia). subst l.
      assert (r = Set_Empty) by (apply sheight_zero; auto; cbn in *; lia). subst r.
      cbn. repeat split; auto.
    - cbn. repeat split; auto; lia.
  Qed.

  Lemma snode_avl l v r : savl l -> savl r -> -2 <= sheight l - sheight r <= 2 ->
    savl (snode l v r) /\ sheight (snode l v r) = Z.max (sheight l) (sheight r) + 1
    /\ sbindings (snode l v r) = sbindings l ++ (v, tt) :: sbindings r.
  Proof. intros Hl Hr Hb. unfold snode. cbn. repeat split; auto; lia. Qed.

  Lemma sbalanced_ok fuel l v r : savl l -> savl r -> -3 <= sheight l - sheight r <= 3 -> (3 <= fuel)%nat ->
    exists t, @Set_balanced phys_eq K cmp fuel l v r = Ok t /\ savl t
      /\ sbindings t = sbindings l ++ (v, tt) :: sbindings r
      /\ (Z.max (sheight l) (sheight r) <= sheight t <= Z.max (sheight l) (sheight r) + 1)
      /\ (-2 <= sheight l - sheight r <= 2 -> sheight t = Z.max (sheight l) (sheight r) + 1).
  Proof.
    intros Hl Hr Hb Hf. pose proof (sheight_nonneg l Hl) as Nl. pose proof (sheight_nonneg r Hr) as Nr.
    need 3%nat fuel. cbn [Set_balanced]. rewrite !sheight_ok by lia. cbn [bind].
    destruct (Z.gtb_spec (sheight l) (sheight r + 2)) as [E1|E1].
    - destruct l as [|lv|lh lv ll lr]; cbn [sheight] in E1, Hb, Nl; try lia.
      rewrite sforced_ok by lia. cbn [bind]. destruct Hl as (Hll & Hlr & Hlh & Hlb).
      pose proof (sheight_nonneg ll Hll) as Nll. pose proof (sheight_nonneg lr Hlr) as Nlr.
      rewrite !sheight_ok by lia. cbn [bind].
      destruct (Z.geb_spec (sheight ll) (sheight lr)) as [E2|E2].
      + rewrite sunsafeNode_ok by (auto; lia). cbn [bind]. rewrite screate_node_ok by lia.
        destruct (screate_avl lr v r Hlr Hr ltac:(lia)) as (Ha & Hh & Hbd).
        destruct (snode_avl ll lv (screate lr v r) Hll Ha ltac:(lia)) as (Ha' & Hh' & Hbd').
        eexists; split; [reflexivity|]. split; auto. split; [|split].
        * rewrite Hbd', Hbd. cbn [sbindings]. repeat (rewrite <- app_assoc; cbn [app]). reflexivity.
        * cbn [sheight] in *. lia.
        * cbn [sheight] in *. lia.
      + destruct lr as [|lrv|lrh lrv lrl lrr]; cbn [sheight] in E2, Hlb, Hlh, Nlr; try lia.
        rewrite sforced_ok by lia. cbn [bind]. pose proof Hlr as Hlr0. destruct Hlr as (Ha1 & Ha2 & Hh2 & Hb2).
        pose proof (sheight_nonneg lrl Ha1). pose proof (sheight_nonneg lrr Ha2).
        rewrite !sunsafeNode_ok by (auto; lia). cbn [bind]. rewrite screate_node_ok by lia.
        destruct (screate_avl ll lv lrl Hll Ha1 ltac:(lia)) as (Hca & Hch & Hcb).
        destruct (screate_avl lrr v r Ha2 Hr ltac:(lia)) as (Hda & Hdh & Hdb).
        destruct (snode_avl _ lrv _ Hca Hda ltac:(lia)) as (Hna & Hnh & Hnb).
        eexists; split; [reflexivity|]. split; auto. split; [|split].
        * rewrite Hnb, Hcb, Hdb. cbn [sbindings]. repeat (rewrite <- app_assoc; cbn [app]). reflexivity.
        * cbn [sheight] in *. lia.
        * cbn [sheight] in *. lia.
    - destruct (Z.gtb_spec (sheight r) (sheight l + 2)) as [E3|E3].
      + destruct r as [|rv|rh rv rl rr]; cbn [sheight] in E3, Hb, Nr; try lia.
        rewrite sforced_ok by lia. cbn [bind]. destruct Hr as (Hrl & Hrr & Hrh & Hrb).
        pose proof (sheight_nonneg rl Hrl) as Nrl. pose proof (sheight_nonneg rr Hrr) as Nrr.
        rewrite !sheight_ok by lia. cbn [bind].
        destruct (Z.geb_spec (sheight rr) (sheight rl)) as [E2|E2].
        * rewrite sunsafeNode_ok by (auto; lia). cbn [bind]. rewrite screate_node_ok by lia.
          destruct (screate_avl l v rl Hl Hrl ltac:(lia)) as (Ha & Hh & Hbd).
          destruct (snode_avl (screate l v rl) rv rr Ha Hrr ltac:(lia)) as (Ha' & Hh' & Hbd').
          eexists; split; [reflexivity|]. split; auto. split; [|split].
          -- rewrite Hbd', Hbd. cbn [sbindings]. repeat (rewrite <- app_assoc; cbn [app]). reflexivity.
          -- cbn [sheight] in *. lia.
          -- cbn [sheight] in *. lia.
        * destruct rl as [|rlv|rlh rlv rll rlr]; cbn [sheight] in E2, Hrb, Hrh, Nrl; try lia.
          rewrite sforced_ok by lia. cbn [bind]. destruct Hrl as (Ha1 & Ha2 & Hh2 & Hb2).
          pose proof (sheight_nonneg rll Ha1). pose proof (sheight_nonneg rlr Ha2).
          rewrite !sunsafeNode_ok by (auto; lia). cbn [bind]. rewrite screate_node_ok by lia.
          destruct (screate_avl l v rll Hl Ha1 ltac:(lia)) as (Hca & Hch & Hcb).
          destruct (screate_avl rlr rv rr Ha2 Hrr ltac:(lia)) as (Hda & Hdh & Hdb).
          destruct (snode_avl _ rlv _ Hca Hda ltac:(lia)) as (Hna & Hnh & Hnb).
          eexists; split; [reflexivity|]. split; auto. split; [|split].
          -- rewrite Hnb, Hcb, Hdb. cbn [sbindings]. repeat (rewrite <- app_assoc; cbn [app]). reflexivity.
          -- cbn [sheight] in *. lia.
          -- cbn [sheight] in *. lia.
      + rewrite sunsafeNode_ok by (auto; lia).
        destruct (screate_avl l v r Hl Hr ltac:(lia)) as (Ha & Hh & Hbd).
        eexists; split; [reflexivity|]. split; auto. split; auto. split; lia.
  Qed.
End SetBase.

Ltac savl_pos :=
  repeat match goal with
  | H : SetBase.savl (Set_Node ?h ?v ?l ?r) |- _ =>
      lazymatch goal with
      | _ : 1 <= h |- _ => fail
      | _ => pose proof (snode_height_pos h v l r H)
      end
  end.
