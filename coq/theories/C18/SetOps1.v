(* C18 — Set: contains, insert, addMinElement, addMaxElement, join, split, min, max, removeMin, concat,
   internalMerge, remove. *)
From Coq Require Import List ZArith Lia Bool ZifyBool.
Import ListNotations.
From SVG Require Import StdPrelude StdTuples StdOption StdList StdSet.
From SV Require Import C18.Spec C18.Tactics C18.Conv C18.SetBase.
Open Scope Z_scope.

Section SetOps1.
  Context {K : Type}.
  Variable cmp : K -> K -> Z.
  Hypothesis O : cmp_order cmp.
  Variable phys_eq : forall A : Type, A -> A -> bool.
  Hypothesis phys_eq_sound : forall A (a b : A), phys_eq A a b = true -> a = b.
  Notation S := (Set_t K).
  Notation sbindings := (@sbindings K).
  Notation sheight := (@sheight K).
  Notation savl := (@savl K).
  Notation sbst := (sbst cmp).

  Ltac hs := cbn [SetBase.sheight SetBase.sbindings SetBase.savl] in *.

  Definition is_some {A} (o : option A) : bool := match o with Some _ => true | None => false end.

  Lemma seqb_cmp_sym a b : (cmp a b =? 0) = (cmp b a =? 0).
  Proof.
    destruct (Z.eqb_spec (cmp a b) 0) as [E|N], (Z.eqb_spec (cmp b a) 0) as [E'|N']; auto.
    - apply (cmp_sym0 O) in E. lia.
    - apply (cmp_sym0 O) in E'. lia.
  Qed.

  Lemma sbst_node_inv h v l r : sbst (Set_Node h v l r) ->
    sbst l /\ sbst r /\ keys_lt cmp (sbindings l) v /\ keys_gt cmp (sbindings r) v.
  Proof. unfold SetBase.sbst. cbn [SetBase.sbindings]. apply sorted_app_inv. Qed.

  Theorem contains_ok : forall t x fuel, savl t -> sbst t -> sheight t + 1 <= Z.of_nat fuel ->
    @Set_contains phys_eq K cmp fuel t x = Ok (is_some (find cmp x (sbindings t))).
  Proof.
    induction t as [|v|h v l IHl r IHr]; intros x fuel Ha Hs Hf; hs.
    - need 1%nat fuel. reflexivity.
    - need 1%nat fuel. cbn [Set_contains find]. rewrite (seqb_cmp_sym v x).
      destruct (cmp x v =? 0); reflexivity.
    - destruct Ha as (Hal & Har & Hh & Hb).
      pose proof (sheight_nonneg _ Hal). pose proof (sheight_nonneg _ Har).
      destruct (sbst_node_inv _ _ _ _ Hs) as (Hsl & Hsr & Hkl & Hkr).
      need 1%nat fuel. cbn [Set_contains].
      destruct (cmp_cases O x v) as [(L & A & B)|[(E & A & B)|(L & A & B)]].
      + destruct (Z.eqb_spec (cmp x v) 0); [lia|]. destruct (Z.ltb_spec (cmp x v) 0); [|lia].
        rewrite IHl by (auto; lia). now rewrite find_app_lt by auto.
      + subst v. destruct (Z.eqb_spec (cmp x x) 0); [|lia]. now rewrite find_app_eq by auto.
      + destruct (Z.eqb_spec (cmp x v) 0); [lia|]. destruct (Z.ltb_spec (cmp x v) 0); [lia|].
        rewrite IHr by (auto; lia). now rewrite find_app_gt by auto.
  Qed.

  Theorem sinsert_ok x : forall t fuel, savl t -> sbst t -> sheight t + 4 <= Z.of_nat fuel ->
    exists t', @Set_insert phys_eq K cmp fuel t x = Ok t' /\ savl t' /\ sbindings t' = put cmp x tt (sbindings t)
               /\ sheight t <= sheight t' <= sheight t + 1.
  Proof.
    induction t as [|v|h v l IHl r IHr]; intros fuel Ha Hs Hf; hs.
    - need 2%nat fuel. cbn [Set_insert]. rewrite ssingleton_ok by lia.
      eexists; split; [reflexivity|]. cbn. repeat split; auto; lia.
    - need 3%nat fuel. cbn [Set_insert]. cbn [put].
      destruct (cmp_cases O x v) as [(L & A & B)|[(E & A & B)|(L & A & B)]].
      + destruct (Z.eqb_spec (cmp x v) 0); [lia|]. destruct (Z.ltb_spec (cmp x v) 0); [|lia].
        rewrite ssingleton_ok by lia. cbn [bind]. rewrite sunsafeNode_ok by (cbn; auto; lia).
        eexists; split; [reflexivity|]. cbn. repeat split; auto; lia.
      + subst v. destruct (Z.eqb_spec (cmp x x) 0); [|lia]. destruct (Z.ltb_spec (cmp x x) 0); [lia|].
        eexists; split; [reflexivity|]. cbn. repeat split; auto; lia.
      + destruct (Z.eqb_spec (cmp x v) 0); [lia|]. destruct (Z.ltb_spec (cmp x v) 0); [lia|].
        rewrite sunsafeNode_ok by (cbn; auto; lia).
        eexists; split; [reflexivity|]. cbn. repeat split; auto; lia.
    - pose proof Ha as Ha0. destruct Ha as (Hal & Har & Hh & Hb).
      pose proof (sheight_nonneg l Hal) as Nl. pose proof (sheight_nonneg r Har) as Nr.
      destruct (sbst_node_inv _ _ _ _ Hs) as (Hsl & Hsr & Hkl & Hkr).
      need 1%nat fuel. cbn [Set_insert].
      destruct (cmp_cases O x v) as [(L & A & B)|[(E & A & B)|(L & A & B)]].
      + destruct (Z.eqb_spec (cmp x v) 0); [lia|]. destruct (Z.ltb_spec (cmp x v) 0); [|lia].
        destruct (IHl fuel0 Hal Hsl ltac:(lia)) as (ll & Hins & Hall & Hbl & Hhl). rewrite Hins. cbn [bind].
        rewrite put_app_lt by auto.
        destruct (phys_eq S l ll) eqn:Ep.
        * apply phys_eq_sound in Ep. subst ll. eexists; split; [reflexivity|]. split; [exact Ha0|].
          hs. rewrite <- Hbl. split; [reflexivity|lia].
        * destruct (sbalanced_ok cmp phys_eq fuel0 ll v r Hall Har ltac:(lia) ltac:(lia)) as (t' & Hbal & Hat & Hbt & Hht & Hhe).
          exists t'. split; [exact Hbal|]. split; auto. split; [now rewrite Hbt, Hbl|].
          destruct (Z_le_gt_dec (Z.abs (sheight ll - sheight r)) 2).
          -- assert (-2 <= sheight ll - sheight r <= 2) as H' by lia. specialize (Hhe H'). lia.
          -- lia.
      + subst v. destruct (Z.eqb_spec (cmp x x) 0); [|lia].
        eexists; split; [reflexivity|]. split; [exact Ha0|]. hs. rewrite put_app_eq by auto. split; [reflexivity|lia].
      + destruct (Z.eqb_spec (cmp x v) 0); [lia|]. destruct (Z.ltb_spec (cmp x v) 0); [lia|].
        destruct (IHr fuel0 Har Hsr ltac:(lia)) as (rr & Hins & Harr & Hbr & Hhr). rewrite Hins. cbn [bind].
        rewrite put_app_gt by auto.
        destruct (phys_eq S r rr) eqn:Ep.
        * apply phys_eq_sound in Ep. subst rr. eexists; split; [reflexivity|]. split; [exact Ha0|].
          hs. rewrite <- Hbr. split; [reflexivity|lia].
        * destruct (sbalanced_ok cmp phys_eq fuel0 l v rr Hal Harr ltac:(lia) ltac:(lia)) as (t' & Hbal & Hat & Hbt & Hht & Hhe).
          exists t'. split; [exact Hbal|]. split; auto. split; [now rewrite Hbt, Hbr|].
          destruct (Z_le_gt_dec (Z.abs (sheight rr - sheight l)) 2).
          -- assert (-2 <= sheight l - sheight rr <= 2) as H' by lia. specialize (Hhe H'). lia.
          -- lia.
  Qed.

  Lemma addMinElement_ok nv : forall t fuel, savl t -> sheight t + 4 <= Z.of_nat fuel ->
    exists t', @Set_addMinElement phys_eq K cmp fuel nv t = Ok t' /\ savl t'
      /\ sbindings t' = (nv, tt) :: sbindings t /\ sheight t <= sheight t' <= sheight t + 1 /\ 1 <= sheight t'.
  Proof.
    induction t as [|v|h v l IHl r IHr]; intros fuel Ha Hf; hs.
    - need 2%nat fuel. cbn [Set_addMinElement]. rewrite ssingleton_ok by lia.
      eexists; split; [reflexivity|]. hs. repeat split; auto; lia.
    - need 3%nat fuel. cbn [Set_addMinElement]. rewrite ssingleton_ok, sempty_ok by lia. cbn [bind].
      rewrite sunsafeNode_ok by (cbn; auto; lia).
      eexists; split; [reflexivity|]. cbn. repeat split; auto; lia.
    - destruct Ha as (Hal & Har & Hh & Hb).
      pose proof (sheight_nonneg l Hal) as Nl. pose proof (sheight_nonneg r Har) as Nr.
      need 1%nat fuel. cbn [Set_addMinElement].
      destruct (IHl fuel0 Hal ltac:(lia)) as (l' & Hrun & Hal' & Hbl' & Hhl' & _). rewrite Hrun. cbn [bind].
      destruct (sbalanced_ok cmp phys_eq fuel0 l' v r Hal' Har ltac:(lia) ltac:(lia)) as (t' & Hbal & Hat & Hbt & Hht & Hhe).
      exists t'. split; [exact Hbal|]. split; auto. split; [now rewrite Hbt, Hbl'|].
      destruct (Z_le_gt_dec (sheight l' - sheight r) 2).
      + assert (-2 <= sheight l' - sheight r <= 2) as H' by lia. specialize (Hhe H'). lia.
      + lia.
  Qed.

  Lemma addMaxElement_ok nv : forall t fuel, savl t -> sheight t + 4 <= Z.of_nat fuel ->
    exists t', @Set_addMaxElement phys_eq K cmp fuel nv t = Ok t' /\ savl t'
      /\ sbindings t' = sbindings t ++ [(nv, tt)] /\ sheight t <= sheight t' <= sheight t + 1 /\ 1 <= sheight t'.
  Proof.
    induction t as [|v|h v l IHl r IHr]; intros fuel Ha Hf; hs.
    - need 2%nat fuel. cbn [Set_addMaxElement]. rewrite ssingleton_ok by lia.
      eexists; split; [reflexivity|]. hs. repeat split; auto; lia.
    - need 3%nat fuel. cbn [Set_addMaxElement]. rewrite ssingleton_ok, sempty_ok by lia. cbn [bind].
      rewrite sunsafeNode_ok by (cbn; auto; lia).
      eexists; split; [reflexivity|]. cbn. repeat split; auto; lia.
    - destruct Ha as (Hal & Har & Hh & Hb).
      pose proof (sheight_nonneg l Hal) as Nl. pose proof (sheight_nonneg r Har) as Nr.
      need 1%nat fuel. cbn [Set_addMaxElement].
      destruct (IHr fuel0 Har ltac:(lia)) as (r' & Hrun & Har' & Hbr' & Hhr' & _). rewrite Hrun. cbn [bind].
      destruct (sbalanced_ok cmp phys_eq fuel0 l v r' Hal Har' ltac:(lia) ltac:(lia)) as (t' & Hbal & Hat & Hbt & Hht & Hhe).
      exists t'. split; [exact Hbal|]. split; auto. split.
      { rewrite Hbt, Hbr'. rewrite <- app_assoc. reflexivity. }
      destruct (Z_le_gt_dec (sheight r' - sheight l) 2).
      + assert (-2 <= sheight l - sheight r' <= 2) as H' by lia. specialize (Hhe H'). lia.
      + lia.
  Qed.

  Lemma sjoin_ok v : forall l r fuel, savl l -> savl r -> sheight l + sheight r + 5 <= Z.of_nat fuel ->
    exists t, @Set_join phys_eq K cmp fuel l v r = Ok t /\ savl t
      /\ sbindings t = sbindings l ++ (v, tt) :: sbindings r
      /\ Z.max (sheight l) (sheight r) <= sheight t <= Z.max (sheight l) (sheight r) + 1 /\ 1 <= sheight t.
  Proof.
    induction l as [|lv|lh lv ll IHll lr IHlr]; intros r; induction r as [|rv|rh rv rl IHrl rr IHrr];
      intros fuel Hal Har Hf; pose proof (sheight_nonneg _ Hal) as Nl0; pose proof (sheight_nonneg _ Har) as Nr0; hs.
    1-3: need 1%nat fuel; cbn [Set_join];
      match goal with |- context[Set_addMinElement _ _ _ _ ?t] =>
        destruct (addMinElement_ok v t fuel0 ltac:(hs; auto) ltac:(hs; lia)) as (t' & Hrun & Ha' & Hb' & Hh' & Hp) end;
      exists t'; hs; repeat split; auto; lia.
    1,4: need 1%nat fuel; cbn [Set_join];
      match goal with |- context[Set_addMaxElement _ _ _ _ ?t] =>
        destruct (addMaxElement_ok v t fuel0 ltac:(hs; auto) ltac:(hs; lia)) as (t' & Hrun & Ha' & Hb' & Hh' & Hp) end;
      exists t'; hs; repeat split; auto; try lia.
    - (* Leaf, Leaf *)
      need 3%nat fuel. cbn [Set_join]. rewrite sunsafeNode_ok by (cbn; auto; lia).
      eexists; split; [reflexivity|]. cbn. repeat split; auto; lia.
    - (* Leaf, Node *)
      pose proof Har as Har0. destruct Har as (Harl & Harr & Hrh & Hrb).
      pose proof (sheight_nonneg rl Harl). pose proof (sheight_nonneg rr Harr).
      need 1%nat fuel. cbn [Set_join].
      destruct (Z.gtb_spec rh 3).
      + destruct (IHrl fuel0 I Harl ltac:(hs; lia)) as (j & Hrun & Haj & Hbj & Hhj & Hpj). hs.
        rewrite Hrun. cbn [bind].
        destruct (sbalanced_ok cmp phys_eq fuel0 j rv rr Haj Harr ltac:(lia) ltac:(lia)) as (t' & Hbal & Hat & Hbt & Hht & Hhe).
        exists t'. split; [exact Hbal|]. split; auto. split; [rewrite Hbt, Hbj; hs; reflexivity|].
        destruct (Z_le_gt_dec (Z.abs (sheight j - sheight rr)) 2).
        * assert (-2 <= sheight j - sheight rr <= 2) as H' by lia. specialize (Hhe H'). lia.
        * lia.
      + rewrite screate_node_ok by lia.
        destruct (snode_avl (Set_Leaf lv) v (Set_Node rh rv rl rr) I Har0 ltac:(hs; lia)) as (Hca & Hch & Hcb).
        eexists; split; [reflexivity|]. split; [exact Hca|]. split; [rewrite Hcb; hs; reflexivity|]. hs. lia.
    - (* Node, Leaf *)
      pose proof Hal as Hal0. destruct Hal as (Hall & Halr & Hlh & Hlb).
      pose proof (sheight_nonneg ll Hall). pose proof (sheight_nonneg lr Halr).
      need 1%nat fuel. cbn [Set_join].
      destruct (Z.gtb_spec lh 3).
      + destruct (IHlr (Set_Leaf rv) fuel0 Halr I ltac:(hs; lia)) as (j & Hrun & Haj & Hbj & Hhj & Hpj). hs.
        rewrite Hrun. cbn [bind].
        destruct (sbalanced_ok cmp phys_eq fuel0 ll lv j Hall Haj ltac:(lia) ltac:(lia)) as (t' & Hbal & Hat & Hbt & Hht & Hhe).
        exists t'. split; [exact Hbal|]. split; auto. split.
        { rewrite Hbt, Hbj. hs. rewrite <- app_assoc. reflexivity. }
        destruct (Z_le_gt_dec (Z.abs (sheight j - sheight ll)) 2).
        * assert (-2 <= sheight ll - sheight j <= 2) as H' by lia. specialize (Hhe H'). lia.
        * lia.
      + rewrite screate_node_ok by lia.
        destruct (snode_avl (Set_Node lh lv ll lr) v (Set_Leaf rv) Hal0 I ltac:(hs; lia)) as (Hca & Hch & Hcb).
        eexists; split; [reflexivity|]. split; [exact Hca|]. split; [rewrite Hcb; hs; reflexivity|]. hs. lia.
    - (* Node, Node *)
      pose proof Hal as Hal0. pose proof Har as Har0.
      destruct Hal as (Hall & Halr & Hlh & Hlb). destruct Har as (Harl & Harr & Hrh & Hrb).
      pose proof (sheight_nonneg ll Hall). pose proof (sheight_nonneg lr Halr).
      pose proof (sheight_nonneg rl Harl). pose proof (sheight_nonneg rr Harr).
      need 1%nat fuel. cbn [Set_join].
      destruct (Z.gtb_spec lh (rh + 2)).
      + destruct (IHlr (Set_Node rh rv rl rr) fuel0 Halr Har0 ltac:(hs; lia)) as (j & Hrun & Haj & Hbj & Hhj & Hpj). hs.
        rewrite Hrun. cbn [bind].
        destruct (sbalanced_ok cmp phys_eq fuel0 ll lv j Hall Haj ltac:(lia) ltac:(lia)) as (t' & Hbal & Hat & Hbt & Hht & Hhe).
        exists t'. split; [exact Hbal|]. split; auto. split.
        { rewrite Hbt, Hbj. hs. rewrite <- app_assoc. reflexivity. }
        destruct (Z_le_gt_dec (Z.abs (sheight j - sheight ll)) 2).
        * assert (-2 <= sheight ll - sheight j <= 2) as H' by lia. specialize (Hhe H'). lia.
        * lia.
      + destruct (Z.gtb_spec rh (lh + 2)).
        * destruct (IHrl fuel0 Hal0 Harl ltac:(hs; lia)) as (j & Hrun & Haj & Hbj & Hhj & Hpj). hs.
          rewrite Hrun. cbn [bind].
          destruct (sbalanced_ok cmp phys_eq fuel0 j rv rr Haj Harr ltac:(lia) ltac:(lia)) as (t' & Hbal & Hat & Hbt & Hht & Hhe).
          exists t'. split; [exact Hbal|]. split; auto. split.
          { rewrite Hbt, Hbj. hs. rewrite <- !app_assoc. reflexivity. }
          destruct (Z_le_gt_dec (Z.abs (sheight j - sheight rr)) 2).
          -- assert (-2 <= sheight j - sheight rr <= 2) as H' by lia. specialize (Hhe H'). lia.
          -- lia.
        * rewrite screate_node_ok by lia.
          destruct (snode_avl (Set_Node lh lv ll lr) v (Set_Node rh rv rl rr) Hal0 Har0 ltac:(hs; lia)) as (Hca & Hch & Hcb).
          eexists; split; [reflexivity|]. split; [exact Hca|]. split; [rewrite Hcb; hs; reflexivity|]. hs. lia.
  Qed.

  Theorem ssplit_ok x : forall t fuel, savl t -> sbst t -> 2 * sheight t + 4 <= Z.of_nat fuel ->
    exists l b r, @Set_split phys_eq K cmp fuel t x = Ok (Triple_init l b r)
      /\ savl l /\ savl r /\ sheight l <= sheight t /\ sheight r <= sheight t
      /\ sbindings l = below cmp x (sbindings t) /\ sbindings r = above cmp x (sbindings t)
      /\ b = is_some (find cmp x (sbindings t)).
  Proof.
    induction t as [|v|h v l IHl r IHr]; intros fuel Ha Hs Hf; hs.
    - need 2%nat fuel. cbn [Set_split]. rewrite !sempty_ok by lia. cbn [bind].
      do 3 eexists; split; [reflexivity|]. hs. cbn. repeat split; auto; lia.
    - need 2%nat fuel. cbn [Set_split]. rewrite !sempty_ok by lia. cbn [bind].
      cbn [below above filter fst find].
      destruct (cmp_cases O x v) as [(L & A & B)|[(E & A & B)|(L & A & B)]].
      + destruct (Z.eqb_spec (cmp x v) 0); [lia|]. destruct (Z.ltb_spec (cmp x v) 0); [|lia].
        destruct (Z.ltb_spec (cmp v x) 0); [lia|]. destruct (Z.ltb_spec 0 (cmp v x)); [|lia].
        do 3 eexists; split; [reflexivity|]. hs. repeat split; auto; lia.
      + subst v. destruct (Z.eqb_spec (cmp x x) 0); [|lia].
        destruct (Z.ltb_spec (cmp x x) 0); [lia|]. destruct (Z.ltb_spec 0 (cmp x x)); [lia|].
        do 3 eexists; split; [reflexivity|]. hs. repeat split; auto; lia.
      + destruct (Z.eqb_spec (cmp x v) 0); [lia|]. destruct (Z.ltb_spec (cmp x v) 0); [lia|].
        destruct (Z.ltb_spec (cmp v x) 0); [|lia]. destruct (Z.ltb_spec 0 (cmp v x)); [lia|].
        do 3 eexists; split; [reflexivity|]. hs. repeat split; auto; lia.
    - destruct Ha as (Hal & Har & Hh & Hb).
      pose proof (sheight_nonneg l Hal) as Nl. pose proof (sheight_nonneg r Har) as Nr.
      destruct (sbst_node_inv _ _ _ _ Hs) as (Hsl & Hsr & Hkl & Hkr).
      need 1%nat fuel. cbn [Set_split].
      destruct (cmp_cases O x v) as [(L & A & B)|[(E & A & B)|(L & A & B)]].
      + destruct (Z.eqb_spec (cmp x v) 0); [lia|]. destruct (Z.ltb_spec (cmp x v) 0); [|lia].
        destruct (IHl fuel0 Hal Hsl ltac:(lia)) as (ll & o & rl & Hrun & Hall & Harl & Hhll & Hhrl & Hbll & Hbrl & Ho).
        rewrite Hrun. cbn [bind].
        pose proof (sheight_nonneg _ Hall). pose proof (sheight_nonneg _ Harl).
        destruct (sjoin_ok v rl r fuel0 Harl Har ltac:(lia)) as (j & Hj & Haj & Hbj & Hhj & _).
        rewrite Hj. cbn [bind]. do 3 eexists; split; [reflexivity|].
        rewrite below_app_lt, above_app_lt, find_app_lt by auto.
        split; auto. split; auto. split; [lia|]. split; [lia|]. split; auto. split; auto.
        rewrite Hbj, Hbrl. reflexivity.
      + subst v. destruct (Z.eqb_spec (cmp x x) 0); [|lia].
        do 3 eexists; split; [reflexivity|].
        rewrite below_app_eq, above_app_eq, find_app_eq by auto.
        repeat split; auto; lia.
      + destruct (Z.eqb_spec (cmp x v) 0); [lia|]. destruct (Z.ltb_spec (cmp x v) 0); [lia|].
        destruct (IHr fuel0 Har Hsr ltac:(lia)) as (lr & o & rr & Hrun & Halr & Harr & Hhlr & Hhrr & Hblr & Hbrr & Ho).
        rewrite Hrun. cbn [bind].
        pose proof (sheight_nonneg _ Halr). pose proof (sheight_nonneg _ Harr).
        destruct (sjoin_ok v l lr fuel0 Hal Halr ltac:(lia)) as (j & Hj & Haj & Hbj & Hhj & _).
        rewrite Hj. cbn [bind]. do 3 eexists; split; [reflexivity|].
        rewrite below_app_gt, above_app_gt, find_app_gt by auto.
        split; auto. split; auto. split; [lia|]. split; [lia|]. split; auto.
        rewrite Hbj, Hblr. reflexivity.
  Qed.

  Theorem smin_ok : forall t fuel, savl t -> sheight t + 2 <= Z.of_nat fuel ->
    @Set_min phys_eq K cmp fuel t = Ok (of_option (option_map fst (hd_error (sbindings t)))).
  Proof.
    induction t as [|v|h v l IHl r IHr]; intros fuel Ha Hf; hs.
    - need 1%nat fuel. reflexivity.
    - need 1%nat fuel. reflexivity.
    - destruct Ha as (Hal & Har & Hh & Hb).
      pose proof (sheight_nonneg _ Hal). pose proof (sheight_nonneg _ Har).
      need 1%nat fuel. cbn [Set_min]. rewrite sisEmpty_ok by lia. cbn [bind].
      destruct l as [|lv|lh lv ll lr]; [reflexivity|..].
      + rewrite IHl by (hs; auto; lia). reflexivity.
      + rewrite IHl by (hs; auto; lia). cbn [SetBase.sbindings].
        destruct (SetBase.sbindings ll); reflexivity.
  Qed.

  Theorem smax_ok : forall t fuel, savl t -> sheight t + 2 <= Z.of_nat fuel ->
    @Set_max phys_eq K cmp fuel t = Ok (of_option (option_map fst (last_opt (sbindings t)))).
  Proof.
    induction t as [|v|h v l IHl r IHr]; intros fuel Ha Hf; hs.
    - need 1%nat fuel. reflexivity.
    - need 1%nat fuel. reflexivity.
    - destruct Ha as (Hal & Har & Hh & Hb).
      pose proof (sheight_nonneg _ Hal). pose proof (sheight_nonneg _ Har).
      need 1%nat fuel. cbn [Set_max]. rewrite sisEmpty_ok by lia. cbn [bind]. rewrite last_opt_app.
      destruct r as [|rv|rh rv rl rr]; [reflexivity|..].
      + rewrite IHr by (hs; auto; lia). reflexivity.
      + rewrite IHr by (hs; auto; lia). rewrite last_opt_cons; [reflexivity|].
        cbn [SetBase.sbindings]. now destruct (SetBase.sbindings rl).
  Qed.

  (* removeMin on a non-empty set; "Invalid state for Set.removeMin" unreachable *)
  Lemma sremoveMin_ok : forall t fuel, savl t -> t <> Set_Empty -> sheight t + 4 <= Z.of_nat fuel ->
    exists t' p, @Set_removeMin phys_eq K cmp fuel t = Ok t' /\ savl t'
      /\ sbindings t = p :: sbindings t' /\ sheight t - 1 <= sheight t' <= sheight t.
  Proof.
    induction t as [|v|h v l IHl r IHr]; intros fuel Ha Hne Hf; [congruence|..]; hs.
    - need 2%nat fuel. cbn [Set_removeMin]. rewrite sempty_ok by lia.
      exists Set_Empty, (v, tt). hs. repeat split; auto; lia.
    - destruct Ha as (Hal & Har & Hh & Hb).
      pose proof (sheight_nonneg l Hal) as Nl. pose proof (sheight_nonneg r Har) as Nr.
      need 1%nat fuel. cbn [Set_removeMin].
      destruct l as [|lv|lh lv ll lr].
      + exists r, (v, tt). hs. repeat split; auto; lia.
      + destruct (IHl fuel0 I ltac:(congruence) ltac:(hs; lia)) as (l' & p & Hrun & Hal' & Hbl' & Hhl').
        rewrite Hrun. cbn [bind].
        destruct (sbalanced_ok cmp phys_eq fuel0 l' v r Hal' Har ltac:(hs; lia) ltac:(lia)) as (t' & Hbal & Hat & Hbt & Hht & Hhe).
        exists t', p. split; [exact Hbal|]. split; auto. split.
        { rewrite Hbt. cbn [SetBase.sbindings] in Hbl' |- *. rewrite Hbl'. reflexivity. }
        hs. destruct (Z_le_gt_dec (Z.abs (sheight l' - sheight r)) 2).
        * assert (-2 <= sheight l' - sheight r <= 2) as H' by lia. specialize (Hhe H'). lia.
        * lia.
      + destruct (IHl fuel0 Hal ltac:(congruence) ltac:(hs; lia)) as (l' & p & Hrun & Hal' & Hbl' & Hhl').
        rewrite Hrun. cbn [bind].
        destruct (sbalanced_ok cmp phys_eq fuel0 l' v r Hal' Har ltac:(hs; lia) ltac:(lia)) as (t' & Hbal & Hat & Hbt & Hht & Hhe).
        exists t', p. split; [exact Hbal|]. split; auto. split.
        { rewrite Hbt. cbn [SetBase.sbindings] in Hbl' |- *. rewrite Hbl'. reflexivity. }
        hs. destruct (Z_le_gt_dec (Z.abs (sheight l' - sheight r)) 2).
        * assert (-2 <= sheight l' - sheight r <= 2) as H' by lia. specialize (Hhe H'). lia.
        * lia.
  Qed.

  Lemma sunwrap_some fuel (x : K) : (2 <= fuel)%nat -> @Option_unwrap phys_eq K fuel (Option_Some x) = Ok x.
  Proof. intros. need 2%nat fuel. reflexivity. Qed.

  Lemma sbindings_nonempty t : t <> Set_Empty -> exists p rest, sbindings t = p :: rest.
  Proof.
    destruct t as [|v|h v l r]; [congruence|..]; intros _; cbn [SetBase.sbindings].
    - eauto.
    - destruct (SetBase.sbindings l); cbn [app]; eauto.
  Qed.

  (* min().unwrap() of a non-empty set *)
  Lemma smin_unwrap_ok t fuel : savl t -> t <> Set_Empty -> sheight t + 3 <= Z.of_nat fuel ->
    exists m rest, sbindings t = (m, tt) :: rest /\
      (let* x := @Set_min phys_eq K cmp fuel t in @Option_unwrap phys_eq K fuel x) = Ok m.
  Proof.
    intros Ha Hne Hf. pose proof (sheight_nonneg _ Ha). destruct (sbindings_nonempty t Hne) as ([m []] & rest & Hb).
    exists m, rest. split; auto. rewrite smin_ok by (auto; lia). cbn [bind]. rewrite Hb. cbn.
    apply sunwrap_some. lia.
  Qed.

  Lemma sconcat_ok t1 t2 fuel : savl t1 -> savl t2 -> sheight t1 + sheight t2 + 6 <= Z.of_nat fuel ->
    exists t, @Set_concat phys_eq K cmp fuel t1 t2 = Ok t /\ savl t
      /\ sbindings t = sbindings t1 ++ sbindings t2 /\ sheight t <= Z.max (sheight t1) (sheight t2) + 1.
  Proof.
    intros Ha1 Ha2 Hf. pose proof (sheight_nonneg _ Ha1) as N1. pose proof (sheight_nonneg _ Ha2) as N2.
    need 1%nat fuel. cbn [Set_concat].
    assert (Hgen : t1 <> Set_Empty -> t2 <> Set_Empty ->
      exists t, (let* x2__ := (let* x1__ := @Set_min phys_eq K cmp fuel0 t2 in @Option_unwrap phys_eq K fuel0 x1__) in
                 let* x3__ := @Set_removeMin phys_eq K cmp fuel0 t2 in @Set_join phys_eq K cmp fuel0 t1 x2__ x3__) = Ok t
        /\ savl t /\ sbindings t = sbindings t1 ++ sbindings t2 /\ sheight t <= Z.max (sheight t1) (sheight t2) + 1).
    { intros Hn1 Hn2.
      destruct (smin_unwrap_ok t2 fuel0 Ha2 Hn2 ltac:(lia)) as (m & rest & Hbm & Hrm). rewrite Hrm. cbn [bind].
      destruct (sremoveMin_ok t2 fuel0 Ha2 Hn2 ltac:(lia)) as (t2' & p & Hrr & Hat2' & Hbt2' & Hht2').
      rewrite Hrr. cbn [bind]. pose proof (sheight_nonneg _ Hat2').
      destruct (sjoin_ok m t1 t2' fuel0 Ha1 Hat2' ltac:(lia)) as (t & Hj & Hat & Hbt & Hht & _).
      exists t. split; [exact Hj|]. split; auto. split; [|lia].
      rewrite Hbt. rewrite Hbm in Hbt2'. inversion Hbt2'; subst. rewrite Hbm. reflexivity. }
    destruct t1 as [|v1|h1 v1 l1 r1]; [|destruct t2 as [|v2|h2 v2 l2 r2]..].
    - eexists; split; [reflexivity|]. hs. repeat split; auto; lia.
    - eexists; split; [reflexivity|]. hs. repeat split; auto; lia.
    - apply Hgen; congruence.
    - apply Hgen; congruence.
    - eexists; split; [reflexivity|]. hs. rewrite app_nil_r. repeat split; tauto || lia.
    - apply Hgen; congruence.
    - apply Hgen; congruence.
  Qed.

  Lemma sinternalMerge_ok t1 t2 fuel : savl t1 -> savl t2 -> -2 <= sheight t1 - sheight t2 <= 2 ->
    Z.max (sheight t1) (sheight t2) + 6 <= Z.of_nat fuel ->
    exists t, @Set_internalMerge phys_eq K cmp fuel t1 t2 = Ok t /\ savl t
      /\ sbindings t = sbindings t1 ++ sbindings t2
      /\ Z.max (sheight t1) (sheight t2) <= sheight t <= Z.max (sheight t1) (sheight t2) + 1.
  Proof.
    intros Ha1 Ha2 Hb Hf. pose proof (sheight_nonneg _ Ha1) as N1. pose proof (sheight_nonneg _ Ha2) as N2.
    need 1%nat fuel. cbn [Set_internalMerge].
    assert (Hgen : t1 <> Set_Empty -> t2 <> Set_Empty ->
      exists t, (let* x2__ := (let* x1__ := @Set_min phys_eq K cmp fuel0 t2 in @Option_unwrap phys_eq K fuel0 x1__) in
                 let* x3__ := @Set_removeMin phys_eq K cmp fuel0 t2 in @Set_balanced phys_eq K cmp fuel0 t1 x2__ x3__) = Ok t
        /\ savl t /\ sbindings t = sbindings t1 ++ sbindings t2
        /\ Z.max (sheight t1) (sheight t2) <= sheight t <= Z.max (sheight t1) (sheight t2) + 1).
    { intros Hn1 Hn2.
      destruct (smin_unwrap_ok t2 fuel0 Ha2 Hn2 ltac:(lia)) as (m & rest & Hbm & Hrm). rewrite Hrm. cbn [bind].
      destruct (sremoveMin_ok t2 fuel0 Ha2 Hn2 ltac:(lia)) as (t2' & p & Hrr & Hat2' & Hbt2' & Hht2').
      rewrite Hrr. cbn [bind]. pose proof (sheight_nonneg _ Hat2').
      destruct (sbalanced_ok cmp phys_eq fuel0 t1 m t2' Ha1 Hat2' ltac:(lia) ltac:(lia)) as (t & Hbal & Hat & Hbt & Hht & Hhe).
      exists t. split; [exact Hbal|]. split; auto. split.
      { rewrite Hbt. rewrite Hbm in Hbt2'. inversion Hbt2'; subst. rewrite Hbm. reflexivity. }
      destruct (Z_le_gt_dec (Z.abs (sheight t1 - sheight t2')) 2).
      + assert (-2 <= sheight t1 - sheight t2' <= 2) as H' by lia. specialize (Hhe H'). lia.
      + lia. }
    destruct t1 as [|v1|h1 v1 l1 r1]; [|destruct t2 as [|v2|h2 v2 l2 r2]..].
    - eexists; split; [reflexivity|]. hs. repeat split; auto; lia.
    - eexists; split; [reflexivity|]. hs. repeat split; auto; lia.
    - apply Hgen; congruence.
    - apply Hgen; congruence.
    - eexists; split; [reflexivity|]. hs. rewrite app_nil_r. repeat split; tauto || lia.
    - apply Hgen; congruence.
    - apply Hgen; congruence.
  Qed.

  Theorem sremove_ok x : forall t fuel, savl t -> sbst t -> sheight t + 7 <= Z.of_nat fuel ->
    exists t', @Set_remove phys_eq K cmp fuel t x = Ok t' /\ savl t' /\ sbindings t' = del cmp x (sbindings t)
               /\ sheight t - 1 <= sheight t' <= sheight t.
  Proof.
    induction t as [|v|h v l IHl r IHr]; intros fuel Ha Hs Hf; hs.
    - need 1%nat fuel. cbn [Set_remove]. eexists; split; [reflexivity|]. hs. cbn. repeat split; auto; lia.
    - need 2%nat fuel. cbn [Set_remove del].
      destruct (Z.eqb_spec (cmp x v) 0).
      + rewrite sempty_ok by lia. eexists; split; [reflexivity|]. hs. repeat split; auto; lia.
      + eexists; split; [reflexivity|]. hs. repeat split; auto; lia.
    - pose proof Ha as Ha0. destruct Ha as (Hal & Har & Hh & Hb).
      pose proof (sheight_nonneg l Hal) as Nl. pose proof (sheight_nonneg r Har) as Nr.
      destruct (sbst_node_inv _ _ _ _ Hs) as (Hsl & Hsr & Hkl & Hkr).
      need 1%nat fuel. cbn [Set_remove].
      destruct (cmp_cases O x v) as [(L & A & B)|[(E & A & B)|(L & A & B)]].
      + destruct (Z.eqb_spec (cmp x v) 0); [lia|]. destruct (Z.ltb_spec (cmp x v) 0); [|lia].
        destruct (IHl fuel0 Hal Hsl ltac:(lia)) as (ll & Hrun & Hall & Hbl & Hhl). rewrite Hrun. cbn [bind].
        rewrite del_app_lt by auto.
        destruct (phys_eq S l ll) eqn:Ep.
        * apply phys_eq_sound in Ep. subst ll. eexists; split; [reflexivity|]. split; [exact Ha0|].
          hs. rewrite <- Hbl. split; [reflexivity|lia].
        * destruct (sbalanced_ok cmp phys_eq fuel0 ll v r Hall Har ltac:(lia) ltac:(lia)) as (t' & Hbal & Hat & Hbt & Hht & Hhe).
          exists t'. split; [exact Hbal|]. split; auto. split; [now rewrite Hbt, Hbl|].
          destruct (Z_le_gt_dec (Z.abs (sheight ll - sheight r)) 2).
          -- assert (-2 <= sheight ll - sheight r <= 2) as H' by lia. specialize (Hhe H'). lia.
          -- lia.
      + subst v. destruct (Z.eqb_spec (cmp x x) 0); [|lia].
        destruct (sinternalMerge_ok l r fuel0 Hal Har Hb ltac:(lia)) as (t' & Hrun & Hat & Hbt & Hht).
        exists t'. split; [exact Hrun|]. split; auto. rewrite del_app_eq by auto. split; [exact Hbt|lia].
      + destruct (Z.eqb_spec (cmp x v) 0); [lia|]. destruct (Z.ltb_spec (cmp x v) 0); [lia|].
        destruct (IHr fuel0 Har Hsr ltac:(lia)) as (rr & Hrun & Harr & Hbr & Hhr). rewrite Hrun. cbn [bind].
        rewrite del_app_gt by auto.
        destruct (phys_eq S r rr) eqn:Ep.
        * apply phys_eq_sound in Ep. subst rr. eexists; split; [reflexivity|]. split; [exact Ha0|].
          hs. rewrite <- Hbr. split; [reflexivity|lia].
        * destruct (sbalanced_ok cmp phys_eq fuel0 l v rr Hal Harr ltac:(lia) ltac:(lia)) as (t' & Hbal & Hat & Hbt & Hht & Hhe).
          exists t'. split; [exact Hbal|]. split; auto. split; [now rewrite Hbt, Hbr|].
          destruct (Z_le_gt_dec (Z.abs (sheight rr - sheight l)) 2).
          -- assert (-2 <= sheight l - sheight rr <= 2) as H' by lia. specialize (Hhe H'). lia.
          -- lia.
  Qed.
End SetOps1.
