(* C18 — Set: filter, partition, fold, iter, forAll, exists, size, elements, fromList. *)
From Coq Require Import List ZArith Lia Bool ZifyBool.
Import ListNotations.
From SVG Require Import StdPrelude StdTuples StdOption StdList StdSet.
From SV Require Import C18.Spec C18.Tactics C18.Conv C18.SetBase C18.SetOps1.
Open Scope Z_scope.

Section SetOps2.
  Context {K : Type}.
  Variable cmp : K -> K -> Z.
  Hypothesis O : cmp_order cmp.
  Variable phys_eq : forall A : Type, A -> A -> bool.
  Hypothesis phys_eq_sound : forall A (a b : A), phys_eq A a b = true -> a = b.
  Notation S := (Set_t K).
  Notation sbindings := (@sbindings K).
  Notation sheight := (@sheight K).
  Notation savl := (@savl K).
  Notation sbst := (sbst cmp).

  Ltac hs := cbn [SetBase.sheight SetBase.sbindings SetBase.savl] in *.
  Ltac node_case Ha Hal Har Nl Nr :=
    destruct Ha as (Hal & Har & ? & ?);
    pose proof (sheight_nonneg _ Hal) as Nl; pose proof (sheight_nonneg _ Har) as Nr.

  Definition kpred (g : K -> bool) : K -> unit -> bool := fun k _ => g k.

  Theorem sfilter_ok (f : K -> res bool) (g : K -> bool) :
    (forall k, f k = Ok (g k)) ->
    forall t fuel, savl t -> 2 * sheight t + 5 <= Z.of_nat fuel ->
    exists t', @Set_filter phys_eq K cmp fuel t f = Ok t' /\ savl t'
      /\ sbindings t' = afilter (kpred g) (sbindings t) /\ sheight t' <= sheight t.
  Proof.
    intros Hfg.
    induction t as [|v|h v l IHl r IHr]; intros fuel Ha Hf; hs.
    - need 1%nat fuel. cbn [Set_filter]. eexists; split; [reflexivity|]. hs. cbn. repeat split; auto; lia.
    - need 2%nat fuel. cbn [Set_filter]. rewrite Hfg. cbn [bind]. unfold afilter, kpred. cbn [filter fst snd].
      destruct (g v).
      + eexists; split; [reflexivity|]. hs. repeat split; auto; lia.
      + rewrite sempty_ok by lia. eexists; split; [reflexivity|]. hs. repeat split; auto; lia.
    - pose proof Ha as Ha0. node_case Ha Hal Har Nl Nr.
      need 1%nat fuel. cbn [Set_filter].
      destruct (IHl fuel0 Hal ltac:(lia)) as (nl & Hrl & Hanl & Hbnl & Hhnl). rewrite Hrl. cbn [bind].
      rewrite Hfg. cbn [bind].
      destruct (IHr fuel0 Har ltac:(lia)) as (nr & Hrr & Hanr & Hbnr & Hhnr). rewrite Hrr. cbn [bind].
      pose proof (sheight_nonneg _ Hanl). pose proof (sheight_nonneg _ Hanr).
      rewrite afilter_app. unfold afilter at 2. cbn [filter fst snd]. fold (afilter (kpred g) (sbindings r)).
      change (kpred g v tt) with (g v).
      destruct (g v).
      + destruct (phys_eq S l nl && phys_eq S r nr) eqn:Ep.
        * apply andb_true_iff in Ep. destruct Ep as [E1 E2]. apply phys_eq_sound in E1, E2. subst nl nr.
          eexists; split; [reflexivity|]. split; [exact Ha0|]. hs. rewrite <- Hbnl, <- Hbnr. split; [reflexivity|lia].
        * destruct (sjoin_ok cmp phys_eq v nl nr fuel0 Hanl Hanr ltac:(lia)) as (t' & Hj & Hat & Hbt & Hht & _).
          exists t'. split; [exact Hj|]. split; auto. split; [now rewrite Hbt, Hbnl, Hbnr|lia].
      + destruct (sconcat_ok cmp phys_eq nl nr fuel0 Hanl Hanr ltac:(lia)) as (t' & Hc & Hat & Hbt & Hht).
        exists t'. split; [exact Hc|]. split; auto. split; [now rewrite Hbt, Hbnl, Hbnr|lia].
  Qed.

  Theorem spartition_ok (f : K -> res bool) (g : K -> bool) :
    (forall k, f k = Ok (g k)) ->
    forall t fuel, savl t -> 2 * sheight t + 5 <= Z.of_nat fuel ->
    exists tt' tf, @Set_partition phys_eq K cmp fuel t f = Ok (Pair_init tt' tf) /\ savl tt' /\ savl tf
      /\ sbindings tt' = afilter (kpred g) (sbindings t)
      /\ sbindings tf = afilter (kpred (fun k => negb (g k))) (sbindings t)
      /\ sheight tt' <= sheight t /\ sheight tf <= sheight t.
  Proof.
    intros Hfg.
    induction t as [|v|h v l IHl r IHr]; intros fuel Ha Hf; hs.
    - need 2%nat fuel. cbn [Set_partition]. rewrite !sempty_ok by lia. cbn [bind].
      do 2 eexists; split; [reflexivity|]. hs. cbn. repeat split; auto; lia.
    - need 2%nat fuel. cbn [Set_partition]. rewrite Hfg. cbn [bind]. unfold afilter, kpred. cbn [filter fst snd].
      destruct (g v); rewrite sempty_ok by lia; cbn [bind negb];
        (do 2 eexists; split; [reflexivity|]; hs; repeat split; auto; lia).
    - node_case Ha Hal Har Nl Nr.
      need 1%nat fuel. cbn [Set_partition].
      destruct (IHl fuel0 Hal ltac:(lia)) as (lt' & lf & Hrl & Halt & Half & Hblt & Hblf & Hhlt & Hhlf). rewrite Hrl. cbn [bind].
      rewrite Hfg. cbn [bind].
      destruct (IHr fuel0 Har ltac:(lia)) as (rt & rf & Hrr & Hart & Harf & Hbrt & Hbrf & Hhrt & Hhrf). rewrite Hrr. cbn [bind].
      pose proof (sheight_nonneg _ Halt). pose proof (sheight_nonneg _ Half).
      pose proof (sheight_nonneg _ Hart). pose proof (sheight_nonneg _ Harf).
      rewrite !afilter_app. unfold afilter at 2 4. cbn [filter fst snd].
      fold (afilter (kpred g) (sbindings r)). fold (afilter (kpred (fun k => negb (g k))) (sbindings r)).
      change (kpred g v tt) with (g v). change (kpred (fun k => negb (g k)) v tt) with (negb (g v)).
      destruct (g v); cbn [negb].
      + destruct (sjoin_ok cmp phys_eq v lt' rt fuel0 Halt Hart ltac:(lia)) as (a & Hj & Haa & Hba & Hha & _).
        rewrite Hj. cbn [bind].
        destruct (sconcat_ok cmp phys_eq lf rf fuel0 Half Harf ltac:(lia)) as (b & Hc & Hab & Hbb & Hhb).
        rewrite Hc. cbn [bind]. do 2 eexists; split; [reflexivity|].
        split; auto. split; auto. split; [now rewrite Hba, Hblt, Hbrt|]. split; [now rewrite Hbb, Hblf, Hbrf|lia].
      + destruct (sconcat_ok cmp phys_eq lt' rt fuel0 Halt Hart ltac:(lia)) as (a & Hc & Haa & Hba & Hha).
        rewrite Hc. cbn [bind].
        destruct (sjoin_ok cmp phys_eq v lf rf fuel0 Half Harf ltac:(lia)) as (b & Hj & Hab & Hbb & Hhb & _).
        rewrite Hj. cbn [bind]. do 2 eexists; split; [reflexivity|].
        split; auto. split; auto. split; [now rewrite Hba, Hblt, Hbrt|]. split; [now rewrite Hbb, Hblf, Hbrf|lia].
  Qed.

  Theorem sfold_ok {A} (f : A -> K -> res A) (g : A -> K -> A) :
    (forall a k, f a k = Ok (g a k)) ->
    forall t acc fuel, savl t -> sheight t + 1 <= Z.of_nat fuel ->
    @Set_fold phys_eq K A cmp fuel t acc f = Ok (fold_left g (elements t) acc).
  Proof.
    intros Hfg. unfold elements.
    induction t as [|v|h v l IHl r IHr]; intros acc fuel Ha Hf; hs.
    - need 1%nat fuel. reflexivity.
    - need 1%nat fuel. cbn [Set_fold]. now rewrite Hfg.
    - node_case Ha Hal Har Nl Nr. need 1%nat fuel. cbn [Set_fold].
      rewrite IHl by (auto; lia). cbn [bind]. rewrite Hfg. cbn [bind]. rewrite IHr by (auto; lia).
      rewrite map_app, fold_left_app. reflexivity.
  Qed.

  Theorem siter_ok (f : K -> res unit) : (forall k, f k = Ok tt) ->
    forall t fuel, savl t -> sheight t + 1 <= Z.of_nat fuel -> @Set_iter phys_eq K cmp fuel t f = Ok tt.
  Proof.
    intros Hfg. induction t as [|v|h v l IHl r IHr]; intros fuel Ha Hf; hs.
    - need 1%nat fuel. reflexivity.
    - need 1%nat fuel. cbn [Set_iter]. now rewrite Hfg.
    - node_case Ha Hal Har Nl Nr. need 1%nat fuel. cbn [Set_iter].
      rewrite IHl by (auto; lia). cbn [bind]. rewrite Hfg. cbn [bind]. rewrite IHr by (auto; lia). reflexivity.
  Qed.

  Theorem sforAll_ok (f : K -> res bool) (g : K -> bool) : (forall k, f k = Ok (g k)) ->
    forall t fuel, savl t -> sheight t + 1 <= Z.of_nat fuel ->
    @Set_forAll phys_eq K cmp fuel t f = Ok (forallb g (elements t)).
  Proof.
    intros Hfg. unfold elements. induction t as [|v|h v l IHl r IHr]; intros fuel Ha Hf; hs.
    - need 1%nat fuel. reflexivity.
    - need 1%nat fuel. cbn [Set_forAll forallb map fst]. rewrite Hfg, andb_true_r. reflexivity.
    - node_case Ha Hal Har Nl Nr. need 1%nat fuel. cbn [Set_forAll].
      rewrite Hfg. cbn [bind]. rewrite map_app, forallb_app. cbn [forallb map fst].
      destruct (g v); cbn [bind].
      + rewrite IHl by (auto; lia). cbn [bind]. destruct (forallb g (map fst (sbindings l))); cbn [andb].
        * now rewrite IHr by (auto; lia).
        * reflexivity.
      + now rewrite andb_false_r.
  Qed.

  Theorem sexists_ok (f : K -> res bool) (g : K -> bool) : (forall k, f k = Ok (g k)) ->
    forall t fuel, savl t -> sheight t + 1 <= Z.of_nat fuel ->
    @Set_exists phys_eq K cmp fuel t f = Ok (existsb g (elements t)).
  Proof.
    intros Hfg. unfold elements. induction t as [|v|h v l IHl r IHr]; intros fuel Ha Hf; hs.
    - need 1%nat fuel. reflexivity.
    - need 1%nat fuel. cbn [Set_exists existsb map fst]. rewrite Hfg, orb_false_r. reflexivity.
    - node_case Ha Hal Har Nl Nr. need 1%nat fuel. cbn [Set_exists].
      rewrite Hfg. cbn [bind]. rewrite map_app, existsb_app. cbn [existsb map fst].
      destruct (g v); cbn [bind].
      + now rewrite orb_true_r.
      + rewrite IHl by (auto; lia). cbn [bind]. destruct (existsb g (map fst (sbindings l))); cbn [orb].
        * reflexivity.
        * now rewrite IHr by (auto; lia).
  Qed.

  Theorem ssize_ok : forall t fuel, savl t -> sheight t + 1 <= Z.of_nat fuel ->
    @Set_size phys_eq K cmp fuel t = Ok (Z.of_nat (length (elements t))).
  Proof.
    unfold elements. induction t as [|v|h v l IHl r IHr]; intros fuel Ha Hf; hs.
    - need 1%nat fuel. reflexivity.
    - need 1%nat fuel. reflexivity.
    - node_case Ha Hal Har Nl Nr. need 1%nat fuel. cbn [Set_size].
      rewrite IHl by (auto; lia). cbn [bind]. rewrite IHr by (auto; lia). cbn [bind].
      rewrite map_app, app_length. cbn [length map]. f_equal. lia.
  Qed.

  Lemma selementsHelper_ok : forall t acc fuel, savl t -> sheight t + 1 <= Z.of_nat fuel ->
    @Set_elementsHelper phys_eq K cmp fuel t (of_list acc) = Ok (of_list (elements t ++ acc)).
  Proof.
    unfold elements. induction t as [|v|h v l IHl r IHr]; intros acc fuel Ha Hf; hs.
    - need 1%nat fuel. reflexivity.
    - need 1%nat fuel. reflexivity.
    - node_case Ha Hal Har Nl Nr. need 1%nat fuel. cbn [Set_elementsHelper].
      rewrite IHr by (auto; lia). cbn [bind].
      change (List_Cons v (of_list (map fst (sbindings r) ++ acc)))
        with (of_list (v :: map fst (sbindings r) ++ acc)).
      rewrite IHl by (auto; lia). rewrite map_app. cbn [map fst]. rewrite <- app_assoc. reflexivity.
  Qed.

  Theorem selements_ok : forall t fuel, savl t -> sheight t + 2 <= Z.of_nat fuel ->
    @Set_elements phys_eq K cmp fuel t = Ok (of_list (elements t)).
  Proof.
    intros t fuel Ha Hf. pose proof (sheight_nonneg _ Ha). need 2%nat fuel. cbn [Set_elements List_nil bind].
    change (@List_Nil K) with (@of_list K []).
    rewrite selementsHelper_ok by (auto; lia). now rewrite app_nil_r.
  Qed.

  (* fromList: insert the elements one after the other into the empty set *)
  Definition sadd_all (l : list K) (acc : list (K * unit)) : list (K * unit) :=
    fold_left (fun a e => put cmp e tt a) l acc.

  Lemma sfold_insert_ok fuel0 : forall l t fuel, savl t -> sbst t ->
    sheight t + Z.of_nat (length l) + 4 <= Z.of_nat fuel0 -> (length l + 1 <= fuel)%nat ->
    exists t', @List_fold phys_eq K S fuel (of_list l) (fun acc e => @Set_insert phys_eq K cmp fuel0 acc e) t = Ok t'
      /\ savl t' /\ sbst t' /\ sbindings t' = sadd_all l (sbindings t).
  Proof.
    induction l as [|e l IH]; intros t fuel Ha Hs Hf0 Hf; cbn [length] in *.
    - need 1%nat fuel. cbn [List_fold of_list]. eexists; split; [reflexivity|]. cbn. auto.
    - need 1%nat fuel. cbn [List_fold of_list].
      destruct (sinsert_ok cmp O phys_eq phys_eq_sound e t fuel0 Ha Hs ltac:(lia)) as (t1 & Hins & Hat1 & Hbt1 & Hht1).
      rewrite Hins. cbn [bind].
      assert (Hs1 : sbst t1) by (unfold SetBase.sbst; rewrite Hbt1; now apply put_sorted).
      destruct (IH t1 fuel1 Hat1 Hs1 ltac:(lia) ltac:(lia)) as (t' & Hrun & Hat' & Hst' & Hbt').
      exists t'. split; [exact Hrun|]. split; auto. split; auto.
      rewrite Hbt', Hbt1. reflexivity.
  Qed.

  Theorem sfromList_ok l fuel : Z.of_nat (length l) + 6 <= Z.of_nat fuel ->
    exists t, @Set_fromList phys_eq K cmp fuel (of_list l) = Ok t /\ savl t /\ sbst t
      /\ sbindings t = sadd_all l [].
  Proof.
    intros Hf. need 2%nat fuel. cbn [Set_fromList]. rewrite sempty_ok by lia. cbn [bind].
    destruct (sfold_insert_ok (Datatypes.S fuel0) l Set_Empty (Datatypes.S fuel0) I I ltac:(cbn; lia) ltac:(lia))
      as (t & Hrun & Hat & Hst & Hbt).
    exists t. auto.
  Qed.
End SetOps2.
