(* C18 — Set: union, intersection, disjoint, diff (pointwise specification through membership). *)
From Coq Require Import List ZArith Lia Bool ZifyBool.
Import ListNotations.
From SVG Require Import StdPrelude StdTuples StdOption StdList StdSet.
From SV Require Import C18.Spec C18.Tactics C18.Conv C18.SetBase C18.SetOps1.
Open Scope Z_scope.

(* combination of membership: sets are finite maps to unit *)
Definition or_comb {K} (_ : K) (a b : option unit) : option unit := match a with Some x => Some x | None => b end.
Definition and_comb {K} (_ : K) (a b : option unit) : option unit :=
  match a, b with Some x, Some _ => Some x | _, _ => None end.
Definition diff_comb {K} (_ : K) (a b : option unit) : option unit := match b with Some _ => None | None => a end.

Section SetOps3.
  Context {K : Type}.
  Variable cmp : K -> K -> Z.
  Hypothesis O : cmp_order cmp.
  Variable phys_eq : forall A : Type, A -> A -> bool.
  Hypothesis phys_eq_sound : forall A (a b : A), phys_eq A a b = true -> a = b.
  Notation S := (Set_t K).
  Notation sbindings := (@sbindings K).
  Notation sheight := (@sheight K).
  Notation savl := (@savl K).
  Notation sbst := (sbst cmp).

  Ltac hs := cbn [SetBase.sheight SetBase.sbindings SetBase.savl] in *.

  Lemma node_h1 h v l r : savl (Set_Node h v l r) -> h = 1 -> l = Set_Empty /\ r = Set_Empty.
  Proof.
    intros (Hl & Hr & Hh & Hb) E. pose proof (sheight_nonneg _ Hl). pose proof (sheight_nonneg _ Hr).
    split; apply sheight_zero; auto; lia.
  Qed.

  Lemma unit_opt (o : option unit) : o = None \/ o = Some tt.
  Proof. destruct o as [[]|]; auto. Qed.

  (* this ∪ {v} through insert, in both argument orders *)
  Lemma union_insert_l t v fuel : savl t -> sbst t -> sheight t + 4 <= Z.of_nat fuel ->
    exists t', @Set_insert phys_eq K cmp fuel t v = Ok t' /\ savl t' /\ sbst t'
      /\ pointwise cmp or_comb [(v, tt)] (sbindings t) (sbindings t') /\ sheight t' <= sheight t + 1.
  Proof.
    intros Ha Hs Hf. destruct (sinsert_ok cmp O phys_eq phys_eq_sound v t fuel Ha Hs Hf) as (t' & Hr & Hat & Hbt & Hht).
    exists t'. split; auto. split; auto. split; [unfold SetBase.sbst; rewrite Hbt; now apply put_sorted|].
    split; [|lia]. intros k. rewrite Hbt, (find_put O). cbn [find]. unfold or_comb.
    destruct (cmp k v =? 0); reflexivity.
  Qed.

  Lemma union_insert_r t v fuel : savl t -> sbst t -> sheight t + 4 <= Z.of_nat fuel ->
    exists t', @Set_insert phys_eq K cmp fuel t v = Ok t' /\ savl t' /\ sbst t'
      /\ pointwise cmp or_comb (sbindings t) [(v, tt)] (sbindings t') /\ sheight t' <= sheight t + 1.
  Proof.
    intros Ha Hs Hf. destruct (sinsert_ok cmp O phys_eq phys_eq_sound v t fuel Ha Hs Hf) as (t' & Hr & Hat & Hbt & Hht).
    exists t'. split; auto. split; auto. split; [unfold SetBase.sbst; rewrite Hbt; now apply put_sorted|].
    split; [|lia]. intros k. rewrite Hbt, (find_put O). cbn [find]. unfold or_comb.
    destruct (cmp k v =? 0); destruct (unit_opt (find cmp k (sbindings t))) as [-> | ->]; reflexivity.
  Qed.

  Theorem sunion_ok : forall fuel t1 t2, savl t1 -> sbst t1 -> savl t2 -> sbst t2 ->
    2 * (sheight t1 + sheight t2) + 8 <= Z.of_nat fuel ->
    exists t, @Set_union phys_eq K cmp fuel t1 t2 = Ok t /\ savl t /\ sbst t
      /\ pointwise cmp or_comb (sbindings t1) (sbindings t2) (sbindings t)
      /\ sheight t <= sheight t1 + sheight t2.
  Proof.
    induction fuel as [|fuel IH]; intros t1 t2 Ha1 Hs1 Ha2 Hs2 Hf;
      pose proof (sheight_nonneg _ Ha1) as N1; pose proof (sheight_nonneg _ Ha2) as N2; [lia|].
    cbn [Set_union].
    destruct t1 as [|v1|h1 v1 l1 r1]; [|destruct t2 as [|v2|h2 v2 l2 r2]..].
    - eexists; split; [reflexivity|]. split; auto. split; auto. split; [|hs; lia]. intros k. reflexivity.
    - eexists; split; [reflexivity|]. split; auto. split; auto. split; [|hs; lia]. intros k. cbn [find or_comb SetBase.sbindings].
      now destruct (cmp k v1 =? 0).
    - destruct (union_insert_l (Set_Leaf v2) v1 fuel Ha2 Hs2 ltac:(hs; lia)) as (t & Hr & Hat & Hst & Hp & Hh).
      exists t. hs. repeat split; auto; lia.
    - destruct (union_insert_l (Set_Node h2 v2 l2 r2) v1 fuel Ha2 Hs2 ltac:(hs; lia)) as (t & Hr & Hat & Hst & Hp & Hh).
      exists t. hs. repeat split; auto; lia.
    - eexists; split; [reflexivity|]. split; auto. split; auto. split; [|hs; lia]. intros k. cbn [find].
      unfold or_comb. now destruct (find cmp k _).
    - destruct (union_insert_r (Set_Node h1 v1 l1 r1) v2 fuel Ha1 Hs1 ltac:(hs; lia)) as (t & Hr & Hat & Hst & Hp & Hh).
      exists t. hs. repeat split; auto; lia.
    - pose proof (snode_height_pos _ _ _ _ Ha1) as P1. pose proof (snode_height_pos _ _ _ _ Ha2) as P2.
      destruct (sbst_node_inv cmp _ _ _ _ Hs1) as (Hsl1 & Hsr1 & Hkl1 & Hkr1).
      destruct (sbst_node_inv cmp _ _ _ _ Hs2) as (Hsl2 & Hsr2 & Hkl2 & Hkr2).
      pose proof (node_h1 _ _ _ _ Ha1) as Q1. pose proof (node_h1 _ _ _ _ Ha2) as Q2.
      pose proof Ha1 as Ha1'. pose proof Ha2 as Ha2'.
      destruct Ha1' as (Hal1 & Har1 & Hh1 & Hb1). destruct Ha2' as (Hal2 & Har2 & Hh2 & Hb2).
      pose proof (sheight_nonneg _ Hal1). pose proof (sheight_nonneg _ Har1).
      pose proof (sheight_nonneg _ Hal2). pose proof (sheight_nonneg _ Har2). hs.
      destruct (Z.geb_spec h1 h2) as [G|G].
      + destruct (Z.eqb_spec h2 1) as [E1|E1].
        * destruct (Q2 E1) as [-> ->].
          destruct (union_insert_r (Set_Node h1 v1 l1 r1) v2 fuel Ha1 Hs1 ltac:(hs; lia)) as (t & Hr & Hat & Hst & Hp & Hh).
          exists t. hs. repeat split; auto; lia.
        * destruct (ssplit_ok cmp O phys_eq v1 (Set_Node h2 v2 l2 r2) fuel Ha2 Hs2 ltac:(hs; lia))
            as (ll2 & b & rr2 & Hsp & Hall2 & Harr2 & Hhll2 & Hhrr2 & Hbll2 & Hbrr2 & _).
          rewrite Hsp. cbn [bind]. hs.
          pose proof (sheight_nonneg _ Hall2). pose proof (sheight_nonneg _ Harr2).
          assert (Hsll2 : sbst ll2) by (unfold SetBase.sbst; rewrite Hbll2; now apply below_sorted).
          assert (Hsrr2 : sbst rr2) by (unfold SetBase.sbst; rewrite Hbrr2; now apply above_sorted).
          destruct (IH l1 ll2 Hal1 Hsl1 Hall2 Hsll2 ltac:(lia)) as (ul & Hul & Haul & Hsul & Hpul & Hhul).
          rewrite Hul. cbn [bind].
          destruct (IH r1 rr2 Har1 Hsr1 Harr2 Hsrr2 ltac:(lia)) as (ur & Hur & Haur & Hsur & Hpur & Hhur).
          rewrite Hur. cbn [bind].
          pose proof (sheight_nonneg _ Haul). pose proof (sheight_nonneg _ Haur).
          destruct (sjoin_ok cmp phys_eq v1 ul ur fuel Haul Haur ltac:(lia)) as (t & Hj & Hat & Hbt & Hht & _).
          exists t. split; [exact Hj|]. split; auto.
          rewrite Hbll2 in Hpul. rewrite Hbrr2 in Hpur.
          destruct (merge_split_l O or_comb (fun _ => eq_refl) _ v1 tt _ _ _ _ Hs1 Hsul Hsur Hpul Hpur) as [Sm Pm].
          cbn [or_comb opt_entry app] in Sm, Pm.
          split; [unfold SetBase.sbst; rewrite Hbt; exact Sm|]. split; [rewrite Hbt; exact Pm|lia].
      + destruct (Z.eqb_spec h1 1) as [E1|E1].
        * destruct (Q1 E1) as [-> ->].
          destruct (union_insert_l (Set_Node h2 v2 l2 r2) v1 fuel Ha2 Hs2 ltac:(hs; lia)) as (t & Hr & Hat & Hst & Hp & Hh).
          exists t. hs. repeat split; auto; lia.
        * destruct (ssplit_ok cmp O phys_eq v2 (Set_Node h1 v1 l1 r1) fuel Ha1 Hs1 ltac:(hs; lia))
            as (ll1 & b & rr1 & Hsp & Hall1 & Harr1 & Hhll1 & Hhrr1 & Hbll1 & Hbrr1 & _).
          rewrite Hsp. cbn [bind]. hs.
          pose proof (sheight_nonneg _ Hall1). pose proof (sheight_nonneg _ Harr1).
          assert (Hsll1 : sbst ll1) by (unfold SetBase.sbst; rewrite Hbll1; now apply below_sorted).
          assert (Hsrr1 : sbst rr1) by (unfold SetBase.sbst; rewrite Hbrr1; now apply above_sorted).
          destruct (IH ll1 l2 Hall1 Hsll1 Hal2 Hsl2 ltac:(lia)) as (ul & Hul & Haul & Hsul & Hpul & Hhul).
          rewrite Hul. cbn [bind].
          destruct (IH rr1 r2 Harr1 Hsrr1 Har2 Hsr2 ltac:(lia)) as (ur & Hur & Haur & Hsur & Hpur & Hhur).
          rewrite Hur. cbn [bind].
          pose proof (sheight_nonneg _ Haul). pose proof (sheight_nonneg _ Haur).
          destruct (sjoin_ok cmp phys_eq v2 ul ur fuel Haul Haur ltac:(lia)) as (t & Hj & Hat & Hbt & Hht & _).
          exists t. split; [exact Hj|]. split; auto.
          rewrite Hbll1 in Hpul. rewrite Hbrr1 in Hpur.
          destruct (merge_split_r O or_comb (fun _ => eq_refl) _ _ v2 tt _ _ _ Hs2 Hsul Hsur Hpul Hpur) as [Sm Pm].
          assert (Em : or_comb v2 (find cmp v2 (sbindings l1 ++ (v1, tt) :: sbindings r1)) (Some tt) = Some tt).
          { unfold or_comb. destruct (unit_opt (find cmp v2 (sbindings l1 ++ (v1, tt) :: sbindings r1))) as [-> | ->]; reflexivity. }
          rewrite Em in Sm, Pm. cbn [opt_entry app] in Sm, Pm.
          split; [unfold SetBase.sbst; rewrite Hbt; exact Sm|]. split; [rewrite Hbt; exact Pm|lia].
  Qed.

  (* intersection / difference share their shape: split other at the root of this, recurse, join or concat *)
  Theorem sinter_ok : forall fuel t1 t2, savl t1 -> sbst t1 -> savl t2 -> sbst t2 ->
    2 * (sheight t1 + sheight t2) + 8 <= Z.of_nat fuel ->
    exists t, @Set_intersection phys_eq K cmp fuel t1 t2 = Ok t /\ savl t /\ sbst t
      /\ pointwise cmp and_comb (sbindings t1) (sbindings t2) (sbindings t)
      /\ sheight t <= sheight t1 + sheight t2.
  Proof.
    induction fuel as [|fuel IH]; intros t1 t2 Ha1 Hs1 Ha2 Hs2 Hf;
      pose proof (sheight_nonneg _ Ha1) as N1; pose proof (sheight_nonneg _ Ha2) as N2; [lia|].
    cbn [Set_intersection].
    assert (Hnode : forall h1 v1 l1 r1, t1 = Set_Node h1 v1 l1 r1 -> t2 <> Set_Empty ->
      exists t, (let* '(Triple_init l2 b r2) := @Set_split phys_eq K cmp fuel t2 v1 in
                 if b then let* x2__ := @Set_intersection phys_eq K cmp fuel l1 l2 in
                           let* x3__ := @Set_intersection phys_eq K cmp fuel r1 r2 in @Set_join phys_eq K cmp fuel x2__ v1 x3__
                 else let* x4__ := @Set_intersection phys_eq K cmp fuel l1 l2 in
                      let* x5__ := @Set_intersection phys_eq K cmp fuel r1 r2 in @Set_concat phys_eq K cmp fuel x4__ x5__) = Ok t
        /\ savl t /\ sbst t /\ pointwise cmp and_comb (sbindings t1) (sbindings t2) (sbindings t)
        /\ sheight t <= sheight t1 + sheight t2).
    { intros h1 v1 l1 r1 -> Hne.
      pose proof (snode_height_pos _ _ _ _ Ha1) as P1.
      destruct (sbst_node_inv cmp _ _ _ _ Hs1) as (Hsl1 & Hsr1 & Hkl1 & Hkr1).
      pose proof Ha1 as Ha1'. destruct Ha1' as (Hal1 & Har1 & Hh1 & Hb1).
      pose proof (sheight_nonneg _ Hal1). pose proof (sheight_nonneg _ Har1). hs.
      destruct (ssplit_ok cmp O phys_eq v1 t2 fuel Ha2 Hs2 ltac:(lia))
        as (l2 & b & r2 & Hsp & Hal2 & Har2 & Hhl2 & Hhr2 & Hbl2 & Hbr2 & Hb).
      rewrite Hsp. cbn [bind].
      pose proof (sheight_nonneg _ Hal2). pose proof (sheight_nonneg _ Har2).
      assert (Hsl2 : sbst l2) by (unfold SetBase.sbst; rewrite Hbl2; now apply below_sorted).
      assert (Hsr2 : sbst r2) by (unfold SetBase.sbst; rewrite Hbr2; now apply above_sorted).
      destruct (IH l1 l2 Hal1 Hsl1 Hal2 Hsl2 ltac:(lia)) as (il & Hil & Hail & Hsil & Hpil & Hhil).
      destruct (IH r1 r2 Har1 Hsr1 Har2 Hsr2 ltac:(lia)) as (ir & Hir & Hair & Hsir & Hpir & Hhir).
      pose proof (sheight_nonneg _ Hail). pose proof (sheight_nonneg _ Hair).
      rewrite Hbl2 in Hpil. rewrite Hbr2 in Hpir.
      destruct (merge_split_l O and_comb (fun _ => eq_refl) _ v1 tt _ _ _ _ Hs1 Hsil Hsir Hpil Hpir) as [Sm Pm].
      unfold is_some in Hb. destruct (find cmp v1 (sbindings t2)) as [[]|]; subst b; cbn [and_comb opt_entry app] in Sm, Pm.
      - rewrite Hil. cbn [bind]. rewrite Hir. cbn [bind].
        destruct (sjoin_ok cmp phys_eq v1 il ir fuel Hail Hair ltac:(lia)) as (t & Hj & Hat & Hbt & Hht & _).
        exists t. split; [exact Hj|]. split; auto.
        split; [unfold SetBase.sbst; rewrite Hbt; exact Sm|]. split; [rewrite Hbt; exact Pm|lia].
      - rewrite Hil. cbn [bind]. rewrite Hir. cbn [bind].
        destruct (sconcat_ok cmp phys_eq il ir fuel Hail Hair ltac:(lia)) as (t & Hc & Hat & Hbt & Hht).
        exists t. split; [exact Hc|]. split; auto.
        split; [unfold SetBase.sbst; rewrite Hbt; exact Sm|]. split; [rewrite Hbt; exact Pm|lia]. }
    assert (Hleaf : forall v1, t1 = Set_Leaf v1 -> t2 <> Set_Empty ->
      exists t, (let* x1__ := @Set_contains phys_eq K cmp fuel t2 v1 in Ok (if x1__ then t1 else Set_Empty)) = Ok t
        /\ savl t /\ sbst t /\ pointwise cmp and_comb (sbindings t1) (sbindings t2) (sbindings t)
        /\ sheight t <= sheight t1 + sheight t2).
    { intros v1 -> Hne. hs. rewrite (contains_ok cmp O phys_eq) by (auto; lia). cbn [bind].
      destruct (find cmp v1 (sbindings t2)) as [[]|] eqn:E; cbn [is_some].
      - eexists; split; [reflexivity|]. split; auto. split; auto. split; [|hs; lia]. intros k. cbn [find SetBase.sbindings].
        destruct (Z.eqb_spec (cmp k v1) 0) as [E0|N0]; cbn [and_comb].
        + apply (cmp_eq O) in E0. subst k. now rewrite E.
        + reflexivity.
      - eexists; split; [reflexivity|]. split; [exact I|]. split; [exact I|]. split; [|hs; lia]. intros k. cbn [find SetBase.sbindings].
        destruct (Z.eqb_spec (cmp k v1) 0) as [E0|N0]; cbn [and_comb].
        + apply (cmp_eq O) in E0. subst k. now rewrite E.
        + reflexivity. }
    destruct t1 as [|v1|h1 v1 l1 r1]; [|destruct t2 as [|v2|h2 v2 l2 r2]..].
    - eexists; split; [reflexivity|]. split; auto. split; auto. split; [|hs; lia]. intros k. reflexivity.
    - eexists; split; [reflexivity|]. split; auto. split; auto. split; [|hs; lia]. intros k. cbn [find SetBase.sbindings and_comb].
      now destruct (cmp k v1 =? 0).
    - apply (Hleaf v1 eq_refl). congruence.
    - apply (Hleaf v1 eq_refl). congruence.
    - eexists; split; [reflexivity|]. split; auto. split; auto. split; [|hs; lia]. intros k. cbn [find SetBase.sbindings].
      unfold and_comb. now destruct (find cmp k _).
    - apply (Hnode _ _ _ _ eq_refl). congruence.
    - apply (Hnode _ _ _ _ eq_refl). congruence.
  Qed.

  Theorem sdisjoint_ok fuel t1 t2 : savl t1 -> sbst t1 -> savl t2 -> sbst t2 ->
    2 * (sheight t1 + sheight t2) + 9 <= Z.of_nat fuel ->
    exists b, @Set_disjoint phys_eq K cmp fuel t1 t2 = Ok b /\
      (b = true <-> forall k, and_comb k (find cmp k (sbindings t1)) (find cmp k (sbindings t2)) = None).
  Proof.
    intros Ha1 Hs1 Ha2 Hs2 Hf. pose proof (sheight_nonneg _ Ha1). pose proof (sheight_nonneg _ Ha2).
    need 1%nat fuel. cbn [Set_disjoint].
    destruct (sinter_ok fuel0 t1 t2 Ha1 Hs1 Ha2 Hs2 ltac:(lia)) as (t & Hi & Hat & Hst & Hp & Hh).
    rewrite Hi. cbn [bind]. rewrite sisEmpty_ok by lia. eexists; split; [reflexivity|].
    destruct t as [|v|h v l r].
    - split; auto. intros _ k. rewrite <- (Hp k). reflexivity.
    - split; [discriminate|]. intros HH. specialize (HH v). rewrite <- (Hp v) in HH. cbn [find SetBase.sbindings] in HH.
      rewrite (cmp_refl O) in HH. discriminate.
    - split; [discriminate|]. intros HH. specialize (HH v). rewrite <- (Hp v) in HH. cbn [SetBase.sbindings] in HH.
      destruct (sbst_node_inv cmp _ _ _ _ Hst) as (_ & _ & Hkl & _).
      rewrite (find_app_eq O) in HH by auto. discriminate.
  Qed.

  Theorem sdiff_ok : forall fuel t1 t2, savl t1 -> sbst t1 -> savl t2 -> sbst t2 ->
    2 * (sheight t1 + sheight t2) + 8 <= Z.of_nat fuel ->
    exists t, @Set_diff phys_eq K cmp fuel t1 t2 = Ok t /\ savl t /\ sbst t
      /\ pointwise cmp diff_comb (sbindings t1) (sbindings t2) (sbindings t)
      /\ sheight t <= sheight t1 + sheight t2.
  Proof.
    induction fuel as [|fuel IH]; intros t1 t2 Ha1 Hs1 Ha2 Hs2 Hf;
      pose proof (sheight_nonneg _ Ha1) as N1; pose proof (sheight_nonneg _ Ha2) as N2; [lia|].
    cbn [Set_diff].
    assert (Hnode : forall h1 v1 l1 r1, t1 = Set_Node h1 v1 l1 r1 -> t2 <> Set_Empty ->
      exists t, (let* '(Triple_init l2 b r2) := @Set_split phys_eq K cmp fuel t2 v1 in
                 if b then let* x2__ := @Set_diff phys_eq K cmp fuel l1 l2 in
                           let* x3__ := @Set_diff phys_eq K cmp fuel r1 r2 in @Set_concat phys_eq K cmp fuel x2__ x3__
                 else let* x4__ := @Set_diff phys_eq K cmp fuel l1 l2 in
                      let* x5__ := @Set_diff phys_eq K cmp fuel r1 r2 in @Set_join phys_eq K cmp fuel x4__ v1 x5__) = Ok t
        /\ savl t /\ sbst t /\ pointwise cmp diff_comb (sbindings t1) (sbindings t2) (sbindings t)
        /\ sheight t <= sheight t1 + sheight t2).
    { intros h1 v1 l1 r1 -> Hne.
      pose proof (snode_height_pos _ _ _ _ Ha1) as P1.
      destruct (sbst_node_inv cmp _ _ _ _ Hs1) as (Hsl1 & Hsr1 & Hkl1 & Hkr1).
      pose proof Ha1 as Ha1'. destruct Ha1' as (Hal1 & Har1 & Hh1 & Hb1).
      pose proof (sheight_nonneg _ Hal1). pose proof (sheight_nonneg _ Har1). hs.
      destruct (ssplit_ok cmp O phys_eq v1 t2 fuel Ha2 Hs2 ltac:(lia))
        as (l2 & b & r2 & Hsp & Hal2 & Har2 & Hhl2 & Hhr2 & Hbl2 & Hbr2 & Hb).
      rewrite Hsp. cbn [bind].
      pose proof (sheight_nonneg _ Hal2). pose proof (sheight_nonneg _ Har2).
      assert (Hsl2 : sbst l2) by (unfold SetBase.sbst; rewrite Hbl2; now apply below_sorted).
      assert (Hsr2 : sbst r2) by (unfold SetBase.sbst; rewrite Hbr2; now apply above_sorted).
      destruct (IH l1 l2 Hal1 Hsl1 Hal2 Hsl2 ltac:(lia)) as (il & Hil & Hail & Hsil & Hpil & Hhil).
      destruct (IH r1 r2 Har1 Hsr1 Har2 Hsr2 ltac:(lia)) as (ir & Hir & Hair & Hsir & Hpir & Hhir).
      pose proof (sheight_nonneg _ Hail). pose proof (sheight_nonneg _ Hair).
      rewrite Hbl2 in Hpil. rewrite Hbr2 in Hpir.
      destruct (merge_split_l O diff_comb (fun _ => eq_refl) _ v1 tt _ _ _ _ Hs1 Hsil Hsir Hpil Hpir) as [Sm Pm].
      unfold is_some in Hb. destruct (find cmp v1 (sbindings t2)) as [[]|]; subst b; cbn [diff_comb opt_entry app] in Sm, Pm.
      - rewrite Hil. cbn [bind]. rewrite Hir. cbn [bind].
        destruct (sconcat_ok cmp phys_eq il ir fuel Hail Hair ltac:(lia)) as (t & Hc & Hat & Hbt & Hht).
        exists t. split; [exact Hc|]. split; auto.
        split; [unfold SetBase.sbst; rewrite Hbt; exact Sm|]. split; [rewrite Hbt; exact Pm|lia].
      - rewrite Hil. cbn [bind]. rewrite Hir. cbn [bind].
        destruct (sjoin_ok cmp phys_eq v1 il ir fuel Hail Hair ltac:(lia)) as (t & Hj & Hat & Hbt & Hht & _).
        exists t. split; [exact Hj|]. split; auto.
        split; [unfold SetBase.sbst; rewrite Hbt; exact Sm|]. split; [rewrite Hbt; exact Pm|lia]. }
    assert (Hleaf : forall v1, t1 = Set_Leaf v1 -> t2 <> Set_Empty ->
      exists t, (let* x1__ := @Set_contains phys_eq K cmp fuel t2 v1 in Ok (if x1__ then Set_Empty else t1)) = Ok t
        /\ savl t /\ sbst t /\ pointwise cmp diff_comb (sbindings t1) (sbindings t2) (sbindings t)
        /\ sheight t <= sheight t1 + sheight t2).
    { intros v1 -> Hne. hs. rewrite (contains_ok cmp O phys_eq) by (auto; lia). cbn [bind].
      destruct (find cmp v1 (sbindings t2)) as [[]|] eqn:E; cbn [is_some].
      - eexists; split; [reflexivity|]. split; [exact I|]. split; [exact I|]. split; [|hs; lia]. intros k. cbn [find SetBase.sbindings].
        destruct (Z.eqb_spec (cmp k v1) 0) as [E0|N0]; cbn [diff_comb].
        + apply (cmp_eq O) in E0. subst k. now rewrite E.
        + now destruct (find cmp k (sbindings t2)).
      - eexists; split; [reflexivity|]. split; auto. split; auto. split; [|hs; lia]. intros k. cbn [find SetBase.sbindings].
        destruct (Z.eqb_spec (cmp k v1) 0) as [E0|N0]; cbn [diff_comb].
        + apply (cmp_eq O) in E0. subst k. now rewrite E.
        + now destruct (find cmp k (sbindings t2)). }
    destruct t1 as [|v1|h1 v1 l1 r1]; [|destruct t2 as [|v2|h2 v2 l2 r2]..].
    - eexists; split; [reflexivity|]. split; auto. split; auto. split; [|hs; lia]. intros k. cbn [find SetBase.sbindings diff_comb].
      now destruct (find cmp k (sbindings t2)).
    - eexists; split; [reflexivity|]. split; auto. split; auto. split; [|hs; lia]. intros k. reflexivity.
    - apply (Hleaf v1 eq_refl). congruence.
    - apply (Hleaf v1 eq_refl). congruence.
    - eexists; split; [reflexivity|]. split; auto. split; auto. split; [|hs; lia]. intros k. reflexivity.
    - apply (Hnode _ _ _ _ eq_refl). congruence.
    - apply (Hnode _ _ _ _ eq_refl). congruence.
  Qed.
End SetOps3.
