(* C18 — Set: compare, equal (through the NodeEnumerationHelper enumeration). *)
From Coq Require Import List ZArith Lia Bool ZifyBool.
Import ListNotations.
From SVG Require Import StdPrelude StdTuples StdOption StdList StdSet.
From SV Require Import C18.Spec C18.Tactics C18.Conv C18.SetBase.
Open Scope Z_scope.

Section SetCompare.
  Context {K : Type}.
  Variable cmp : K -> K -> Z.
  Variable phys_eq : forall A : Type, A -> A -> bool.
  Notation S := (Set_t K).
  Notation E := (NodeEnumerationHelper_t K (Set_t K)).
  Notation sheight := (@sheight K).
  Notation savl := (@savl K).

  Ltac hs := cbn [SetBase.sheight SetBase.sbindings SetBase.savl] in *.

  (* lexicographic comparison / equality of the element sequences: cmp first, then the user's function *)
  Fixpoint slex (g : K -> K -> Z) (l1 l2 : list K) : Z :=
    match l1, l2 with
    | [], [] => 0
    | [], _ => -1
    | _, [] => 1
    | k1 :: l1', k2 :: l2' =>
        if negb (cmp k1 k2 =? 0) then cmp k1 k2
        else if negb (g k1 k2 =? 0) then g k1 k2 else slex g l1' l2'
    end.
  Fixpoint seqb (g : K -> K -> bool) (l1 l2 : list K) : bool :=
    match l1, l2 with
    | [], [] => true
    | k1 :: l1', k2 :: l2' => (cmp k1 k2 =? 0) && g k1 k2 && seqb g l1' l2'
    | _, _ => false
    end.

  Fixpoint sflat (e : E) : list K :=
    match e with
    | NodeEnumerationHelper_End => []
    | NodeEnumerationHelper_More v r e' => v :: elements r ++ sflat e'
    end.
  Fixpoint se_ok (H : Z) (e : E) : Prop :=
    match e with
    | NodeEnumerationHelper_End => True
    | NodeEnumerationHelper_More _ r e' => savl r /\ sheight r <= H /\ se_ok H e'
    end.

  Lemma scons_ok H : forall t e fuel, savl t -> sheight t <= H -> se_ok H e -> sheight t + 2 <= Z.of_nat fuel ->
    exists e', @NodeEnumerationHelper_cons phys_eq K cmp fuel t e = Ok e' /\ se_ok H e'
      /\ sflat e' = elements t ++ sflat e.
  Proof.
    unfold elements.
    induction t as [|v|h v l IHl r IHr]; intros e fuel Ha Hh He Hf; hs.
    - need 1%nat fuel. eexists; split; [reflexivity|]. auto.
    - need 2%nat fuel. cbn [NodeEnumerationHelper_cons]. rewrite sempty_ok by lia. cbn [bind].
      eexists; split; [reflexivity|]. cbn. split; auto. repeat split; auto; lia.
    - destruct Ha as (Hal & Har & Hh' & Hb).
      pose proof (sheight_nonneg _ Hal). pose proof (sheight_nonneg _ Har).
      need 1%nat fuel. cbn [NodeEnumerationHelper_cons].
      destruct (IHl (NodeEnumerationHelper_More v r e) fuel0 Hal ltac:(lia) ltac:(cbn; repeat split; auto; lia) ltac:(lia))
        as (e' & Hr & He' & Hfl).
      exists e'. split; [exact Hr|]. split; auto. rewrite Hfl. cbn [sflat]. unfold elements.
      rewrite map_app. cbn [map fst]. now rewrite <- app_assoc.
  Qed.

  Theorem scompareHelper_ok (f : K -> K -> res Z) (g : K -> K -> Z) (H : Z) :
    (forall a b, f a b = Ok (g a b)) -> 0 <= H ->
    forall n e1 e2 fuel, (length (sflat e1) <= n)%nat -> se_ok H e1 -> se_ok H e2 ->
    Z.of_nat n + H + 3 <= Z.of_nat fuel ->
    @Set_compareHelper phys_eq K cmp fuel f e1 e2 = Ok (slex g (sflat e1) (sflat e2)).
  Proof.
    intros Hfg HH. induction n as [|n IH]; intros e1 e2 fuel Hn H1 H2 Hf.
    - destruct e1; cbn [sflat length] in Hn; [|lia]. need 1%nat fuel. destruct e2; reflexivity.
    - need 1%nat fuel. cbn [Set_compareHelper].
      destruct e1 as [|v1 r1 e1']; [destruct e2; reflexivity|].
      destruct e2 as [|v2 r2 e2']; [reflexivity|].
      cbn [sflat slex]. destruct (negb (cmp v1 v2 =? 0)); [reflexivity|].
      rewrite Hfg. cbn [bind]. destruct (negb (g v1 v2 =? 0)); [reflexivity|].
      cbn [se_ok] in H1, H2. destruct H1 as (Ha1 & Hh1 & He1). destruct H2 as (Ha2 & Hh2 & He2).
      pose proof (sheight_nonneg _ Ha1). pose proof (sheight_nonneg _ Ha2).
      destruct (scons_ok H r1 e1' fuel0 Ha1 Hh1 He1 ltac:(lia)) as (x1 & Hr1 & Hx1 & Hf1). rewrite Hr1. cbn [bind].
      destruct (scons_ok H r2 e2' fuel0 Ha2 Hh2 He2 ltac:(lia)) as (x2 & Hr2 & Hx2 & Hf2). rewrite Hr2. cbn [bind].
      rewrite IH; auto; [now rewrite Hf1, Hf2| |lia].
      rewrite Hf1. cbn [sflat length] in Hn. lia.
  Qed.

  Theorem scompare_ok (f : K -> K -> res Z) (g : K -> K -> Z) : (forall a b, f a b = Ok (g a b)) ->
    forall t1 t2 fuel, savl t1 -> savl t2 ->
    Z.of_nat (length (elements t1)) + Z.max (sheight t1) (sheight t2) + 4 <= Z.of_nat fuel ->
    @Set_compare phys_eq K cmp fuel t1 t2 f = Ok (slex g (elements t1) (elements t2)).
  Proof.
    intros Hfg t1 t2 fuel Ha1 Ha2 Hf. pose proof (sheight_nonneg _ Ha1) as N1. pose proof (sheight_nonneg _ Ha2) as N2.
    need 1%nat fuel. cbn [Set_compare].
    set (H := Z.max (sheight t1) (sheight t2)) in *.
    destruct (scons_ok H t1 NodeEnumerationHelper_End fuel0 Ha1 ltac:(lia) I ltac:(lia)) as (x1 & Hr1 & Hx1 & Hf1).
    rewrite Hr1. cbn [bind].
    destruct (scons_ok H t2 NodeEnumerationHelper_End fuel0 Ha2 ltac:(lia) I ltac:(lia)) as (x2 & Hr2 & Hx2 & Hf2).
    rewrite Hr2. cbn [bind]. cbn [sflat] in Hf1, Hf2. rewrite app_nil_r in Hf1, Hf2.
    rewrite (scompareHelper_ok f g H Hfg ltac:(lia) (length (elements t1))); auto.
    - now rewrite Hf1, Hf2.
    - rewrite Hf1. lia.
    - lia.
  Qed.

  Theorem sequalHelper_ok (f : K -> K -> res bool) (g : K -> K -> bool) (H : Z) :
    (forall a b, f a b = Ok (g a b)) -> 0 <= H ->
    forall n e1 e2 fuel, (length (sflat e1) <= n)%nat -> se_ok H e1 -> se_ok H e2 ->
    Z.of_nat n + H + 3 <= Z.of_nat fuel ->
    @Set_equalHelper phys_eq K cmp fuel f e1 e2 = Ok (seqb g (sflat e1) (sflat e2)).
  Proof.
    intros Hfg HH. induction n as [|n IH]; intros e1 e2 fuel Hn H1 H2 Hf.
    - destruct e1; cbn [sflat length] in Hn; [|lia]. need 1%nat fuel. destruct e2; reflexivity.
    - need 1%nat fuel. cbn [Set_equalHelper].
      destruct e1 as [|v1 r1 e1']; [destruct e2; reflexivity|].
      destruct e2 as [|v2 r2 e2']; [reflexivity|].
      cbn [sflat seqb]. destruct (cmp v1 v2 =? 0); cbn [bind andb]; [|reflexivity].
      rewrite Hfg. cbn [bind]. destruct (g v1 v2); cbn [andb]; [|reflexivity].
      cbn [se_ok] in H1, H2. destruct H1 as (Ha1 & Hh1 & He1). destruct H2 as (Ha2 & Hh2 & He2).
      pose proof (sheight_nonneg _ Ha1). pose proof (sheight_nonneg _ Ha2).
      destruct (scons_ok H r1 e1' fuel0 Ha1 Hh1 He1 ltac:(lia)) as (x1 & Hr1 & Hx1 & Hf1). rewrite Hr1. cbn [bind].
      destruct (scons_ok H r2 e2' fuel0 Ha2 Hh2 He2 ltac:(lia)) as (x2 & Hr2 & Hx2 & Hf2). rewrite Hr2. cbn [bind].
      rewrite IH; auto; [now rewrite Hf1, Hf2| |lia].
      rewrite Hf1. cbn [sflat length] in Hn. lia.
  Qed.

  Theorem sequal_ok (f : K -> K -> res bool) (g : K -> K -> bool) : (forall a b, f a b = Ok (g a b)) ->
    forall t1 t2 fuel, savl t1 -> savl t2 ->
    Z.of_nat (length (elements t1)) + Z.max (sheight t1) (sheight t2) + 4 <= Z.of_nat fuel ->
    @Set_equal phys_eq K cmp fuel t1 t2 f = Ok (seqb g (elements t1) (elements t2)).
  Proof.
    intros Hfg t1 t2 fuel Ha1 Ha2 Hf. pose proof (sheight_nonneg _ Ha1) as N1. pose proof (sheight_nonneg _ Ha2) as N2.
    need 1%nat fuel. cbn [Set_equal].
    set (H := Z.max (sheight t1) (sheight t2)) in *.
    destruct (scons_ok H t1 NodeEnumerationHelper_End fuel0 Ha1 ltac:(lia) I ltac:(lia)) as (x1 & Hr1 & Hx1 & Hf1).
    rewrite Hr1. cbn [bind].
    destruct (scons_ok H t2 NodeEnumerationHelper_End fuel0 Ha2 ltac:(lia) I ltac:(lia)) as (x2 & Hr2 & Hx2 & Hf2).
    rewrite Hr2. cbn [bind]. cbn [sflat] in Hf1, Hf2. rewrite app_nil_r in Hf1, Hf2.
    rewrite (sequalHelper_ok f g H Hfg ltac:(lia) (length (elements t1))); auto.
    - now rewrite Hf1, Hf2.
    - rewrite Hf1. lia.
    - lia.
  Qed.
End SetCompare.
