(* C18 — Set: subset.  The recursion passes trees built with unsafeNode(l1, v1, empty) that are NOT balanced,
   so the invariant on `this` is only "stored heights are the real heights" (hgt) + search tree. *)
From Coq Require Import List ZArith Lia Bool ZifyBool.
Import ListNotations.
From SVG Require Import StdPrelude StdTuples StdOption StdList StdSet.
From SV Require Import C18.Spec C18.Tactics C18.Conv C18.SetBase C18.SetOps1.
Open Scope Z_scope.

Section SetSubset.
  Context {K : Type}.
  Variable cmp : K -> K -> Z.
  Hypothesis O : cmp_order cmp.
  Variable phys_eq : forall A : Type, A -> A -> bool.
  Notation S := (Set_t K).
  Notation sbindings := (@sbindings K).
  Notation sheight := (@sheight K).
  Notation savl := (@savl K).
  Notation sbst := (sbst cmp).

  Ltac hs := cbn [SetBase.sheight SetBase.sbindings SetBase.savl] in *.

  (* stored heights are the real heights (no balance condition) *)
  Fixpoint hgt (t : S) : Prop :=
    match t with
    | Set_Node h _ l r => hgt l /\ hgt r /\ h = Z.max (sheight l) (sheight r) + 1
    | _ => True
    end.
  Lemma savl_hgt t : savl t -> hgt t.
  Proof. induction t as [| |h v l IHl r IHr]; cbn; auto. intros (Hl & Hr & Hh & _). auto. Qed.
  Lemma hgt_nonneg t : hgt t -> 0 <= sheight t.
  Proof.
    induction t as [| |h v l IHl r IHr]; cbn; intros; try lia.
    destruct H as (Hl & Hr & Hh). specialize (IHl Hl). specialize (IHr Hr). lia.
  Qed.
  Lemma hgt_zero t : hgt t -> sheight t = 0 -> t = Set_Empty.
  Proof.
    destruct t; cbn; intros Ha Hh; auto; [lia|].
    destruct Ha as (Hl & Hr & Hh'). pose proof (hgt_nonneg _ Hl). pose proof (hgt_nonneg _ Hr). lia.
  Qed.

  Lemma hgt_node_pos h v l r : hgt (Set_Node h v l r) -> 1 <= h.
  Proof. intros (Hl & Hr & Hh). pose proof (hgt_nonneg _ Hl). pose proof (hgt_nonneg _ Hr). lia. Qed.

  Lemma unsafeNode_hgt_eq fuel l v r : hgt l -> hgt r -> (2 <= fuel)%nat ->
    @Set_unsafeNode phys_eq K cmp fuel l v r = Ok (screate l v r).
  Proof.
    intros Hl Hr Hf. need 2%nat fuel. cbn [Set_unsafeNode]. unfold screate.
    destruct l as [|lv|lh lv ll lr], r as [|rv|rh rv rl rr]; cbn [SetBase.sheight];
      try (pose proof (hgt_node_pos _ _ _ _ Hl)); try (pose proof (hgt_node_pos _ _ _ _ Hr));
      try reflexivity.
    - destruct (Z.eqb_spec (Z.max 0 rh + 1) 1); [lia|]. do 2 f_equal. lia.
    - destruct (Z.eqb_spec (Z.max 1 rh + 1) 1); [lia|]. do 2 f_equal. lia.
    - destruct (Z.eqb_spec (Z.max lh 0 + 1) 1); [lia|]. do 2 f_equal. lia.
    - destruct (Z.eqb_spec (Z.max lh 1 + 1) 1); [lia|]. do 2 f_equal. lia.
    - rewrite smax_if. destruct (Z.eqb_spec (Z.max lh rh + 1) 1); [lia|]. reflexivity.
  Qed.

  Lemma screate_hgt l v r : hgt l -> hgt r ->
    hgt (screate l v r) /\ sbindings (screate l v r) = sbindings l ++ (v, tt) :: sbindings r
    /\ sheight (screate l v r) = Z.max (sheight l) (sheight r) + 1.
  Proof.
    intros Hl Hr. pose proof (hgt_nonneg _ Hl). pose proof (hgt_nonneg _ Hr). unfold screate.
    destruct (Z.eqb_spec (Z.max (sheight l) (sheight r) + 1) 1) as [E|E].
    - assert (l = Set_Empty) by (apply hgt_zero; auto; lia). subst l.
      assert (r = Set_Empty) by (apply hgt_zero; auto; cbn in *; lia). subst r.
      cbn. auto.
    - cbn [hgt SetBase.sbindings SetBase.sheight]. auto.
  Qed.

  Lemma unsafeNode_hgt fuel l v r : hgt l -> hgt r -> (2 <= fuel)%nat ->
    exists t, @Set_unsafeNode phys_eq K cmp fuel l v r = Ok t /\ hgt t
      /\ sbindings t = sbindings l ++ (v, tt) :: sbindings r /\ sheight t = Z.max (sheight l) (sheight r) + 1.
  Proof.
    intros Hl Hr Hf. exists (screate l v r). split; [now apply unsafeNode_hgt_eq|]. now apply screate_hgt.
  Qed.

  Definition memb (b2 : list (K * unit)) (k : K) : bool := is_some (find cmp k b2).

  Lemma forallb_ext_in {A} (f g : A -> bool) l : (forall x, In x l -> f x = g x) -> forallb f l = forallb g l.
  Proof.
    induction l as [|a l IH]; cbn [forallb]; auto. intros H. rewrite (H a) by (now left).
    rewrite IH; auto. intros x Hx. apply H. now right.
  Qed.

  Lemma keys_lt_in (l : list (K * unit)) k x : keys_lt cmp l k -> In x (map fst l) -> lt cmp x k.
  Proof.
    intros H Hin. apply in_map_iff in Hin. destruct Hin as (p & <- & Hp).
    unfold keys_lt in H. rewrite Forall_forall in H. auto.
  Qed.
  Lemma keys_gt_in (l : list (K * unit)) k x : keys_gt cmp l k -> In x (map fst l) -> lt cmp k x.
  Proof.
    intros H Hin. apply in_map_iff in Hin. destruct Hin as (p & <- & Hp).
    unfold keys_gt in H. rewrite Forall_forall in H. auto.
  Qed.

  (* membership in l2 ++ (v2,tt) :: r2 for keys below / above v2 *)
  Lemma memb_lt l2 v2 r2 x : lt cmp x v2 -> keys_gt cmp r2 v2 -> memb (l2 ++ (v2, tt) :: r2) x = memb l2 x.
  Proof. intros. unfold memb. now rewrite (find_app_lt O). Qed.
  Lemma memb_gt l2 v2 r2 x : lt cmp v2 x -> keys_lt cmp l2 v2 -> memb (l2 ++ (v2, tt) :: r2) x = memb r2 x.
  Proof. intros. unfold memb. now rewrite (find_app_gt O). Qed.
  Lemma memb_eq l2 v2 r2 : keys_lt cmp l2 v2 -> memb (l2 ++ (v2, tt) :: r2) v2 = true.
  Proof. intros. unfold memb. now rewrite (find_app_eq O). Qed.

  Theorem subset_gen : forall fuel t1 t2, hgt t1 -> sbst t1 -> savl t2 -> sbst t2 ->
    sheight t1 + sheight t2 + 4 <= Z.of_nat fuel ->
    @Set_subset phys_eq K cmp fuel t1 t2 = Ok (forallb (memb (sbindings t2)) (map fst (sbindings t1))).
  Proof.
    induction fuel as [|fuel IH]; intros t1 t2 H1 S1 A2 S2 Hf;
      pose proof (hgt_nonneg _ H1) as N1; pose proof (sheight_nonneg _ A2) as N2; [lia|].
    cbn [Set_subset].
    destruct t1 as [|v1|h1 v1 l1 r1].
    - reflexivity.
    - destruct t2 as [|v2|h2 v2 l2 r2]; cbn [SetBase.sbindings map fst forallb].
      + reflexivity.
      + unfold memb. cbn [find]. rewrite (seqb_cmp_sym cmp O v1 v2). rewrite andb_true_r.
        now destruct (cmp v2 v1 =? 0).
      + destruct (sbst_node_inv cmp _ _ _ _ S2) as (Sl2 & Sr2 & Kl2 & Kr2).
        destruct A2 as (Al2 & Ar2 & Hh2 & Hb2). pose proof (sheight_nonneg _ Al2). pose proof (sheight_nonneg _ Ar2). hs.
        rewrite andb_true_r.
        destruct (cmp_cases O v1 v2) as [(L & A & B)|[(E & A & B)|(L & A & B)]].
        * destruct (Z.eqb_spec (cmp v1 v2) 0); [lia|]. destruct (Z.ltb_spec (cmp v1 v2) 0); [|lia].
          rewrite IH by (hs; auto; lia). cbn [SetBase.sbindings map fst forallb]. rewrite andb_true_r.
          now rewrite memb_lt by auto.
        * subst v2. destruct (Z.eqb_spec (cmp v1 v1) 0); [|lia]. now rewrite memb_eq by auto.
        * destruct (Z.eqb_spec (cmp v1 v2) 0); [lia|]. destruct (Z.ltb_spec (cmp v1 v2) 0); [lia|].
          rewrite IH by (hs; auto; lia). cbn [SetBase.sbindings map fst forallb]. rewrite andb_true_r.
          now rewrite memb_gt by auto.
    - destruct (sbst_node_inv cmp _ _ _ _ S1) as (Sl1 & Sr1 & Kl1 & Kr1).
      destruct H1 as (Hl1 & Hr1 & Hh1). pose proof (hgt_nonneg _ Hl1). pose proof (hgt_nonneg _ Hr1). hs.
      destruct t2 as [|v2|h2 v2 l2 r2].
      + cbn [SetBase.sbindings]. rewrite map_app, forallb_app. cbn [map fst forallb memb find is_some].
        now rewrite andb_false_r.
      + cbn [SetBase.sbindings]. rewrite map_app, forallb_app. cbn [map fst forallb].
        destruct (Z.eqb_spec h1 1) as [E1|N1'].
        * assert (l1 = Set_Empty) by (apply hgt_zero; auto; lia).
          assert (r1 = Set_Empty) by (apply hgt_zero; auto; lia). subst l1 r1. cbn [SetBase.sbindings map forallb andb].
          unfold memb. cbn [find]. rewrite (seqb_cmp_sym cmp O v1 v2). rewrite andb_true_r.
          now destruct (cmp v2 v1 =? 0).
        * cbn [andb]. f_equal. symmetry. apply not_true_is_false. intros Hall.
          apply andb_true_iff in Hall. destruct Hall as [Ha Hb]. apply andb_true_iff in Hb. destruct Hb as [Hb Hc].
          assert (Hm : forall x, memb [(v2, tt)] x = true -> x = v2).
          { intros x. unfold memb. cbn [find]. destruct (Z.eqb_spec (cmp x v2) 0) as [E0|]; [|discriminate].
            intros _. now apply (cmp_eq O). }
          apply Hm in Hb. subst v2.
          destruct l1 as [|lv|lh lv ll lr]; [destruct r1 as [|rv|rh rv rl rr]; [hs; lia|..]|..].
          -- cbn [SetBase.sbindings map fst forallb] in Hc. apply andb_true_iff in Hc. destruct Hc as [Hc _].
             apply Hm in Hc. subst rv. inversion Kr1; subst. eapply (lt_irrefl O); eauto.
          -- cbn [SetBase.sbindings] in Hc, Kr1. rewrite map_app, forallb_app in Hc. cbn [map fst forallb] in Hc.
             apply andb_true_iff in Hc. destruct Hc as [_ Hc]. apply andb_true_iff in Hc. destruct Hc as [Hc _].
             apply Hm in Hc. subst rv. unfold keys_gt in Kr1. rewrite Forall_app in Kr1. destruct Kr1 as [_ Kr1].
             inversion Kr1; subst. eapply (lt_irrefl O); eauto.
          -- cbn [SetBase.sbindings map fst forallb] in Ha. apply andb_true_iff in Ha. destruct Ha as [Ha _].
             apply Hm in Ha. subst lv. inversion Kl1; subst. eapply (lt_irrefl O); eauto.
          -- cbn [SetBase.sbindings] in Ha, Kl1. rewrite map_app, forallb_app in Ha. cbn [map fst forallb] in Ha.
             apply andb_true_iff in Ha. destruct Ha as [_ Ha]. apply andb_true_iff in Ha. destruct Ha as [Ha _].
             apply Hm in Ha. subst lv. unfold keys_lt in Kl1. rewrite Forall_app in Kl1. destruct Kl1 as [_ Kl1].
             inversion Kl1; subst. eapply (lt_irrefl O); eauto.
      + destruct (sbst_node_inv cmp _ _ _ _ S2) as (Sl2 & Sr2 & Kl2 & Kr2).
        pose proof A2 as A2'. destruct A2' as (Al2 & Ar2 & Hh2 & Hb2).
        pose proof (sheight_nonneg _ Al2). pose proof (sheight_nonneg _ Ar2). hs.
        rewrite map_app, forallb_app. cbn [map fst forallb].
        set (b2 := sbindings l2 ++ (v2, tt) :: sbindings r2) in *.
        destruct (cmp_cases O v1 v2) as [(L & A & B)|[(E & A & B)|(L & A & B)]].
        * (* v1 < v2: (l1 + v1) within l2, r1 within other *)
          destruct (Z.eqb_spec (cmp v1 v2) 0); [lia|]. destruct (Z.ltb_spec (cmp v1 v2) 0); [|lia].
          rewrite sempty_ok by lia. cbn [bind].
          destruct (unsafeNode_hgt fuel l1 v1 Set_Empty Hl1 I ltac:(lia)) as (u & Hu & Hhu & Hbu & Hsu).
          rewrite Hu. cbn [bind]. hs.
          assert (Su : sbst u).
          { unfold SetBase.sbst. rewrite Hbu. apply (sorted_app O); auto; [exact I|constructor]. }
          rewrite IH by (auto; lia). cbn [bind]. rewrite Hbu, map_app, forallb_app. cbn [map fst forallb].
          rewrite andb_true_r.
          assert (E1 : forallb (memb b2) (map fst (sbindings l1)) = forallb (memb (sbindings l2)) (map fst (sbindings l1))).
          { apply forallb_ext_in. intros x Hx. apply memb_lt; auto. eapply (lt_trans O); [|exact L]. eapply keys_lt_in; [exact Kl1|exact Hx]. }
          rewrite E1. unfold b2 at 1. rewrite memb_lt by auto. rewrite andb_assoc.
          destruct (forallb (memb (sbindings l2)) (map fst (sbindings l1)) && memb (sbindings l2) v1); cbn [andb].
          -- rewrite IH by (auto; hs; lia). reflexivity.
          -- reflexivity.
        * (* v1 = v2 *)
          subst v2. destruct (Z.eqb_spec (cmp v1 v1) 0); [|lia].
          rewrite IH by (auto; lia). cbn [bind].
          assert (E1 : forallb (memb b2) (map fst (sbindings l1)) = forallb (memb (sbindings l2)) (map fst (sbindings l1))).
          { apply forallb_ext_in. intros x Hx. apply memb_lt; auto. eapply keys_lt_in; [exact Kl1|exact Hx]. }
          assert (E2 : forallb (memb b2) (map fst (sbindings r1)) = forallb (memb (sbindings r2)) (map fst (sbindings r1))).
          { apply forallb_ext_in. intros x Hx. apply memb_gt; auto. eapply keys_gt_in; [exact Kr1|exact Hx]. }
          rewrite E1, E2. unfold b2 at 1. rewrite memb_eq by auto. cbn [andb].
          destruct (forallb (memb (sbindings l2)) (map fst (sbindings l1))); cbn [andb].
          -- rewrite IH by (auto; lia). reflexivity.
          -- reflexivity.
        * (* v1 > v2: (v1 + r1) within r2, l1 within other *)
          destruct (Z.eqb_spec (cmp v1 v2) 0); [lia|]. destruct (Z.ltb_spec (cmp v1 v2) 0); [lia|].
          rewrite sempty_ok by lia. cbn [bind].
          destruct (unsafeNode_hgt fuel Set_Empty v1 r1 I Hr1 ltac:(lia)) as (u & Hu & Hhu & Hbu & Hsu).
          rewrite Hu. cbn [bind]. hs.
          assert (Su : sbst u).
          { unfold SetBase.sbst. rewrite Hbu. cbn [app sorted]. split; auto. }
          rewrite IH by (auto; lia). cbn [bind]. rewrite Hbu. cbn [app map fst forallb].
          assert (E2 : forallb (memb b2) (map fst (sbindings r1)) = forallb (memb (sbindings r2)) (map fst (sbindings r1))).
          { apply forallb_ext_in. intros x Hx. apply memb_gt; auto. eapply (lt_trans O); [exact L|]. eapply keys_gt_in; [exact Kr1|exact Hx]. }
          rewrite E2. unfold b2 at 2. rewrite memb_gt by auto.
          destruct (memb (sbindings r2) v1 && forallb (memb (sbindings r2)) (map fst (sbindings r1))); cbn [andb].
          -- rewrite IH by (auto; hs; lia). cbn [bind]. now rewrite andb_true_r.
          -- now rewrite andb_false_r.
  Qed.

  Theorem subset_ok fuel t1 t2 : savl t1 -> sbst t1 -> savl t2 -> sbst t2 ->
    sheight t1 + sheight t2 + 4 <= Z.of_nat fuel ->
    @Set_subset phys_eq K cmp fuel t1 t2 = Ok (forallb (memb (sbindings t2)) (elements t1)).
  Proof. intros A1 S1 A2 S2 Hf. apply subset_gen; auto. now apply savl_hgt. Qed.
End SetSubset.
