(* C18 — Set: tryJoin and map.  map(f) = the set of the images; the fuel bound is in terms of the SIZE of the
   set (the result of mapping a subtree can be as tall as it is large only in principle; AVL height <= size). *)
From Coq Require Import List ZArith Lia Bool ZifyBool.
Import ListNotations.
From SVG Require Import StdPrelude StdTuples StdOption StdList StdSet.
From SV Require Import C18.Spec C18.Tactics C18.Conv C18.SetBase C18.SetOps1 C18.SetOps2 C18.SetOps3 C18.SetOps5.
Open Scope Z_scope.

Section SetMap.
  Context {K : Type}.
  Variable cmp : K -> K -> Z.
  Hypothesis O : cmp_order cmp.
  Variable phys_eq : forall A : Type, A -> A -> bool.
  Hypothesis phys_eq_sound : forall A (a b : A), phys_eq A a b = true -> a = b.
  Notation S := (Set_t K).
  Notation sbindings := (@sbindings K).
  Notation sheight := (@sheight K).
  Notation savl := (@savl K).
  Notation sbst := (sbst cmp).
  Notation memb := (memb cmp).

  Ltac hs := cbn [SetBase.sheight SetBase.sbindings SetBase.savl] in *.

  Lemma height_le_size t : savl t -> sheight t <= Z.of_nat (length (sbindings t)).
  Proof.
    induction t as [| |h v l IHl r IHr]; cbn [SetBase.savl SetBase.sheight SetBase.sbindings length]; try lia.
    intros (Hl & Hr & Hh & Hb). specialize (IHl Hl). specialize (IHr Hr). rewrite app_length. cbn [length]. lia.
  Qed.

  Lemma memb_unit (l : list (K * unit)) k : find cmp k l = if memb l k then Some tt else None.
  Proof. unfold SetOps5.memb, is_some. now destruct (find cmp k l) as [[]|]. Qed.

  Lemma Set_eq_empty_dec (t : S) : {t = Set_Empty} + {t <> Set_Empty}.
  Proof. destruct t; [left; reflexivity|right; discriminate|right; discriminate]. Qed.

  Lemma last_opt_some {A} (l : list A) : l <> [] -> exists p, last_opt l = Some p.
  Proof.
    induction l as [|a l IH]; [congruence|]. intros _. destruct l as [|b l]; [now exists a|].
    rewrite last_opt_cons by discriminate. apply IH. discriminate.
  Qed.

  Lemma smax_unwrap_ok t fuel : savl t -> t <> Set_Empty -> sheight t + 3 <= Z.of_nat fuel ->
    exists m, last_opt (sbindings t) = Some (m, tt) /\
      (let* x := @Set_max phys_eq K cmp fuel t in @Option_unwrap phys_eq K fuel x) = Ok m.
  Proof.
    intros Ha Hne Hf. pose proof (sheight_nonneg _ Ha). destruct (sbindings_nonempty t Hne) as (p & rest & Hb).
    destruct (last_opt_some (sbindings t) ltac:(rewrite Hb; discriminate)) as ([m []] & Hl).
    exists m. split; auto. rewrite (smax_ok cmp phys_eq) by (auto; lia). cbn [bind]. rewrite Hl. cbn.
    apply sunwrap_some. lia.
  Qed.

  (* tryJoin: join when v separates l and r, otherwise l ∪ (r + v) *)
  Lemma tryJoin_ok l v r fuel : savl l -> sbst l -> savl r -> sbst r ->
    2 * (sheight l + sheight r) + 14 <= Z.of_nat fuel ->
    exists t, @Set_tryJoin phys_eq K cmp fuel l v r = Ok t /\ savl t /\ sbst t
      /\ (forall k, memb (sbindings t) k = memb (sbindings l) k || (cmp k v =? 0) || memb (sbindings r) k)
      /\ sheight t <= sheight l + sheight r + 1.
  Proof.
    intros Al Sl Ar Sr Hf. pose proof (sheight_nonneg _ Al). pose proof (sheight_nonneg _ Ar).
    need 1%nat fuel. cbn [Set_tryJoin].
    set (c1 := match last_opt (sbindings l) with None => true | Some p => cmp (fst p) v <? 0 end).
    set (c2 := match hd_error (sbindings r) with None => true | Some p => cmp v (fst p) <? 0 end).
    assert (E1 : (let* x5__ := @Set_isEmpty phys_eq K cmp fuel0 l in
                  if x5__ then Ok true else
                  let* x4__ := (let* x3__ := (let* x2__ := @Set_max phys_eq K cmp fuel0 l in @Option_unwrap phys_eq K fuel0 x2__) in
                                Ok (cmp x3__ v)) in Ok (x4__ <? 0)) = Ok c1).
    { rewrite (sisEmpty_ok cmp phys_eq) by lia. cbn [bind]. unfold c1.
      destruct (Set_eq_empty_dec l) as [->|Hne]; [reflexivity|].
      destruct (smax_unwrap_ok l fuel0 Al Hne ltac:(lia)) as (m & Hl & Hr). rewrite Hl. cbn [fst].
      destruct l; [congruence|..]; rewrite Hr; reflexivity. }
    assert (E2 : (let* x9__ := @Set_isEmpty phys_eq K cmp fuel0 r in
                  if x9__ then Ok true else
                  let* x8__ := (let* x7__ := (let* x6__ := @Set_min phys_eq K cmp fuel0 r in @Option_unwrap phys_eq K fuel0 x6__) in
                                Ok (cmp v x7__)) in Ok (x8__ <? 0)) = Ok c2).
    { rewrite (sisEmpty_ok cmp phys_eq) by lia. cbn [bind]. unfold c2.
      destruct (Set_eq_empty_dec r) as [->|Hne]; [reflexivity|].
      destruct (smin_unwrap_ok cmp phys_eq r fuel0 Ar Hne ltac:(lia)) as (m & rest & Hb & Hr). rewrite Hb. cbn [hd_error fst].
      destruct r; [congruence|..]; rewrite Hr; reflexivity. }
    rewrite E1. cbn [bind]. destruct c1 eqn:C1.
    - rewrite E2. cbn [bind]. destruct c2 eqn:C2.
      + (* join *)
        assert (Kl : keys_lt cmp (sbindings l) v).
        { unfold c1 in C1. destruct (last_opt (sbindings l)) as [p|] eqn:EL.
          - eapply (sorted_last_keys_lt O); eauto. unfold lt. lia.
          - destruct (sbindings l) as [|a rest] eqn:Eb; [constructor|]. exfalso. clear - EL.
            revert a EL. induction rest as [|q rest IH]; intros a EL; [discriminate|].
            rewrite last_opt_cons in EL by discriminate. eauto. }
        assert (Kr : keys_gt cmp (sbindings r) v).
        { unfold c2 in C2. destruct (hd_error (sbindings r)) as [p|] eqn:EH.
          - eapply (sorted_hd_keys_gt O); eauto. unfold lt. lia.
          - destruct (sbindings r); [constructor|discriminate]. }
        destruct (sjoin_ok cmp phys_eq v l r fuel0 Al Ar ltac:(lia)) as (t & Hj & Hat & Hbt & Hht & _).
        exists t. split; [exact Hj|]. split; auto.
        split; [unfold SetBase.sbst; rewrite Hbt; now apply (sorted_app O)|]. split; [|lia].
        intros k. rewrite Hbt. unfold SetOps5.memb.
        change ((v, tt) :: sbindings r) with (opt_entry v (Some tt) ++ sbindings r). rewrite (find_mid O) by auto.
        destruct (cmp_cases O k v) as [(L & A & B)|[(E & A & B)|(L & A & B)]].
        * destruct (Z.ltb_spec (cmp k v) 0); [|lia]. destruct (Z.eqb_spec (cmp k v) 0); [lia|].
          rewrite (find_gt_none (cmp:=cmp) k (sbindings r)) by (eapply (keys_gt_trans O); eauto).
          cbn [is_some]. now rewrite !orb_false_r.
        * subst k. destruct (Z.ltb_spec (cmp v v) 0); [lia|]. destruct (Z.eqb_spec (cmp v v) 0); [|lia].
          cbn [is_some]. now rewrite orb_true_r.
        * destruct (Z.ltb_spec (cmp k v) 0); [lia|]. destruct (Z.eqb_spec (cmp k v) 0); [lia|].
          rewrite (find_lt_none O k (sbindings l)) by (eapply (keys_lt_trans O); eauto). reflexivity.
      + (* l ∪ (r + v) *)
        destruct (sinsert_ok cmp O phys_eq phys_eq_sound v r fuel0 Ar Sr ltac:(lia)) as (r' & Hi & Har' & Hbr' & Hhr').
        rewrite Hi. cbn [bind].
        assert (Sr' : sbst r') by (unfold SetBase.sbst; rewrite Hbr'; now apply (put_sorted O)).
        destruct (sunion_ok cmp O phys_eq phys_eq_sound fuel0 l r' Al Sl Har' Sr' ltac:(lia)) as (t & Hu & Hat & Hst & Hp & Hht).
        exists t. split; [exact Hu|]. split; auto. split; auto. split; [|lia].
        intros k. unfold SetOps5.memb. rewrite (Hp k), Hbr', (find_put O). unfold or_comb.
        destruct (find cmp k (sbindings l)) as [[]|]; cbn [is_some orb]; auto.
        destruct (cmp k v =? 0); reflexivity.
    - cbn [bind].
      destruct (sinsert_ok cmp O phys_eq phys_eq_sound v r fuel0 Ar Sr ltac:(lia)) as (r' & Hi & Har' & Hbr' & Hhr').
      rewrite Hi. cbn [bind].
      assert (Sr' : sbst r') by (unfold SetBase.sbst; rewrite Hbr'; now apply (put_sorted O)).
      destruct (sunion_ok cmp O phys_eq phys_eq_sound fuel0 l r' Al Sl Har' Sr' ltac:(lia)) as (t & Hu & Hat & Hst & Hp & Hht).
      exists t. split; [exact Hu|]. split; auto. split; auto. split; [|lia].
      intros k. unfold SetOps5.memb. rewrite (Hp k), Hbr', (find_put O). unfold or_comb.
      destruct (find cmp k (sbindings l)) as [[]|]; cbn [is_some orb]; auto.
      destruct (cmp k v =? 0); reflexivity.
  Qed.

  (* the images of the elements *)
  Definition hits (g : K -> K) (l : list K) (k : K) : bool := existsb (fun x => cmp k (g x) =? 0) l.

  Lemma size_bound (g : K -> K) (l : list K) (b : list (K * unit)) :
    sorted cmp b -> (forall k, SetOps5.memb cmp b k = hits g l k) -> (length b <= length l)%nat.
  Proof.
    intros Sb Hm. rewrite <- (map_length fst b), <- (map_length g l).
    apply NoDup_incl_length; [now apply (sorted_nodup O)|].
    unfold incl. intros k Hin. apply in_map_iff in Hin. destruct Hin as ([k' []] & E & Hin). cbn in E. subst k'.
    pose proof (in_find O _ _ _ Sb Hin) as Hf. specialize (Hm k). unfold SetOps5.memb in Hm. rewrite Hf in Hm.
    cbn [is_some] in Hm. symmetry in Hm. unfold hits in Hm. apply existsb_exists in Hm. destruct Hm as (x & Hx & E).
    apply in_map_iff. exists x. split; auto. symmetry. apply (cmp_eq O). lia.
  Qed.

  Theorem smap_ok (f : K -> res K) (g : K -> K) : (forall x, f x = Ok (g x)) ->
    forall t fuel, savl t -> sbst t -> 4 * Z.of_nat (length (sbindings t)) + 16 <= Z.of_nat fuel ->
    exists t', @Set_map phys_eq K cmp fuel t f = Ok t' /\ savl t' /\ sbst t'
      /\ (forall k, memb (sbindings t') k = hits g (elements t) k)
      /\ (length (sbindings t') <= length (sbindings t))%nat.
  Proof.
    intros Hfg. unfold elements.
    induction t as [|v|h v l IHl r IHr]; intros fuel Ha Hs Hf; hs.
    - need 1%nat fuel. eexists; split; [reflexivity|]. cbn. auto.
    - need 2%nat fuel. cbn [Set_map]. rewrite Hfg. cbn [bind].
      assert (Hgen : forall t', sbindings t' = [(g v, tt)] -> savl t' -> savl t' /\ sbst t'
                /\ (forall k, memb (sbindings t') k = hits g (map fst [(v, tt)]) k)
                /\ (length (sbindings t') <= length [(v, tt)])%nat).
      { intros t' Hb Ha'. split; auto. unfold SetBase.sbst. rewrite Hb. split; [cbn; split; [constructor|exact I]|].
        split; [|cbn; lia]. intros k. unfold SetOps5.memb, hits. cbn [find map fst existsb is_some].
        rewrite orb_false_r. now destruct (cmp k (g v) =? 0). }
      destruct (phys_eq K (g v) v) eqn:Ep.
      + apply phys_eq_sound in Ep. eexists; split; [reflexivity|]. apply Hgen; [cbn; now rewrite Ep|exact I].
      + rewrite (ssingleton_ok cmp phys_eq) by lia. eexists; split; [reflexivity|]. apply Hgen; [reflexivity|exact I].
    - pose proof Ha as Ha0. destruct Ha as (Hal & Har & Hh & Hb).
      destruct (sbst_node_inv cmp _ _ _ _ Hs) as (Hsl & Hsr & Hkl & Hkr).
      rewrite app_length in Hf. cbn [length] in Hf.
      need 1%nat fuel. cbn [Set_map].
      destruct (IHl fuel0 Hal Hsl ltac:(lia)) as (nl & Hrl & Hanl & Hsnl & Hmnl & Hznl). rewrite Hrl. cbn [bind].
      rewrite Hfg. cbn [bind].
      destruct (IHr fuel0 Har Hsr ltac:(lia)) as (nr & Hrr & Hanr & Hsnr & Hmnr & Hznr). rewrite Hrr. cbn [bind].
      assert (Hspec : forall k, hits g (map fst (sbindings l ++ (v, tt) :: sbindings r)) k =
                      hits g (map fst (sbindings l)) k || (cmp k (g v) =? 0) || hits g (map fst (sbindings r)) k).
      { intros k. unfold hits. rewrite map_app, existsb_app. cbn [map fst existsb]. now rewrite orb_assoc. }
      destruct (phys_eq S l nl && phys_eq K v (g v) && phys_eq S r nr) eqn:Ep.
      + apply andb_true_iff in Ep. destruct Ep as [Ep E3]. apply andb_true_iff in Ep. destruct Ep as [E1 E2].
        apply phys_eq_sound in E1, E2, E3. subst nl nr.
        eexists; split; [reflexivity|]. split; [exact Ha0|]. split; [exact Hs|]. split; [|cbn [SetBase.sbindings]; lia].
        intros k. rewrite Hspec, <- Hmnl, <- Hmnr, <- E2. hs. unfold SetOps5.memb.
        change ((v, tt) :: sbindings r) with (opt_entry v (Some tt) ++ sbindings r). rewrite (find_mid O) by auto.
        destruct (cmp_cases O k v) as [(L & A & B)|[(E & A & B)|(L & A & B)]].
        * destruct (Z.ltb_spec (cmp k v) 0); [|lia]. destruct (Z.eqb_spec (cmp k v) 0); [lia|].
          rewrite (find_gt_none (cmp:=cmp) k (sbindings r)) by (eapply (keys_gt_trans O); eauto).
          cbn [is_some]. now rewrite !orb_false_r.
        * subst k. destruct (Z.ltb_spec (cmp v v) 0); [lia|]. destruct (Z.eqb_spec (cmp v v) 0); [|lia].
          cbn [is_some]. now rewrite orb_true_r.
        * destruct (Z.ltb_spec (cmp k v) 0); [lia|]. destruct (Z.eqb_spec (cmp k v) 0); [lia|].
          rewrite (find_lt_none O k (sbindings l)) by (eapply (keys_lt_trans O); eauto). reflexivity.
      + pose proof (height_le_size _ Hanl). pose proof (height_le_size _ Hanr).
        destruct (tryJoin_ok nl (g v) nr fuel0 Hanl Hsnl Hanr Hsnr ltac:(lia)) as (t' & Htj & Hat & Hst & Hmt & Hht).
        exists t'. split; [exact Htj|]. split; auto. split; auto.
        assert (Hm : forall k, memb (sbindings t') k = hits g (map fst (sbindings l ++ (v, tt) :: sbindings r)) k).
        { intros k. rewrite Hspec, Hmt, Hmnl, Hmnr. reflexivity. }
        split; [exact Hm|]. rewrite <- (map_length fst (sbindings l ++ _)). eapply size_bound; eauto.
  Qed.
End SetMap.
