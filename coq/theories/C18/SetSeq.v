(* C18 — Set: any sequence of modifying operations (insert, remove, filter, union, intersection, difference),
   started from a valid set, never panics, keeps the invariants and ends in the set the specification computes. *)
From Coq Require Import List ZArith Lia Bool ZifyBool.
Import ListNotations.
From SVG Require Import StdPrelude StdTuples StdOption StdList StdSet.
From SV Require Import C18.Spec C18.Tactics C18.Conv C18.SetBase C18.SetOps1 C18.SetOps2 C18.SetOps3.
Open Scope Z_scope.

Section SetSeq.
  Context {K : Type}.
  Variable cmp : K -> K -> Z.
  Hypothesis O : cmp_order cmp.
  Variable phys_eq : forall A : Type, A -> A -> bool.
  Hypothesis phys_eq_sound : forall A (a b : A), phys_eq A a b = true -> a = b.
  Notation S := (Set_t K).

  Inductive sop : Type :=
  | SInsert (k : K)
  | SRemove (k : K)
  | SFilter (g : K -> bool)
  | SUnion (ks : list K)          (* with the set built by inserting ks one after the other *)
  | SInter (ks : list K)
  | SDiff (ks : list K).

  Fixpoint sbuild (fuel : nat) (ks : list K) (t : S) : res S :=
    match ks with
    | [] => Ok t
    | k :: r => let* t' := @Set_insert phys_eq K cmp fuel t k in sbuild fuel r t'
    end.
  Definition sstep (fuel : nat) (t : S) (o : sop) : res S :=
    match o with
    | SInsert k => @Set_insert phys_eq K cmp fuel t k
    | SRemove k => @Set_remove phys_eq K cmp fuel t k
    | SFilter g => @Set_filter phys_eq K cmp fuel t (fun k => Ok (g k))
    | SUnion ks => let* u := sbuild fuel ks Set_Empty in @Set_union phys_eq K cmp fuel t u
    | SInter ks => let* u := sbuild fuel ks Set_Empty in @Set_intersection phys_eq K cmp fuel t u
    | SDiff ks => let* u := sbuild fuel ks Set_Empty in @Set_diff phys_eq K cmp fuel t u
    end.
  Fixpoint srun (fuel : nat) (t : S) (ops : list sop) : res S :=
    match ops with [] => Ok t | o :: r => let* t' := sstep fuel t o in srun fuel t' r end.

  Notation sl := (list (K * unit)).
  Definition mem (k : K) (l : sl) : bool := SetOps1.is_some (find cmp k l).
  Definition spec_sstep (l : sl) (o : sop) : sl :=
    match o with
    | SInsert k => put cmp k tt l
    | SRemove k => del cmp k l
    | SFilter g => afilter (kpred g) l
    | SUnion ks => aunion cmp l (sadd_all cmp ks [])
    | SInter ks => afilter (fun k _ => mem k (sadd_all cmp ks [])) l
    | SDiff ks => afilter (fun k _ => negb (mem k (sadd_all cmp ks []))) l
    end.
  Definition scost (o : sop) : Z :=
    match o with SUnion ks | SInter ks | SDiff ks => Z.of_nat (length ks) | _ => 1 end.
  Definition stotal_cost (ops : list sop) : Z := fold_right (fun o a => scost o + a) 0 ops.

  Lemma sbuild_ok : forall ks t fuel, savl t -> sbst cmp t -> sheight t + Z.of_nat (length ks) + 4 <= Z.of_nat fuel ->
    exists t', sbuild fuel ks t = Ok t' /\ savl t' /\ sbst cmp t' /\ sbindings t' = sadd_all cmp ks (sbindings t)
      /\ sheight t' <= sheight t + Z.of_nat (length ks).
  Proof.
    induction ks as [|k ks IH]; intros t fuel Ha Hs Hf; cbn [sbuild length] in *.
    - eexists; split; [reflexivity|]. repeat split; auto; lia.
    - destruct (sinsert_ok cmp O phys_eq phys_eq_sound k t fuel Ha Hs ltac:(lia)) as (t1 & Hr & Hat & Hbt & Hht).
      rewrite Hr. cbn [bind].
      assert (Hs1 : sbst cmp t1) by (unfold sbst; rewrite Hbt; now apply put_sorted).
      destruct (IH t1 fuel Hat Hs1 ltac:(lia)) as (t' & Hr' & Hat' & Hst' & Hbt' & Hht').
      exists t'. split; [exact Hr'|]. split; auto. split; auto. split; [|lia].
      rewrite Hbt', Hbt. reflexivity.
  Qed.

  Lemma sstep_ok o t fuel : savl t -> sbst cmp t -> 2 * (sheight t + scost o) + 11 <= Z.of_nat fuel ->
    exists t', sstep fuel t o = Ok t' /\ savl t' /\ sbst cmp t' /\ sbindings t' = spec_sstep (sbindings t) o
      /\ sheight t' <= sheight t + scost o.
  Proof.
    intros Ha Hs Hf. pose proof (sheight_nonneg _ Ha). destruct o as [k|k|g|ks|ks|ks]; cbn [sstep spec_sstep scost] in *.
    - destruct (sinsert_ok cmp O phys_eq phys_eq_sound k t fuel Ha Hs ltac:(lia)) as (t' & Hr & Hat & Hbt & Hht).
      exists t'. repeat split; auto; try lia. unfold sbst. rewrite Hbt. now apply put_sorted.
    - destruct (sremove_ok cmp O phys_eq phys_eq_sound k t fuel Ha Hs ltac:(lia)) as (t' & Hr & Hat & Hbt & Hht).
      exists t'. repeat split; auto; try lia. unfold sbst. rewrite Hbt. now apply del_sorted.
    - destruct (sfilter_ok cmp phys_eq phys_eq_sound _ g (fun k => eq_refl) t fuel Ha ltac:(lia)) as (t' & Hr & Hat & Hbt & Hht).
      exists t'. repeat split; auto; try lia. unfold sbst. rewrite Hbt. now apply afilter_sorted.
    - destruct (sbuild_ok ks Set_Empty fuel I I ltac:(cbn; lia)) as (u & Hu & Hau & Hsu & Hbu & Hhu).
      rewrite Hu. cbn [bind]. cbn [SetBase.sheight SetBase.sbindings] in Hbu, Hhu. pose proof (sheight_nonneg _ Hau).
      destruct (sunion_ok cmp O phys_eq phys_eq_sound fuel t u Ha Hs Hau Hsu ltac:(lia)) as (t' & Hr & Hat & Hst & Hp & Hht).
      exists t'. split; [exact Hr|]. split; auto. split; auto. split; [|lia].
      destruct (aunion_spec O (sbindings u) Hsu (sbindings t) Hs) as [Sa Pa].
      rewrite <- Hbu. apply (find_ext O); auto. intros k. rewrite (Hp k), Pa. reflexivity.
    - destruct (sbuild_ok ks Set_Empty fuel I I ltac:(cbn; lia)) as (u & Hu & Hau & Hsu & Hbu & Hhu).
      rewrite Hu. cbn [bind]. cbn [SetBase.sheight SetBase.sbindings] in Hbu, Hhu. pose proof (sheight_nonneg _ Hau).
      destruct (sinter_ok cmp O phys_eq fuel t u Ha Hs Hau Hsu ltac:(lia)) as (t' & Hr & Hat & Hst & Hp & Hht).
      exists t'. split; [exact Hr|]. split; auto. split; auto. split; [|lia].
      rewrite <- Hbu. apply (find_ext O); auto; [now apply afilter_sorted|].
      intros k. rewrite (Hp k), (find_afilter O) by exact Hs. unfold and_comb, mem, SetOps1.is_some.
      destruct (find cmp k (sbindings t)) as [[]|]; auto. now destruct (find cmp k (sbindings u)).
    - destruct (sbuild_ok ks Set_Empty fuel I I ltac:(cbn; lia)) as (u & Hu & Hau & Hsu & Hbu & Hhu).
      rewrite Hu. cbn [bind]. cbn [SetBase.sheight SetBase.sbindings] in Hbu, Hhu. pose proof (sheight_nonneg _ Hau).
      destruct (sdiff_ok cmp O phys_eq fuel t u Ha Hs Hau Hsu ltac:(lia)) as (t' & Hr & Hat & Hst & Hp & Hht).
      exists t'. split; [exact Hr|]. split; auto. split; auto. split; [|lia].
      rewrite <- Hbu. apply (find_ext O); auto; [now apply afilter_sorted|].
      intros k. rewrite (Hp k), (find_afilter O) by exact Hs. unfold diff_comb, mem, SetOps1.is_some.
      destruct (find cmp k (sbindings u)); destruct (find cmp k (sbindings t)) as [[]|]; auto.
  Qed.

  Theorem srun_ok : forall ops t fuel, savl t -> sbst cmp t ->
    2 * (sheight t + stotal_cost ops) + 11 <= Z.of_nat fuel ->
    exists t', srun fuel t ops = Ok t' /\ savl t' /\ sbst cmp t'
      /\ sbindings t' = fold_left spec_sstep ops (sbindings t).
  Proof.
    assert (Hc : forall o, 0 <= scost o) by (intros []; cbn; lia).
    assert (Htc : forall ops, 0 <= stotal_cost ops).
    { induction ops as [|o ops IH]; cbn [stotal_cost fold_right]; [lia|]. specialize (Hc o). fold (stotal_cost ops). lia. }
    induction ops as [|o ops IH]; intros t fuel Ha Hs Hf; cbn [srun fold_left stotal_cost fold_right] in *.
    - eexists; split; [reflexivity|]. auto.
    - fold (stotal_cost ops) in Hf. specialize (Htc ops). specialize (Hc o). pose proof (sheight_nonneg _ Ha).
      destruct (sstep_ok o t fuel Ha Hs ltac:(lia)) as (t1 & Hr & Hat & Hst & Hbt & Hht).
      rewrite Hr. cbn [bind].
      destruct (IH t1 fuel Hat Hst ltac:(lia)) as (t' & Hr' & Hat' & Hst' & Hbt').
      exists t'. split; [exact Hr'|]. split; auto. split; auto. rewrite Hbt', Hbt. reflexivity.
  Qed.
End SetSeq.
