(* C18 — the mathematical side: finite maps as association lists with strictly increasing keys,
   finite sets as strictly increasing lists, w.r.t. a computed three-way comparison `cmp`. *)
From Coq Require Import List ZArith Lia Bool.
Import ListNotations.
Open Scope Z_scope.

Section Order.
  Context {K : Type} {cmp : K -> K -> Z}.

  (* `compare` is a strict total order as computed *)
  Record cmp_order : Prop := {
    cmp_eq : forall a b, cmp a b = 0 <-> a = b;
    cmp_antisym : forall a b, cmp a b < 0 <-> 0 < cmp b a;
    cmp_trans : forall a b c, cmp a b < 0 -> cmp b c < 0 -> cmp a c < 0 }.

  Definition lt (a b : K) : Prop := cmp a b < 0.

  Hypothesis O : cmp_order.

  Lemma cmp_refl a : cmp a a = 0.
  Proof. now apply (cmp_eq O). Qed.
  Lemma lt_irrefl a : ~ lt a a.
  Proof. unfold lt. rewrite cmp_refl. lia. Qed.
  Lemma lt_trans a b c : lt a b -> lt b c -> lt a c.
  Proof. apply (cmp_trans O). Qed.
  Lemma gt_lt a b : 0 < cmp a b <-> lt b a.
  Proof. unfold lt. now rewrite (cmp_antisym O). Qed.
  Lemma lt_asym a b : lt a b -> ~ lt b a.
  Proof. intros H1 H2. exact (lt_irrefl a (lt_trans _ _ _ H1 H2)). Qed.
  Lemma lt_neq a b : lt a b -> a <> b.
  Proof. intros H ->. exact (lt_irrefl _ H). Qed.
  Lemma cmp_sym0 a b : cmp a b = 0 -> cmp b a = 0.
  Proof. intros H. apply (cmp_eq O) in H. subst. apply cmp_refl. Qed.
  Lemma cmp_cases a b : (lt a b /\ cmp a b < 0 /\ 0 < cmp b a) \/ (a = b /\ cmp a b = 0 /\ cmp b a = 0) \/ (lt b a /\ 0 < cmp a b /\ cmp b a < 0).
  Proof.
    destruct (Z.lt_total (cmp a b) 0) as [H|[H|H]].
    - left. split; [exact H|]. split; [exact H|]. now apply (cmp_antisym O).
    - right. left. pose proof (cmp_sym0 _ _ H). pose proof H as H'. apply (cmp_eq O) in H'. auto.
    - right. right. apply (cmp_antisym O) in H as H'. unfold lt. auto.
  Qed.

  (* last element of a list *)
  Fixpoint last_opt {A} (l : list A) : option A :=
    match l with [] => None | [x] => Some x | _ :: l' => last_opt l' end.
  Lemma last_opt_cons {A} (x : A) l : l <> [] -> last_opt (x :: l) = last_opt l.
  Proof. destruct l; [congruence|reflexivity]. Qed.
  Lemma last_opt_app {A} (l1 : list A) x l2 : last_opt (l1 ++ x :: l2) = last_opt (x :: l2).
  Proof.
    induction l1 as [|a l1 IH]; auto. cbn [app]. rewrite last_opt_cons; auto. now destruct l1.
  Qed.

  (* ------------------------------------------------------------------ finite maps *)
  Section Maps.
    Context {V : Type}.
    Notation alist := (list (K * V)).

    Definition keys_lt (l : alist) (k : K) : Prop := Forall (fun p => lt (fst p) k) l.
    Definition keys_gt (l : alist) (k : K) : Prop := Forall (fun p => lt k (fst p)) l.

    (* strictly increasing keys *)
    Fixpoint sorted (l : alist) : Prop :=
      match l with [] => True | (k, _) :: l' => keys_gt l' k /\ sorted l' end.

    Fixpoint find (k : K) (l : alist) : option V :=
      match l with
      | [] => None
      | (k', v') :: l' => if cmp k k' =? 0 then Some v' else find k l'
      end.

    Fixpoint put (k : K) (v : V) (l : alist) : alist :=
      match l with
      | [] => [(k, v)]
      | (k', v') :: l' =>
          if cmp k k' <? 0 then (k, v) :: l
          else if cmp k k' =? 0 then (k, v) :: l'
          else (k', v') :: put k v l'
      end.

    Fixpoint del (k : K) (l : alist) : alist :=
      match l with
      | [] => []
      | (k', v') :: l' => if cmp k k' =? 0 then l' else (k', v') :: del k l'
      end.

    (* update(k, f): f sees the current binding, decides the new one *)
    Definition upd (k : K) (f : option V -> option V) (l : alist) : alist :=
      match f (find k l) with Some v => put k v l | None => del k l end.

    Definition below (k : K) (l : alist) : alist := filter (fun p => cmp (fst p) k <? 0) l.
    Definition above (k : K) (l : alist) : alist := filter (fun p => 0 <? cmp (fst p) k) l.

    Definition afilter (f : K -> V -> bool) (l : alist) : alist := filter (fun p => f (fst p) (snd p)) l.
    Definition afold {A} (f : A -> K -> V -> A) (l : alist) (a : A) : A := fold_left (fun a p => f a (fst p) (snd p)) l a.

    (* left-biased union *)
    Definition aunion (l1 l2 : alist) : alist :=
      fold_left (fun acc p => match find (fst p) acc with Some _ => acc | None => put (fst p) (snd p) acc end) l2 l1.

    (* ---- the association-list operations really are finite-map operations on sorted lists *)
    Lemma keys_gt_trans l a b : lt a b -> keys_gt l b -> keys_gt l a.
    Proof. intros H. apply Forall_impl. intros p. now apply lt_trans. Qed.
    Lemma keys_lt_trans l a b : lt a b -> keys_lt l a -> keys_lt l b.
    Proof. intros H. apply Forall_impl. intros p Hp. eapply lt_trans; eauto. Qed.

    Lemma find_gt_none k l : keys_gt l k -> find k l = None.
    Proof.
      induction l as [|[k' v'] l IH]; cbn [find]; auto. intros H. inversion H; subst. cbn in *.
      destruct (Z.eqb_spec (cmp k k') 0); [unfold lt in *; lia|auto].
    Qed.

    Lemma sorted_app_inv l1 k v l2 : sorted (l1 ++ (k, v) :: l2) ->
      sorted l1 /\ sorted l2 /\ keys_lt l1 k /\ keys_gt l2 k.
    Proof.
      induction l1 as [|[k1 v1] l1 IH]; cbn [app sorted].
      - intros [H1 H2]. repeat split; auto. constructor.
      - intros [H1 H2]. destruct (IH H2) as (Ha & Hb & Hc & Hd). unfold keys_gt in H1.
        apply Forall_app in H1. destruct H1 as [H1a H1b]. inversion H1b; subst. cbn in *.
        repeat split; auto. constructor; auto.
    Qed.

    Lemma sorted_app l1 k v l2 : sorted l1 -> sorted l2 -> keys_lt l1 k -> keys_gt l2 k ->
      sorted (l1 ++ (k, v) :: l2).
    Proof.
      induction l1 as [|[k1 v1] l1 IH]; cbn [app sorted]; intros H1 H2 H3 H4.
      - auto.
      - destruct H1 as [H1a H1b]. inversion H3; subst. cbn in *. split.
        + apply Forall_app. split; auto. constructor; auto. eapply keys_gt_trans; eauto.
        + apply IH; auto.
    Qed.

    Lemma sorted_app2_inv l1 l2 : sorted (l1 ++ l2) -> sorted l1 /\ sorted l2.
    Proof.
      induction l1 as [|[k1 v1] l1 IH]; cbn [app sorted]; [tauto|].
      intros [H1 H2]. apply Forall_app in H1. destruct (IH H2). tauto.
    Qed.

    Lemma put_sorted k v l : sorted l -> sorted (put k v l).
    Proof.
      induction l as [|[k' v'] l IH]; cbn [put sorted]; [intros; split; [constructor|auto]|].
      intros [H1 H2]. destruct (cmp_cases k k') as [(L & A & B)|[(E & A & B)|(L & A & B)]].
      - destruct (Z.ltb_spec (cmp k k') 0); [|lia]. cbn [sorted]. repeat split; auto.
        constructor; auto. eapply keys_gt_trans; eauto.
      - destruct (Z.ltb_spec (cmp k k') 0); [lia|]. destruct (Z.eqb_spec (cmp k k') 0); [|lia].
        subst. cbn [sorted]. auto.
      - destruct (Z.ltb_spec (cmp k k') 0); [lia|]. destruct (Z.eqb_spec (cmp k k') 0); [lia|].
        cbn [sorted]. split; auto. clear IH H2.
        induction l as [|[k2 v2] l IH2]; cbn [put]; [repeat constructor; auto|].
        inversion H1; subst. cbn in *.
        destruct (cmp k k2 <? 0); [constructor; auto|]. destruct (cmp k k2 =? 0); constructor; auto; apply IH2; auto.
    Qed.

    Lemma find_put k v k' l : find k' (put k v l) = if cmp k' k =? 0 then Some v else find k' l.
    Proof.
      induction l as [|[k1 v1] l IH]; cbn [put find]; auto.
      destruct (cmp_cases k k1) as [(L & A & B)|[(E & A & B)|(L & A & B)]].
      - destruct (Z.ltb_spec (cmp k k1) 0); [|lia]. cbn [find]. reflexivity.
      - destruct (Z.ltb_spec (cmp k k1) 0); [lia|]. destruct (Z.eqb_spec (cmp k k1) 0); [|lia]. subst k1.
        cbn [find]. destruct (cmp k' k =? 0); reflexivity.
      - destruct (Z.ltb_spec (cmp k k1) 0); [lia|]. destruct (Z.eqb_spec (cmp k k1) 0); [lia|].
        cbn [find]. rewrite IH. destruct (Z.eqb_spec (cmp k' k1) 0) as [E1|N1]; auto.
        apply (cmp_eq O) in E1. subst k'. destruct (Z.eqb_spec (cmp k1 k) 0); [lia|reflexivity].
    Qed.

    Lemma del_sorted k l : sorted l -> sorted (del k l).
    Proof.
      induction l as [|[k' v'] l IH]; cbn [del sorted]; auto. intros [H1 H2].
      destruct (cmp k k' =? 0); auto. cbn [sorted]. split; auto. clear IH H2.
      induction l as [|[k2 v2] l IH2]; cbn [del]; [constructor|]. inversion H1; subst.
      destruct (cmp k k2 =? 0); auto. constructor; auto. apply IH2; auto.
    Qed.

    Lemma find_del k k' l : sorted l -> find k' (del k l) = if cmp k' k =? 0 then None else find k' l.
    Proof.
      induction l as [|[k1 v1] l IH]; cbn [del find sorted]; [destruct (cmp k' k =? 0); auto|].
      intros [H1 H2]. destruct (Z.eqb_spec (cmp k k1) 0) as [E|N].
      - apply (cmp_eq O) in E. subst k1. destruct (Z.eqb_spec (cmp k' k) 0) as [E|N]; auto.
        apply (cmp_eq O) in E. subst. now apply find_gt_none.
      - cbn [find]. rewrite IH by auto. destruct (Z.eqb_spec (cmp k' k1) 0) as [E1|N1]; auto.
        apply (cmp_eq O) in E1. subst k'. destruct (Z.eqb_spec (cmp k1 k) 0) as [E2|]; auto.
        apply cmp_sym0 in E2. lia.
    Qed.

    (* ---- how the operations distribute over  l1 ++ (k', v') :: l2  (the shape of a tree node) *)
    Lemma find_lt_none k l : keys_lt l k -> find k l = None.
    Proof.
      induction l as [|[k' v'] l IH]; cbn [find]; auto. intros H. inversion H; subst. cbn in *.
      destruct (cmp_cases k k') as [(L & A & B)|[(E & A & B)|(L & A & B)]].
      - exfalso. eapply lt_asym; eauto.
      - subst. exfalso. eapply lt_irrefl; eauto.
      - destruct (Z.eqb_spec (cmp k k') 0); [lia|auto].
    Qed.

    Lemma find_app k l1 l2 : find k (l1 ++ l2) = match find k l1 with Some v => Some v | None => find k l2 end.
    Proof. induction l1 as [|[k1 v1] l1 IH]; cbn [app find]; auto. destruct (cmp k k1 =? 0); auto. Qed.

    Lemma find_app_eq k v l1 l2 : keys_lt l1 k -> find k (l1 ++ (k, v) :: l2) = Some v.
    Proof. intros H. rewrite find_app, find_lt_none by auto. cbn [find]. now rewrite cmp_refl. Qed.

    Lemma find_app_lt k k' v' l1 l2 : lt k k' -> keys_gt l2 k' -> find k (l1 ++ (k', v') :: l2) = find k l1.
    Proof.
      intros H1 H2. rewrite find_app. destruct (find k l1); auto. apply find_gt_none.
      constructor; auto. eapply keys_gt_trans; eauto.
    Qed.

    Lemma find_app_gt k k' v' l1 l2 : keys_lt l1 k' -> lt k' k -> find k (l1 ++ (k', v') :: l2) = find k l2.
    Proof.
      intros H1 H2. rewrite find_app, find_lt_none by (eapply keys_lt_trans; eauto). cbn [find].
      destruct (Z.eqb_spec (cmp k k') 0) as [E|]; auto. apply (cmp_eq O) in E. subst. exfalso. eapply lt_irrefl; eauto.
    Qed.

    Lemma put_app_lt k v l1 k' v' l2 : lt k k' -> put k v (l1 ++ (k', v') :: l2) = put k v l1 ++ (k', v') :: l2.
    Proof.
      intros Hlt. unfold lt in Hlt. induction l1 as [|[k1 v1] l1 IH]; cbn [app put].
      - destruct (Z.ltb_spec (cmp k k') 0); [reflexivity|lia].
      - destruct (cmp k k1 <? 0); [reflexivity|]. destruct (cmp k k1 =? 0); [reflexivity|]. cbn [app]. now rewrite IH.
    Qed.

    Lemma put_app_eq k v l1 v' l2 : keys_lt l1 k -> put k v (l1 ++ (k, v') :: l2) = l1 ++ (k, v) :: l2.
    Proof.
      intros H. induction l1 as [|[k1 v1] l1 IH]; cbn [app put].
      - rewrite cmp_refl. reflexivity.
      - inversion H; subst. cbn in *. apply gt_lt in H2 as G.
        destruct (Z.ltb_spec (cmp k k1) 0); [lia|]. destruct (Z.eqb_spec (cmp k k1) 0); [lia|]. now rewrite IH.
    Qed.

    Lemma put_app_gt k v l1 k' v' l2 : keys_lt l1 k' -> lt k' k ->
      put k v (l1 ++ (k', v') :: l2) = l1 ++ (k', v') :: put k v l2.
    Proof.
      intros H Hlt. induction l1 as [|[k1 v1] l1 IH]; cbn [app put].
      - apply gt_lt in Hlt. destruct (Z.ltb_spec (cmp k k') 0); [lia|]. destruct (Z.eqb_spec (cmp k k') 0); [lia|reflexivity].
      - inversion H; subst. cbn in *. assert (G : 0 < cmp k k1) by (apply gt_lt; eapply lt_trans; eauto).
        destruct (Z.ltb_spec (cmp k k1) 0); [lia|]. destruct (Z.eqb_spec (cmp k k1) 0); [lia|]. now rewrite IH.
    Qed.

    Lemma del_app_lt k l1 k' v' l2 : lt k k' -> keys_gt l2 k' -> del k (l1 ++ (k', v') :: l2) = del k l1 ++ (k', v') :: l2.
    Proof.
      intros H1 H2. induction l1 as [|[k1 v1] l1 IH]; cbn [app del].
      - unfold lt in H1. destruct (Z.eqb_spec (cmp k k') 0); [lia|]. f_equal.
        clear - O H1 H2. assert (H : keys_gt l2 k) by (eapply keys_gt_trans; eauto). clear H2.
        induction l2 as [|[k2 v2] l2 IH]; cbn [del]; auto. inversion H; subst. cbn in *. unfold lt in H3.
        destruct (Z.eqb_spec (cmp k k2) 0); [lia|]. now rewrite IH.
      - destruct (cmp k k1 =? 0); [reflexivity|]. cbn [app]. now rewrite IH.
    Qed.

    Lemma del_lt_id k l : keys_lt l k -> del k l = l.
    Proof.
      induction l as [|[k1 v1] l IH]; cbn [del]; auto. intros H. inversion H; subst. cbn in *.
      apply gt_lt in H2. destruct (Z.eqb_spec (cmp k k1) 0); [lia|]. now rewrite IH.
    Qed.

    Lemma del_gt_id k l : keys_gt l k -> del k l = l.
    Proof.
      induction l as [|[k1 v1] l IH]; cbn [del]; auto. intros H. inversion H; subst. cbn in *.
      unfold lt in H2. destruct (Z.eqb_spec (cmp k k1) 0); [lia|]. now rewrite IH.
    Qed.

    Lemma del_app_eq k l1 v' l2 : keys_lt l1 k -> del k (l1 ++ (k, v') :: l2) = l1 ++ l2.
    Proof.
      intros H. induction l1 as [|[k1 v1] l1 IH]; cbn [app del].
      - now rewrite cmp_refl.
      - inversion H; subst. cbn in *. apply gt_lt in H2. destruct (Z.eqb_spec (cmp k k1) 0); [lia|]. now rewrite IH.
    Qed.

    Lemma del_app_gt k l1 k' v' l2 : keys_lt l1 k' -> lt k' k ->
      del k (l1 ++ (k', v') :: l2) = l1 ++ (k', v') :: del k l2.
    Proof.
      intros H Hlt. induction l1 as [|[k1 v1] l1 IH]; cbn [app del].
      - apply gt_lt in Hlt. destruct (Z.eqb_spec (cmp k k') 0); [lia|reflexivity].
      - inversion H; subst. cbn in *. assert (G : 0 < cmp k k1) by (apply gt_lt; eapply lt_trans; eauto).
        destruct (Z.eqb_spec (cmp k k1) 0); [lia|]. now rewrite IH.
    Qed.

    (* ---- split *)
    Lemma below_all k l : keys_lt l k -> below k l = l.
    Proof.
      induction l as [|[k1 v1] l IH]; cbn [below filter]; auto. intros H. inversion H; subst. cbn [fst] in *.
      unfold lt in H2. destruct (Z.ltb_spec (cmp k1 k) 0); [|lia]. f_equal. now apply IH.
    Qed.
    Lemma below_none k l : keys_gt l k -> below k l = [].
    Proof.
      induction l as [|[k1 v1] l IH]; cbn [below filter]; auto. intros H. inversion H; subst. cbn [fst] in *.
      apply gt_lt in H2. destruct (Z.ltb_spec (cmp k1 k) 0); [lia|]. now apply IH.
    Qed.
    Lemma above_all k l : keys_gt l k -> above k l = l.
    Proof.
      induction l as [|[k1 v1] l IH]; cbn [above filter]; auto. intros H. inversion H; subst. cbn [fst] in *.
      apply gt_lt in H2. destruct (Z.ltb_spec 0 (cmp k1 k)); [|lia]. f_equal. now apply IH.
    Qed.
    Lemma above_none k l : keys_lt l k -> above k l = [].
    Proof.
      induction l as [|[k1 v1] l IH]; cbn [above filter]; auto. intros H. inversion H; subst. cbn [fst] in *.
      unfold lt in H2. destruct (Z.ltb_spec 0 (cmp k1 k)); [lia|]. now apply IH.
    Qed.
    Lemma below_app k l1 l2 : below k (l1 ++ l2) = below k l1 ++ below k l2.
    Proof. apply filter_app. Qed.
    Lemma above_app k l1 l2 : above k (l1 ++ l2) = above k l1 ++ above k l2.
    Proof. apply filter_app. Qed.

    Lemma below_app_lt k l1 k' v' l2 : lt k k' -> keys_gt l2 k' -> below k (l1 ++ (k', v') :: l2) = below k l1.
    Proof.
      intros H1 H2. rewrite below_app. rewrite (below_none k ((k', v') :: l2)).
      - apply app_nil_r.
      - constructor; auto. eapply keys_gt_trans; eauto.
    Qed.
    Lemma below_app_eq k v' l1 l2 : keys_lt l1 k -> keys_gt l2 k -> below k (l1 ++ (k, v') :: l2) = l1.
    Proof.
      intros H1 H2. rewrite below_app, below_all by auto. cbn [below filter fst]. rewrite cmp_refl. cbn.
      fold (below k l2). rewrite below_none by auto. apply app_nil_r.
    Qed.
    Lemma below_app_gt k l1 k' v' l2 : keys_lt l1 k' -> lt k' k ->
      below k (l1 ++ (k', v') :: l2) = l1 ++ (k', v') :: below k l2.
    Proof.
      intros H1 H2. rewrite below_app, below_all by (eapply keys_lt_trans; eauto). cbn [below filter fst].
      unfold lt in H2. destruct (Z.ltb_spec (cmp k' k) 0); [|lia]. reflexivity.
    Qed.
    Lemma above_app_lt k l1 k' v' l2 : lt k k' -> keys_gt l2 k' ->
      above k (l1 ++ (k', v') :: l2) = above k l1 ++ (k', v') :: l2.
    Proof.
      intros H1 H2. rewrite above_app. f_equal. cbn [above filter fst]. apply gt_lt in H1 as G.
      destruct (Z.ltb_spec 0 (cmp k' k)); [|lia]. f_equal. apply above_all. eapply keys_gt_trans; eauto.
    Qed.
    Lemma above_app_eq k v' l1 l2 : keys_lt l1 k -> keys_gt l2 k -> above k (l1 ++ (k, v') :: l2) = l2.
    Proof.
      intros H1 H2. rewrite above_app, above_none by auto. cbn [above filter fst app]. rewrite cmp_refl. cbn.
      now apply above_all.
    Qed.
    Lemma above_app_gt k l1 k' v' l2 : keys_lt l1 k' -> lt k' k -> above k (l1 ++ (k', v') :: l2) = above k l2.
    Proof.
      intros H1 H2. rewrite above_app, above_none by (eapply keys_lt_trans; eauto). cbn [above filter fst app].
      unfold lt in H2. destruct (Z.ltb_spec 0 (cmp k' k)); [lia|]. reflexivity.
    Qed.

    Lemma below_sorted k l : sorted l -> sorted (below k l).
    Proof.
      induction l as [|[k1 v1] l IH]; cbn [below filter sorted fst]; auto. intros [H1 H2].
      destruct (cmp k1 k <? 0); [|now apply IH]. cbn [sorted]. split; [|now apply IH].
      clear - H1. induction l as [|[k2 v2] l IH]; cbn [below filter]; [constructor|]. inversion H1; subst.
      destruct (cmp (fst (k2, v2)) k <? 0); [constructor; auto|]; now apply IH.
    Qed.
    Lemma above_sorted k l : sorted l -> sorted (above k l).
    Proof.
      induction l as [|[k1 v1] l IH]; cbn [above filter sorted fst]; auto. intros [H1 H2].
      destruct (0 <? cmp k1 k); [|now apply IH]. cbn [sorted]. split; [|now apply IH].
      clear - H1. induction l as [|[k2 v2] l IH]; cbn [above filter]; [constructor|]. inversion H1; subst.
      destruct (0 <? cmp (fst (k2, v2)) k); [constructor; auto|]; now apply IH.
    Qed.
    Lemma below_keys_lt k l : keys_lt (below k l) k.
    Proof.
      induction l as [|[k1 v1] l IH]; cbn [below filter fst]; [constructor|].
      destruct (Z.ltb_spec (cmp k1 k) 0); auto. constructor; auto.
    Qed.
    Lemma above_keys_gt k l : keys_gt (above k l) k.
    Proof.
      induction l as [|[k1 v1] l IH]; cbn [above filter fst]; [constructor|].
      destruct (Z.ltb_spec 0 (cmp k1 k)); auto. constructor; auto. now apply gt_lt.
    Qed.

    (* ---- update, filter *)
    Lemma upd_app_lt k g l1 k' v' l2 : lt k k' -> keys_gt l2 k' ->
      upd k g (l1 ++ (k', v') :: l2) = upd k g l1 ++ (k', v') :: l2.
    Proof.
      intros H1 H2. unfold upd. rewrite find_app_lt by auto. destruct (g (find k l1)).
      - now apply put_app_lt.
      - now apply del_app_lt.
    Qed.
    Lemma upd_app_eq k g l1 v' l2 : keys_lt l1 k ->
      upd k g (l1 ++ (k, v') :: l2) = l1 ++ match g (Some v') with Some d => [(k, d)] | None => [] end ++ l2.
    Proof.
      intros H1. unfold upd. rewrite find_app_eq by auto. destruct (g (Some v')).
      - now apply put_app_eq.
      - now apply del_app_eq.
    Qed.
    Lemma upd_app_gt k g l1 k' v' l2 : keys_lt l1 k' -> lt k' k ->
      upd k g (l1 ++ (k', v') :: l2) = l1 ++ (k', v') :: upd k g l2.
    Proof.
      intros H1 H2. unfold upd. rewrite find_app_gt by auto. destruct (g (find k l2)).
      - now apply put_app_gt.
      - now apply del_app_gt.
    Qed.
    Lemma upd_sorted k g l : sorted l -> sorted (upd k g l).
    Proof. intros H. unfold upd. destruct (g (find k l)); [now apply put_sorted|now apply del_sorted]. Qed.

    Lemma afilter_app f l1 l2 : afilter f (l1 ++ l2) = afilter f l1 ++ afilter f l2.
    Proof. apply filter_app. Qed.
    Lemma filter_keys_gt (p : K * V -> bool) l k : keys_gt l k -> keys_gt (filter p l) k.
    Proof.
      induction l as [|a l IH]; cbn [filter]; auto. intros H. inversion H; subst.
      destruct (p a); [constructor; auto|]; apply IH; auto.
    Qed.
    Lemma filter_sorted (p : K * V -> bool) l : sorted l -> sorted (filter p l).
    Proof.
      induction l as [|[k v] l IH]; cbn [filter sorted]; auto. intros [H1 H2].
      destruct (p (k, v)); [|auto]. cbn [sorted]. split; auto. now apply filter_keys_gt.
    Qed.
    Lemma afilter_sorted f l : sorted l -> sorted (afilter f l).
    Proof. apply filter_sorted. Qed.

    (* ---- compare / equal: lexicographic on the bindings in key order; keys by cmp, then values *)
    Fixpoint alex (g : V -> V -> Z) (l1 l2 : alist) : Z :=
      match l1, l2 with
      | [], [] => 0
      | [], _ => -1
      | _, [] => 1
      | (k1, v1) :: l1', (k2, v2) :: l2' =>
          if negb (cmp k1 k2 =? 0) then cmp k1 k2
          else if negb (g v1 v2 =? 0) then g v1 v2 else alex g l1' l2'
      end.
    Fixpoint aeqb (g : V -> V -> bool) (l1 l2 : alist) : bool :=
      match l1, l2 with
      | [], [] => true
      | (k1, v1) :: l1', (k2, v2) :: l2' => (cmp k1 k2 =? 0) && g v1 v2 && aeqb g l1' l2'
      | _, _ => false
      end.

    (* ---- lookup characterises a sorted association list *)
    Lemma find_some_in k v l : find k l = Some v -> In (k, v) l.
    Proof.
      induction l as [|[k1 v1] l IH]; cbn [find]; [discriminate|].
      destruct (Z.eqb_spec (cmp k k1) 0) as [E|N]; intros H.
      - apply (cmp_eq O) in E. inversion H; subst. now left.
      - right. auto.
    Qed.

    Lemma keys_lt_find l k : keys_lt l k <-> (forall k', find k' l <> None -> lt k' k).
    Proof.
      split.
      - intros H k' Hf. destruct (find k' l) as [v|] eqn:E; [|congruence].
        apply find_some_in in E. unfold keys_lt in H. rewrite Forall_forall in H. exact (H _ E).
      - induction l as [|[k1 v1] l IH]; intros H; [constructor|]. constructor.
        + apply H. cbn [find]. rewrite cmp_refl. cbn. discriminate.
        + apply IH. intros k' Hk'. apply H. cbn [find]. destruct (cmp k' k1 =? 0); [discriminate|auto].
    Qed.

    Lemma keys_gt_find l k : keys_gt l k <-> (forall k', find k' l <> None -> lt k k').
    Proof.
      split.
      - intros H k' Hf. destruct (find k' l) as [v|] eqn:E; [|congruence].
        apply find_some_in in E. unfold keys_gt in H. rewrite Forall_forall in H. exact (H _ E).
      - induction l as [|[k1 v1] l IH]; intros H; [constructor|]. constructor.
        + apply H. cbn [find]. rewrite cmp_refl. cbn. discriminate.
        + apply IH. intros k' Hk'. apply H. cbn [find]. destruct (cmp k' k1 =? 0); [discriminate|auto].
    Qed.

    Theorem find_ext l1 l2 : sorted l1 -> sorted l2 -> (forall k, find k l1 = find k l2) -> l1 = l2.
    Proof.
      revert l2. induction l1 as [|[k1 v1] l1 IH]; intros [|[k2 v2] l2] S1 S2 H; auto.
      - specialize (H k2). cbn [find] in H. rewrite cmp_refl in H. discriminate.
      - specialize (H k1). cbn [find] in H. rewrite cmp_refl in H. discriminate.
      - cbn [sorted] in S1, S2. destruct S1 as [G1 S1], S2 as [G2 S2].
        assert (k1 = k2 /\ v1 = v2) as [-> ->].
        { pose proof (H k1) as H1. pose proof (H k2) as H2. cbn [find] in H1, H2. rewrite cmp_refl in H1, H2.
          destruct (cmp_cases k1 k2) as [(L & A & B)|[(E & A & B)|(L & A & B)]].
          - exfalso. destruct (Z.eqb_spec (cmp k1 k2) 0); [lia|].
            rewrite (find_gt_none k1 l2) in H1 by (eapply keys_gt_trans; eauto). discriminate.
          - subst. destruct (Z.eqb_spec (cmp k2 k2) 0); [|lia]. inversion H1; auto.
          - exfalso. destruct (Z.eqb_spec (cmp k2 k1) 0); [lia|].
            rewrite (find_gt_none k2 l1) in H2 by (eapply keys_gt_trans; eauto). discriminate. }
        f_equal. apply IH; auto. intros k. specialize (H k). cbn [find] in H.
        destruct (Z.eqb_spec (cmp k k2) 0) as [E|N]; auto.
        apply (cmp_eq O) in E. subst. now rewrite !find_gt_none by auto.
    Qed.

    Lemma find_below k k' l : find k' (below k l) = if cmp k' k <? 0 then find k' l else None.
    Proof.
      induction l as [|[k1 v1] l IH]; cbn [below filter find fst]; [now destruct (cmp k' k <? 0)|].
      fold (below k l). destruct (Z.eqb_spec (cmp k' k1) 0) as [E|N].
      - apply (cmp_eq O) in E. subst k1. destruct (cmp k' k <? 0) eqn:Ec.
        + cbn [find]. now rewrite cmp_refl.
        + exact IH.
      - destruct (cmp k1 k <? 0); [cbn [find]; destruct (Z.eqb_spec (cmp k' k1) 0); [lia|]|]; exact IH.
    Qed.

    Lemma find_above k k' l : find k' (above k l) = if 0 <? cmp k' k then find k' l else None.
    Proof.
      induction l as [|[k1 v1] l IH]; cbn [above filter find fst]; [now destruct (0 <? cmp k' k)|].
      fold (above k l). destruct (Z.eqb_spec (cmp k' k1) 0) as [E|N].
      - apply (cmp_eq O) in E. subst k1. destruct (0 <? cmp k' k) eqn:Ec.
        + cbn [find]. now rewrite cmp_refl.
        + exact IH.
      - destruct (0 <? cmp k1 k); [cbn [find]; destruct (Z.eqb_spec (cmp k' k1) 0); [lia|]|]; exact IH.
    Qed.

    Definition opt_entry (k : K) (o : option V) : alist := match o with Some v => [(k, v)] | None => [] end.

    Lemma find_mid k' l1 k (mid : option V) l2 : keys_lt l1 k -> keys_gt l2 k ->
      find k' (l1 ++ opt_entry k mid ++ l2) =
        if cmp k' k <? 0 then find k' l1 else if cmp k' k =? 0 then mid else find k' l2.
    Proof.
      intros H1 H2. destruct (cmp_cases k' k) as [(L & A & B)|[(E & A & B)|(L & A & B)]].
      - destruct (Z.ltb_spec (cmp k' k) 0); [|lia]. destruct mid as [v|]; cbn [opt_entry app].
        + now apply find_app_lt.
        + rewrite find_app. destruct (find k' l1); auto. apply find_gt_none. eapply keys_gt_trans; eauto.
      - subst k'. destruct (Z.ltb_spec (cmp k k) 0); [lia|]. destruct (Z.eqb_spec (cmp k k) 0); [|lia].
        destruct mid as [v|]; cbn [opt_entry app].
        + now apply find_app_eq.
        + rewrite find_app, find_lt_none by auto. now apply find_gt_none.
      - destruct (Z.ltb_spec (cmp k' k) 0); [lia|]. destruct (Z.eqb_spec (cmp k' k) 0); [lia|].
        destruct mid as [v|]; cbn [opt_entry app].
        + now apply find_app_gt.
        + rewrite find_app, find_lt_none by (eapply keys_lt_trans; eauto). reflexivity.
    Qed.

    Lemma sorted_app2 l1 k l2 : sorted l1 -> sorted l2 -> keys_lt l1 k -> keys_gt l2 k -> sorted (l1 ++ l2).
    Proof.
      induction l1 as [|[k1 v1] l1 IH]; cbn [app sorted]; intros S1 S2 H1 H2; auto.
      destruct S1 as [G1 S1]. inversion H1; subst. cbn [fst] in *. split.
      - apply Forall_app. split; auto. eapply keys_gt_trans; eauto.
      - apply IH; auto.
    Qed.

    Lemma sorted_mid l1 k (mid : option V) l2 : sorted l1 -> sorted l2 -> keys_lt l1 k -> keys_gt l2 k ->
      sorted (l1 ++ opt_entry k mid ++ l2).
    Proof.
      intros S1 S2 H1 H2. destruct mid as [v|]; cbn [opt_entry app]; [now apply sorted_app|].
      eapply sorted_app2; eauto.
    Qed.

    Lemma find_upd k g k' l : sorted l ->
      find k' (upd k g l) = if cmp k' k =? 0 then g (find k l) else find k' l.
    Proof.
      intros S. unfold upd. destruct (g (find k l)) eqn:E.
      - rewrite find_put. destruct (cmp k' k =? 0); auto.
      - rewrite find_del by auto. destruct (cmp k' k =? 0); auto.
    Qed.

    (* ---- left-biased union as an executable operation on association lists *)
    Definition aunion_step (acc : alist) (p : K * V) : alist :=
      match find (fst p) acc with Some _ => acc | None => put (fst p) (snd p) acc end.

    Lemma aunion_step_sorted acc p : sorted acc -> sorted (aunion_step acc p).
    Proof. intros H. unfold aunion_step. destruct (find (fst p) acc); auto. now apply put_sorted. Qed.

    Lemma find_aunion_step k acc p :
      find k (aunion_step acc p) =
        match find k acc with Some x => Some x | None => if cmp k (fst p) =? 0 then Some (snd p) else None end.
    Proof.
      unfold aunion_step. destruct (find (fst p) acc) eqn:E.
      - destruct (find k acc) eqn:E2; auto. destruct (Z.eqb_spec (cmp k (fst p)) 0) as [E0|]; auto.
        apply (cmp_eq O) in E0. subst k. congruence.
      - rewrite find_put. destruct (Z.eqb_spec (cmp k (fst p)) 0) as [E0|].
        + apply (cmp_eq O) in E0. subst k. now rewrite E.
        + now destruct (find k acc).
    Qed.

    Lemma aunion_spec l2 : sorted l2 -> forall l1, sorted l1 ->
      sorted (aunion l1 l2) /\
      forall k, find k (aunion l1 l2) = match find k l1 with Some x => Some x | None => find k l2 end.
    Proof.
      unfold aunion. fold aunion_step.
      induction l2 as [|[k2 v2] l2 IH]; intros S2 l1 S1; cbn [fold_left].
      - split; auto. intros k. now destruct (find k l1).
      - cbn [sorted] in S2. destruct S2 as [G2 S2].
        change (fold_left _ l2 ?a) with (fold_left aunion_step l2 a).
        destruct (IH S2 (aunion_step l1 (k2, v2)) (aunion_step_sorted _ _ S1)) as [Ss Hf]. split; [exact Ss|].
        intros k. rewrite Hf, find_aunion_step. cbn [fst snd find].
        destruct (find k l1); auto. destruct (Z.eqb_spec (cmp k k2) 0) as [E0|]; auto.
    Qed.

    Lemma find_afilter f k l : sorted l ->
      find k (afilter f l) = match find k l with Some v => if f k v then Some v else None | None => None end.
    Proof.
      induction l as [|[k1 v1] l IH]; cbn [afilter filter find sorted fst snd]; auto. intros [G S].
      fold (afilter f l). destruct (Z.eqb_spec (cmp k k1) 0) as [E|N].
      - apply (cmp_eq O) in E. subst k1. destruct (f k v1) eqn:Ef.
        + cbn [find]. now rewrite cmp_refl.
        + rewrite IH by auto. now rewrite find_gt_none by auto.
      - destruct (f k1 v1); [cbn [find]; destruct (Z.eqb_spec (cmp k k1) 0); [lia|]|]; now apply IH.
    Qed.

    (* ---- extremes of a sorted list bound all its keys *)
    Lemma sorted_last_keys_lt l p k : sorted l -> last_opt l = Some p -> lt (fst p) k -> keys_lt l k.
    Proof.
      induction l as [|[k1 v1] l IH]; intros S L H; [constructor|].
      destruct l as [|q l'].
      - cbn in L. inversion L; subst. constructor; auto.
      - cbn [sorted] in S. destruct S as [G S]. rewrite last_opt_cons in L by discriminate.
        pose proof (IH S L H) as Hk. constructor; auto. cbn [fst].
        inversion G; subst. inversion Hk; subst. eapply lt_trans; eauto.
    Qed.
    Lemma sorted_hd_keys_gt l p k : sorted l -> hd_error l = Some p -> lt k (fst p) -> keys_gt l k.
    Proof.
      destruct l as [|[k1 v1] l]; intros S L H; [constructor|]. cbn in L. inversion L; subst. cbn [fst] in H.
      cbn [sorted] in S. destruct S as [G S]. constructor; auto. eapply keys_gt_trans; eauto.
    Qed.
    Lemma in_find k v l : sorted l -> In (k, v) l -> find k l = Some v.
    Proof.
      induction l as [|[k1 v1] l IH]; cbn [sorted find In]; [tauto|]. intros [G S] [E|Hin].
      - inversion E; subst. now rewrite cmp_refl.
      - destruct (Z.eqb_spec (cmp k k1) 0) as [E0|]; [|auto].
        apply (cmp_eq O) in E0. subst k1. exfalso. unfold keys_gt in G. rewrite Forall_forall in G.
        apply G in Hin. cbn in Hin. eapply lt_irrefl; eauto.
    Qed.
    Lemma sorted_nodup l : sorted l -> NoDup (map fst l).
    Proof.
      induction l as [|[k1 v1] l IH]; cbn [sorted map fst]; [constructor|]. intros [G S]. constructor; auto.
      intros Hin. apply in_map_iff in Hin. destruct Hin as ([k2 v2] & E & Hin). cbn in E. subst k2.
      unfold keys_gt in G. rewrite Forall_forall in G. apply G in Hin. cbn in Hin. eapply lt_irrefl; eauto.
    Qed.
  End Maps.

  (* ------------------------------------------------------------------ pointwise combination of two maps
     (union, intersection, difference, merge): the divide-and-conquer identity the tree algorithms use *)
  Section Merge.
    Context {V1 V2 V3 : Type}.
    Variable comb : K -> option V1 -> option V2 -> option V3.
    Hypothesis comb_none : forall k, comb k None None = None.

    Definition pointwise (l1 : list (K * V1)) (l2 : list (K * V2)) (l : list (K * V3)) : Prop :=
      forall k, find k l = comb k (find k l1) (find k l2).

    Lemma pointwise_some l1 l2 l k : pointwise l1 l2 l -> find k l <> None -> find k l1 <> None \/ find k l2 <> None.
    Proof.
      intros P H. rewrite (P k) in H. destruct (find k l1); [left; discriminate|].
      destruct (find k l2); [right; discriminate|]. now rewrite comb_none in H.
    Qed.

    Lemma merge_split_l l1 k1 x r1 b2 bl br :
      sorted (l1 ++ (k1, x) :: r1) -> sorted bl -> sorted br ->
      pointwise l1 (below k1 b2) bl -> pointwise r1 (above k1 b2) br ->
      sorted (bl ++ opt_entry k1 (comb k1 (Some x) (find k1 b2)) ++ br) /\
      pointwise (l1 ++ (k1, x) :: r1) b2 (bl ++ opt_entry k1 (comb k1 (Some x) (find k1 b2)) ++ br).
    Proof.
      intros S1 Sl Sr Pl Pr. destruct (sorted_app_inv _ _ _ _ S1) as (Sl1 & Sr1 & Hl1 & Hr1).
      assert (Hbl : keys_lt bl k1).
      { apply keys_lt_find. intros k' Hk'. destruct (pointwise_some _ _ _ _ Pl Hk') as [H|H].
        - eapply keys_lt_find; eauto.
        - rewrite find_below in H. destruct (Z.ltb_spec (cmp k' k1) 0); [assumption|congruence]. }
      assert (Hbr : keys_gt br k1).
      { apply keys_gt_find. intros k' Hk'. destruct (pointwise_some _ _ _ _ Pr Hk') as [H|H].
        - eapply keys_gt_find; eauto.
        - rewrite find_above in H. destruct (Z.ltb_spec 0 (cmp k' k1)); [now apply gt_lt|congruence]. }
      split; [now apply sorted_mid|]. intros k. rewrite find_mid by auto.
      destruct (cmp_cases k k1) as [(L & A & B)|[(E & A & B)|(L & A & B)]].
      - destruct (Z.ltb_spec (cmp k k1) 0); [|lia]. rewrite (Pl k), find_below, find_app_lt by auto.
        destruct (Z.ltb_spec (cmp k k1) 0); [reflexivity|lia].
      - subst k. destruct (Z.ltb_spec (cmp k1 k1) 0); [lia|]. destruct (Z.eqb_spec (cmp k1 k1) 0); [|lia].
        now rewrite find_app_eq by auto.
      - destruct (Z.ltb_spec (cmp k k1) 0); [lia|]. destruct (Z.eqb_spec (cmp k k1) 0); [lia|].
        rewrite (Pr k), find_above, find_app_gt by auto. destruct (Z.ltb_spec 0 (cmp k k1)); [reflexivity|lia].
    Qed.

    Lemma merge_split_r b1 l2 k2 y r2 bl br :
      sorted (l2 ++ (k2, y) :: r2) -> sorted bl -> sorted br ->
      pointwise (below k2 b1) l2 bl -> pointwise (above k2 b1) r2 br ->
      sorted (bl ++ opt_entry k2 (comb k2 (find k2 b1) (Some y)) ++ br) /\
      pointwise b1 (l2 ++ (k2, y) :: r2) (bl ++ opt_entry k2 (comb k2 (find k2 b1) (Some y)) ++ br).
    Proof.
      intros S2 Sl Sr Pl Pr. destruct (sorted_app_inv _ _ _ _ S2) as (Sl2 & Sr2 & Hl2 & Hr2).
      assert (Hbl : keys_lt bl k2).
      { apply keys_lt_find. intros k' Hk'. destruct (pointwise_some _ _ _ _ Pl Hk') as [H|H].
        - rewrite find_below in H. destruct (Z.ltb_spec (cmp k' k2) 0); [assumption|congruence].
        - eapply keys_lt_find; eauto. }
      assert (Hbr : keys_gt br k2).
      { apply keys_gt_find. intros k' Hk'. destruct (pointwise_some _ _ _ _ Pr Hk') as [H|H].
        - rewrite find_above in H. destruct (Z.ltb_spec 0 (cmp k' k2)); [now apply gt_lt|congruence].
        - eapply keys_gt_find; eauto. }
      split; [now apply sorted_mid|]. intros k. rewrite find_mid by auto.
      destruct (cmp_cases k k2) as [(L & A & B)|[(E & A & B)|(L & A & B)]].
      - destruct (Z.ltb_spec (cmp k k2) 0); [|lia]. rewrite (Pl k), find_below, find_app_lt by auto.
        destruct (Z.ltb_spec (cmp k k2) 0); [reflexivity|lia].
      - subst k. destruct (Z.ltb_spec (cmp k2 k2) 0); [lia|]. destruct (Z.eqb_spec (cmp k2 k2) 0); [|lia].
        now rewrite find_app_eq by auto.
      - destruct (Z.ltb_spec (cmp k k2) 0); [lia|]. destruct (Z.eqb_spec (cmp k k2) 0); [lia|].
        rewrite (Pr k), find_above, find_app_gt by auto. destruct (Z.ltb_spec 0 (cmp k k2)); [reflexivity|lia].
    Qed.
  End Merge.

End Order.

Arguments cmp_order {K} cmp.
Arguments lt {K} cmp.
Arguments keys_lt {K} cmp {V}.
Arguments keys_gt {K} cmp {V}.
Arguments sorted {K} cmp {V}.
Arguments find {K} cmp {V}.
Arguments put {K} cmp {V}.
Arguments del {K} cmp {V}.
Arguments upd {K} cmp {V}.
Arguments below {K} cmp {V}.
Arguments above {K} cmp {V}.
Arguments afilter {K V}.
Arguments afold {K V A}.
Arguments aunion {K} cmp {V}.
Arguments alex {K} cmp {V}.
Arguments aeqb {K} cmp {V}.
Arguments pointwise {K} cmp {V1 V2 V3}.
Arguments opt_entry {K V}.
