(* C18 — monad and fuel bookkeeping shared by the proofs over the generated embedding. *)
From Coq Require Import List ZArith Lia Bool ZifyBool.
From SVG Require Import StdPrelude.
Open Scope Z_scope.

Lemma nat_ge_split (n m : nat) : (n <= m)%nat -> exists k, m = (n + k)%nat.
Proof. intros H. exists (m - n)%nat. lia. Qed.

(* `need n fuel`: the goal/hypotheses imply n <= fuel; rewrite fuel as S (S .. fuel') *)
Ltac need n fuel :=
  let f' := fresh "fuel" in
  let E := fresh "E" in
  destruct (nat_ge_split n fuel ltac:(lia)) as [f' E]; subst fuel; cbn [Nat.add] in *.

Lemma bind_ok {A B} (a : A) (f : A -> res B) : bind (Ok a) f = f a.
Proof. reflexivity. Qed.

Lemma bind_inv_ok {A B} (m : res A) (f : A -> res B) b :
  bind m f = Ok b -> exists a, m = Ok a /\ f a = Ok b.
Proof. destruct m; cbn; intros H; try discriminate. eauto. Qed.
