(* 32-bit two's-complement arithmetic over Z, written out explicitly.  Everything the optimizer
   and the two back ends do to an `int` is stated against this file. *)
From Coq Require Import ZArith Lia Bool.
Open Scope Z_scope.

Definition MIN := -2147483648.
Definition MAX := 2147483647.
Definition in32 (z : Z) : Prop := MIN <= z <= MAX.
Definition in32b (z : Z) : bool := (MIN <=? z) && (z <=? MAX).
Definition wrap32 (z : Z) : Z := (z + 2147483648) mod 4294967296 - 2147483648.

Lemma in32b_spec z : in32b z = true <-> in32 z.
Proof. unfold in32b, in32. rewrite andb_true_iff, !Z.leb_le. tauto. Qed.
Lemma wrap32_id z : in32 z -> wrap32 z = z.
Proof. unfold wrap32, in32, MIN, MAX. intros. rewrite Z.mod_small; lia. Qed.
Lemma wrap32_in z : in32 (wrap32 z).
Proof. unfold wrap32, in32, MIN, MAX. pose proof (Z.mod_pos_bound (z + 2147483648) 4294967296). lia. Qed.
Lemma wrap32_add_l a b : wrap32 (wrap32 a + b) = wrap32 (a + b).
Proof.
  unfold wrap32. f_equal.
  replace ((a + 2147483648) mod 4294967296 - 2147483648 + b + 2147483648)
    with ((a + 2147483648) mod 4294967296 + b) by lia.
  rewrite Z.add_mod_idemp_l by lia. f_equal. lia.
Qed.
Lemma wrap32_add_r a b : wrap32 (a + wrap32 b) = wrap32 (a + b).
Proof. rewrite (Z.add_comm a), wrap32_add_l. f_equal. lia. Qed.
Lemma wrap32_mul_l a b : wrap32 (wrap32 a * b) = wrap32 (a * b).
Proof.
  unfold wrap32. f_equal.
  replace (((a + 2147483648) mod 4294967296 - 2147483648) * b + 2147483648)
    with (((a + 2147483648) mod 4294967296) * b + (2147483648 - 2147483648 * b)) by lia.
  rewrite <- Z.add_mod_idemp_l by lia. rewrite Z.mul_mod_idemp_l by lia.
  rewrite Z.add_mod_idemp_l by lia. f_equal. lia.
Qed.
Lemma wrap32_mul_r a b : wrap32 (a * wrap32 b) = wrap32 (a * b).
Proof. rewrite (Z.mul_comm a), wrap32_mul_l. f_equal. lia. Qed.

(* the 16 operators of hir::BinaryOperator *)
Inductive binop := MUL | DIV | MOD | PLUS | MINUS | LAND | LOR | SHL | SHR | XOR | LT | LE | GT | GE | EQ | NE.

Definition b2z (b : bool) : Z := if b then 1 else 0.
Definition unsigned (a : Z) : Z := a mod 4294967296.

(* run-time semantics = the WebAssembly instruction selected for the operator
   (i32.mul, i32.div_s, i32.rem_s, i32.add, i32.sub, i32.and, i32.or, i32.shl, i32.shr_u, i32.xor,
    i32.lt_s, i32.le_s, i32.gt_s, i32.ge_s, i32.eq, i32.ne) *)
Inductive rt := Val (z : Z) | TrapArith.
Definition rt_binop (op : binop) (a b : Z) : rt :=
  match op with
  | MUL => Val (wrap32 (a * b))
  | DIV => if b =? 0 then TrapArith else if (a =? MIN) && (b =? -1) then TrapArith else Val (Z.quot a b)
  | MOD => if b =? 0 then TrapArith else Val (Z.rem a b)
  | PLUS => Val (wrap32 (a + b))
  | MINUS => Val (wrap32 (a - b))
  | LAND => Val (Z.land a b)
  | LOR => Val (Z.lor a b)
  | SHL => Val (wrap32 (a * 2 ^ (b mod 32)))
  | SHR => Val (wrap32 (unsigned a / 2 ^ (b mod 32)))
  | XOR => Val (Z.lxor a b)
  | LT => Val (b2z (a <? b))
  | LE => Val (b2z (a <=? b))
  | GT => Val (b2z (b <? a))
  | GE => Val (b2z (b <=? a))
  | EQ => Val (b2z (a =? b))
  | NE => Val (b2z (negb (a =? b)))
  end.
