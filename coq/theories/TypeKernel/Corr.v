(* TypeKernel — evaluation glue for the model/implementation correspondence.
   A case carries the inputs given to `vh type-kernel` together with the answer of
   samlang_checker::verif::<fn>; `kbad` returns the indices of the cases on which the
   model computes something else, with a code:
     1  the answers differ even after forgetting reasons (verdict, shape, names, flags)
     2  the answers agree up to reasons but some reason (location) in the result differs. *)
From Coq Require Import List Arith Bool NArith.
Import ListNotations.
From SV Require Import TypeKernel.Model.

Inductive kcase :=
| KAssign (l u : ty) (impl : bool)
| KPlaceholder (t : ty) (impl : bool)
| KMeet (l u : ty) (impl : option ty)
| KSubst (s : subst_map) (t : ty) (impl : ty)
| KSolve (concrete generic : ty) (tps : list nat) (impl : subst_map).   (* impl sorted by name *)

(* insertion sort of a binding list by name (names are unique in a solver result) *)
Fixpoint insert_binding (b : nat * ty) (l : subst_map) : subst_map :=
  match l with
  | [] => [b]
  | c :: l' => if Nat.leb (fst b) (fst c) then b :: l else c :: insert_binding b l'
  end.
Definition sort_bindings (l : subst_map) : subst_map := fold_right insert_binding [] l.

Definition binding_eqb (a b : nat * ty) : bool := Nat.eqb (fst a) (fst b) && ty_eqb (snd a) (snd b).
Definition map_eqb (a b : subst_map) : bool := all2b binding_eqb a b.

Definition opt_ty_eqb (a b : option ty) : bool :=
  match a, b with
  | Some x, Some y => ty_eqb x y
  | None, None => true
  | _, _ => false
  end.

(* 0 agree, 1 differ up to reasons, 2 differ in reasons only *)
Definition grade (full erased : bool) : nat := if full then 0 else if erased then 2 else 1.

Definition kcheck (c : kcase) : nat :=
  match c with
  | KAssign l u r => if Bool.eqb (assignable l u) r then 0 else 1
  | KPlaceholder t r => if Bool.eqb (contains_placeholder t) r then 0 else 1
  | KMeet l u r =>
      let m := meet l u in
      grade (opt_ty_eqb m r) (opt_ty_eqb (option_map erase m) (option_map erase r))
  | KSubst s t r =>
      let m := subst s t in
      grade (ty_eqb m r) (ty_eqb (erase m) (erase r))
  | KSolve c g tps r =>
      let m := sort_bindings (solve c g tps) in
      grade (map_eqb m r) (map_eqb (erase_map m) (erase_map r))
  end.

Fixpoint kbad (i : N) (cs : list kcase) : list (N * nat) :=
  match cs with
  | [] => []
  | c :: cs' =>
      match kcheck c with
      | 0 => kbad (i + 1) cs'
      | code => (i, code) :: kbad (i + 1) cs'
      end
  end.

(* what the model answers, for the disagreement report *)
Inductive kanswer :=
| ABool (b : bool)
| AType (t : option ty)
| AMap (s : subst_map).

Definition kmodel (c : kcase) : kanswer :=
  match c with
  | KAssign l u _ => ABool (assignable l u)
  | KPlaceholder t _ => ABool (contains_placeholder t)
  | KMeet l u _ => AType (meet l u)
  | KSubst s t _ => AType (Some (subst s t))
  | KSolve c g tps _ => AMap (sort_bindings (solve c g tps))
  end.
