(* TypeKernel — model of the type-system kernel of samlang-checker
   (crates/samlang-checker/src/type_system.rs, lines 1-330, over the types of type_.rs).
   Shared by C03 (accepted programs never go wrong), C06 (static errors are rejected)
   and C13 (inference is stable under meaning-preserving rewrites).

   Definitions only.  Every function is structurally recursive (nested fixpoints over
   `list ty`, through the list combinators below); there is no fuel.

   What is abstracted:
   * `Reason { use_loc : Location, def_loc : Option<Location> }` becomes a record of a
     natural number and an optional natural number; a reason sits in every node exactly
     where the Rust type has one.
   * `ModuleReference` and `PStr` (class names, type-variable names) become `nat`
     (an injective numbering; the implementation only ever compares them for equality,
     hashes them, or copies them).
   * `HashMap<PStr, Arc<Type>>` becomes an association list with first-match lookup and
     `HashSet<PStr>` a list with membership; `Arc` sharing is invisible.
   * the error stack filled on failure by assignability_check_visit / type_meet_visit is
     not modelled, only the verdict / the resulting type. *)
From Coq Require Import List Arith Bool.
Import ListNotations.

(* ------------------------------------------------------------------ types *)

Record reason := Rsn { use_loc : nat; def_loc : option nat }.

Inductive prim := PUnit | PBool | PInt.

(* type_.rs: enum Type { Any(Reason, bool), Primitive(Reason, PrimitiveTypeKind),
   Nominal(NominalType { reason, is_class_statics, module_reference, id, type_arguments }),
   Generic(Reason, PStr), Fn(FunctionType { reason, argument_types, return_type }) } *)
Inductive ty :=
| Any (r : reason) (placeholder : bool)
| Prim (r : reason) (k : prim)
| Nominal (r : reason) (statics : bool) (m id : nat) (args : list ty)
| Generic (r : reason) (x : nat)
| Fn (r : reason) (args : list ty) (ret : ty).

Definition subst_map := list (nat * ty).

(* ------------------------------------------------------------------ list combinators
   (the function argument is bound outside the `fix`, so they can be used for nested recursion) *)

Definition anyb {A} (f : A -> bool) : list A -> bool :=
  fix go (l : list A) : bool :=
    match l with [] => false | a :: l' => f a || go l' end.

(* lengths equal and f holds pointwise: `len == len && zip.all(f)` *)
Definition all2b {A B} (f : A -> B -> bool) : list A -> list B -> bool :=
  fix go (l1 : list A) (l2 : list B) : bool :=
    match l1, l2 with
    | [], [] => true
    | a :: l1', b :: l2' => f a b && go l1' l2'
    | _, _ => false
    end.

(* lengths equal and f succeeds pointwise, collecting the results *)
Definition opt_all2 {A B C} (f : A -> B -> option C) : list A -> list B -> option (list C) :=
  fix go (l1 : list A) (l2 : list B) : option (list C) :=
    match l1, l2 with
    | [], [] => Some []
    | a :: l1', b :: l2' =>
        match f a b with
        | Some c => match go l1' l2' with Some cs => Some (c :: cs) | None => None end
        | None => None
        end
    | _, _ => None
    end.

(* `for (a, b) in l1.iter().zip(l2) { acc = f(a, b, acc) }` — zip truncates to the shorter list *)
Definition fold_zip {A B S} (f : A -> B -> S -> S) : list A -> list B -> S -> S :=
  fix go (l1 : list A) (l2 : list B) (acc : S) : S :=
    match l1, l2 with
    | a :: l1', b :: l2' => go l1' l2' (f a b acc)
    | _, _ => acc
    end.

Definition prim_eqb (a b : prim) : bool :=
  match a, b with PUnit, PUnit | PBool, PBool | PInt, PInt => true | _, _ => false end.

(* ------------------------------------------------------------------ reasons *)

Definition get_reason (t : ty) : reason :=
  match t with
  | Any r _ | Prim r _ | Nominal r _ _ _ _ | Generic r _ | Fn r _ _ => r
  end.

(* Reason::to_use_reason *)
Definition to_use_reason (r : reason) (u : nat) : reason := Rsn u (def_loc r).

(* Type::reposition: only the top-level reason changes; the children are shared *)
Definition reposition (t : ty) (u : nat) : ty :=
  match t with
  | Any r b => Any (to_use_reason r u) b
  | Prim r k => Prim (to_use_reason r u) k
  | Nominal r s m i args => Nominal (to_use_reason r u) s m i args
  | Generic r x => Generic (to_use_reason r u) x
  | Fn r args ret => Fn (to_use_reason r u) args ret
  end.

(* ------------------------------------------------------------------ contains_placeholder *)

Fixpoint contains_placeholder (t : ty) : bool :=
  match t with
  | Any _ p => p
  | Prim _ _ | Generic _ _ => false
  | Nominal _ _ _ _ args => anyb contains_placeholder args
  | Fn _ args ret => anyb contains_placeholder args || contains_placeholder ret
  end.

(* ------------------------------------------------------------------ assignability_check_visit
   (verdict only).  The heads of two nominal types are compared on module, id and
   is_class_statics; arity mismatch is a failure. *)

Definition nominal_head_eqb (s1 : bool) (m1 i1 : nat) (s2 : bool) (m2 i2 : nat) : bool :=
  Nat.eqb m1 m2 && Nat.eqb i1 i2 && Bool.eqb s1 s2.

Fixpoint assignable (l u : ty) {struct l} : bool :=
  match l, u with
  | Any _ _, _ => true
  | _, Any _ _ => true
  | Prim _ k1, Prim _ k2 => prim_eqb k1 k2
  | Generic _ x1, Generic _ x2 => Nat.eqb x1 x2
  | Nominal _ s1 m1 i1 a1, Nominal _ s2 m2 i2 a2 =>
      nominal_head_eqb s1 m1 i1 s2 m2 i2 && all2b assignable a1 a2
  | Fn _ a1 r1, Fn _ a2 r2 => all2b assignable a1 a2 && assignable r1 r2
  | _, _ => false
  end.

(* ------------------------------------------------------------------ type_meet_visit
   Which reasons survive:
   * Any/Any: lower's reason, placeholder flag = AND of the two flags;
   * Any lower, specific upper: upper repositioned to lower's use_loc (upper's def_loc
     and all reasons below the top are upper's);
   * specific lower, Any upper: lower unchanged;
   * otherwise lower's reason at every node where both sides are specific. *)

Fixpoint meet (l u : ty) {struct l} : option ty :=
  match l with
  | Any r lp =>
      match u with
      | Any _ up => Some (Any r (lp && up))
      | _ => Some (reposition u (use_loc r))
      end
  | Prim lr lk =>
      match u with
      | Any _ _ => Some l
      | Prim _ uk => if prim_eqb lk uk then Some (Prim lr lk) else None
      | _ => None
      end
  | Generic lr lx =>
      match u with
      | Any _ _ => Some l
      | Generic _ ux => if Nat.eqb lx ux then Some (Generic lr lx) else None
      | _ => None
      end
  | Nominal lr ls lm li largs =>
      match u with
      | Any _ _ => Some l
      | Nominal _ us um ui uargs =>
          if nominal_head_eqb ls lm li us um ui then
            match opt_all2 meet largs uargs with
            | Some ts => Some (Nominal lr ls lm li ts)
            | None => None
            end
          else None
      | _ => None
      end
  | Fn lr largs lret =>
      match u with
      | Any _ _ => Some l
      | Fn _ uargs uret =>
          match opt_all2 meet largs uargs with
          | Some ts =>
              match meet lret uret with
              | Some t => Some (Fn lr ts t)
              | None => None
              end
          | None => None
          end
      | _ => None
      end
  end.

(* ------------------------------------------------------------------ subst_type *)

Fixpoint lookup (x : nat) (s : subst_map) : option ty :=
  match s with
  | [] => None
  | (y, t) :: s' => if Nat.eqb x y then Some t else lookup x s'
  end.

Fixpoint subst (s : subst_map) (t : ty) : ty :=
  match t with
  | Any _ _ | Prim _ _ => t
  | Nominal r st m i args => Nominal r st m i (map (subst s) args)
  | Generic _ x => match lookup x s with Some t' => t' | None => t end
  | Fn r args ret => Fn r (map (subst s) args) (subst s ret)
  end.

(* ------------------------------------------------------------------ solve_type_constraints_internal
   Walks `generic`; at `Generic T` with T a type variable to solve that is not solved yet, records
   the concrete type unless it contains a placeholder (then T stays unsolved and a later
   occurrence may still solve it).  Nominal: module, id and arity must agree — the
   implementation does NOT compare is_class_statics here.  Fn: arguments are zipped
   WITHOUT an arity check (extra arguments on either side are ignored), then the return
   types are visited.  Mismatching shapes contribute nothing (the later meet reports them).
   The accumulator is an association list, newest binding first; a name is bound at most once. *)

Fixpoint memb (x : nat) (l : list nat) : bool :=
  match l with [] => false | y :: l' => Nat.eqb x y || memb x l' end.

Definition has_key (x : nat) (s : subst_map) : bool :=
  match lookup x s with Some _ => true | None => false end.

Fixpoint solve_acc (tps : list nat) (g c : ty) (acc : subst_map) {struct g} : subst_map :=
  match g with
  | Any _ _ | Prim _ _ => acc
  | Nominal _ _ gm gi gargs =>
      match c with
      | Nominal _ _ cm ci cargs =>
          if Nat.eqb gm cm && Nat.eqb gi ci && Nat.eqb (length gargs) (length cargs)
          then fold_zip (solve_acc tps) gargs cargs acc
          else acc
      | _ => acc
      end
  | Generic _ x =>
      if memb x tps && negb (has_key x acc) then
        if contains_placeholder c then acc else (x, c) :: acc
      else acc
  | Fn _ gargs gret =>
      match c with
      | Fn _ cargs cret => solve_acc tps gret cret (fold_zip (solve_acc tps) gargs cargs acc)
      | _ => acc
      end
  end.

(* solve_multiple_type_constrains for one (concrete, generic) constraint *)
Definition solve (concrete generic : ty) (tps : list nat) : subst_map :=
  solve_acc tps generic concrete [].

(* ------------------------------------------------------------------ vocabulary of the theorems *)

Definition no_reason : reason := Rsn 0 None.

(* forget every reason; placeholder flags, names and structure stay *)
Fixpoint erase (t : ty) : ty :=
  match t with
  | Any _ b => Any no_reason b
  | Prim _ k => Prim no_reason k
  | Nominal _ s m i args => Nominal no_reason s m i (map erase args)
  | Generic _ x => Generic no_reason x
  | Fn _ args ret => Fn no_reason (map erase args) (erase ret)
  end.

Definition erase_map (s : subst_map) : subst_map := map (fun p => (fst p, erase (snd p))) s.

(* no `Any` node anywhere (placeholder or not) *)
Fixpoint anyfree (t : ty) : bool :=
  match t with
  | Any _ _ => false
  | Prim _ _ | Generic _ _ => true
  | Nominal _ _ _ _ args => forallb anyfree args
  | Fn _ args ret => forallb anyfree args && anyfree ret
  end.

(* rename type-variable names *)
Fixpoint rename (f : nat -> nat) (t : ty) : ty :=
  match t with
  | Any _ _ | Prim _ _ => t
  | Nominal r s m i args => Nominal r s m i (map (rename f) args)
  | Generic r x => Generic r (f x)
  | Fn r args ret => Fn r (map (rename f) args) (rename f ret)
  end.

Definition rename_map (f : nat -> nat) (s : subst_map) : subst_map :=
  map (fun p => (f (fst p), rename f (snd p))) s.

(* `sub` occurs in `c` at a position where `g` has `Generic x`, following the solver's walk:
   nominal heads agree on module, id and arity; function arguments are paired up to the
   shorter list. *)
Inductive at_generic (x : nat) (sub : ty) : ty -> ty -> Prop :=
| AG_here r : at_generic x sub (Generic r x) sub
| AG_nominal gr gs cr cs m i gargs cargs n g c :
    length gargs = length cargs ->
    nth_error gargs n = Some g -> nth_error cargs n = Some c ->
    at_generic x sub g c ->
    at_generic x sub (Nominal gr gs m i gargs) (Nominal cr cs m i cargs)
| AG_fn_arg gr cr gargs cargs gret cret n g c :
    nth_error gargs n = Some g -> nth_error cargs n = Some c ->
    at_generic x sub g c ->
    at_generic x sub (Fn gr gargs gret) (Fn cr cargs cret)
| AG_fn_ret gr cr gargs cargs gret cret :
    at_generic x sub gret cret ->
    at_generic x sub (Fn gr gargs gret) (Fn cr cargs cret).

(* ------------------------------------------------------------------ boolean equality (evaluation glue) *)

Definition reason_eqb (a b : reason) : bool :=
  Nat.eqb (use_loc a) (use_loc b) &&
  match def_loc a, def_loc b with
  | None, None => true
  | Some x, Some y => Nat.eqb x y
  | _, _ => false
  end.

Fixpoint ty_eqb (a b : ty) {struct a} : bool :=
  match a, b with
  | Any r1 p1, Any r2 p2 => reason_eqb r1 r2 && Bool.eqb p1 p2
  | Prim r1 k1, Prim r2 k2 => reason_eqb r1 r2 && prim_eqb k1 k2
  | Nominal r1 s1 m1 i1 a1, Nominal r2 s2 m2 i2 a2 =>
      reason_eqb r1 r2 && Bool.eqb s1 s2 && Nat.eqb m1 m2 && Nat.eqb i1 i2 && all2b ty_eqb a1 a2
  | Generic r1 x1, Generic r2 x2 => reason_eqb r1 r2 && Nat.eqb x1 x2
  | Fn r1 a1 t1, Fn r2 a2 t2 => reason_eqb r1 r2 && all2b ty_eqb a1 a2 && ty_eqb t1 t2
  | _, _ => false
  end.
