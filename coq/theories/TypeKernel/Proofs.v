(* TypeKernel — lemmas about the model of the type-system kernel (Model.v). *)
From Coq Require Import List Arith Bool Lia.
Import ListNotations.
From SV Require Import TypeKernel.Model.

(* ------------------------------------------------------------------ induction over nested lists *)

Section TyInd.
  Variable P : ty -> Prop.
  Hypothesis HAny : forall r b, P (Any r b).
  Hypothesis HPrim : forall r k, P (Prim r k).
  Hypothesis HNom : forall r s m i args, Forall P args -> P (Nominal r s m i args).
  Hypothesis HGen : forall r x, P (Generic r x).
  Hypothesis HFn : forall r args ret, Forall P args -> P ret -> P (Fn r args ret).
  Fixpoint ty_ind' (t : ty) : P t :=
    let go := fix go (l : list ty) : Forall P l :=
      match l with [] => Forall_nil _ | x :: xs => Forall_cons _ (ty_ind' x) (go xs) end in
    match t with
    | Any r b => HAny r b
    | Prim r k => HPrim r k
    | Nominal r s m i args => HNom r s m i args (go args)
    | Generic r x => HGen r x
    | Fn r args ret => HFn r args ret (go args) (ty_ind' ret)
    end.
End TyInd.

Ltac inv H := inversion H; subst; clear H.
Ltac ty_induction l :=
  induction l as [r b|r k|r st m i args IH|r x|r args ret IH IHr] using ty_ind'.

(* ------------------------------------------------------------------ small facts *)

Lemma prim_eqb_eq a b : prim_eqb a b = true <-> a = b.
Proof. destruct a, b; cbn; split; congruence. Qed.
Lemma prim_eqb_refl a : prim_eqb a a = true.
Proof. destruct a; reflexivity. Qed.

Lemma head_eqb_eq s1 m1 i1 s2 m2 i2 :
  nominal_head_eqb s1 m1 i1 s2 m2 i2 = true <-> s1 = s2 /\ m1 = m2 /\ i1 = i2.
Proof.
  unfold nominal_head_eqb. rewrite !andb_true_iff, !Nat.eqb_eq, Bool.eqb_true_iff. tauto.
Qed.
Lemma head_eqb_refl s m i : nominal_head_eqb s m i s m i = true.
Proof. apply head_eqb_eq. auto. Qed.

Lemma assignable_any_r t r b : assignable t (Any r b) = true.
Proof. destruct t; reflexivity. Qed.

(* combinators under map, given a pointwise fact for the elements of the first list *)
Lemma all2b_map {A} (f : A -> A -> bool) (h k : A -> A) l1 :
  Forall (fun a => forall b, f (h a) (k b) = f a b) l1 ->
  forall l2, all2b f (map h l1) (map k l2) = all2b f l1 l2.
Proof.
  induction 1 as [|a l1 Ha _ IHl]; intros [|b l2]; cbn; auto. rewrite Ha, IHl. reflexivity.
Qed.

Lemma all2b_true_map {A} (f : A -> A -> bool) (h k : A -> A) l1 :
  Forall (fun a => forall b, f a b = true -> f (h a) (k b) = true) l1 ->
  forall l2, all2b f l1 l2 = true -> all2b f (map h l1) (map k l2) = true.
Proof.
  induction 1 as [|a l1 Ha _ IHl]; intros [|b l2]; cbn; auto.
  rewrite !andb_true_iff. intros [H1 H2]. auto.
Qed.

Lemma all2b_refl {A} (f : A -> A -> bool) l : Forall (fun a => f a a = true) l -> all2b f l l = true.
Proof. induction 1; cbn; auto. rewrite H, IHForall. reflexivity. Qed.

Lemma all2b_length {A B} (f : A -> B -> bool) l1 : forall l2, all2b f l1 l2 = true -> length l1 = length l2.
Proof.
  induction l1 as [|a l1 IHl]; intros [|b l2]; cbn; try discriminate; auto.
  rewrite andb_true_iff. intros [_ H]. f_equal. auto.
Qed.

Lemma opt_all2_map {A} (f : A -> A -> option A) (h k e : A -> A) l1 :
  Forall (fun a => forall b, f (h a) (k b) = option_map e (f a b)) l1 ->
  forall l2, opt_all2 f (map h l1) (map k l2) = option_map (map e) (opt_all2 f l1 l2).
Proof.
  induction 1 as [|a l1 Ha _ IHl]; intros [|b l2]; cbn; auto. rewrite Ha, IHl.
  destruct (f a b); cbn; auto. destruct (opt_all2 f l1 l2); reflexivity.
Qed.

Definition is_some {A} (o : option A) : bool := match o with Some _ => true | None => false end.

Lemma all2b_opt_all2 {A} (f : A -> A -> bool) (g : A -> A -> option A) l1 :
  Forall (fun a => forall b, f a b = is_some (g a b)) l1 ->
  forall l2, all2b f l1 l2 = is_some (opt_all2 g l1 l2).
Proof.
  induction 1 as [|a l1 Ha _ IHl]; intros [|b l2]; cbn; auto. rewrite Ha, IHl.
  destruct (g a b); cbn; auto. destruct (opt_all2 g l1 l2); reflexivity.
Qed.

Lemma anyb_map {A} (f : A -> bool) (h : A -> A) l :
  Forall (fun a => f (h a) = f a) l -> anyb f (map h l) = anyb f l.
Proof. induction 1; cbn; auto. rewrite H, IHForall. reflexivity. Qed.

Lemma map_ext_Forall {A B} (f g : A -> B) l : Forall (fun a => f a = g a) l -> map f l = map g l.
Proof. induction 1; cbn; congruence. Qed.

(* ------------------------------------------------------------------ erase *)

Lemma erase_idem t : erase (erase t) = erase t.
Proof.
  ty_induction t; cbn; auto.
  - f_equal. rewrite map_map. apply map_ext_Forall. exact IH.
  - rewrite IHr. f_equal. rewrite map_map. apply map_ext_Forall. exact IH.
Qed.

Lemma erase_reposition t n : erase (reposition t n) = erase t.
Proof. destruct t; reflexivity. Qed.

Lemma reposition_erase t : reposition (erase t) 0 = erase t.
Proof. destruct t; reflexivity. Qed.

Lemma contains_placeholder_erase t : contains_placeholder (erase t) = contains_placeholder t.
Proof.
  ty_induction t; cbn; auto.
  - apply anyb_map. exact IH.
  - rewrite IHr. f_equal. apply anyb_map. exact IH.
Qed.

Lemma assignable_erase l : forall u, assignable (erase l) (erase u) = assignable l u.
Proof.
  ty_induction l; intros u; destruct u; cbn; auto.
  - f_equal. apply all2b_map. exact IH.
  - rewrite IHr. f_equal. apply all2b_map. exact IH.
Qed.

Lemma meet_erase l : forall u, meet (erase l) (erase u) = option_map erase (meet l u).
Proof.
  ty_induction l; intros u; destruct u; cbn; auto.
  - destruct (prim_eqb k k0); reflexivity.
  - destruct (nominal_head_eqb st m i statics m0 id); auto.
    rewrite (opt_all2_map meet erase erase erase) by exact IH.
    destruct (opt_all2 meet args args0); reflexivity.
  - destruct (Nat.eqb x x0); reflexivity.
  - rewrite (opt_all2_map meet erase erase erase) by exact IH.
    destruct (opt_all2 meet args args0); cbn; auto.
    rewrite IHr. destruct (meet ret u); reflexivity.
Qed.

Lemma lookup_erase_map x s : lookup x (erase_map s) = option_map erase (lookup x s).
Proof.
  induction s as [|[y t] s IHs]; cbn; auto. destruct (Nat.eqb x y); auto.
Qed.

Lemma has_key_erase_map x s : has_key x (erase_map s) = has_key x s.
Proof. unfold has_key. rewrite lookup_erase_map. destruct (lookup x s); reflexivity. Qed.

Lemma subst_erase s t : subst (erase_map s) (erase t) = erase (subst s t).
Proof.
  ty_induction t; cbn; auto.
  - f_equal. rewrite !map_map. apply map_ext_Forall. exact IH.
  - rewrite lookup_erase_map. destruct (lookup x s); reflexivity.
  - rewrite IHr. f_equal. rewrite !map_map. apply map_ext_Forall. exact IH.
Qed.

Lemma fold_zip_map {S} (F F' : ty -> ty -> S -> S) (h k : ty -> ty) (e : S -> S) gs :
  Forall (fun g => forall c acc, F (h g) (k c) (e acc) = e (F' g c acc)) gs ->
  forall cs acc, fold_zip F (map h gs) (map k cs) (e acc) = e (fold_zip F' gs cs acc).
Proof.
  induction 1 as [|g gs Hg _ IHg]; intros [|c cs] acc; cbn; auto. rewrite Hg. apply IHg.
Qed.

Lemma solve_acc_erase tps g : forall c acc,
  solve_acc tps (erase g) (erase c) (erase_map acc) = erase_map (solve_acc tps g c acc).
Proof.
  ty_induction g; intros c acc; cbn; auto.
  - destruct c; cbn; auto. rewrite !map_length.
    destruct (Nat.eqb m m0 && Nat.eqb i id && Nat.eqb (length args) (length args0)); auto.
    apply (fold_zip_map (solve_acc tps) (solve_acc tps) erase erase erase_map). exact IH.
  - rewrite has_key_erase_map, contains_placeholder_erase.
    destruct (memb x tps && negb (has_key x acc)); auto.
    destruct (contains_placeholder c); reflexivity.
  - destruct c; cbn; auto.
    rewrite (fold_zip_map (solve_acc tps) (solve_acc tps) erase erase erase_map) by exact IH. apply IHr.
Qed.

(* C13: reasons (locations) never influence a result *)
Lemma contains_placeholder_reasons t t' :
  erase t = erase t' -> contains_placeholder t = contains_placeholder t'.
Proof. intros E. rewrite <- (contains_placeholder_erase t), E. apply contains_placeholder_erase. Qed.

Lemma assignable_reasons l l' u u' :
  erase l = erase l' -> erase u = erase u' -> assignable l u = assignable l' u'.
Proof. intros E1 E2. rewrite <- (assignable_erase l u), E1, E2. apply assignable_erase. Qed.

Lemma meet_reasons l l' u u' :
  erase l = erase l' -> erase u = erase u' ->
  option_map erase (meet l u) = option_map erase (meet l' u').
Proof. intros E1 E2. rewrite <- !meet_erase, E1, E2. reflexivity. Qed.

Lemma subst_reasons s s' t t' :
  erase_map s = erase_map s' -> erase t = erase t' -> erase (subst s t) = erase (subst s' t').
Proof. intros E1 E2. rewrite <- !subst_erase, E1, E2. reflexivity. Qed.

Lemma solve_reasons c c' g g' tps :
  erase c = erase c' -> erase g = erase g' ->
  erase_map (solve c g tps) = erase_map (solve c' g' tps).
Proof.
  intros E1 E2. unfold solve. rewrite <- !solve_acc_erase, E1, E2. reflexivity.
Qed.

(* ------------------------------------------------------------------ Any is top and bottom *)

Lemma any_top_bottom t r b : assignable t (Any r b) = true /\ assignable (Any r b) t = true.
Proof. split; [apply assignable_any_r|reflexivity]. Qed.

(* ------------------------------------------------------------------ structural identity (spec 5.9) *)

Lemma map_erase_eq_iff l1 :
  Forall (fun a => forall b, anyfree a = true -> anyfree b = true ->
                             (assignable a b = true <-> erase a = erase b)) l1 ->
  forall l2, forallb anyfree l1 = true -> forallb anyfree l2 = true ->
  (all2b assignable l1 l2 = true <-> map erase l1 = map erase l2).
Proof.
  induction 1 as [|a l1 Ha _ IHl]; intros [|b l2]; cbn; try (split; congruence).
  rewrite !andb_true_iff. intros [A1 A2] [B1 B2].
  rewrite (Ha b A1 B1), (IHl l2 A2 B2). split; [intros [-> ->]; reflexivity|intros E; inv E; auto].
Qed.

Lemma assignable_identity l : forall u,
  anyfree l = true -> anyfree u = true -> (assignable l u = true <-> erase l = erase u).
Proof.
  ty_induction l; intros u Hl Hu; destruct u; cbn in *; try discriminate; try (split; congruence).
  - rewrite prim_eqb_eq. split; congruence.
  - rewrite andb_true_iff, head_eqb_eq, (map_erase_eq_iff args IH args0 Hl Hu).
    split; [intros [(-> & -> & ->) ->]; reflexivity|intros E; inv E; auto].
  - rewrite Nat.eqb_eq. split; congruence.
  - apply andb_true_iff in Hl, Hu. destruct Hl as [Hl1 Hl2], Hu as [Hu1 Hu2].
    rewrite andb_true_iff, (map_erase_eq_iff args IH args0 Hl1 Hu1), (IHr u Hl2 Hu2).
    split; [intros [-> ->]; reflexivity|intros E; inv E; auto].
Qed.

(* erased-equal types are assignable in both directions, Any or not *)
Lemma assignable_refl t : assignable t t = true.
Proof.
  ty_induction t; cbn; auto.
  - apply prim_eqb_refl.
  - rewrite head_eqb_refl. apply all2b_refl. exact IH.
  - apply Nat.eqb_refl.
  - rewrite IHr, andb_true_r. apply all2b_refl. exact IH.
Qed.

Lemma erase_eq_assignable l u : erase l = erase u -> assignable l u = true.
Proof. intros E. rewrite <- assignable_erase, E. apply assignable_refl. Qed.

(* ------------------------------------------------------------------ meet *)

Lemma assignable_is_some_meet l : forall u, assignable l u = is_some (meet l u).
Proof.
  ty_induction l; intros u; destruct u; cbn; auto.
  - destruct (prim_eqb k k0); reflexivity.
  - destruct (nominal_head_eqb st m i statics m0 id); cbn; auto.
    rewrite (all2b_opt_all2 assignable meet args IH). destruct (opt_all2 meet args args0); reflexivity.
  - destruct (Nat.eqb x x0); reflexivity.
  - rewrite (all2b_opt_all2 assignable meet args IH), IHr.
    destruct (opt_all2 meet args args0); cbn; auto. destruct (meet ret u); reflexivity.
Qed.

Lemma meet_sound l u t : meet l u = Some t -> assignable l u = true.
Proof. intros H. rewrite assignable_is_some_meet, H. reflexivity. Qed.

Lemma meet_complete l u : assignable l u = true -> exists t, meet l u = Some t.
Proof. rewrite assignable_is_some_meet. destruct (meet l u); [eauto|discriminate]. Qed.

Lemma opt_all2_left l1 :
  Forall (fun a => forall b t, anyfree a = true -> meet a b = Some t -> t = a) l1 ->
  forall l2 ts, forallb anyfree l1 = true -> opt_all2 meet l1 l2 = Some ts -> ts = l1.
Proof.
  induction 1 as [|a l1 Ha _ IHl]; intros [|b l2] ts; cbn; try congruence.
  rewrite andb_true_iff. intros [A1 A2].
  destruct (meet a b) eqn:E1; try discriminate. destruct (opt_all2 meet l1 l2) eqn:E2; try discriminate.
  intros E; inv E. f_equal; eauto.
Qed.

(* with an Any-free lower type the meet is the lower type itself, reasons included *)
Lemma meet_anyfree_left l : forall u t, anyfree l = true -> meet l u = Some t -> t = l.
Proof.
  ty_induction l; intros u t Hl; cbn in Hl; try discriminate; destruct u; cbn; try congruence.
  - destruct (prim_eqb k k0); congruence.
  - destruct (nominal_head_eqb st m i statics m0 id); try congruence.
    destruct (opt_all2 meet args args0) eqn:E; try congruence.
    apply (opt_all2_left args IH) in E; auto. congruence.
  - destruct (Nat.eqb x x0); congruence.
  - apply andb_true_iff in Hl. destruct Hl as [Hl1 Hl2].
    destruct (opt_all2 meet args args0) eqn:E; try congruence.
    destruct (meet ret u) eqn:E2; try congruence.
    apply (opt_all2_left args IH) in E; auto. apply IHr in E2; auto. congruence.
Qed.

Lemma meet_sound_full l u t :
  meet l u = Some t ->
  assignable l u = true /\ (anyfree l = true -> t = l) /\
  (anyfree l = true -> anyfree u = true -> erase t = erase l /\ erase t = erase u).
Proof.
  intros H. pose proof (meet_sound _ _ _ H) as Ha. split; auto. split.
  - intros Hl. eapply meet_anyfree_left; eauto.
  - intros Hl Hu. assert (t = l) by (eapply meet_anyfree_left; eauto). subst t.
    split; auto. apply assignable_identity; auto.
Qed.

(* ------------------------------------------------------------------ substitution and assignability *)

Lemma subst_assignable s l : forall u,
  assignable l u = true -> assignable (subst s l) (subst s u) = true.
Proof.
  ty_induction l; intros u H; destruct u; cbn in *; try discriminate; auto;
    try apply assignable_any_r.
  - apply andb_true_iff in H. destruct H as [H1 H2]. rewrite H1. cbn.
    apply all2b_true_map; auto.
  - apply Nat.eqb_eq in H. subst x0. destruct (lookup x s).
    + apply assignable_refl.
    + cbn. apply Nat.eqb_refl.
  - apply andb_true_iff in H. destruct H as [H1 H2]. rewrite (IHr _ H2), andb_true_r.
    apply all2b_true_map; auto.
Qed.

(* ------------------------------------------------------------------ the constraint solver: soundness *)

Lemma lookup_In y t s : lookup y s = Some t -> In (y, t) s.
Proof.
  induction s as [|[z t'] s IHs]; cbn; try discriminate.
  destruct (Nat.eqb_spec y z); [intros E; inv E; auto|auto].
Qed.

Lemma has_key_false_iff y s : has_key y s = false <-> ~ In y (map fst s).
Proof.
  unfold has_key. induction s as [|[z t'] s IHs]; cbn; [tauto|].
  destruct (Nat.eqb_spec y z).
  - subst. split; [discriminate|intros H; exfalso; auto].
  - rewrite IHs. split; [intros H [E|E]; auto|tauto].
Qed.

Lemma fold_zip_pres {S} (F : ty -> ty -> S -> S) (Q : S -> Prop) gs :
  Forall (fun g => forall c acc, Q acc -> Q (F g c acc)) gs ->
  forall cs acc, Q acc -> Q (fold_zip F gs cs acc).
Proof. induction 1 as [|g gs Hg _ IHg]; intros [|c cs] acc HQ; cbn; auto. Qed.

Definition solved_at (tps : list nat) (y : nat) (t g c : ty) : Prop :=
  memb y tps = true /\ contains_placeholder t = false /\ at_generic y t g c.

Lemma fold_zip_sound tps gs :
  Forall (fun g => forall c acc y t, In (y, t) (solve_acc tps g c acc) ->
                                     In (y, t) acc \/ solved_at tps y t g c) gs ->
  forall cs acc y t, In (y, t) (fold_zip (solve_acc tps) gs cs acc) ->
    In (y, t) acc \/
    exists n g c, nth_error gs n = Some g /\ nth_error cs n = Some c /\ solved_at tps y t g c.
Proof.
  induction 1 as [|g gs Hg _ IHg]; intros [|c cs] acc y t; cbn; auto.
  intros Hin. apply IHg in Hin. destruct Hin as [Hin|(n & g' & c' & H1 & H2 & H3)].
  - apply Hg in Hin. destruct Hin as [Hin|Hin]; auto.
    right. exists 0, g, c. auto.
  - right. exists (S n), g', c'. auto.
Qed.

Lemma solve_acc_sound tps g : forall c acc y t,
  In (y, t) (solve_acc tps g c acc) -> In (y, t) acc \/ solved_at tps y t g c.
Proof.
  ty_induction g; intros c acc y t; cbn; auto.
  - destruct c; auto.
    destruct (Nat.eqb m m0 && Nat.eqb i id && Nat.eqb (length args) (length args0)) eqn:E; auto.
    apply andb_true_iff in E. destruct E as [E E3]. apply andb_true_iff in E. destruct E as [E1 E2].
    apply Nat.eqb_eq in E1, E2, E3. subst m0 id.
    intros Hin. apply (fold_zip_sound tps args IH) in Hin.
    destruct Hin as [Hin|(n & g' & c' & H1 & H2 & H3 & H4 & H5)]; auto.
    right. repeat split; auto. eapply AG_nominal; eauto.
  - destruct (memb x tps && negb (has_key x acc)) eqn:E; auto.
    destruct (contains_placeholder c) eqn:Ec; auto.
    cbn. intros [Heq|Hin]; auto. inv Heq. apply andb_true_iff in E. destruct E as [E _].
    right. repeat split; auto. constructor.
  - destruct c; auto. intros Hin. apply IHr in Hin. destruct Hin as [Hin|(H3 & H4 & H5)].
    + apply (fold_zip_sound tps args IH) in Hin.
      destruct Hin as [Hin|(n & g' & c' & H1 & H2 & H3 & H4 & H5)]; auto.
      right. repeat split; auto. eapply AG_fn_arg; eauto.
    + right. repeat split; auto. apply AG_fn_ret. exact H5.
Qed.

Lemma solve_acc_nodup tps g : forall c acc,
  NoDup (map fst acc) -> NoDup (map fst (solve_acc tps g c acc)).
Proof.
  ty_induction g; intros c acc Hn; cbn; auto.
  - destruct c; auto.
    destruct (Nat.eqb m m0 && Nat.eqb i id && Nat.eqb (length args) (length args0)); auto.
    apply (fold_zip_pres (solve_acc tps) (fun a => NoDup (map fst a))); auto.
  - destruct (memb x tps && negb (has_key x acc)) eqn:E; auto.
    destruct (contains_placeholder c); auto.
    apply andb_true_iff in E. destruct E as [_ E]. apply negb_true_iff in E.
    cbn. constructor; auto. apply has_key_false_iff. exact E.
  - destruct c; auto. apply IHr.
    apply (fold_zip_pres (solve_acc tps) (fun a => NoDup (map fst a))); auto.
Qed.

(* first solution wins: a binding, once made, is never replaced *)
Lemma solve_acc_keeps tps y t g : forall c acc,
  lookup y acc = Some t -> lookup y (solve_acc tps g c acc) = Some t.
Proof.
  ty_induction g; intros c acc Hl; cbn; auto.
  - destruct c; auto.
    destruct (Nat.eqb m m0 && Nat.eqb i id && Nat.eqb (length args) (length args0)); auto.
    apply (fold_zip_pres (solve_acc tps) (fun a => lookup y a = Some t)); auto.
  - destruct (memb x tps && negb (has_key x acc)) eqn:E; auto.
    destruct (contains_placeholder c); auto.
    apply andb_true_iff in E. destruct E as [_ E]. apply negb_true_iff in E.
    cbn. destruct (Nat.eqb_spec y x); auto. subst. unfold has_key in E. rewrite Hl in E. discriminate.
  - destruct c; auto. apply IHr.
    apply (fold_zip_pres (solve_acc tps) (fun a => lookup y a = Some t)); auto.
Qed.

Lemma solve_sound concrete generic tps y t :
  In (y, t) (solve concrete generic tps) ->
  memb y tps = true /\ contains_placeholder t = false /\ at_generic y t generic concrete.
Proof.
  unfold solve. intros H. apply solve_acc_sound in H. destruct H as [[]|H]. exact H.
Qed.

Lemma solve_nodup concrete generic tps : NoDup (map fst (solve concrete generic tps)).
Proof. apply solve_acc_nodup. constructor. Qed.

(* ------------------------------------------------------------------ the constraint solver: completeness
   If the concrete type is an instance of the generic type (up to reasons) under some
   substitution sigma of the type variables to solve, and contains no placeholder, the
   solution found re-creates the concrete type (up to reasons). *)

Definition extends (a b : subst_map) : Prop := forall y t, lookup y a = Some t -> lookup y b = Some t.

Definition inst (sigma : subst_map) (y : nat) : ty :=
  match lookup y sigma with Some t => erase t | None => Generic no_reason y end.

Definition good (sigma : subst_map) (tps : list nat) (acc : subst_map) : Prop :=
  forall y t, lookup y acc = Some t -> erase t = inst sigma y /\ memb y tps = true.

Definition solve_spec (sigma : subst_map) (tps : list nat) (g : ty) : Prop :=
  forall c acc,
    contains_placeholder c = false -> erase c = erase (subst sigma g) -> good sigma tps acc ->
    good sigma tps (solve_acc tps g c acc) /\
    extends acc (solve_acc tps g c acc) /\
    (forall acc2, extends (solve_acc tps g c acc) acc2 -> good sigma tps acc2 ->
                  erase (subst acc2 g) = erase c).

Lemma extends_refl a : extends a a.
Proof. intros y t H. exact H. Qed.
Lemma extends_trans a b c : extends a b -> extends b c -> extends a c.
Proof. intros H1 H2 y t H. auto. Qed.

Lemma fold_spec sigma tps gs :
  Forall (solve_spec sigma tps) gs ->
  forall cs acc,
    anyb contains_placeholder cs = false ->
    map erase cs = map erase (map (subst sigma) gs) -> good sigma tps acc ->
    good sigma tps (fold_zip (solve_acc tps) gs cs acc) /\
    extends acc (fold_zip (solve_acc tps) gs cs acc) /\
    (forall acc2, extends (fold_zip (solve_acc tps) gs cs acc) acc2 -> good sigma tps acc2 ->
                  map erase (map (subst acc2) gs) = map erase cs).
Proof.
  induction 1 as [|g gs Hg _ IHg]; intros [|c cs] acc Hp He Hgood; cbn in *; try discriminate.
  - split; auto. split; [apply extends_refl|auto].
  - apply orb_false_iff in Hp. destruct Hp as [Hp1 Hp2]. inv He.
    destruct (Hg c acc Hp1 H0 Hgood) as (G1 & X1 & F1).
    destruct (IHg cs _ Hp2 H1 G1) as (G2 & X2 & F2).
    split; auto. split; [eapply extends_trans; eauto|].
    intros acc2 X3 G3. f_equal.
    + apply F1; auto. eapply extends_trans; eauto.
    + apply F2; auto.
Qed.

Lemma solve_acc_spec sigma tps :
  (forall y, has_key y sigma = true -> memb y tps = true) ->
  forall g, solve_spec sigma tps g.
Proof.
  intros Hdom g. ty_induction g; intros c acc Hp He Hgood; cbn in *.
  - split; auto. split; [apply extends_refl|]. intros; congruence.
  - split; auto. split; [apply extends_refl|]. intros; congruence.
  - destruct c; cbn in He; try discriminate. inv He. cbn in Hp.
    assert (El : length args = length args0).
    { apply (f_equal (@length ty)) in H3. rewrite !map_length in H3. auto. }
    rewrite !Nat.eqb_refl, El, Nat.eqb_refl. cbn.
    destruct (fold_spec sigma tps args IH args0 acc Hp H3 Hgood) as (G1 & X1 & F1).
    split; auto. split; auto. intros acc2 X2 G2. f_equal. auto.
  - assert (Ec : erase c = inst sigma x).
    { rewrite He. unfold inst. destruct (lookup x sigma); reflexivity. }
    rewrite Hp. destruct (memb x tps) eqn:Em; cbn.
    + destruct (has_key x acc) eqn:Ek; cbn.
      * split; auto. split; [apply extends_refl|]. intros acc2 X2 G2.
        unfold has_key in Ek. destruct (lookup x acc) as [t0|] eqn:El; try discriminate.
        rewrite (X2 _ _ El). destruct (Hgood _ _ El) as [E0 _]. congruence.
      * split; [|split].
        -- intros y t. cbn. destruct (Nat.eqb_spec y x).
           ++ intros E; inv E. auto.
           ++ apply Hgood.
        -- intros y t Hl. cbn. destruct (Nat.eqb_spec y x); auto.
           subst. unfold has_key in Ek. rewrite Hl in Ek. discriminate.
        -- intros acc2 X2 G2. rewrite (X2 x c); auto. cbn. rewrite Nat.eqb_refl. reflexivity.
    + split; auto. split; [apply extends_refl|]. intros acc2 X2 G2.
      destruct (lookup x acc2) as [t0|] eqn:El.
      * destruct (G2 _ _ El) as [_ E0]. congruence.
      * rewrite Ec. unfold inst. destruct (lookup x sigma) eqn:Es; auto.
        assert (memb x tps = true) by (apply Hdom; unfold has_key; rewrite Es; reflexivity). congruence.
  - destruct c; cbn in He; try discriminate. inv He. cbn in Hp.
    apply orb_false_iff in Hp. destruct Hp as [Hp1 Hp2].
    destruct (fold_spec sigma tps args IH args0 acc Hp1 H0 Hgood) as (G1 & X1 & F1).
    destruct (IHr c _ Hp2 H1 G1) as (G2 & X2 & F2).
    split; auto. split; [eapply extends_trans; eauto|].
    intros acc2 X3 G3. cbn. f_equal.
    + apply F1; auto. eapply extends_trans; eauto.
    + apply F2; auto.
Qed.

Lemma solve_complete sigma tps concrete generic :
  (forall y, has_key y sigma = true -> memb y tps = true) ->
  contains_placeholder concrete = false ->
  erase concrete = erase (subst sigma generic) ->
  erase (subst (solve concrete generic tps) generic) = erase concrete /\
  assignable concrete (subst (solve concrete generic tps) generic) = true /\
  exists t, meet concrete (subst (solve concrete generic tps) generic) = Some t.
Proof.
  intros Hdom Hp He.
  assert (G0 : good sigma tps []) by (intros y t H; discriminate).
  destruct (solve_acc_spec sigma tps Hdom generic concrete [] Hp He G0) as (G1 & _ & F1).
  assert (E : erase (subst (solve concrete generic tps) generic) = erase concrete).
  { apply F1; auto. apply extends_refl. }
  split; auto.
  assert (A : assignable concrete (subst (solve concrete generic tps) generic) = true)
    by (apply erase_eq_assignable; auto).
  split; auto. apply meet_complete. exact A.
Qed.

(* ------------------------------------------------------------------ renaming type variables (C13) *)

Section Rename.
  Variable f : nat -> nat.
  Hypothesis f_inj : forall x y, f x = f y -> x = y.

  Lemma eqb_inj x y : Nat.eqb (f x) (f y) = Nat.eqb x y.
  Proof.
    destruct (Nat.eqb_spec x y).
    - subst. apply Nat.eqb_refl.
    - apply Nat.eqb_neq. intros E. apply f_inj in E. auto.
  Qed.

  Lemma contains_placeholder_rename t : contains_placeholder (rename f t) = contains_placeholder t.
  Proof.
    ty_induction t; cbn; auto.
    - apply anyb_map. exact IH.
    - rewrite IHr. f_equal. apply anyb_map. exact IH.
  Qed.

  Lemma assignable_rename l : forall u, assignable (rename f l) (rename f u) = assignable l u.
  Proof.
    ty_induction l; intros u; destruct u; cbn; auto.
    - f_equal. apply all2b_map. exact IH.
    - apply eqb_inj.
    - rewrite IHr. f_equal. apply all2b_map. exact IH.
  Qed.

  Lemma reposition_rename t n : reposition (rename f t) n = rename f (reposition t n).
  Proof. destruct t; reflexivity. Qed.

  Lemma meet_rename l : forall u, meet (rename f l) (rename f u) = option_map (rename f) (meet l u).
  Proof.
    ty_induction l; intros u; destruct u; cbn; auto.
    - destruct (prim_eqb k k0); reflexivity.
    - destruct (nominal_head_eqb st m i statics m0 id); auto.
      rewrite (opt_all2_map meet (rename f) (rename f) (rename f)) by exact IH.
      destruct (opt_all2 meet args args0); reflexivity.
    - rewrite eqb_inj. destruct (Nat.eqb x x0); reflexivity.
    - rewrite (opt_all2_map meet (rename f) (rename f) (rename f)) by exact IH.
      destruct (opt_all2 meet args args0); cbn; auto.
      rewrite IHr. destruct (meet ret u); reflexivity.
  Qed.

  Lemma lookup_rename_map x s : lookup (f x) (rename_map f s) = option_map (rename f) (lookup x s).
  Proof.
    induction s as [|[y t] s IHs]; cbn; auto. rewrite eqb_inj. destruct (Nat.eqb x y); auto.
  Qed.

  Lemma has_key_rename_map x s : has_key (f x) (rename_map f s) = has_key x s.
  Proof. unfold has_key. rewrite lookup_rename_map. destruct (lookup x s); reflexivity. Qed.

  Lemma memb_map x l : memb (f x) (map f l) = memb x l.
  Proof. induction l as [|y l IHl]; cbn; auto. rewrite eqb_inj, IHl. reflexivity. Qed.

  Lemma subst_rename s t : subst (rename_map f s) (rename f t) = rename f (subst s t).
  Proof.
    ty_induction t; cbn; auto.
    - f_equal. rewrite !map_map. apply map_ext_Forall. exact IH.
    - rewrite lookup_rename_map. destruct (lookup x s); reflexivity.
    - rewrite IHr. f_equal. rewrite !map_map. apply map_ext_Forall. exact IH.
  Qed.

  Lemma solve_acc_rename tps g : forall c acc,
    solve_acc (map f tps) (rename f g) (rename f c) (rename_map f acc) =
    rename_map f (solve_acc tps g c acc).
  Proof.
    ty_induction g; intros c acc; cbn; auto.
    - destruct c; cbn; auto. rewrite !map_length.
      destruct (Nat.eqb m m0 && Nat.eqb i id && Nat.eqb (length args) (length args0)); auto.
      apply (fold_zip_map (solve_acc (map f tps)) (solve_acc tps) (rename f) (rename f) (rename_map f)).
      exact IH.
    - rewrite memb_map, has_key_rename_map, contains_placeholder_rename.
      destruct (memb x tps && negb (has_key x acc)); auto.
      destruct (contains_placeholder c); reflexivity.
    - destruct c; cbn; auto.
      rewrite (fold_zip_map (solve_acc (map f tps)) (solve_acc tps) (rename f) (rename f) (rename_map f))
        by exact IH.
      apply IHr.
  Qed.

  Lemma solve_rename c g tps :
    solve (rename f c) (rename f g) (map f tps) = rename_map f (solve c g tps).
  Proof. unfold solve. apply (solve_acc_rename tps g c []). Qed.
End Rename.

(* ------------------------------------------------------------------ the boolean equality used by Corr.v is equality *)

Lemma reason_eqb_eq a b : reason_eqb a b = true <-> a = b.
Proof.
  destruct a as [u1 d1], b as [u2 d2]. unfold reason_eqb. cbn.
  rewrite andb_true_iff, Nat.eqb_eq.
  destruct d1 as [x|], d2 as [y|]; try rewrite Nat.eqb_eq.
  - split; [intros [-> ->]; reflexivity|intros E; inv E; auto].
  - split; [intros [_ H]; discriminate|intros E; inv E].
  - split; [intros [_ H]; discriminate|intros E; inv E].
  - split; [intros [-> _]; reflexivity|intros E; inv E; auto].
Qed.

Lemma all2b_eq_iff l1 :
  Forall (fun a => forall b, ty_eqb a b = true <-> a = b) l1 ->
  forall l2, all2b ty_eqb l1 l2 = true <-> l1 = l2.
Proof.
  induction 1 as [|a l1 Ha _ IHl]; intros [|b l2]; cbn; try (split; congruence).
  rewrite andb_true_iff, Ha, IHl. split; [intros [-> ->]; reflexivity|intros E; inv E; auto].
Qed.

Lemma ty_eqb_eq a : forall b, ty_eqb a b = true <-> a = b.
Proof.
  ty_induction a; intros b'; destruct b'; cbn; try (split; congruence).
  - rewrite andb_true_iff, reason_eqb_eq, Bool.eqb_true_iff. split; [intros [-> ->]; auto|intros E; inv E; auto].
  - rewrite andb_true_iff, reason_eqb_eq, prim_eqb_eq. split; [intros [-> ->]; auto|intros E; inv E; auto].
  - rewrite !andb_true_iff, reason_eqb_eq, Bool.eqb_true_iff, !Nat.eqb_eq, (all2b_eq_iff args IH).
    split; [intros [[[[-> ->] ->] ->] ->]; auto|intros E; inv E; auto 6].
  - rewrite andb_true_iff, reason_eqb_eq, Nat.eqb_eq. split; [intros [-> ->]; auto|intros E; inv E; auto].
  - rewrite !andb_true_iff, reason_eqb_eq, (all2b_eq_iff args IH), IHr.
    split; [intros [[-> ->] ->]; auto|intros E; inv E; auto].
Qed.

(* ------------------------------------------------------------------ the Any-free invariant (C03) is kept by the kernel *)

Lemma anyfree_no_placeholder t : anyfree t = true -> contains_placeholder t = false.
Proof.
  ty_induction t; cbn; auto; try discriminate.
  - intros H. induction IH as [|a l Ha _ IHl]; cbn in *; auto.
    apply andb_true_iff in H. destruct H as [H1 H2]. rewrite (Ha H1), (IHl H2). reflexivity.
  - intros H. apply andb_true_iff in H. destruct H as [H1 H2]. rewrite (IHr H2), orb_false_r.
    clear IHr H2. induction IH as [|a l Ha _ IHl]; cbn in *; auto.
    apply andb_true_iff in H1. destruct H1 as [H1 H2]. rewrite (Ha H1), (IHl H2). reflexivity.
Qed.

Lemma forallb_map_Forall {A} (p : A -> bool) (h : A -> A) l :
  Forall (fun a => p a = true -> p (h a) = true) l -> forallb p l = true -> forallb p (map h l) = true.
Proof.
  induction 1 as [|a l Ha _ IHl]; cbn; auto. rewrite !andb_true_iff. intros [H1 H2]. auto.
Qed.

Lemma anyfree_subst s t :
  (forall y t', lookup y s = Some t' -> anyfree t' = true) ->
  anyfree t = true -> anyfree (subst s t) = true.
Proof.
  intros Hs. ty_induction t; cbn; auto.
  - apply forallb_map_Forall. exact IH.
  - destruct (lookup x s) eqn:E; auto. intros _. eapply Hs; eauto.
  - rewrite !andb_true_iff. intros [H1 H2]. split; auto. apply forallb_map_Forall; auto.
Qed.

Lemma forallb_nth_error {A} (p : A -> bool) l n a :
  forallb p l = true -> nth_error l n = Some a -> p a = true.
Proof.
  revert n. induction l as [|b l IHl]; intros [|n]; cbn; try discriminate.
  - rewrite andb_true_iff. intros [H _] E. inv E. auto.
  - rewrite andb_true_iff. intros [_ H] E. eauto.
Qed.

Lemma at_generic_anyfree y t g c : at_generic y t g c -> anyfree c = true -> anyfree t = true.
Proof.
  induction 1; cbn; auto.
  - intros Hc. apply IHat_generic. eapply forallb_nth_error; eauto.
  - rewrite andb_true_iff. intros [Hc _]. apply IHat_generic. eapply forallb_nth_error; eauto.
  - rewrite andb_true_iff. intros [_ Hc]. auto.
Qed.

Lemma solve_anyfree concrete generic tps y t :
  anyfree concrete = true -> In (y, t) (solve concrete generic tps) -> anyfree t = true.
Proof.
  intros Hc Hin. apply solve_sound in Hin. destruct Hin as (_ & _ & Hat).
  eapply at_generic_anyfree; eauto.
Qed.

(* C06: on Any-free types a structural difference is always rejected *)
Lemma mismatch_rejected l u :
  anyfree l = true -> anyfree u = true -> erase l <> erase u ->
  assignable l u = false /\ meet l u = None.
Proof.
  intros Hl Hu Hne.
  assert (A : assignable l u = false).
  { destruct (assignable l u) eqn:E; auto. apply assignable_identity in E; auto. contradiction. }
  split; auto. rewrite assignable_is_some_meet in A. destruct (meet l u); [discriminate|reflexivity].
Qed.

(* ------------------------------------------------------------------ packaged statements for Props.v *)

Lemma solve_sound_full concrete generic tps :
  (forall y t, In (y, t) (solve concrete generic tps) ->
     memb y tps = true /\ contains_placeholder t = false /\ at_generic y t generic concrete) /\
  NoDup (map fst (solve concrete generic tps)).
Proof. split; [intros y t; apply solve_sound|apply solve_nodup]. Qed.

Lemma rename_equivariant (f : nat -> nat) : (forall x y, f x = f y -> x = y) ->
  (forall t, contains_placeholder (rename f t) = contains_placeholder t) /\
  (forall l u, assignable (rename f l) (rename f u) = assignable l u) /\
  (forall l u, meet (rename f l) (rename f u) = option_map (rename f) (meet l u)) /\
  (forall s t, subst (rename_map f s) (rename f t) = rename f (subst s t)) /\
  (forall c g tps, solve (rename f c) (rename f g) (map f tps) = rename_map f (solve c g tps)).
Proof.
  intros Hf. repeat split.
  - apply contains_placeholder_rename.
  - intros. apply assignable_rename; exact Hf.
  - intros. apply meet_rename; exact Hf.
  - intros. apply subst_rename; exact Hf.
  - intros. apply solve_rename; exact Hf.
Qed.

Lemma anyfree_preserved :
  (forall t, anyfree t = true -> contains_placeholder t = false) /\
  (forall s t, (forall y t', lookup y s = Some t' -> anyfree t' = true) ->
               anyfree t = true -> anyfree (subst s t) = true) /\
  (forall c g tps y t, anyfree c = true -> In (y, t) (solve c g tps) -> anyfree t = true) /\
  (forall l u t, anyfree l = true -> meet l u = Some t -> anyfree t = true).
Proof.
  repeat split.
  - exact anyfree_no_placeholder.
  - exact anyfree_subst.
  - exact solve_anyfree.
  - intros l u t Hl Hm. rewrite (meet_anyfree_left l u t Hl Hm). exact Hl.
Qed.
