(* TypeKernel — property theorems for the type-system kernel shared by C03, C06 and C13.
   Statements only; the proofs are in Proofs.v. *)
From Coq Require Import List Arith Bool.
Import ListNotations.
From SV Require Import TypeKernel.Model TypeKernel.Proofs.

(* spec 5.9 — no subtyping: on types without Any, assignability is structural identity *)
Theorem TK_assignable_identity : forall l u,
  anyfree l = true -> anyfree u = true -> (assignable l u = true <-> erase l = erase u).
Proof. exact assignable_identity. Qed.

(* C06 — on types without Any every structural difference is rejected, by both entry points *)
Theorem TK_mismatch_rejected : forall l u,
  anyfree l = true -> anyfree u = true -> erase l <> erase u ->
  assignable l u = false /\ meet l u = None.
Proof. exact mismatch_rejected. Qed.

(* C13 — reasons (source locations) never influence a verdict: ANY change of reasons in either
   argument leaves the verdict of assignability unchanged ... *)
Theorem TK_assignable_reposition : forall l l' u u',
  erase l = erase l' -> erase u = erase u' -> assignable l u = assignable l' u'.
Proof. exact assignable_reasons. Qed.

(* ... and whether a meet exists, and the meet itself up to reasons ... *)
Theorem TK_meet_reposition : forall l l' u u',
  erase l = erase l' -> erase u = erase u' ->
  option_map erase (meet l u) = option_map erase (meet l' u').
Proof. exact meet_reasons. Qed.

(* ... and the other three kernel functions *)
Theorem TK_placeholder_reposition : forall t t',
  erase t = erase t' -> contains_placeholder t = contains_placeholder t'.
Proof. exact contains_placeholder_reasons. Qed.
Theorem TK_subst_reposition : forall s s' t t',
  erase_map s = erase_map s' -> erase t = erase t' -> erase (subst s t) = erase (subst s' t').
Proof. exact subst_reasons. Qed.
Theorem TK_solve_reposition : forall c c' g g' tps,
  erase c = erase c' -> erase g = erase g' ->
  erase_map (solve c g tps) = erase_map (solve c' g' tps).
Proof. exact solve_reasons. Qed.

(* Any is assignable to and from everything (which is why it must not survive in an accepted program) *)
Theorem TK_any_top_bottom : forall t r b,
  assignable t (Any r b) = true /\ assignable (Any r b) t = true.
Proof. exact any_top_bottom. Qed.

(* meet is sound for assignability; with an Any-free lower type the result IS the lower type
   (reasons included), and with both Any-free it is structurally both arguments *)
Theorem TK_meet_sound : forall l u t,
  meet l u = Some t ->
  assignable l u = true /\
  (anyfree l = true -> t = l) /\
  (anyfree l = true -> anyfree u = true -> erase t = erase l /\ erase t = erase u).
Proof. exact meet_sound_full. Qed.

(* meet is complete: it fails exactly when assignability fails (no arity corner) *)
Theorem TK_meet_complete : forall l u, assignable l u = true -> exists t, meet l u = Some t.
Proof. exact meet_complete. Qed.
Theorem TK_meet_iff_assignable : forall l u, assignable l u = is_some (meet l u).
Proof. exact assignable_is_some_meet. Qed.

(* substitution preserves assignability — for ALL types and ALL substitutions (Any included) *)
Theorem TK_subst_assignable : forall s l u,
  assignable l u = true -> assignable (subst s l) (subst s u) = true.
Proof. exact subst_assignable. Qed.

(* solver soundness: every binding (T, c) is for a type variable to solve, c contains no
   placeholder and c is exactly (reasons included) the subterm of the concrete type found at a
   position where the generic type has `Generic T`; no name is bound twice; a binding once made
   is never replaced (first solution wins) *)
Theorem TK_solve_sound : forall concrete generic tps,
  (forall y t, In (y, t) (solve concrete generic tps) ->
     memb y tps = true /\ contains_placeholder t = false /\ at_generic y t generic concrete) /\
  NoDup (map fst (solve concrete generic tps)).
Proof. exact solve_sound_full. Qed.

Theorem TK_solve_first_wins : forall tps y t g c acc,
  lookup y acc = Some t -> lookup y (solve_acc tps g c acc) = Some t.
Proof. exact solve_acc_keeps. Qed.

(* solver completeness: if the placeholder-free concrete type is an instance (up to reasons) of the
   generic type under SOME substitution of the type variables to solve, the solution found
   re-creates it, so the check that follows in solve_type_constraints succeeds *)
Theorem TK_solve_complete : forall sigma tps concrete generic,
  (forall y, has_key y sigma = true -> memb y tps = true) ->
  contains_placeholder concrete = false ->
  erase concrete = erase (subst sigma generic) ->
  erase (subst (solve concrete generic tps) generic) = erase concrete /\
  assignable concrete (subst (solve concrete generic tps) generic) = true /\
  exists t, meet concrete (subst (solve concrete generic tps) generic) = Some t.
Proof. exact solve_complete. Qed.

(* C13 — consistently renaming type variables commutes with all five kernel functions *)
Theorem TK_rename_equivariant : forall f : nat -> nat, (forall x y, f x = f y -> x = y) ->
  (forall t, contains_placeholder (rename f t) = contains_placeholder t) /\
  (forall l u, assignable (rename f l) (rename f u) = assignable l u) /\
  (forall l u, meet (rename f l) (rename f u) = option_map (rename f) (meet l u)) /\
  (forall s t, subst (rename_map f s) (rename f t) = rename f (subst s t)) /\
  (forall c g tps, solve (rename f c) (rename f g) (map f tps) = rename_map f (solve c g tps)).
Proof. exact rename_equivariant. Qed.

(* C03 — the kernel keeps the "no Any" invariant that TK_assignable_identity needs *)
Theorem TK_anyfree_preserved :
  (forall t, anyfree t = true -> contains_placeholder t = false) /\
  (forall s t, (forall y t', lookup y s = Some t' -> anyfree t' = true) ->
               anyfree t = true -> anyfree (subst s t) = true) /\
  (forall c g tps y t, anyfree c = true -> In (y, t) (solve c g tps) -> anyfree t = true) /\
  (forall l u t, anyfree l = true -> meet l u = Some t -> anyfree t = true).
Proof. exact anyfree_preserved. Qed.

(* the equality test used to compare model and implementation answers (Corr.v) is equality *)
Theorem TK_eqb_exact : forall a b, ty_eqb a b = true <-> a = b.
Proof. exact ty_eqb_eq. Qed.

(* ------------------------------------------------------------------ non-vacuity and the limits of the statements *)

Local Notation rs n := (Rsn n None).
Local Notation tInt n := (Prim (rs n) PInt).
Local Notation tBool n := (Prim (rs n) PBool).
Local Notation tUnit n := (Prim (rs n) PUnit).
Local Notation tList n t := (Nominal (rs n) false 0 0 [t]).
Local Notation tMap n k v := (Nominal (Rsn n (Some 99)) false 1 1 [k; v]).
Local Notation tT n := (Generic (rs n) 0).
Local Notation tU n := (Generic (rs n) 1).

(* structurally equal types with different reasons are assignable; one node apart they are not *)
Example TK_identity_nonvacuous :
  let l := Fn (rs 1) [tMap 2 (tInt 3) (tList 4 (tT 5)); tBool 6] (tUnit 7) in
  let u := Fn (rs 11) [tMap 12 (tInt 13) (tList 14 (tT 15)); tBool 16] (tUnit 17) in
  let w := Fn (rs 11) [tMap 12 (tInt 13) (tList 14 (tU 15)); tBool 16] (tUnit 17) in
  anyfree l = true /\ anyfree u = true /\ assignable l u = true /\ erase l = erase u /\ l <> u /\
  assignable l w = false /\ meet l w = None /\ meet l u = Some l.
Proof. cbn. repeat split; congruence. Qed.

(* is_class_statics and the arity are part of the identity of a nominal type *)
Example TK_statics_and_arity_matter :
  assignable (Nominal (rs 1) true 0 0 []) (Nominal (rs 2) false 0 0 []) = false /\
  assignable (Nominal (rs 1) false 0 0 [tInt 3]) (Nominal (rs 2) false 0 0 [tInt 4; tInt 5]) = false /\
  assignable (Fn (rs 1) [tInt 2] (tInt 3)) (Fn (rs 4) [] (tInt 5)) = false.
Proof. cbn. auto. Qed.

(* without the Any-free hypothesis identity fails, and assignability is not even transitive *)
Example TK_identity_needs_anyfree :
  assignable (tInt 1) (Any (rs 2) false) = true /\ erase (tInt 1) <> erase (Any (rs 2) false) /\
  assignable (tInt 1) (Any (rs 2) true) = true /\ assignable (Any (rs 2) true) (tBool 3) = true /\
  assignable (tInt 1) (tBool 3) = false.
Proof. cbn. repeat split; congruence. Qed.

(* which reasons and flags a meet keeps *)
Example TK_meet_reasons :
  meet (tList 1 (Any (rs 2) true)) (tList 3 (tMap 4 (Any (rs 5) true) (tInt 6))) =
    Some (tList 1 (Nominal (Rsn 2 (Some 99)) false 1 1 [Any (rs 5) true; tInt 6])) /\
  meet (Any (rs 1) true) (Any (rs 2) true) = Some (Any (rs 1) true) /\
  meet (Any (rs 1) true) (Any (rs 2) false) = Some (Any (rs 1) false) /\
  meet (tList 1 (tInt 2)) (Any (rs 3) true) = Some (tList 1 (tInt 2)).
Proof. cbn. auto. Qed.

(* the converse of TK_subst_assignable is false: a substitution may identify two variables *)
Example TK_subst_assignable_no_converse :
  assignable (tT 1) (tU 2) = false /\
  assignable (subst [(0, tInt 8); (1, tInt 9)] (tT 1)) (subst [(0, tInt 8); (1, tInt 9)] (tU 2)) = true.
Proof. cbn. auto. Qed.

(* the solver on an instance: finds T and U, first occurrence wins, placeholders are skipped *)
Example TK_solve_nonvacuous :
  let g := Fn (rs 1) [tList 2 (tT 3); tU 4; tT 5] (tMap 6 (tT 7) (tU 8)) in
  let c := Fn (rs 11) [tList 12 (tInt 13); tBool 14; tInt 15] (tMap 16 (tInt 17) (tBool 18)) in
  solve c g [0; 1] = [(1, tBool 14); (0, tInt 13)] /\
  erase (subst (solve c g [0; 1]) g) = erase c /\
  solve c g [1] = [(1, tBool 14)] /\
  solve (Fn (rs 1) [Any (rs 2) true; tList 3 (Any (rs 4) true); tInt 5] (tUnit 6))
        (Fn (rs 1) [tT 2; tT 3; tT 5] (tUnit 6)) [0] = [(0, tInt 5)] /\
  at_generic 0 (tInt 13) g c.
Proof.
  cbn. repeat split; auto.
  eapply AG_fn_arg with (n := 0); [reflexivity|reflexivity|].
  eapply AG_nominal with (n := 0); [reflexivity|reflexivity|reflexivity|]. constructor.
Qed.

(* where the solver is looser than assignability: it pairs function arguments without an arity
   check and ignores is_class_statics — the meet that follows in solve_type_constraints rejects *)
Example TK_solve_looser_than_assignable :
  let g1 := Fn (rs 1) [tT 2] (tUnit 3) in
  let c1 := Fn (rs 4) [tInt 5; tBool 6] (tUnit 7) in
  let g2 := Nominal (rs 1) false 0 0 [tT 2] in
  let c2 := Nominal (rs 3) true 0 0 [tInt 4] in
  solve c1 g1 [0] = [(0, tInt 5)] /\ assignable c1 (subst (solve c1 g1 [0]) g1) = false /\
  solve c2 g2 [0] = [(0, tInt 4)] /\ assignable c2 (subst (solve c2 g2 [0]) g2) = false.
Proof. cbn. auto. Qed.

(* renaming T <-> U *)
Example TK_rename_nonvacuous :
  let f := fun x => match x with 0 => 1 | 1 => 0 | n => n end in
  let g := Fn (rs 1) [tList 2 (tT 3); tU 4] (tT 5) in
  let c := Fn (rs 11) [tList 12 (tInt 13); tBool 14] (tInt 15) in
  rename f g = Fn (rs 1) [tList 2 (tU 3); tT 4] (tU 5) /\
  solve (rename f c) (rename f g) (map f [0; 1]) = [(0, tBool 14); (1, tInt 13)] /\
  rename_map f (solve c g [0; 1]) = [(0, tBool 14); (1, tInt 13)].
Proof. cbn. auto. Qed.

Print Assumptions TK_assignable_identity.
Print Assumptions TK_mismatch_rejected.
Print Assumptions TK_assignable_reposition.
Print Assumptions TK_meet_reposition.
Print Assumptions TK_placeholder_reposition.
Print Assumptions TK_subst_reposition.
Print Assumptions TK_solve_reposition.
Print Assumptions TK_any_top_bottom.
Print Assumptions TK_meet_sound.
Print Assumptions TK_meet_complete.
Print Assumptions TK_meet_iff_assignable.
Print Assumptions TK_subst_assignable.
Print Assumptions TK_solve_sound.
Print Assumptions TK_solve_first_wins.
Print Assumptions TK_solve_complete.
Print Assumptions TK_rename_equivariant.
Print Assumptions TK_anyfree_preserved.
Print Assumptions TK_eqb_exact.
