// Runs one emitted TypeScript program (grammar-directed type erasure, then node's vm).
// usage: node run_ts.js <file.ts> [timeout_ms]   -> one JSON line {lines, ending:{kind, detail}}
const fs = require('fs');
const vm = require('vm');
const { erase } = require('./ts_erase_lib.js');
const src = fs.readFileSync(process.argv[2], 'utf8');
const timeout = parseInt(process.argv[3] || '10000', 10);
const lines = [];
let ending = { kind: 'return', detail: '' };
let js;
try {
  js = erase(src);
  new vm.Script(js, { filename: 'erased.js' });
} catch (e) {
  console.log(JSON.stringify({ lines, ending: { kind: 'invalid-ts', detail: String(e).slice(0, 300) } }));
  process.exit(0);
}
try {
  const ctx = vm.createContext({ console: { log: (s) => { lines.push(String(s)); if (lines.length > 200000) throw new Error('__too_much_output__'); } } });
  new vm.Script(js, { filename: 'erased.js' }).runInContext(ctx, { timeout });
} catch (e) {
  const msg = (e && e.message !== undefined) ? String(e.message) : String(e);
  if (e instanceof RangeError || (e && e.name === 'RangeError')) ending = { kind: 'stack-overflow', detail: msg };
  else if (e && e.code === 'ERR_SCRIPT_EXECUTION_TIMEOUT') ending = { kind: 'timeout', detail: '' };
  else if (msg === 'pop from empty Vec' || msg === 'Vec index out of bounds') ending = { kind: 'vec-bounds', detail: msg };
  else if (e && (e.name === 'TypeError' || e.name === 'ReferenceError' || e.name === 'SyntaxError')) ending = { kind: 'engine-fault', detail: e.name + ': ' + msg };
  else ending = { kind: 'panic', detail: msg };
}
console.log(JSON.stringify({ lines, ending }));
