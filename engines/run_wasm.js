// Runs emitted WebAssembly (WasmGC) modules in headless Chrome through puppeteer.
// usage: node run_wasm.js <jobs.json> [timeout_ms]; jobs = [{id, wasm: path, main: optional export suffix}]
// prints one JSON line per job {id, lines, ending:{kind, detail}}; if no engine is available prints {"engine": "unavailable"}.
const fs = require('fs');
let puppeteer;
try { puppeteer = require('/root/.nvm/versions/node/v20.20.2/lib/node_modules/puppeteer'); }
catch (e) { try { puppeteer = require('puppeteer'); } catch (e2) { console.log(JSON.stringify({ engine: 'unavailable', detail: String(e2).slice(0, 200) })); process.exit(0); } }
const jobs = JSON.parse(fs.readFileSync(process.argv[2], 'utf8'));
const timeout = parseInt(process.argv[3] || '10000', 10);
const PAR = 8;

function runInPage(b64, mainSuffix) {
  const bytes = Uint8Array.from(atob(b64), c => c.charCodeAt(0));
  const lines = [];
  let instance = null;
  function s(arr) { const len = instance.exports.__strLen(arr); const codes = []; for (let i = 0; i < len; i++) codes.push(instance.exports.__strGet(arr, i)); let r = ''; for (let i = 0; i < codes.length; i += 8192) r += String.fromCharCode(...codes.slice(i, i + 8192)); return r; }
  class Panic extends Error {}
  const builtins = { __Process$println(_, a) { lines.push(s(a)); if (lines.length > 200000) throw new Panic('__too_much_output__'); return 0; }, __Process$panic(_, a) { throw new Panic(s(a)); } };
  let m;
  try { m = new WebAssembly.Module(bytes); } catch (e) { return { lines, ending: { kind: 'invalid-module', detail: String(e).slice(0, 300) } }; }
  try { instance = new WebAssembly.Instance(m, { builtins }); } catch (e) { return { lines, ending: { kind: 'not-instantiable', detail: String(e).slice(0, 300) } }; }
  const mains = Object.keys(instance.exports).filter(k => k.endsWith(mainSuffix || 'Main$main'));
  if (mains.length !== 1) return { lines, ending: { kind: 'no-main', detail: JSON.stringify(Object.keys(instance.exports).slice(0, 20)) } };
  try { instance.exports[mains[0]](); return { lines, ending: { kind: 'return', detail: '' } }; }
  catch (e) {
    const msg = (e && e.message !== undefined) ? String(e.message) : String(e);
    if (e instanceof Panic) return { lines, ending: { kind: 'panic', detail: msg } };
    if (e instanceof RangeError) return { lines, ending: { kind: 'stack-overflow', detail: msg } };
    if (e instanceof WebAssembly.RuntimeError) {
      if (/divide by zero|integer overflow|remainder by zero/.test(msg)) return { lines, ending: { kind: 'arith-trap', detail: msg } };
      if (/unreachable/.test(msg)) return { lines, ending: { kind: 'unreachable', detail: msg } };
      return { lines, ending: { kind: 'engine-fault', detail: msg } };
    }
    return { lines, ending: { kind: 'engine-fault', detail: (e && e.name) + ': ' + msg } };
  }
}

(async () => {
  let browser;
  try { browser = await puppeteer.launch({ headless: 'shell', args: ['--no-sandbox', '--disable-gpu', '--js-flags=--stack-size=900'] }); }
  catch (e) { console.log(JSON.stringify({ engine: 'unavailable', detail: String(e).slice(0, 300) })); process.exit(0); }
  let next = 0;
  async function worker() {
    let page = await browser.newPage();
    while (next < jobs.length) {
      const job = jobs[next++];
      let res;
      try {
        const b64 = fs.readFileSync(job.wasm).toString('base64');
        res = await Promise.race([
          page.evaluate(runInPage, b64, job.main || null),
          new Promise((_, rej) => setTimeout(() => rej(new Error('__timeout__')), timeout)),
        ]);
      } catch (e) {
        const msg = String(e && e.message || e);
        res = { lines: [], ending: { kind: msg.includes('__timeout__') ? 'timeout' : 'runner-error', detail: msg.slice(0, 300) } };
        try { await page.close(); } catch (_) {}
        page = await browser.newPage();
      }
      console.log(JSON.stringify({ id: job.id, ...res }));
    }
    try { await page.close(); } catch (_) {}
  }
  await Promise.all(Array.from({ length: Math.min(PAR, jobs.length) }, worker));
  await browser.close();
})().catch(e => { console.log(JSON.stringify({ engine: 'unavailable', detail: String(e).slice(0, 300) })); process.exit(0); });
