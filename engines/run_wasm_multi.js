// Runs SEVERAL entry points of ONE emitted WebAssembly (WasmGC) module in headless Chrome through puppeteer.
// Same instantiation, import object and outcome classification as run_wasm.js (which mirrors loader.js); the module is
// compiled once and instantiated afresh for every entry point.  Used by checks/c04_rt.py.
// usage: node run_wasm_multi.js <job.json> [timeout_ms]; job = {wasm: path, mains: [{id, main: export name}]}
// prints one JSON line per entry {id, lines, ending:{kind, detail}}; if no engine is available prints {"engine": "unavailable"}.
const fs = require('fs');
let puppeteer;
try { puppeteer = require('/root/.nvm/versions/node/v20.20.2/lib/node_modules/puppeteer'); }
catch (e) { try { puppeteer = require('puppeteer'); } catch (e2) { console.log(JSON.stringify({ engine: 'unavailable', detail: String(e2).slice(0, 200) })); process.exit(0); } }
const job = JSON.parse(fs.readFileSync(process.argv[2], 'utf8'));
const timeout = parseInt(process.argv[3] || '60000', 10);

function runAllInPage(b64, mains) {
  const bytes = Uint8Array.from(atob(b64), c => c.charCodeAt(0));
  let m;
  try { m = new WebAssembly.Module(bytes); }
  catch (e) { return mains.map(j => ({ id: j.id, lines: [], ending: { kind: 'invalid-module', detail: String(e).slice(0, 300) } })); }
  function runOne(mainName) {
    const lines = [];
    let instance = null;
    function s(arr) { const len = instance.exports.__strLen(arr); const codes = []; for (let i = 0; i < len; i++) codes.push(instance.exports.__strGet(arr, i)); let r = ''; for (let i = 0; i < codes.length; i += 8192) r += String.fromCharCode(...codes.slice(i, i + 8192)); return r; }
    class Panic extends Error {}
    const builtins = { __Process$println(_, a) { lines.push(s(a)); if (lines.length > 2000000) throw new Panic('__too_much_output__'); return 0; }, __Process$panic(_, a) { throw new Panic(s(a)); } };
    try { instance = new WebAssembly.Instance(m, { builtins }); } catch (e) { return { lines, ending: { kind: 'not-instantiable', detail: String(e).slice(0, 300) } }; }
    if (typeof instance.exports[mainName] !== 'function') return { lines, ending: { kind: 'no-main', detail: mainName } };
    try { instance.exports[mainName](); return { lines, ending: { kind: 'return', detail: '' } }; }
    catch (e) {
      const msg = (e && e.message !== undefined) ? String(e.message) : String(e);
      if (e instanceof Panic) return { lines, ending: { kind: 'panic', detail: msg } };
      if (e instanceof RangeError) return { lines, ending: { kind: 'stack-overflow', detail: msg } };
      if (e instanceof WebAssembly.RuntimeError) {
        if (/divide by zero|integer overflow|remainder by zero/.test(msg)) return { lines, ending: { kind: 'arith-trap', detail: msg } };
        if (/unreachable/.test(msg)) return { lines, ending: { kind: 'unreachable', detail: msg } };
        return { lines, ending: { kind: 'engine-fault', detail: msg } };
      }
      return { lines, ending: { kind: 'engine-fault', detail: (e && e.name) + ': ' + msg } };
    }
  }
  return mains.map(j => ({ id: j.id, ...runOne(j.main) }));
}

(async () => {
  let browser;
  try { browser = await puppeteer.launch({ headless: 'shell', args: ['--no-sandbox', '--disable-gpu', '--js-flags=--stack-size=900'] }); }
  catch (e) { console.log(JSON.stringify({ engine: 'unavailable', detail: String(e).slice(0, 300) })); process.exit(0); }
  let timer;
  try {
    const page = await browser.newPage();
    const b64 = fs.readFileSync(job.wasm).toString('base64');
    const res = await Promise.race([
      page.evaluate(runAllInPage, b64, job.mains),
      new Promise((_, rej) => { timer = setTimeout(() => rej(new Error('__timeout__')), timeout); }),
    ]);
    for (const r of res) console.log(JSON.stringify(r));
  } catch (e) {
    const msg = String(e && e.message || e);
    for (const j of job.mains) console.log(JSON.stringify({ id: j.id, lines: [], ending: { kind: msg.includes('__timeout__') ? 'timeout' : 'runner-error', detail: msg.slice(0, 300) } }));
  }
  clearTimeout(timer);
  try { await browser.close(); } catch (_) {}
  process.exit(0);
})().catch(e => { console.log(JSON.stringify({ engine: 'unavailable', detail: String(e).slice(0, 300) })); process.exit(0); });
