// Grammar-directed type eraser for the TS emitted by samlang_ast::lir (prototype).
// Works line by line; string template literals are copied verbatim.
function skipType(s, i) {
  // parse a type starting at s[i]; returns index after the type
  while (s[i] === ' ') i++;
  if (s[i] === '(') { // function type (a: T, ...) => T
    let depth = 0;
    do { if (s[i] === '(') depth++; if (s[i] === ')') depth--; i++; } while (depth > 0);
    while (s[i] === ' ') i++;
    if (s.startsWith('=>', i)) return skipType(s, i + 2);
    return i;
  }
  if (s[i] === '[') { let depth = 0; do { if (s[i] === '[') depth++; if (s[i] === ']') depth--; i++; } while (depth > 0); return i; }
  while (i < s.length && /[A-Za-z0-9_$]/.test(s[i])) i++;
  while (s.startsWith('[]', i)) i += 2;
  return i;
}
function eraseLine(line) {
  if (/^\s*type\s/.test(line)) return '';
  let out = '', i = 0;
  // parameter-list mode is entered after `function name(` or `= (` of the prolog arrows
  while (i < line.length) {
    const c = line[i];
    if (c === '`') { const j = line.indexOf('`', i + 1); out += line.slice(i, j + 1); i = j + 1; continue; }
    if (c === "'") { const j = line.indexOf("'", i + 1); out += line.slice(i, j + 1); i = j + 1; continue; }
    if (line.startsWith(' as unknown as ', i)) { i = skipType(line, i + 15); continue; }
    if (line.startsWith(' as any', i)) { i += 7; continue; }
    out += c; i++;
  }
  line = out;
  // let/var/const NAME: TYPE ( = | ; )
  let m = /^(\s*(?:let|var|const)\s+[A-Za-z0-9_$]+):\s*/.exec(line);
  if (m) { const j = skipType(line, m[0].length); line = m[1] + line.slice(j); }
  // function NAME(params): TYPE {     and prolog arrows  = (params): TYPE =>
  m = /^(\s*function\s+[A-Za-z0-9_$]+\()/.exec(line) || /^(const\s+[A-Za-z0-9_$]+\s*=\s*\()/.exec(line);
  if (m) {
    let j = m[0].length, params = '', depth = 0;
    // walk params until the matching ')'
    while (true) {
      const ch = line[j];
      if (ch === ')' && depth === 0) break;
      if (ch === '[' || ch === '(') depth++;
      if (ch === ']' || ch === ')') depth--;
      if (ch === ':' && depth === 0) { j = skipType(line, j + 1); continue; }
      params += ch; j++;
    }
    j++; // ')'
    let rest = line.slice(j);
    if (rest.startsWith(':')) { const k = skipType(rest, 1); rest = rest.slice(k); }
    line = m[1] + params + ')' + rest;
  }
  return line;
}
module.exports = { erase: (src) => src.split('\n').map(eraseLine).join('\n') };
