"""Generators for C08 / C09: expression trees of the Coq model's fragment (with conversions to Gallina, to the
harness' JSON trees and back), layout documents, whole modules in concrete syntax with explicit parentheses,
and the Python implementation of the known-class predicates (cross-checked against the Coq ones)."""

BOPS = ['Mul', 'Div', 'Mod', 'Plus', 'Minus', 'Lt', 'Le', 'Gt', 'Ge', 'Eq', 'Ne', 'And', 'Or', 'Concat']
BOP_STR = {'Mul': '*', 'Div': '/', 'Mod': '%', 'Plus': '+', 'Minus': '-', 'Lt': '<', 'Le': '<=', 'Gt': '>', 'Ge': '>=',
           'Eq': '==', 'Ne': '!=', 'And': '&&', 'Or': '||', 'Concat': '::'}
STR_BOP = {v: k for k, v in BOP_STR.items()}
REAL_NAME = {'Mul': 'MUL', 'Div': 'DIV', 'Mod': 'MOD', 'Plus': 'PLUS', 'Minus': 'MINUS', 'Lt': 'LT', 'Le': 'LE', 'Gt': 'GT',
             'Ge': 'GE', 'Eq': 'EQ', 'Ne': 'NE', 'And': 'AND', 'Or': 'OR', 'Concat': 'CONCAT'}
PLEVEL = {'Or': 1, 'And': 2, 'Lt': 3, 'Le': 3, 'Gt': 3, 'Ge': 3, 'Eq': 3, 'Ne': 3, 'Plus': 4, 'Minus': 4, 'Mul': 5, 'Div': 5,
          'Mod': 5, 'Concat': 6}

# ----------------------------------------------------------------------------------------------------------------------
# model trees: tuples  ('Atom', lower, n) ('Field', e, f) ('Call', e, a) ('Blk', e) ('Un', u, e) ('Bin', o, a, b)
#                      ('If', c, a, b) ('Mat', e, p, b) ('Lam', x, e)


def g_bop(o):
    return 'Syntax.Concat' if o == 'Concat' else o


def g_expr(e):
    k = e[0]
    if k == 'Atom':
        return '(Atom %s %d)' % ('true' if e[1] else 'false', e[2])
    if k == 'Field':
        return '(Field %s %d)' % (g_expr(e[1]), e[2])
    if k == 'Call':
        return '(Call %s %s)' % (g_expr(e[1]), g_expr(e[2]))
    if k == 'Blk':
        return '(Blk %s)' % g_expr(e[1])
    if k == 'Un':
        return '(Un %s %s)' % (e[1], g_expr(e[2]))
    if k == 'Bin':
        return '(Bin %s %s %s)' % (g_bop(e[1]), g_expr(e[2]), g_expr(e[3]))
    if k == 'If':
        return '(If %s %s %s)' % (g_expr(e[1]), g_expr(e[2]), g_expr(e[3]))
    if k == 'Mat':
        return '(Mat %s %d %s)' % (g_expr(e[1]), e[2], g_expr(e[3]))
    if k == 'Lam':
        return '(Lam %d %s)' % (e[1], g_expr(e[2]))
    raise ValueError(k)


def to_json(e):
    """model tree -> the harness' JSON tree (fmt_run.rs build_expr)"""
    k = e[0]
    if k == 'Atom':
        if e[1]:
            return ['id', 'v%d' % e[2]]
        n = e[2]
        return ['int', n // 2] if n % 2 == 0 else ['cid', '', 'C%d' % (n // 2)]
    if k == 'Field':
        return ['field', to_json(e[1]), 'f%d' % e[2], None]
    if k == 'Call':
        return ['call', to_json(e[1]), [to_json(e[2])]]
    if k == 'Blk':
        return ['block', [], to_json(e[1])]
    if k == 'Un':
        return ['un', '!' if e[1] == 'Not' else '-', to_json(e[2])]
    if k == 'Bin':
        return ['bin', BOP_STR[e[1]], to_json(e[2]), to_json(e[3])]
    if k == 'If':
        return ['if', ['e', to_json(e[1])], ['block', [], to_json(e[2])], ['block', [], to_json(e[3])]]
    if k == 'Mat':
        return ['match', to_json(e[1]), [[['pvar', 'P%d' % e[2], None], to_json(e[3])]]]
    if k == 'Lam':
        return ['lambda', [['v%d' % e[1], None]], to_json(e[2])]
    raise ValueError(k)


def from_json(j):
    """harness JSON tree -> model tree, or None when outside the fragment"""
    try:
        k = j[0]
        if k == 'id' and j[1].startswith('v') and j[1][1:].isdigit():
            return ('Atom', True, int(j[1][1:]))
        if k == 'int' and j[1] >= 0:
            return ('Atom', False, 2 * j[1])
        if k == 'cid' and j[2].startswith('C') and j[2][1:].isdigit():
            return ('Atom', False, 2 * int(j[2][1:]) + 1)
        if k == 'field' and j[3] is None and j[2].startswith('f'):
            a = from_json(j[1])
            return a and ('Field', a, int(j[2][1:]))
        if k == 'call' and len(j[2]) == 1:
            a, b = from_json(j[1]), from_json(j[2][0])
            return a and b and ('Call', a, b)
        if k == 'block' and j[1] == [] and j[2] is not None:
            a = from_json(j[2])
            return a and ('Blk', a)
        if k == 'un':
            a = from_json(j[2])
            return a and ('Un', 'Not' if j[1] == '!' else 'Neg', a)
        if k == 'bin':
            a, b = from_json(j[2]), from_json(j[3])
            return a and b and ('Bin', STR_BOP[j[1]], a, b)
        if k == 'if' and j[1][0] == 'e' and j[3][0] == 'block':
            c, a, b = from_json(j[1][1]), from_json(j[2]), from_json(j[3])
            if c and a and b and a[0] == 'Blk' and b[0] == 'Blk':
                return ('If', c, a[1], b[1])
            return None
        if k == 'match' and len(j[2]) == 1 and j[2][0][0][0] == 'pvar' and j[2][0][0][2] is None:
            a, b = from_json(j[1]), from_json(j[2][0][1])
            return a and b and ('Mat', a, int(j[2][0][0][1][1:]), b)
        if k == 'lambda' and len(j[1]) == 1 and j[1][0][1] is None:
            b = from_json(j[2])
            return b and ('Lam', int(j[1][0][0][1:]), b)
    except (ValueError, IndexError, TypeError, KeyError):
        return None
    return None


def g_tokens(toks):
    """real lexer tokens [[kind, text]..] -> Gallina list of model tokens (None when a token has no model counterpart)"""
    out = []
    prev = None
    for kind, text in toks:
        if kind == 'lower-id':
            if prev == '.':
                t = 'TFld %s' % text[1:] if text[0] == 'f' and text[1:].isdigit() else None
            else:
                t = 'TId %s' % text[1:] if text[0] == 'v' and text[1:].isdigit() else None
        elif kind == 'upper-id':
            if text[0] == 'P' and text[1:].isdigit():
                t = 'TPat %s' % text[1:]
            elif text[0] == 'C' and text[1:].isdigit():
                t = 'TLit %d' % (2 * int(text[1:]) + 1)
            else:
                t = None
        elif kind == 'int':
            t = 'TLit %d' % (2 * int(text)) if text.isdigit() else None
        elif kind == 'keyword':
            t = {'if': 'TIf', 'else': 'TElse', 'match': 'TMatch'}.get(text)
        elif kind == 'operator':
            if text in STR_BOP:
                t = 'TOp ' + g_bop(STR_BOP[text])
            else:
                t = {'!': 'TBang', '(': 'LP', ')': 'RP', '{': 'LB', '}': 'RB', '.': 'TDot', ',': 'TComma', '->': 'TArrow'}.get(text)
        else:
            t = None
        if t is None:
            return None
        out.append(t)
        prev = text
    return '[' + '; '.join(out) + ']'


def atoms(rng):
    return ('Atom', rng.chance(1, 2), rng.below(6))


def gen_tree(rng, depth):
    """random tree, biased to operator nesting"""
    if depth <= 0 or rng.chance(1, 6):
        return atoms(rng)
    r = rng.below(100)
    if r < 55:
        return ('Bin', rng.pick(BOPS), gen_tree(rng, depth - 1), gen_tree(rng, depth - 1))
    if r < 67:
        return ('Un', rng.pick(['Not', 'Neg']), gen_tree(rng, depth - 1))
    if r < 74:
        return ('Field', gen_tree(rng, depth - 1), rng.below(4))
    if r < 81:
        return ('Call', gen_tree(rng, depth - 1), gen_tree(rng, depth - 2))
    if r < 86:
        return ('Blk', gen_tree(rng, depth - 1))
    if r < 91:
        return ('If', gen_tree(rng, depth - 2), gen_tree(rng, depth - 2), gen_tree(rng, depth - 2))
    if r < 95:
        return ('Mat', gen_tree(rng, depth - 2), rng.below(4), gen_tree(rng, depth - 2))
    return ('Lam', rng.below(4), gen_tree(rng, depth - 1))


def child_kinds():
    a, b = ('Atom', True, 1), ('Atom', False, 2)
    ks = [('Atom', True, 0), ('Atom', False, 0), ('Atom', False, 1), ('Field', a, 0), ('Call', a, b), ('Blk', a), ('Un', 'Not', a),
          ('Un', 'Neg', b), ('If', a, b, a), ('Mat', a, 0, b), ('Lam', 0, a)]
    ks += [('Bin', o, a, b) for o in BOPS]
    return ks


def contexts():
    """every (parent constructor, child position) as a function child -> tree"""
    x, y = ('Atom', True, 3), ('Atom', False, 4)
    cs = [lambda c: ('Field', c, 1), lambda c: ('Call', c, x), lambda c: ('Call', x, c), lambda c: ('Blk', c),
          lambda c: ('Un', 'Not', c), lambda c: ('Un', 'Neg', c), lambda c: ('If', c, x, y), lambda c: ('If', x, c, y),
          lambda c: ('If', x, y, c), lambda c: ('Mat', c, 1, x), lambda c: ('Mat', x, 1, c), lambda c: ('Lam', 2, c)]
    for o in BOPS:
        cs.append(lambda c, o=o: ('Bin', o, c, x))
        cs.append(lambda c, o=o: ('Bin', o, x, c))
    return cs


def exhaustive_pairs():
    out = []
    for cx in contexts():
        for ch in child_kinds():
            out.append(cx(ch))
    return out


def exhaustive_triples():
    """Bin o (Bin oa ..) (Bin ob ..): the sibling-dependent three-way rule"""
    a, b, c, d = ('Atom', True, 0), ('Atom', False, 2), ('Atom', True, 1), ('Atom', False, 3)
    return [('Bin', o, ('Bin', oa, a, b), ('Bin', ob, c, d)) for o in BOPS for oa in BOPS for ob in BOPS]


def expression_trees(rng, n_random, all_triples):
    trees = exhaustive_pairs()
    tr = exhaustive_triples()
    if not all_triples:
        tr = [tr[i] for i in sorted({rng.below(len(tr)) for _ in range(900)})]
    trees += tr
    for i in range(n_random):
        trees.append(gen_tree(rng, 2 + i % 4))
    return trees


# ----------------------------------------------------------------------------------------------------------------------
# the known-class predicates on the harness' JSON trees (full expression language), from the regenerated table

def json_prec(table, j):
    k = j[0]
    if k == 'bin':
        return table['binary_node'][REAL_NAME[STR_BOP[j[1]]]]
    ctor = {'int': 'Literal', 'bool': 'Literal', 'str': 'Literal', 'id': 'LocalId', 'cid': 'ClassId', 'tuple': 'Tuple',
            'field': 'FieldAccess', 'method': 'MethodAccess', 'un': 'Unary', 'call': 'Call', 'if': 'IfElse', 'match': 'Match',
            'lambda': 'Lambda', 'block': 'Block'}[k]
    return table['expr'][ctor]


def comm(op):
    return op not in ('-', '/', '%')


def node_classes(table, j):
    """OPEN classes of the node itself: subset of {'K1','K3'} (twin of k1 / k3 in coq/theories/C08/Model.v).
    K2 (unary under unary) and K6 (field name before `<`) were repaired by 98d650f / 98c0b1b."""
    out = set()
    if j[0] == 'bin':
        o, a, b = j[1], j[2], j[3]
        p = json_prec(table, j)
        if b[0] == 'bin' and json_prec(table, a) != p and json_prec(table, b) == p and comm(o) \
                and PLEVEL[STR_BOP[b[1]]] <= PLEVEL[STR_BOP[o]]:
            out.add('K1')
        if o == '::':
            if a[0] == 'bin' and a[1] in ('*', '/', '%', '+', '-'):
                out.add('K3')
            if b[0] == 'bin' and b[1] in ('*', '/', '%'):
                out.add('K3')
    return out


def subtrees(j):
    """all expression nodes of a JSON value (expressions, statements, members, modules)"""
    if isinstance(j, list):
        if j and isinstance(j[0], str) and j[0] in ('int', 'bool', 'str', 'id', 'cid', 'tuple', 'field', 'method', 'un', 'call',
                                                     'bin', 'if', 'match', 'lambda', 'block'):
            yield j
        for x in j:
            yield from subtrees(x)
    elif isinstance(j, dict):
        for x in j.values():
            yield from subtrees(x)


def tree_classes(table, j):
    out = set()
    for n in subtrees(j):
        out |= node_classes(table, n)
    return out


def known_c08_model(table, e):
    """known_C08 on a model tree (through its JSON form)"""
    return bool(tree_classes(table, to_json(e)) & {'K1', 'K3'})


# ----------------------------------------------------------------------------------------------------------------------
# layout documents

def g_str(s):
    return '[' + ';'.join(str(ord(c)) for c in s) + ']%N'


def g_doc(d):
    k = d[0]
    if k == 'nil':
        return 'Nil'
    if k == 'concat':
        return '(Concat %s %s)' % (g_doc(d[1]), g_doc(d[2]))
    if k == 'nest':
        return '(Nest %d %s)' % (d[1], g_doc(d[2]))
    if k == 'text':
        return '(Text %s)' % g_str(d[1])
    if k == 'line':
        return 'Line'
    if k == 'linenil':
        return 'LineNil'
    if k == 'linehard':
        return 'LineHard'
    if k == 'union':
        return '(Union %s %s)' % (g_doc(d[1]), g_doc(d[2]))
    if k == 'group':
        return '(group %s)' % g_doc(d[1])
    if k == 'linecomment':
        return '(line_comment %s)' % g_str(d[1])
    if k == 'multiline':
        return '(multiline_comment %s %s)' % ('true' if d[1] else 'false', g_str(d[2]))
    raise ValueError(k)


WORDS = ['a', 'bb', 'foo', 'x1', '(', ')', '{', '}', ',', 'long_identifier_name', '->', '"s"', 'café', '中文', 'tab\there',
         'nbsp ', ' lead', 'trail ', '', '*', '//', ' em']


def gen_doc(rng, depth, arbitrary_unions=True, comments=True):
    if depth <= 0 or rng.chance(1, 5):
        r = rng.below(10)
        if r < 4:
            return ['text', rng.pick(WORDS)]
        return [['line'], ['linenil'], ['linehard'], ['nil'], ['line'], ['line']][r - 4]
    r = rng.below(100)
    if r < 40:
        return ['concat', gen_doc(rng, depth - 1, arbitrary_unions, comments), gen_doc(rng, depth - 1, arbitrary_unions, comments)]
    if r < 55:
        return ['nest', rng.pick([0, 1, 2, 4, 7]), gen_doc(rng, depth - 1, arbitrary_unions, comments)]
    if r < 80:
        return ['group', gen_doc(rng, depth - 1, arbitrary_unions, comments)]
    if r < 88 and arbitrary_unions:
        return ['union', gen_doc(rng, depth - 1, arbitrary_unions, comments), gen_doc(rng, depth - 1, arbitrary_unions, comments)]
    if not comments:
        return ['group', ['concat', ['text', rng.pick(WORDS)], ['concat', ['line'], gen_doc(rng, depth - 1, arbitrary_unions, comments)]]]
    if r < 94:
        return ['linecomment', gen_comment_text(rng)]
    return ['multiline', rng.chance(1, 2), gen_comment_text(rng)]


def gen_comment_text(rng):
    n = rng.below(9)
    ws = [rng.pick(['a', 'bb', 'word', 'longer_word_here', 'x', 'été', '*s', 'q/', '12']) for _ in range(n)]
    if rng.chance(1, 8):
        ws.insert(rng.below(len(ws) + 1), '')
    return ' '.join(ws)


# ----------------------------------------------------------------------------------------------------------------------
# whole modules in concrete syntax

class ModGen:
    """Random syntactically valid modules as TEXT: every operator nesting with explicit (also redundant) parentheses,
    literals incl. escaped quotes and INT_MIN, lambdas / tuples / blocks / match / if-else in every position, patterns,
    type annotations, class and interface declarations, imports.  `avoid` = set of known classes to stay out of."""

    def __init__(self, rng, avoid=(), comments=False):
        self.rng = rng
        self.avoid = set(avoid)
        self.comments = comments
        self.ncomment = 0

    def ws(self):
        r = self.rng.below(12)
        return ' ' if r < 9 else ('\n    ' if r < 11 else '  ')

    def comment(self):
        self.ncomment += 1
        k = self.rng.below(3)
        t = 'c%d' % self.ncomment
        return ['/* %s */' % t, '/** %s */' % t, '// %s\n' % t][k]

    def lit(self):
        rng = self.rng
        r = rng.below(12)
        if r < 4:
            return str(rng.pick([0, 1, 2, 7, 42, 1000, 2147483647]))
        if r == 4:
            return '-2147483648' if 'MIN' not in self.avoid else '5'
        if r == 5:
            return rng.pick(['true', 'false'])
        if r < 9:
            s = rng.pick(['', 'a', 'hello world', 'tab\\t', 'nl\\n', 'back\\\\slash', 'café', '`x${y}`', "it's"])
            if 'K4' not in self.avoid and rng.chance(1, 4):
                s = rng.pick(['say \\"hi\\"', '\\"', 'a\\\\\\"b'])
            return '"%s"' % s
        if r == 9:
            return 'this'
        return rng.pick(['x', 'y', 'foo', 'acc'])

    def pattern(self, depth=2):
        rng = self.rng
        r = rng.below(10)
        if depth <= 0 or r < 3:
            return rng.pick(['a', 'b', '_', 'rest'])
        if r < 5:
            return '(' + ', '.join(self.pattern(depth - 1) for _ in range(rng.range(1, 3))) + ')'
        if r < 7:
            fs = []
            for f in rng.shuffle(['f', 'g', 'h'])[:rng.range(1, 3)]:
                fs.append(f if rng.chance(1, 2) else '%s as %s' % (f, self.pattern(depth - 1)))
            return '{ ' + ', '.join(fs) + ' }'
        if r < 9:
            tag = rng.pick(['Some', 'None', 'Pair', 'Leaf'])
            if rng.chance(1, 3):
                return tag
            return tag + '(' + ', '.join(self.pattern(depth - 1) for _ in range(rng.range(1, 2))) + ')'
        return self.pattern(depth - 1) + ' | ' + self.pattern(depth - 1)

    def annot(self, depth=2):
        rng = self.rng
        r = rng.below(10)
        if depth <= 0 or r < 4:
            return rng.pick(['int', 'bool', 'unit', 'Str', 'T', 'Foo'])
        if r < 7:
            return rng.pick(['List', 'Option', 'Pair']) + '<' + ', '.join(self.annot(depth - 1) for _ in range(rng.range(1, 2))) + '>'
        return '(' + ', '.join(self.annot(depth - 1) for _ in range(rng.below(3))) + ') -> ' + self.annot(depth - 1)

    def block(self, depth):
        rng = self.rng
        parts = []
        for _ in range(rng.below(3)):
            if rng.chance(2, 3):
                ann = (': ' + self.annot(1)) if rng.chance(1, 4) else ''
                parts.append('let %s%s = %s;' % (self.pattern(1), ann, self.full_expr(depth - 1)))
            else:
                parts.append(self.full_expr(depth - 1) + ';')
        if rng.chance(4, 5):
            parts.append(self.full_expr(depth - 1))
        return '{ ' + ' '.join(parts) + ' }'

    def operand(self, depth, force=False):
        """an operand position: if / match / lambda must be parenthesised, everything else may be"""
        t, guarded = self.expr(depth)
        if guarded or force or self.rng.chance(1, 2):
            return '(' + t + ')'
        return t

    def full_expr(self, depth):
        return self.expr(depth)[0]

    def expr(self, depth):
        """-> (text, needs parentheses outside a full-expression position)"""
        rng = self.rng
        if depth <= 0 or rng.chance(1, 6):
            return self.lit(), False
        r = rng.below(100)
        if r < 38:
            o = rng.pick(list(BOP_STR.values()))
            return self.operand(depth - 1) + self.ws() + o + self.ws() + self.operand(depth - 1), False
        if r < 46:
            t, g = self.expr(depth - 1)
            # a unary operand is a postfix expression: anything else in parentheses
            return rng.pick(['!', '-']) + '(' + t + ')', False
        if r < 53:
            return self.postfix_base(depth) + '.' + rng.pick(['foo', 'bar', 'length']), False
        if r < 62:
            args = ', '.join(self.full_expr(depth - 1) for _ in range(rng.below(3)))
            return self.postfix_base(depth) + '(' + args + ')', False
        if r < 68:
            return '(' + ', '.join(self.full_expr(depth - 1) for _ in range(rng.range(2, 3))) + ')', False
        if r < 76:
            cond = self.full_expr(depth - 1) if rng.chance(3, 4) else 'let %s = %s' % (self.pattern(1), self.full_expr(depth - 1))
            els = self.block(depth - 1) if rng.chance(3, 4) else 'if %s %s else %s' % (self.full_expr(depth - 2), self.block(depth - 2), self.block(depth - 2))
            return 'if %s %s else %s' % (cond, self.block(depth - 1), els), True
        if r < 83:
            arms = []
            for _ in range(rng.range(1, 3)):
                arms.append('%s -> %s' % (self.pattern(2), self.full_expr(depth - 1)))
            return 'match %s { %s%s }' % (self.full_expr(depth - 1), ', '.join(arms), rng.pick(['', ','])), True
        if r < 91:
            ps = []
            for _ in range(rng.below(3)):
                ps.append(rng.pick(['p', 'q', 'r']) + ((': ' + self.annot(1)) if rng.chance(1, 3) else ''))
            return '(%s) -> %s' % (', '.join(ps), self.full_expr(depth - 1)), True
        if r < 96:
            return self.block(depth), False
        return '(' + self.full_expr(depth - 1) + ')', False

    def postfix_base(self, depth):
        rng = self.rng
        if rng.chance(1, 2):
            return rng.pick(['x', 'foo', 'this', 'Foo', 'List'])
        return '(' + self.full_expr(depth - 1) + ')'

    def member(self, depth, in_interface=False):
        rng = self.rng
        kind = rng.pick(['function', 'method'])
        priv = 'private ' if (rng.chance(1, 5) and not in_interface) else ''
        tps = rng.pick(['', '', '<T>', '<A, B>', '<T: Foo>'])
        name = rng.pick(['main', 'run', 'helper', 'go', 'compute']) + str(rng.below(50))
        params = ', '.join('%s: %s' % (n, self.annot(1)) for n in rng.shuffle(['a', 'b', 'c'])[:rng.below(3)])
        head = '%s%s %s%s(%s): %s' % (priv, kind, (tps + ' ') if tps else '', name, params, self.annot(1))
        if in_interface:
            return head
        return head + ' = ' + self.full_expr(depth)

    def module(self, depth=3):
        rng = self.rng
        out = []
        mods = rng.shuffle(['std.list', 'std.option', 'a.b.C', 'zeta.Y', 'alpha'])[:rng.below(4)]
        pool = rng.shuffle(['List', 'Option', 'Zed', 'Abc', 'Pair', 'Extra', 'More', 'Tree', 'Cmp', 'Base', 'Other'])
        dup = 'K7' not in self.avoid
        for m in mods:
            k = rng.range(1, 3)
            if dup:
                names = rng.shuffle(['List', 'Option', 'Zed', 'Abc', 'Pair'])[:k]
            else:
                names, pool = pool[:k], pool[k:]
            out.append('import { %s } from %s%s' % (', '.join(names), m, rng.pick([';', ';', ''])))
            if rng.chance(1, 4) and (dup or pool):
                extra = rng.pick(['Extra', 'More']) if dup else pool.pop()
                out.append('import { %s } from %s;' % (extra, m))
        for _ in range(rng.range(1, 3)):
            if rng.chance(1, 4):
                ms = [self.member(depth, True) for _ in range(rng.below(3))]
                sup = rng.pick(['', '', ' : Base', ' : Base, Other<int>'])
                out.append('%sinterface I%d%s%s { %s }' % (rng.pick(['', 'private ']), rng.below(99), rng.pick(['', '<T>']), sup, ' '.join(ms)))
            else:
                r = rng.below(4)
                if r == 0:
                    td = ''
                elif r == 1:
                    td = '(' + ', '.join('%sval %s: %s' % (rng.pick(['', 'private ']), n, self.annot(1)) for n in ['f', 'g', 'h'][:rng.range(1, 3)]) + ')'
                else:
                    vs = []
                    for v in ['Leaf', 'Node', 'Other'][:rng.range(1, 3)]:
                        vs.append(v if rng.chance(1, 2) else '%s(%s)' % (v, ', '.join(self.annot(1) for _ in range(rng.range(1, 2)))))
                    td = '(' + ', '.join(vs) + ')'
                ms = [self.member(depth) for _ in range(rng.range(1, 3))]
                sup = rng.pick(['', '', ' : Base'])
                out.append('%sclass K%d%s%s%s { %s }' % (rng.pick(['', 'private ']), rng.below(99), rng.pick(['', '<T>', '<A, B: Cmp<A>>']), td, sup,
                                                      '\n  '.join(ms)))
        return '\n'.join(out) + '\n'


def gen_module(rng, depth=3, avoid=None):
    if avoid is None:
        avoid = set() if rng.chance(1, 6) else {'K7'}
    return ModGen(rng, avoid).module(depth)


def typed_module(rng, i):
    """a small well-typed module (for the type-check verdict before/after)"""
    es = ['1 + 2 * 3', '(1 + 2) * 3', '10 - (4 - 3)', '100 / (5 * 2)', '7 % (2 + 1)', '-(3)', '1 - -2147483648 * 0']
    bs = ['true && (false || true)', '(1 < 2) == (3 > 2)', '!(1 == 2)', '(true || false) && true', '1 + 1 == 2', '!(true && false)']
    ss = ['"a" :: ("b" :: "c")', '("a" :: "b") :: "c"', '"x" :: Str.fromInt(1 + 2)', '"tab\\t" :: "end"']
    body = ['let i = %s;' % rng.pick(es), 'let b = %s;' % rng.pick(bs), 'let s = %s;' % rng.pick(ss),
            'let f = (x: int) -> x + %s;' % rng.pick(es), 'let t = (i, b, s);', 'let (p, q, r) = t;',
            'let z = if b { f(i) } else { %s };' % rng.pick(es),
            'let _ = Process.println(s :: Str.fromInt(z));']
    return 'class Main {\n  function main(): unit = { %s }\n}\n' % ' '.join(body)
