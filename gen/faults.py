"""Single-fault injector for C06 (DESIGN.md section 4, C06, layer C).

Given the text of an ACCEPTED samlang module it produces single-fault mutants: one edit at one site,
each edit chosen so that the result is ill-typed by construction (the argument for every kind is
written next to its site finder).  Every mutant records its fault kind, the site (line, column) and a
short description of the edit.

It works on the token stream of the text plus bracket structure and a small reader of declaration
headers; nothing here calls the compiler.  Two profiles:

  'generated'  programs of gen/progs.py wrapped by `fault_base` below (all kinds)
  'sample'     /repo/tests/*.sam and /repo/std/*.sam (only the kinds that can be guaranteed without knowing the
               program: literal type swaps inside arithmetic, unbound renames of a let-bound name's use,
               out-of-range literals, dropped arms of constructor-only matches)

Fault kinds (the `kind` field is `<family>:<detail>`):
  operand-type    an operand of a binary / unary operator replaced by a literal of a type the operator rejects
  arg-type        an argument whose parameter type is concrete replaced by a literal of another type
  arity           one argument added / the last argument removed at a call
  typearg-arity   one type argument added (or all dropped at a type annotation of a generic class; or one
                  supplied to a member without type parameters)
  unbound-var     one use of a local variable renamed to a name that occurs nowhere in the program
  unresolved      class / member / module / imported member that exists nowhere
  private         use of a private member / field / class of another module
  interface       member required by a declared interface dropped / retyped / given another arity
  bound           type parameter with a bound instantiated with a type that does not implement it
  int-literal     integer literal replaced by one outside the 32-bit range
  match-arm       one arm removed from a match whose arms are pairwise disjoint constructor patterns
"""
import re

from gen.mutate import TOKEN
from gen.progs import gen_layout_program, gen_program

KEYWORDS = {'import', 'from', 'class', 'interface', 'val', 'function', 'method', 'as', 'private', 'protected',
            'internal', 'public', 'if', 'then', 'else', 'match', 'return', 'int', 'string', 'bool', 'unit', 'true',
            'false', 'this', 'self', 'const', 'let', 'var', 'type', 'constructor', 'destructor', 'extends',
            'implements', 'exports', 'assert'}
ARITH = {'+', '-', '*', '/', '%'}
CMP = {'<', '<=', '>', '>='}
EQ = {'==', '!='}
LOGIC = {'&&', '||'}
BINOPS = ARITH | CMP | EQ | LOGIC | {'::'}
OPEN = {'(': ')', '{': '}', '[': ']'}
CLOSE = {v: k for k, v in OPEN.items()}
FRESH_LOWER = 'zzq9unbound'
FRESH_UPPER = 'Zzq9Missing'
OUT_OF_RANGE = ['2147483648', '2147483649', '99999999999', '-2147483649', '4294967296', '9223372036854775808']

# parameter types of the built-in members the generated programs call (None = generic / unknown)
BUILTIN_STATIC = {('Str', 'fromInt'): ['int'], ('Process', 'println'): ['Str'], ('Process', 'panic'): ['Str']}
BUILTIN_METHOD = {'get': ['int'], 'set': ['int', None], 'push': [None], 'toInt': [], 'length': []}


class Tok:
    __slots__ = ('kind', 'text', 'start', 'end')

    def __init__(self, kind, text, start):
        self.kind, self.text, self.start, self.end = kind, text, start, start + len(text)

    def __repr__(self):
        return '%s:%s@%d' % (self.kind, self.text, self.start)


def tokenize(text):
    """Significant tokens (no white space, no comments) with character offsets."""
    out, pos = [], 0
    for t in TOKEN.findall(text):
        start = pos
        pos += len(t)
        if t.isspace() or t.startswith('//') or t.startswith('/*'):
            continue
        if t[0] == '"':
            k = 'str'
        elif t.isdigit():
            k = 'int'
        elif re.fullmatch(r'[A-Z][A-Za-z0-9]*', t):
            k = 'upper'
        elif re.fullmatch(r'[a-z][A-Za-z0-9]*', t):
            k = 'kw' if t in KEYWORDS else 'lower'
        else:
            k = 'op'
        out.append(Tok(k, t, start))
    return out


class Doc:
    """Token stream + bracket structure + type-argument brackets + declaration headers of one module."""

    def __init__(self, text):
        self.text = text
        self.toks = tokenize(text)
        self.ok = True
        self.match = {}
        self._brackets()
        self.tmatch = {}
        self._type_brackets()
        self.classes = {}
        self.imports_end = 0
        try:
            self._decls()
        except (IndexError, KeyError, ValueError):
            self.ok = False
        self.pattern_idx = self._pattern_regions() if self.ok else set()

    # ------------------------------------------------------------------ structure
    def _brackets(self):
        st = []
        for i, t in enumerate(self.toks):
            if t.kind != 'op':
                continue
            if t.text in OPEN:
                st.append(i)
            elif t.text in CLOSE:
                if not st or self.toks[st[-1]].text != CLOSE[t.text]:
                    self.ok = False
                    return
                j = st.pop()
                self.match[j] = i
                self.match[i] = j
        if st:
            self.ok = False

    def _type_brackets(self):
        """`<` directly after an UpperId (or after function/method: a type-parameter list) opens a type list."""
        T = self.toks
        for i, t in enumerate(T):
            if t.text != '<' or i == 0 or i in self.tmatch:
                continue
            p = T[i - 1]
            if not (p.kind == 'upper' or (p.kind == 'kw' and p.text in ('function', 'method'))):
                continue
            depth, j = 0, i
            while j < len(T):
                x = T[j].text
                if x == '<':
                    depth += 1
                elif x == '>':
                    depth -= 1
                    if depth == 0:
                        break
                elif x == '>=' or x in ('{', '}', ';', '=', '+', '*', '/', '%', '&&', '||', '==', '!=', '<='):
                    j = len(T)
                    break
                j += 1
            if j < len(T):
                # nested lists are registered by their own iteration; register this one
                self.tmatch[i] = j
                self.tmatch[j] = i

    def skip(self, i):
        """Index after the bracket group starting at token i (or i + 1)."""
        if i in self.match and self.toks[i].text in OPEN:
            return self.match[i] + 1
        if i in self.tmatch and self.toks[i].text == '<':
            return self.tmatch[i] + 1
        return i + 1

    def split_commas(self, lo, hi):
        """Token ranges [(a, b)) of the comma-separated items in toks[lo:hi] (depth 0)."""
        items, a, i = [], lo, lo
        while i < hi:
            if self.toks[i].text == ',':
                items.append((a, i))
                a = i + 1
                i += 1
            else:
                i = self.skip(i)
        if a < hi:
            items.append((a, hi))
        return items

    def linecol(self, off):
        line = self.text.count('\n', 0, off)
        col = off - (self.text.rfind('\n', 0, off) + 1)
        return [line, col]

    def span_text(self, a, b):
        """Source text of tokens a .. b-1."""
        return self.text[self.toks[a].start:self.toks[b - 1].end]

    # ------------------------------------------------------------------ declarations
    def _tparams(self, i):
        """toks[i] == '<' of a type-parameter declaration: ([(name, bound text or None)], index after)."""
        j = self.tmatch[i]
        out = []
        for a, b in self.split_commas(i + 1, j):
            name = self.toks[a].text
            bound = self.span_text(a + 2, b) if b > a + 1 and self.toks[a + 1].text == ':' else None
            out.append((name, bound))
        return out, j + 1

    def _decls(self):
        T = self.toks
        i = 0
        while i < len(T) and T[i].text == 'import':
            while i < len(T) and T[i].text != 'from':
                i += 1
            i += 1
            while i + 1 < len(T) and T[i].kind in ('lower', 'upper') and T[i + 1].text == '.':
                i += 2
            i += 1
            if i < len(T) and T[i].text == ';':
                i += 1
        self.imports_end = i
        while i < len(T):
            start = i
            private = False
            if T[i].text == 'private':
                private = True
                i += 1
            if T[i].text not in ('class', 'interface'):
                raise ValueError('toplevel')
            is_iface = T[i].text == 'interface'
            name = T[i + 1].text
            i += 2
            tps = []
            if T[i].text == '<':
                tps, i = self._tparams(i)
            fields, variants, header = [], {}, None
            if T[i].text == '(':
                header = (i, self.match[i])
                for a, b in self.split_commas(i + 1, self.match[i]):
                    k = a
                    fpriv = False
                    if T[k].text == 'private':
                        fpriv = True
                        k += 1
                    if T[k].text == 'val':
                        fields.append({'name': T[k + 1].text, 'type': (k + 3, b), 'private': fpriv})
                    else:
                        vname = T[a].text
                        tys = []
                        if a + 1 < b and T[a + 1].text == '(':
                            tys = self.split_commas(a + 2, self.match[a + 1])
                        variants[vname] = tys
                i = self.match[i] + 1
            supers = []
            if T[i].text == ':':
                i += 1
                while T[i].text != '{':
                    if T[i].kind == 'upper':
                        supers.append(T[i].text)
                    i = self.skip(i)
                    if T[i].text == ',':
                        i += 1
            if T[i].text != '{':
                raise ValueError('class body')
            body = (i, self.match[i])
            members = self._members(i + 1, self.match[i])
            i = self.match[i] + 1
            self.classes[name] = {'name': name, 'private': private, 'interface': is_iface, 'tparams': tps, 'fields': fields,
                                  'variants': variants, 'header': header, 'supers': supers, 'body': body,
                                  'members': members, 'span': (start, i)}

    def _members(self, lo, hi):
        T = self.toks
        out = []
        i = lo
        while i < hi:
            start = i
            private = False
            if T[i].text == 'private':
                private = True
                i += 1
            if T[i].text not in ('function', 'method'):
                raise ValueError('member')
            static = T[i].text == 'function'
            i += 1
            tps = []
            if T[i].text == '<':
                tps, i = self._tparams(i)
            name = T[i].text
            name_idx = i
            i += 1
            if T[i].text != '(':
                raise ValueError('params')
            pgroup = (i, self.match[i])
            params = []
            for a, b in self.split_commas(i + 1, self.match[i]):
                params.append({'name': T[a].text, 'type': (a + 2, b)})
            i = self.match[i] + 1
            ret = None
            if T[i].text == ':':
                a = i + 1
                i = a
                while i < hi and T[i].text != '=' and T[i].text not in ('function', 'method', 'private'):
                    i = self.skip(i)
                ret = (a, i)
            body = None
            if i < hi and T[i].text == '=':
                a = i + 1
                i = a
                while i < hi and T[i].text not in ('function', 'method', 'private'):
                    i = self.skip(i)
                body = (a, i)
            out.append({'name': name, 'name_idx': name_idx, 'static': static, 'private': private, 'tparams': tps,
                        'params': params, 'pgroup': pgroup, 'ret': ret, 'body': body, 'span': (start, i)})
        return out

    def in_header(self, i):
        """Token i lies inside a class header `( ... )` (fields / variant declarations)."""
        for c in self.classes.values():
            if c['header'] and c['header'][0] <= i <= c['header'][1]:
                return True
        return False

    def in_member_signature(self, i):
        for c in self.classes.values():
            for m in c['members']:
                end = m['body'][0] if m['body'] else m['span'][1]
                if m['span'][0] <= i < end:
                    return True
        return False

    def member_of(self, i):
        for c in self.classes.values():
            for m in c['members']:
                if m['span'][0] <= i < m['span'][1]:
                    return c, m
        return None, None

    # ------------------------------------------------------------------ patterns
    def match_sites(self):
        """[(match token index, '{' index, '}' index, [(arm_lo, arrow index, arm_hi)])] for every match."""
        T = self.toks
        out = []
        for i, t in enumerate(T):
            if t.kind != 'kw' or t.text != 'match':
                continue
            j = i + 1
            while j < len(T) and T[j].text != '{':
                j = self.skip(j)
            if j >= len(T) or j not in self.match:
                continue
            k = self.match[j]
            arms = []
            good = True
            for a, b in self.split_commas(j + 1, k):
                x = a
                while x < b and T[x].text != '->':
                    x = self.skip(x)
                if x >= b:
                    good = False
                    break
                arms.append((a, x, b))
            if good and arms:
                out.append((i, j, k, arms))
        return out

    def _pattern_regions(self):
        """Indices of tokens that are inside a binding position (patterns, lambda parameters, let patterns)."""
        T = self.toks
        s = set()
        for i, t in enumerate(T):
            if t.kind == 'kw' and t.text == 'let':
                j = i + 1
                while j < len(T) and T[j].text != '=':
                    s.add(j)
                    nj = self.skip(j)
                    s.update(range(j, nj))
                    j = nj
            if t.text == '(' and i in self.match:
                j = self.match[i]
                if j + 1 < len(T) and T[j + 1].text == '->':
                    s.update(range(i, j + 1))
        for _, _, _, arms in self.match_sites():
            for a, x, _ in arms:
                s.update(range(a, x))
        return s


# ------------------------------------------------------------------------------------------------
# mutants

def _mut(doc, kind, a_off, b_off, repl, what):
    text = doc.text[:a_off] + repl + doc.text[b_off:]
    return {'kind': kind, 'site': doc.linecol(a_off), 'what': what, 'text': text,
            'edit': [a_off, b_off, repl], 'original': doc.text[a_off:b_off][:80]}


def _tok_mut(doc, kind, a, b, repl, what):
    """Replace tokens a .. b-1."""
    return _mut(doc, kind, doc.toks[a].start, doc.toks[b - 1].end, repl, what)


def _is_operand_end(t):
    return t.kind in ('int', 'str', 'upper', 'lower') or t.text in (')', '}', ']') or (t.kind == 'kw' and t.text in ('true', 'false', 'this'))


def _is_binary(doc, i):
    t = doc.toks[i]
    if t.kind != 'op' or t.text not in BINOPS:
        return False
    if t.text in ('<', '>') and i in doc.tmatch:
        return False
    return i > 0 and _is_operand_end(doc.toks[i - 1])


def _wrong_for_op(op):
    """Literals whose type the operator rejects whatever the other operand is (the other operand is
    unchanged and was accepted, so it has the operator's operand type)."""
    if op in ARITH or op in CMP:
        return ['"s"', 'true']           # both operands must be int
    if op in EQ:
        return ['{  }']                   # generated programs compare ints only; unit is never compared
    if op in LOGIC:
        return ['7', '"s"']              # both operands must be bool
    return ['7', 'true']                  # `::` both operands must be Str


# ---- operand-type ----------------------------------------------------------------------------------

def operand_groups(doc):
    """`( A op B )` and `( -A )`, `( !A )` groups: exactly one binary operator at depth 0 of the group.
    Guarantee: A and B are the complete operands of `op` (the group's parentheses delimit them and no
    other operator of depth 0 competes), so replacing either by a literal of a type the operator
    rejects makes the operator application ill-typed."""
    T = doc.toks
    out = []
    for i, t in enumerate(T):
        if t.text != '(' or i not in doc.match:
            continue
        j = doc.match[i]
        if j + 1 < len(T) and T[j + 1].text == '->':
            continue
        if doc.in_header(i) or i in doc.pattern_idx or doc.in_member_signature(i):
            continue
        ops, bad, k = [], False, i + 1
        while k < j:
            x = T[k]
            if x.text in (',', ':', ';', '=', '->', '|', '_') or (x.kind == 'kw' and x.text in ('if', 'else', 'match', 'let', 'as', 'val')):
                bad = True
                break
            if _is_binary(doc, k):
                ops.append(k)
            k = doc.skip(k)
        if bad:
            continue
        if len(ops) == 1 and i + 1 < ops[0] and ops[0] + 1 < j:
            k = ops[0]
            for w in _wrong_for_op(T[k].text):
                out.append(_tok_mut(doc, 'operand-type:left-of-' + T[k].text, i + 1, k, w,
                                    'left operand of `%s` replaced by %s' % (T[k].text, w)))
                out.append(_tok_mut(doc, 'operand-type:right-of-' + T[k].text, k + 1, j, w,
                                    'right operand of `%s` replaced by %s' % (T[k].text, w)))
        elif not ops and j > i + 2 and T[i + 1].text in ('-', '!'):
            u = T[i + 1].text
            for w in (['"s"', 'true'] if u == '-' else ['7', '"s"']):
                out.append(_tok_mut(doc, 'operand-type:unary' + u, i + 2, j, w, 'operand of unary `%s` replaced by %s' % (u, w)))
    return out


def operand_literals(doc, bools_and_strings=True):
    """An int literal directly next to an arithmetic operator token is an operand of an arithmetic
    operator (that one, or a tighter-binding arithmetic one, or unary minus): all of them require int.
    Likewise true/false next to && || ! and a string literal next to `::`."""
    T = doc.toks
    out = []
    for i, t in enumerate(T):
        prev = T[i - 1] if i > 0 else None
        nxt = T[i + 1] if i + 1 < len(T) else None
        if i in doc.pattern_idx or doc.in_header(i):
            continue
        if t.kind == 'int':
            near = [x.text for x in (prev, nxt) if x is not None and x.kind == 'op' and x.text in ARITH]
            if near:
                for w in ('"s"', 'true'):
                    out.append(_tok_mut(doc, 'operand-type:int-literal', i, i + 1, w,
                                        'int literal next to `%s` replaced by %s' % (near[0], w)))
        elif bools_and_strings and t.kind == 'kw' and t.text in ('true', 'false'):
            near = [x.text for x in (prev, nxt) if x is not None and x.kind == 'op' and x.text in LOGIC]
            if prev is not None and prev.text == '!':
                near.append('!')
            if near:
                out.append(_tok_mut(doc, 'operand-type:bool-literal', i, i + 1, '7', 'bool literal next to `%s` replaced by 7' % near[0]))
        elif bools_and_strings and t.kind == 'str':
            near = [x.text for x in (prev, nxt) if x is not None and x.text == '::']
            if near:
                out.append(_tok_mut(doc, 'operand-type:string-literal', i, i + 1, '7', 'string literal next to `::` replaced by 7'))
    return out


# ---- calls -----------------------------------------------------------------------------------------

def call_sites(doc):
    """[(callee description, '(' index, ')' index, callee info)] for every call argument list.
    A `( ... )` group is an argument list when it directly follows
      - a LowerId that is not being declared (`x.m(..)`, `C.f(..)`, `g(..)` for a local closure), or
      - an UpperId preceded by `.` (variant constructor `C.V(..)`), or
      - the `>` of an explicit type-argument list following one of those.
    Bare `V(..)` is a pattern or a variant declaration and is skipped."""
    T = doc.toks
    out = []
    for i, t in enumerate(T):
        if t.text != '(' or i not in doc.match or i == 0:
            continue
        if doc.in_header(i) or i in doc.pattern_idx or doc.in_member_signature(i):
            continue
        p = i - 1
        if T[p].text == '>' and p in doc.tmatch:
            p = doc.tmatch[p] - 1
        if p < 0:
            continue
        c = T[p]
        before = T[p - 1] if p > 0 else None
        if c.kind == 'lower':
            if before is not None and before.kind == 'kw' and before.text in ('function', 'method', 'val', 'let'):
                continue
            if before is not None and before.text == '.':
                recv = T[p - 2] if p >= 2 else None
                static_cls = recv.text if (recv is not None and recv.kind == 'upper' and (p < 3 or T[p - 3].text != '.')) else None
                out.append({'open': i, 'close': doc.match[i], 'name': c.text, 'name_idx': p, 'cls': static_cls, 'form': 'static' if static_cls else 'method'})
            else:
                out.append({'open': i, 'close': doc.match[i], 'name': c.text, 'name_idx': p, 'cls': None, 'form': 'local'})
        elif c.kind == 'upper' and before is not None and before.text == '.' and p >= 2 and T[p - 2].kind == 'upper':
            out.append({'open': i, 'close': doc.match[i], 'name': c.text, 'name_idx': p, 'cls': T[p - 2].text, 'form': 'variant'})
    return out


def _type_is_concrete(doc, span, tparams):
    names = {n for n, _ in tparams}
    return span[1] > span[0] and not any(doc.toks[k].kind == 'upper' and doc.toks[k].text in names for k in range(span[0], span[1]))


def _wrong_for_type(doc, span):
    head = doc.toks[span[0]].text
    if span[1] - span[0] == 1 and head == 'int':
        return ['"s"', 'true']
    if span[1] - span[0] == 1 and head == 'bool':
        return ['7']
    return ['7', 'true']          # Str, unit, class types, function types: never int / bool


def _param_types(doc, call):
    """Parameter types of the callee when every declaration the call can refer to agrees:
    list of (wrong literals or None) per position, or None when the callee is unknown."""
    form, name, cls = call['form'], call['name'], call['cls']
    if form == 'variant':
        c = doc.classes.get(cls)
        if not c or name not in c['variants']:
            return None
        return [(_wrong_for_type(doc, s) if _type_is_concrete(doc, s, c['tparams']) else None) for s in c['variants'][name]]
    if form == 'static':
        c = doc.classes.get(cls)
        if c and name == 'init' and c['fields'] and not c['variants']:
            return [(_wrong_for_type(doc, f['type']) if _type_is_concrete(doc, f['type'], c['tparams']) else None) for f in c['fields']]
        if c:
            ms = [m for m in c['members'] if m['name'] == name and m['static']]
            if len(ms) != 1:
                return None
            m = ms[0]
            return [(_wrong_for_type(doc, p['type']) if _type_is_concrete(doc, p['type'], m['tparams'] + c['tparams']) else None) for p in m['params']]
        if (cls, name) in BUILTIN_STATIC and cls not in doc.classes:
            return [({'int': ['"s"', 'true'], 'Str': ['7', 'true']}[x] if x else None) for x in BUILTIN_STATIC[(cls, name)]]
        return None
    if form == 'method':
        ms = [(c, m) for c in doc.classes.values() for m in c['members'] if m['name'] == name and not m['static']]
        if ms:
            n = len(ms[0][1]['params'])
            if any(len(m['params']) != n for _, m in ms):
                return None
            res = []
            for k in range(n):
                texts = {doc.span_text(*m['params'][k]['type']) for _, m in ms}
                ok = len(texts) == 1 and all(_type_is_concrete(doc, m['params'][k]['type'], m['tparams'] + c['tparams']) for c, m in ms)
                res.append(_wrong_for_type(doc, ms[0][1]['params'][k]['type']) if ok else None)
            return res
        if name in BUILTIN_METHOD:
            return [(['"s"', 'true'] if x == 'int' else None) for x in BUILTIN_METHOD[name]]
    return None


def arg_type_faults(doc):
    """An argument at a position whose parameter type is concrete (mentions no type parameter) in every
    declaration the call can resolve to, replaced by a literal of a different type."""
    out = []
    for call in call_sites(doc):
        ptypes = _param_types(doc, call)
        if ptypes is None:
            continue
        args = doc.split_commas(call['open'] + 1, call['close'])
        if len(args) != len(ptypes):
            continue
        for k, ((a, b), wrong) in enumerate(zip(args, ptypes)):
            if wrong is None:
                continue
            for w in wrong:
                out.append(_tok_mut(doc, 'arg-type:%s' % call['form'], a, b, w,
                                    'argument %d of %s replaced by %s' % (k, call['name'], w)))
    return out


def arity_faults(doc):
    """A call that was accepted with n arguments is ill-typed with n+1 and with n-1 arguments
    (no overloading, no optional or variadic parameters in the language)."""
    out = []
    for call in call_sites(doc):
        o, c = call['open'], call['close']
        args = doc.split_commas(o + 1, c)
        ins = doc.toks[c].start
        out.append(_mut(doc, 'arity:+1', ins, ins, (', 0' if args else '0'), 'extra argument at call of ' + call['name']))
        if args:
            a, b = args[-1]
            start = doc.toks[a - 1].start if len(args) > 1 else doc.toks[a].start     # the comma before it
            out.append(_mut(doc, 'arity:-1', start, doc.toks[b - 1].end, '', 'last argument removed at call of ' + call['name']))
    return out


# ---- type arguments --------------------------------------------------------------------------------

def typearg_faults(doc):
    """`Name<..>` uses (not declarations of type parameters): one more type argument than the accepted
    program had; a generic class named without its arguments in an annotation; one type argument given to
    a member that declares none."""
    T = doc.toks
    out = []
    for i, t in enumerate(T):
        if t.text == '<' and i in doc.tmatch and doc.tmatch[i] > i:
            p = T[i - 1]
            if p.kind != 'upper':
                continue                       # function <T> ...
            if i >= 2 and T[i - 2].kind == 'kw' and T[i - 2].text in ('class', 'interface'):
                continue                       # class Name<T>
            j = doc.tmatch[i]
            ins = T[j].start
            # inside the type arguments of another type? (validated by a recursive call of its own in the checker)
            nested = any(T[a].text == '<' and a < i and doc.tmatch[a] > j for a in doc.tmatch)
            sfx = '-nested' if nested else ''
            out.append(_mut(doc, 'typearg-arity:+1' + sfx, ins, ins, ', int', 'one more type argument for ' + p.text))
            is_annotation = not (i >= 2 and T[i - 2].text == '.')
            c = doc.classes.get(p.text)
            if is_annotation and c and c['tparams'] and not (j + 1 < len(T) and T[j + 1].text == '('):
                out.append(_mut(doc, 'typearg-arity:dropped' + sfx, T[i].start, T[j].end, '', 'type arguments of %s dropped' % p.text))
    for call in call_sites(doc):
        if T[call['open'] - 1].text == '>':
            continue
        if call['form'] == 'static':
            c = doc.classes.get(call['cls'])
            if not c:
                continue
            ms = [m for m in c['members'] if m['name'] == call['name'] and m['static']]
            if len(ms) == 1 and not ms[0]['tparams']:
                ins = T[call['open']].start
                out.append(_mut(doc, 'typearg-arity:on-nongeneric', ins, ins, '<int>', 'type argument for %s.%s which has no type parameter' % (call['cls'], call['name'])))
        elif call['form'] == 'method':
            ms = [m for c in doc.classes.values() for m in c['members'] if m['name'] == call['name'] and not m['static']]
            if ms and all(not m['tparams'] for m in ms):
                ins = T[call['open']].start
                out.append(_mut(doc, 'typearg-arity:on-nongeneric', ins, ins, '<int>', 'type argument for method %s which has no type parameter' % call['name']))
    return out


# ---- names -----------------------------------------------------------------------------------------

def variable_uses(doc):
    """Indices of LowerId tokens in expression position that are not member names: in samlang such a token
    can only be a local variable (class functions are always written `C.f`)."""
    T = doc.toks
    out = []
    for i, t in enumerate(T):
        if t.kind != 'lower' or i < doc.imports_end or i in doc.pattern_idx:
            continue
        prev = T[i - 1] if i > 0 else None
        nxt = T[i + 1] if i + 1 < len(T) else None
        if prev is not None and (prev.text == '.' or (prev.kind == 'kw' and prev.text in ('function', 'method', 'val', 'as', 'let', 'from', 'import'))):
            continue
        if nxt is not None and nxt.text in (':', 'as'):
            continue
        if doc.in_header(i) or doc.in_member_signature(i):
            continue
        c, m = doc.member_of(i)
        if m is None or not m['body'] or not (m['body'][0] <= i < m['body'][1]):
            continue
        out.append(i)
    return out


def unbound_faults(doc, let_bound_only=False):
    """One use of a local variable renamed to an identifier that occurs nowhere in the program."""
    T = doc.toks
    out = []
    fresh = FRESH_LOWER
    while fresh in doc.text:
        fresh += 'x'
    for i in variable_uses(doc):
        if let_bound_only:
            c, m = doc.member_of(i)
            bound = False
            for k in range(m['body'][0], i - 1):
                if T[k].kind == 'kw' and T[k].text == 'let' and T[k + 1].text == T[i].text and T[k + 2].text in ('=', ':'):
                    bound = True
                    break
            if not bound:
                continue
        out.append(_tok_mut(doc, 'unbound-var:use-renamed', i, i + 1, fresh, 'use of `%s` renamed to %s' % (T[i].text, fresh)))
    return out


def unresolved_faults(doc):
    T = doc.toks
    out = []
    up, lo = FRESH_UPPER, FRESH_LOWER
    while up in doc.text:
        up += 'X'
    while lo in doc.text:
        lo += 'x'
    for call in call_sites(doc):
        p = call['name_idx']
        if call['form'] in ('static', 'method'):
            out.append(_tok_mut(doc, 'unresolved:member', p, p + 1, lo, 'called member `%s` renamed to %s' % (call['name'], lo)))
        if call['form'] == 'variant':
            out.append(_tok_mut(doc, 'unresolved:member', p, p + 1, up, 'variant `%s` renamed to %s' % (call['name'], up)))
        if call['form'] in ('static', 'variant'):
            out.append(_tok_mut(doc, 'unresolved:class', p - 2, p - 1, up, 'class `%s` renamed to %s' % (call['cls'], up)))
    for i, t in enumerate(T):
        if i < doc.imports_end or i in doc.pattern_idx:
            continue
        # field access  e.f  (not a call)
        if t.kind == 'lower' and i > 0 and T[i - 1].text == '.' and not (i + 1 < len(T) and T[i + 1].text in ('(', '<')):
            c, m = doc.member_of(i)
            if m is not None and m['body'] and m['body'][0] <= i < m['body'][1]:
                out.append(_tok_mut(doc, 'unresolved:member', i, i + 1, lo, 'field `%s` renamed to %s' % (t.text, lo)))
        # class name in a type annotation (declared in this module, not a type parameter)
        if t.kind == 'upper' and i > 0 and T[i - 1].text == ':' and t.text in doc.classes and doc.in_member_signature(i):
            out.append(_tok_mut(doc, 'unresolved:class', i, i + 1, up, 'annotation `%s` renamed to %s' % (t.text, up)))
    off = T[0].start if T else 0
    out.append(_mut(doc, 'unresolved:module', off, off, 'import { %s } from Nowhere.Mod%s;\n' % (up, up), 'import from a module that does not exist'))
    out.append(_mut(doc, 'unresolved:imported-member', off, off, 'import { %s } from std.tuples;\n' % up, 'import of a class that std.tuples does not define'))
    return out


# ---- interfaces and bounds -------------------------------------------------------------------------

def interface_faults(doc):
    """For `class X : I` with I declared in the same module: a member of I dropped from X; replaced by a
    self-consistent member with another return type; given one more parameter; or a new member added to I."""
    T = doc.toks
    out = []
    for c in doc.classes.values():
        if c['interface']:
            impls = [x for x in doc.classes.values() if not x['interface'] and c['name'] in x['supers']]
            if impls:
                ins = T[c['body'][1]].start
                out.append(_mut(doc, 'interface:member-added-to-interface', ins, ins, ' method zzq9extra(): int ',
                                'interface %s gains a member that %s does not define' % (c['name'], impls[0]['name'])))
            continue
        for s in c['supers']:
            iface = doc.classes.get(s)
            if not iface or not iface['interface']:
                continue
            for im in iface['members']:
                ms = [m for m in c['members'] if m['name'] == im['name'] and m['body']]
                if len(ms) != 1:
                    continue
                m = ms[0]
                a, b = m['span']
                out.append(_mut(doc, 'interface:member-dropped', T[a].start, T[b - 1].end, '',
                                '%s.%s required by %s removed' % (c['name'], m['name'], s)))
                if m['ret']:
                    rett = doc.span_text(*m['ret'])
                    new_t, new_v = ('int', '0') if rett == 'bool' else ('bool', 'true')
                    head = doc.text[T[a].start:T[m['ret'][0]].start]
                    out.append(_mut(doc, 'interface:member-retyped', T[a].start, T[b - 1].end, '%s%s = %s' % (head, new_t, new_v),
                                    '%s.%s now returns %s (was %s)' % (c['name'], m['name'], new_t, rett)))
                ins = T[m['pgroup'][1]].start
                extra = (', ' if m['params'] else '') + 'zzq9p: int'
                out.append(_mut(doc, 'interface:member-arity', ins, ins, extra, '%s.%s takes one more parameter than %s requires' % (c['name'], m['name'], s)))
    return out


def bound_faults(doc, non_impl=None):
    """A parameter whose type is a bounded type parameter `T: B` (T used nowhere else in the parameter list)
    receives a value of a type that does not implement B: an int, or `non_impl` = (class expression, class name)
    of a class without supertypes.  In annotations `G<A>` with G's parameter bounded, A is replaced likewise."""
    T = doc.toks
    out = []
    fns = {}
    for c in doc.classes.values():
        for m in c['members']:
            if not m['static']:
                continue
            for tp, bound in m['tparams']:
                if bound is None:
                    continue
                pos = [k for k, p in enumerate(m['params']) if doc.span_text(*p['type']) == tp]
                mentions = sum(1 for p in m['params'] for k in range(*p['type']) if T[k].text == tp)
                if len(pos) == 1 and mentions == 1:
                    fns[(c['name'], m['name'])] = pos[0]
    for call in call_sites(doc):
        key = (call['cls'], call['name'])
        if call['form'] == 'static' and key in fns and T[call['open'] - 1].text != '>':
            args = doc.split_commas(call['open'] + 1, call['close'])
            if fns[key] < len(args):
                a, b = args[fns[key]]
                out.append(_tok_mut(doc, 'bound:argument-int', a, b, '7', 'bounded type parameter of %s instantiated with int' % call['name']))
                if non_impl:
                    out.append(_tok_mut(doc, 'bound:argument-class', a, b, non_impl[0],
                                        'bounded type parameter of %s instantiated with %s' % (call['name'], non_impl[1])))
    if non_impl:
        bounded = {c['name']: [k for k, (_, b) in enumerate(c['tparams']) if b] for c in doc.classes.values()}
        for i, t in enumerate(T):
            if t.kind == 'upper' and bounded.get(t.text) and i + 1 < len(T) and T[i + 1].text == '<' and (i + 1) in doc.tmatch:
                if i >= 1 and T[i - 1].kind == 'kw' and T[i - 1].text in ('class', 'interface'):
                    continue
                if i >= 1 and T[i - 1].text == '.':
                    continue
                items = doc.split_commas(i + 2, doc.tmatch[i + 1])
                nested = any(T[x].text == '<' and x < i and doc.tmatch[x] > doc.tmatch[i + 1] for x in doc.tmatch)
                for k in bounded[t.text]:
                    if k < len(items):
                        a, b = items[k]
                        out.append(_tok_mut(doc, 'bound:annotation' + ('-nested' if nested else ''), a, b, non_impl[1],
                                            'bounded type argument of %s replaced by %s' % (t.text, non_impl[1])))
    return out


# ---- literals --------------------------------------------------------------------------------------

def literal_faults(doc):
    """An int literal replaced by a numeral outside [-2147483648, 2147483647].  2147483648 is not placed
    directly after a `-` token (there `- 2147483648` is the legal spelling of the minimum)."""
    T = doc.toks
    out = []
    for i, t in enumerate(T):
        if t.kind != 'int' or i in doc.pattern_idx:
            continue
        prev = T[i - 1].text if i > 0 else ''
        for lit in OUT_OF_RANGE:
            if lit == '2147483648' and prev == '-':
                continue
            repl = '(%s)' % lit if lit.startswith('-') else lit
            out.append(_tok_mut(doc, 'int-literal:' + lit, i, i + 1, repl, 'literal %s replaced by %s' % (t.text, lit)))
    return out


# ---- match arms ------------------------------------------------------------------------------------

def _parse_pattern(doc, a, b):
    """Pattern tree of toks[a:b]: ('wild',) | ('var',) | ('ctor', name, [sub]) | ('tuple', [sub]) | ('or', [alts]) | ('other',)."""
    T = doc.toks
    alts, lo, i = [], a, a
    while i < b:
        if T[i].text == '|':
            alts.append((lo, i))
            lo = i + 1
            i += 1
        else:
            i = doc.skip(i)
    alts.append((lo, b))
    if len(alts) > 1:
        return ('or', [_parse_pattern(doc, x, y) for x, y in alts])
    if b <= a:
        return ('other',)
    t = T[a]
    if t.text == '_' and b == a + 1:
        return ('wild',)
    if t.kind == 'lower' and b == a + 1:
        return ('var',)
    if t.kind == 'upper':
        if b == a + 1:
            return ('ctor', t.text, [])
        if T[a + 1].text == '(' and doc.match.get(a + 1) == b - 1:
            return ('ctor', t.text, [_parse_pattern(doc, x, y) for x, y in doc.split_commas(a + 2, b - 1)])
        return ('other',)
    if t.text == '(' and doc.match.get(a) == b - 1:
        return ('tuple', [_parse_pattern(doc, x, y) for x, y in doc.split_commas(a + 1, b - 1)])
    return ('other',)


def _disjoint(p, q):
    """No value matches both patterns (sound, incomplete)."""
    if p[0] == 'or':
        return all(_disjoint(x, q) for x in p[1])
    if q[0] == 'or':
        return all(_disjoint(p, x) for x in q[1])
    if p[0] == 'ctor' and q[0] == 'ctor':
        if p[1] != q[1]:
            return True
        return len(p[2]) == len(q[2]) and any(_disjoint(x, y) for x, y in zip(p[2], q[2]))
    if p[0] == 'tuple' and q[0] == 'tuple':
        return len(p[1]) == len(q[1]) and any(_disjoint(x, y) for x, y in zip(p[1], q[1]))
    return False


def _has_ctor_head(p):
    if p[0] == 'or':
        return all(_has_ctor_head(x) for x in p[1])
    return p[0] == 'ctor'


def match_arm_faults(doc):
    """An arm whose pattern is disjoint from the pattern of every other arm of the same (accepted, hence
    exhaustive and free of useless arms) match is removed: the values it matched — there is at least one,
    the arm was useful — are matched by no remaining arm, so the match is no longer exhaustive."""
    T = doc.toks
    out = []
    for mi, lb, rb, arms in doc.match_sites():
        if len(arms) < 2:
            continue
        pats = [_parse_pattern(doc, a, x) for a, x, _ in arms]
        if not all(_has_ctor_head(p) for p in pats):
            continue
        for k, (a, x, b) in enumerate(arms):
            if not all(_disjoint(pats[k], pats[j]) for j in range(len(arms)) if j != k):
                continue
            # remove the arm and one adjacent comma
            if b < rb and T[b].text == ',':
                s, e = T[a].start, T[b].end
            elif k > 0:
                s, e = T[a - 1].start, T[b - 1].end
            else:
                continue
            out.append(_mut(doc, 'match-arm:dropped', s, e, '', 'arm `%s` removed' % doc.span_text(a, x)))
    return out


# ------------------------------------------------------------------------------------------------
# two-module base programs (private access, interfaces, bounds always available)

HELPER = '''class HPub(val a: int, private val hiddenField: int) {
  private method secretMethod(): int = this.a
  method open(): int = this.secretMethod() + 1
  private function hiddenFunction(x: int): int = x + 1
  function pub(x: int): int = HPub.hiddenFunction(x) * 2
  function mk(x: int): HPub = HPub.init(x, 5)
}
private class HPriv(val b: int) {
  function one(): int = HPriv.init(1).b
}
class HUser {
  function viaPrivateClass(): int = HPriv.one()
}
'''
EXTRA_DECLS = '''interface Hv { method hv(k: int): int method hw(): bool }
class Ha(val v: int) : Hv { method hv(k: int): int = this.v + k method hw(): bool = this.v > 0 }
class Nb(val q: int) { method hv(k: int): int = k }
class Bx<T: Hv>(val x: T) { method run(): int = this.x.hv(1) }
class Wr<T>(val w: T) {}
'''
EXTRA_MEMBERS = '''  function <T: Hv> useHv(x: T, k: int): int = if x.hw() { x.hv(k) } else { 0 }
  function hy(b: Bx<Ha>): int = b.run()
  function hz(b: Wr<Bx<Ha>>): int = b.w.run()
  function hu(b: Wr<Bx<Ha>>, c: Wr<Wr<Bx<Ha>>>): int = 0
  function hf(f: (Wr<Bx<Ha>>) -> int): int = f(Wr.init(Bx.init(Ha.init(1))))
  function hx(): int = Main.useHv(Ha.init(2), 3) + Bx.init(Ha.init(1)).run() + HPub.pub(1) + HPub.mk(3).open() + HPub.mk(4).a + Main.hy(Bx.init(Ha.init(4))) + Main.hz(Wr.init(Bx.init(Ha.init(5)))) + Main.hf((w) -> w.w.run()) + HUser.viaPrivateClass()
'''
PRIVATE_EDITS = [
    ('private:function', 'HPub.pub(1)', 'HPub.hiddenFunction(1)', 'call of a private function of another module'),
    ('private:method', 'HPub.mk(3).open()', 'HPub.mk(3).secretMethod()', 'call of a private method of another module'),
    ('private:field', 'HPub.mk(4).a', 'HPub.mk(4).hiddenField', 'read of a private field of another module'),
    ('private:class-import', 'import { HPub, HUser } from Helper;', 'import { HPub, HUser, HPriv } from Helper;', 'import of a private class'),
    ('private:class-use', 'HUser.viaPrivateClass()', 'HPriv.one()', 'use of a private class of another module without importing it'),
]


def fault_base(rng, i):
    """An accepted two-module program: gen/progs.py output + a Helper module with private members and a
    private class, an interface with an implementing class, a class without it, bounded type parameters."""
    if i % 4 == 3:
        p = gen_layout_program(rng, nty=3)
    else:
        p = gen_program(rng, {'big': i % 5 == 0, 'nfun': 3 + i % 3, 'depth': 2 + i % 2, 'panics': i % 2 == 0})
    text = p['sources']['Main']
    k = text.index('\nclass Main {\n')
    text = ('import { HPub, HUser } from Helper;\n' + text[:k + 1] + EXTRA_DECLS + 'class Main {\n' + EXTRA_MEMBERS + text[k + len('\nclass Main {\n'):])
    return {'sources': {'Main': text, 'Helper': HELPER}, 'entry': 'Main', 'features': p['features'] + ['two-modules']}


def private_faults(doc):
    out = []
    for kind, old, new, what in PRIVATE_EDITS:
        k = doc.text.find(old)
        if k >= 0 and doc.text.find(old, k + 1) < 0:
            out.append(_mut(doc, kind, k, k + len(old), new, what))
    return out


# ------------------------------------------------------------------------------------------------

def chain_branch_faults(doc):
    """branch-type: in a parenthesised `(if c { e } else if c2 { e2 } ... else { en })` chain with three or more branches
    (the generators only build such chains from int expressions, and use the value as an int), the body of one branch is
    replaced by `{ true }`: that branch no longer has the type of the others, so the expression is ill-typed whichever
    branch the checker takes as the reference."""
    out = []
    toks = doc.toks
    for i in range(1, len(toks)):
        if not (toks[i].kind == 'kw' and toks[i].text == 'if' and toks[i - 1].text == '('):
            continue
        branches, j, ok = [], i, True
        while ok:
            # condition: up to the first `{` outside parentheses
            k, depth = j + 1, 0
            while k < len(toks):
                t = toks[k].text
                if t == '(':
                    depth += 1
                elif t == ')':
                    depth -= 1
                elif t == '{' and depth == 0:
                    break
                k += 1
            if k >= len(toks) or k not in doc.match:
                ok = False
                break
            branches.append((k, doc.match[k]))
            e = doc.match[k] + 1
            if e < len(toks) and toks[e].text == 'else':
                if e + 1 < len(toks) and toks[e + 1].text == 'if':
                    j = e + 1
                    continue
                if e + 1 < len(toks) and toks[e + 1].text == '{' and (e + 1) in doc.match:
                    branches.append((e + 1, doc.match[e + 1]))
            break
        if ok and len(branches) >= 3:
            for bi, (a, b) in enumerate(branches):
                for repl in ('{ true }', '{ "chain" }'):      # bool shares the run-time representation of int, Str does not
                    out.append(_tok_mut(doc, 'branch-type:else-if-chain-branch-%d-of-%d' % (bi, len(branches)), a, b + 1, repl,
                                        'branch %d of an int-valued else-if chain replaced by `%s`' % (bi, repl)))
    return out


def all_faults(text, profile='generated'):
    """Every single-fault mutant of one module text: list of dicts (kind, site, what, text, edit, original)."""
    doc = Doc(text)
    if not doc.ok or not doc.toks:
        return []
    if profile == 'sample':
        return (operand_literals(doc, bools_and_strings=False) + unbound_faults(doc, let_bound_only=True)
                + literal_faults(doc) + match_arm_faults(doc))
    non_impl = ('Nb.init(0)', 'Nb') if 'Nb' in doc.classes and not doc.classes['Nb']['supers'] else None
    return (operand_groups(doc) + operand_literals(doc) + arg_type_faults(doc) + arity_faults(doc) + typearg_faults(doc)
            + unbound_faults(doc) + unresolved_faults(doc) + private_faults(doc) + interface_faults(doc)
            + bound_faults(doc, non_impl) + literal_faults(doc) + match_arm_faults(doc) + chain_branch_faults(doc))


def family(kind):
    return kind.split(':')[0]


# ------------------------------------------------------------------------------------------------
# private members reached from a class that merely has the SAME NAME in another module

SAME_NAME_LIB = '''class A(val pub: int, private val secret: int) {
  function mk(): A = A.init(1, 42)
  private method hidden(): int = this.secret
  method open(): int = this.hidden()
}
class Give { function it(): A = A.mk() }
'''

SAME_NAME_ACCESSES = [
    ('private:same-name-class:field', 'Give.it().secret'),
    ('private:same-name-class:method', 'Give.it().hidden()'),
    ('private:same-name-class:object-pattern', '{ let { secret } = Give.it(); secret }'),
    ('private:same-name-class:object-pattern-as', '{ let { secret as s, pub as _ } = Give.it(); s }'),
    ('private:same-name-class:tuple-pattern', '{ let (p, s) = Give.it(); s }'),
]


def same_name_private_programs():
    """Module X1 declares class A with private members; Main declares its own, unrelated class A and reaches X1.A's private
    members through a value. Every one must be rejected with an error in Main."""
    out = []
    for kind, access in SAME_NAME_ACCESSES:
        main = ('import { Give } from X1;\nclass A { function peek(): int = %s }\n'
                'class Main { function main(): unit = Process.println(Str.fromInt(A.peek())) }\n' % access)
        out.append((kind, {'sources': {'X1': SAME_NAME_LIB, 'Main': main}, 'entry': 'Main', 'mutated': 'Main'}))
    # control: the public members are reachable (an accepted program), so the rejections above are about privacy
    ok = ('import { Give } from X1;\nclass A { function peek(): int = Give.it().pub + Give.it().open() }\n'
          'class Main { function main(): unit = Process.println(Str.fromInt(A.peek())) }\n')
    return out, {'sources': {'X1': SAME_NAME_LIB, 'Main': ok}, 'entry': 'Main'}
