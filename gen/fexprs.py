"""Generators and conversions for the FULL C08 model (coq/theories/C08/F*.v): type annotations, patterns,
expressions with statements, declarations.  Model trees are nested tuples that mirror the Gallina constructors:

  annot  ('APrim', 'PUnit'|'PBool'|'PInt')  ('AId', n, [annot])  ('AGen', n)  ('AFn', [annot], annot)
  pat    ('PWild',) ('PId', n) ('PTuple', [pat]) ('PObj', [(f, None|pat)]) ('PVar', n, None|[pat]) ('POr', [pat])
  expr   ('XLit', ('LInt', z)|('LStr', s)|('LBool', b)) ('XId', n) ('XThis',) ('XCls', n) ('XTuple', [e])
         ('XField', e, up, f, [annot]) ('XCall', e, [e]) ('XUn', 'Not'|'Neg', e) ('XBin', op, a, b)
         ('XIf', None|pat, c, b1, e2) ('XMatch', s, [(pat, e)]) ('XLam', [(x, None|annot)], b)
         ('XBlock', [(None|(pat, None|annot), e)], None|e)

Names: lower-case identifiers are v<n>, upper-case ones C<n>.  JSON = the harness' canonical dump (fmt_run.rs)."""
from gen.exprs import BOPS, BOP_STR, STR_BOP, PLEVEL, REAL_NAME, g_bop

MAX = 2147483647
MIN = -2147483648
PRIM_JSON = {'PUnit': 'unit', 'PBool': 'bool', 'PInt': 'int'}
JSON_PRIM = {v: k for k, v in PRIM_JSON.items()}


def low(n):
    return 'v%d' % n


def up(n):
    return 'C%d' % n


def num(name, letter):
    if name[:1] == letter and name[1:].isdigit() and (name[1:] == '0' or name[1] != '0'):
        return int(name[1:])
    raise ValueError(name)


# ----------------------------------------------------------------------------------------------------------------------
# Gallina

def g_list(xs):
    return '[' + '; '.join(xs) + ']'


def g_opt(x):
    return 'None' if x is None else '(Some %s)' % x


def g_codepoints(s):
    return '[' + ';'.join(str(ord(c)) for c in s) + ']%N'


def g_annot(a):
    k = a[0]
    if k == 'APrim':
        return '(APrim %s)' % a[1]
    if k == 'AId':
        return '(AId %d %s)' % (a[1], g_list([g_annot(x) for x in a[2]]))
    if k == 'AGen':
        return '(AGen %d)' % a[1]
    if k == 'AFn':
        return '(AFn %s %s)' % (g_list([g_annot(x) for x in a[1]]), g_annot(a[2]))
    raise ValueError(k)


def g_pat(p):
    k = p[0]
    if k == 'PWild':
        return 'PWild'
    if k == 'PId':
        return '(PId %d)' % p[1]
    if k == 'PTuple':
        return '(PTuple %s)' % g_list([g_pat(x) for x in p[1]])
    if k == 'PObj':
        return '(PObj %s)' % g_list(['(%d, %s)' % (f, g_opt(None if q is None else g_pat(q))) for f, q in p[1]])
    if k == 'PVar':
        return '(PVar %d %s)' % (p[1], g_opt(None if p[2] is None else g_list([g_pat(x) for x in p[2]])))
    if k == 'POr':
        return '(POr %s)' % g_list([g_pat(x) for x in p[1]])
    raise ValueError(k)


def g_lit(l):
    if l[0] == 'LInt':
        return '(LInt (%d)%%Z)' % l[1]
    if l[0] == 'LStr':
        return '(LStr %s)' % g_codepoints(l[1])
    return '(LBool %s)' % ('true' if l[1] else 'false')


def g_binder(bd):
    if bd is None:
        return 'None'
    p, a = bd
    return '(Some (%s, %s))' % (g_pat(p), g_opt(None if a is None else g_annot(a)))


def g_fexpr(e):
    k = e[0]
    if k == 'XLit':
        return '(XLit %s)' % g_lit(e[1])
    if k == 'XId':
        return '(XId %d)' % e[1]
    if k == 'XThis':
        return 'XThis'
    if k == 'XCls':
        return '(XCls %d)' % e[1]
    if k == 'XTuple':
        return '(XTuple %s)' % g_list([g_fexpr(x) for x in e[1]])
    if k == 'XField':
        return '(XField %s %s %d %s)' % (g_fexpr(e[1]), 'true' if e[2] else 'false', e[3], g_list([g_annot(x) for x in e[4]]))
    if k == 'XCall':
        return '(XCall %s %s)' % (g_fexpr(e[1]), g_list([g_fexpr(x) for x in e[2]]))
    if k == 'XUn':
        return '(XUn %s %s)' % (e[1], g_fexpr(e[2]))
    if k == 'XBin':
        return '(XBin %s %s %s)' % (g_bop(e[1]), g_fexpr(e[2]), g_fexpr(e[3]))
    if k == 'XIf':
        return '(XIf %s %s %s %s)' % (g_opt(None if e[1] is None else g_pat(e[1])), g_fexpr(e[2]), g_fexpr(e[3]), g_fexpr(e[4]))
    if k == 'XMatch':
        return '(XMatch %s %s)' % (g_fexpr(e[1]), g_list(['(%s, %s)' % (g_pat(p), g_fexpr(b)) for p, b in e[2]]))
    if k == 'XLam':
        return '(XLam %s %s)' % (g_list(['(%d, %s)' % (x, g_opt(None if a is None else g_annot(a))) for x, a in e[1]]), g_fexpr(e[2]))
    if k == 'XBlock':
        return '(XBlock %s %s)' % (g_list(['(%s, %s)' % (g_binder(bd), g_fexpr(x)) for bd, x in e[1]]),
                                   g_opt(None if e[2] is None else g_fexpr(e[2])))
    raise ValueError(k)


KW = {'if': 'KIf', 'else': 'KElse', 'match': 'KMatch', 'let': 'KLet', 'as': 'KAs', 'val': 'KVal', 'private': 'KPrivate',
      'function': 'KFunction', 'method': 'KMethod', 'class': 'KClass', 'interface': 'KInterface', 'import': 'KImport',
      'from': 'KFrom', 'unit': 'KUnit', 'bool': 'KBool', 'int': 'KInt', 'true': 'KTrue', 'false': 'KFalse', 'this': 'KThis'}
PUNCT = {'(': 'LParen', ')': 'RParen', '{': 'LBrace', '}': 'RBrace', '.': 'Dot', ',': 'Comma', '->': 'Arrow', ':': 'Colon',
         ';': 'Semi', '=': 'Assign', '|': 'Bar', '_': 'Under', '!': 'Bang'}


def g_ftokens(toks, names=None):
    """real lexer tokens [[kind, text]..] -> Gallina list of model tokens; None when a token has no model counterpart.
    names: optional interning dict for arbitrary identifiers {('l'|'u', text): n}"""
    out = []
    for kind, text in toks:
        t = None
        try:
            if kind == 'lower-id':
                t = 'TLow %d' % (num(text, 'v') if names is None else names.setdefault(('l', text), len(names)))
            elif kind == 'upper-id':
                t = 'TUp %d' % (num(text, 'C') if names is None else names.setdefault(('u', text), len(names)))
            elif kind == 'int':
                z = int(text)
                t = 'TInt (%d)%%Z' % z if (0 <= z <= MAX or z == MIN) else None
            elif kind == 'string':
                t = 'TStr %s' % g_codepoints(text[1:-1]) if len(text) >= 2 else None
            elif kind == 'keyword':
                t = 'TK ' + KW[text] if text in KW else None
            elif kind == 'operator':
                if text in STR_BOP:
                    t = 'TOp ' + g_bop(STR_BOP[text])
                elif text in PUNCT:
                    t = 'TP ' + PUNCT[text]
        except ValueError:
            t = None
        if t is None:
            return None
        out.append(t)
    return '[' + '; '.join(out) + ']'


# ----------------------------------------------------------------------------------------------------------------------
# JSON (harness) <-> model trees

def annot_to_json(a):
    k = a[0]
    if k == 'APrim':
        return ['prim', PRIM_JSON[a[1]]]
    if k == 'AId':
        return ['tid', '', up(a[1]), [annot_to_json(x) for x in a[2]] if a[2] else None]
    if k == 'AGen':
        return ['tgen', up(a[1])]
    return ['tfn', [annot_to_json(x) for x in a[1]], annot_to_json(a[2])]


def annot_from_json(j):
    k = j[0]
    if k == 'prim':
        return ('APrim', JSON_PRIM[j[1]])
    if k == 'tid':
        return ('AId', num(j[2], 'C'), [annot_from_json(x) for x in (j[3] or [])])
    if k == 'tgen':
        return ('AGen', num(j[1], 'C'))
    if k == 'tfn':
        return ('AFn', [annot_from_json(x) for x in j[1]], annot_from_json(j[2]))
    raise ValueError(k)


def pat_to_json(p):
    k = p[0]
    if k == 'PWild':
        return ['pwild']
    if k == 'PId':
        return ['pid', low(p[1])]
    if k == 'PTuple':
        return ['ptuple', [pat_to_json(x) for x in p[1]]]
    if k == 'PObj':
        return ['pobj', [[low(f), q is None, pat_to_json(('PId', f) if q is None else q)] for f, q in p[1]]]
    if k == 'PVar':
        return ['pvar', up(p[1]), None if p[2] is None else [pat_to_json(x) for x in p[2]]]
    return ['por', [pat_to_json(x) for x in p[1]]]


def pat_from_json(j):
    k = j[0]
    if k == 'pwild':
        return ('PWild',)
    if k == 'pid':
        return ('PId', num(j[1], 'v'))
    if k == 'ptuple':
        return ('PTuple', [pat_from_json(x) for x in j[1]])
    if k == 'pobj':
        out = []
        for f, sh, q in j[1]:
            if sh and q != ['pid', f]:
                raise ValueError('shorthand with another pattern')
            out.append((num(f, 'v'), None if sh else pat_from_json(q)))
        return ('PObj', out)
    if k == 'pvar':
        return ('PVar', num(j[1], 'C'), None if j[2] is None else [pat_from_json(x) for x in j[2]])
    if k == 'por':
        return ('POr', [pat_from_json(x) for x in j[1]])
    raise ValueError(k)


def block_json(ss, r):
    stmts = []
    for bd, x in ss:
        if bd is None:
            stmts.append(['expr', to_json(x)])
        else:
            stmts.append(['let', pat_to_json(bd[0]), None if bd[1] is None else annot_to_json(bd[1]), to_json(x)])
    return ['block', stmts, None if r is None else to_json(r)]


def to_json(e):
    k = e[0]
    if k == 'XLit':
        l = e[1]
        return [{'LInt': 'int', 'LStr': 'str', 'LBool': 'bool'}[l[0]], l[1]]
    if k == 'XId':
        return ['id', low(e[1])]
    if k == 'XThis':
        return ['id', 'this']
    if k == 'XCls':
        return ['cid', '', up(e[1])]
    if k == 'XTuple':
        return ['tuple', [to_json(x) for x in e[1]]]
    if k == 'XField':
        return ['field', to_json(e[1]), up(e[3]) if e[2] else low(e[3]), [annot_to_json(x) for x in e[4]] if e[4] else None]
    if k == 'XCall':
        return ['call', to_json(e[1]), [to_json(x) for x in e[2]]]
    if k == 'XUn':
        return ['un', '!' if e[1] == 'Not' else '-', to_json(e[2])]
    if k == 'XBin':
        return ['bin', BOP_STR[e[1]], to_json(e[2]), to_json(e[3])]
    if k == 'XIf':
        cond = ['e', to_json(e[2])] if e[1] is None else ['guard', pat_to_json(e[1]), to_json(e[2])]
        return ['if', cond, to_json(e[3]), to_json(e[4])]
    if k == 'XMatch':
        return ['match', to_json(e[1]), [[pat_to_json(p), to_json(b)] for p, b in e[2]]]
    if k == 'XLam':
        return ['lambda', [[low(x), None if a is None else annot_to_json(a)] for x, a in e[1]], to_json(e[2])]
    if k == 'XBlock':
        return block_json(e[1], e[2])
    raise ValueError(k)


def from_json(j):
    """harness JSON tree -> model tree; raises ValueError outside the model (never for trees built from model trees)"""
    k = j[0]
    if k == 'int':
        return ('XLit', ('LInt', j[1]))
    if k == 'str':
        return ('XLit', ('LStr', j[1]))
    if k == 'bool':
        return ('XLit', ('LBool', bool(j[1])))
    if k == 'id':
        return ('XThis',) if j[1] == 'this' else ('XId', num(j[1], 'v'))
    if k == 'cid':
        return ('XCls', num(j[2], 'C'))
    if k == 'tuple':
        return ('XTuple', [from_json(x) for x in j[1]])
    if k == 'field':
        name = j[2]
        isup = name[:1] == 'C'
        return ('XField', from_json(j[1]), isup, num(name, 'C' if isup else 'v'), [annot_from_json(x) for x in (j[3] or [])])
    if k == 'call':
        return ('XCall', from_json(j[1]), [from_json(x) for x in j[2]])
    if k == 'un':
        return ('XUn', 'Not' if j[1] == '!' else 'Neg', from_json(j[2]))
    if k == 'bin':
        return ('XBin', STR_BOP[j[1]], from_json(j[2]), from_json(j[3]))
    if k == 'if':
        g = None if j[1][0] == 'e' else pat_from_json(j[1][1])
        c = from_json(j[1][1] if j[1][0] == 'e' else j[1][2])
        return ('XIf', g, c, from_json(j[2]), from_json(j[3]))
    if k == 'match':
        return ('XMatch', from_json(j[1]), [(pat_from_json(p), from_json(b)) for p, b in j[2]])
    if k == 'lambda':
        return ('XLam', [(num(x, 'v'), None if a is None else annot_from_json(a)) for x, a in j[1]], from_json(j[2]))
    if k == 'block':
        ss = []
        for s in j[1]:
            if s[0] == 'expr':
                ss.append((None, from_json(s[1])))
            else:
                ss.append(((pat_from_json(s[1]), None if s[2] is None else annot_from_json(s[2])), from_json(s[3])))
        return ('XBlock', ss, None if j[2] is None else from_json(j[2]))
    raise ValueError(k)


# ----------------------------------------------------------------------------------------------------------------------
# the known-class predicate (twin of fknown): gen.exprs.tree_classes on the JSON form walks every expression node

# ----------------------------------------------------------------------------------------------------------------------
# generators

def canon(tps, a):
    """twin of FModelTypes.canon"""
    k = a[0]
    if k == 'APrim':
        return a
    if k == 'AGen' or (k == 'AId' and not a[2]):
        return ('AGen', a[1]) if a[1] in tps else ('AId', a[1], [])
    if k == 'AId':
        return ('AId', a[1], [canon(tps, x) for x in a[2]])
    return ('AFn', [canon(tps, x) for x in a[1]], canon(tps, a[2]))


def gen_annot(rng, depth, tps=()):
    r = rng.below(10)
    if depth <= 0 or r < 3:
        c = rng.below(5)
        if c < 3:
            return ('APrim', ['PUnit', 'PBool', 'PInt'][c])
        n = rng.below(6)
        return canon(tps, ('AId', n, []))
    if r < 6:
        return ('AId', rng.below(6), [gen_annot(rng, depth - 1, tps) for _ in range(rng.range(1, 3))])
    return ('AFn', [gen_annot(rng, depth - 1, tps) for _ in range(rng.below(3))], gen_annot(rng, depth - 1, tps))


def gen_single_pat(rng, depth):
    r = rng.below(12)
    if depth <= 0 or r < 3:
        return rng.pick([('PWild',), ('PId', rng.below(5)), ('PVar', rng.below(5), None)])
    if r < 6:
        return ('PTuple', [gen_pat(rng, depth - 1) for _ in range(rng.range(1, 3))])
    if r < 9:
        fs = []
        for f in rng.shuffle([0, 1, 2, 3])[:rng.range(1, 3)]:
            fs.append((f, None if rng.chance(1, 2) else gen_pat(rng, depth - 1)))
        return ('PObj', fs)
    return ('PVar', rng.below(5), [gen_pat(rng, depth - 1) for _ in range(rng.range(1, 3))])


def gen_pat(rng, depth):
    if depth > 0 and rng.chance(1, 5):
        return ('POr', [gen_single_pat(rng, depth - 1) for _ in range(rng.range(2, 3))])
    return gen_single_pat(rng, depth)


def gen_lit(rng):
    r = rng.below(8)
    if r < 3:
        return ('LInt', rng.pick([0, 1, 7, 42, MAX, MIN]))
    if r < 5:
        return ('LBool', rng.chance(1, 2))
    return ('LStr', rng.pick(['', 'a', 'hello world', 'q"q', 'back\\\\slash', 'tab\\t', 'é', '"', 'a\\\\"b']))


def gen_atom(rng):
    r = rng.below(10)
    if r < 3:
        return ('XLit', gen_lit(rng))
    if r < 7:
        return ('XId', rng.below(5))
    if r < 8:
        return ('XThis',)
    return ('XCls', rng.below(5))


def gen_block(rng, depth, tps=()):
    ss = []
    for _ in range(rng.below(3)):
        if rng.chance(1, 2):
            ss.append(((gen_pat(rng, 1), gen_annot(rng, 1, tps) if rng.chance(1, 3) else None), gen_fexpr(rng, depth - 1, tps)))
        else:
            ss.append((None, gen_fexpr(rng, depth - 1, tps)))
    return ('XBlock', ss, gen_fexpr(rng, depth - 1, tps) if rng.chance(3, 4) else None)


def gen_if(rng, depth, tps=()):
    g = gen_pat(rng, 1) if rng.chance(1, 4) else None
    e2 = gen_if(rng, depth - 1, tps) if (depth > 1 and rng.chance(1, 4)) else gen_block(rng, depth - 1, tps)
    return ('XIf', g, gen_fexpr(rng, depth - 1, tps), gen_block(rng, depth - 1, tps), e2)


def gen_fexpr(rng, depth, tps=()):
    """random parser-producible tree (fwf), biased to operator nesting"""
    if depth <= 0 or rng.chance(1, 6):
        return gen_atom(rng)
    r = rng.below(100)
    d = depth - 1
    if r < 32:
        return ('XBin', rng.pick(BOPS), gen_fexpr(rng, d, tps), gen_fexpr(rng, d, tps))
    if r < 40:
        return ('XUn', rng.pick(['Not', 'Neg']), gen_fexpr(rng, d, tps))
    if r < 48:
        tas = [gen_annot(rng, 1, tps) for _ in range(rng.range(1, 2))] if rng.chance(1, 4) else []
        return ('XField', gen_fexpr(rng, d, tps), rng.chance(1, 8), rng.below(4), tas)
    if r < 58:
        return ('XCall', gen_fexpr(rng, d, tps), [gen_fexpr(rng, d - 1, tps) for _ in range(rng.below(4))])
    if r < 66:
        return ('XTuple', [gen_fexpr(rng, d - 1 if rng.chance(1, 2) else 0, tps) for _ in range(rng.range(2, 4))])
    if r < 73:
        return gen_block(rng, depth, tps)
    if r < 80:
        return gen_if(rng, depth, tps)
    if r < 88:
        arms = [(gen_pat(rng, 2), gen_fexpr(rng, d - 1, tps)) for _ in range(rng.range(1, 3))]
        return ('XMatch', gen_fexpr(rng, d - 1, tps), arms)
    ps = [(rng.below(5), gen_annot(rng, 1, tps) if rng.chance(1, 3) else None) for _ in range(rng.below(4))]
    return ('XLam', ps, gen_fexpr(rng, d, tps))


def child_kinds():
    a, b = ('XId', 1), ('XLit', ('LInt', 2))
    blk = ('XBlock', [], a)
    ks = [('XId', 0), ('XLit', ('LInt', 0)), ('XLit', ('LInt', MIN)), ('XLit', ('LStr', 'q"')), ('XLit', ('LBool', True)), ('XThis',),
          ('XCls', 0), ('XTuple', [a, b]), ('XTuple', [b, a]), ('XTuple', [('XBin', 'Plus', a, b), a]), ('XTuple', [a, ('XBin', 'Plus', a, b)]),
          ('XField', a, False, 0, []), ('XField', a, True, 0, []), ('XField', a, False, 0, [('APrim', 'PInt')]),
          ('XCall', a, []), ('XCall', a, [b]), ('XCall', a, [a, b]), ('XCall', ('XField', a, False, 2, [('AId', 3, [])]), [b]),
          ('XUn', 'Not', a), ('XUn', 'Neg', b), ('XIf', None, a, blk, blk), ('XIf', ('PVar', 1, [('PId', 2)]), a, blk, ('XIf', None, b, blk, blk)),
          ('XMatch', a, [(('PVar', 0, None), b)]), ('XMatch', a, [(('PVar', 0, None), b), (('PWild',), a)]),
          ('XLam', [], a), ('XLam', [(0, None)], a), ('XLam', [(0, None), (1, None)], a), ('XLam', [(0, ('APrim', 'PInt'))], a),
          ('XLam', [(0, None), (1, ('APrim', 'PBool')), (2, None)], a),
          blk, ('XBlock', [], None), ('XBlock', [(None, a)], None), ('XBlock', [((('PId', 3), None), b)], a),
          ('XBlock', [((('PTuple', [('PId', 3), ('PWild',)]), ('AId', 2, [])), b), (None, a)], b)]
    ks += [('XBin', o, a, b) for o in BOPS]
    return ks


def contexts():
    """every (parent constructor, child position) as a function child -> tree"""
    x, y = ('XId', 3), ('XLit', ('LInt', 4))
    blk = lambda c: ('XBlock', [], c)
    cs = [lambda c: ('XField', c, False, 1, []), lambda c: ('XField', c, False, 1, [('APrim', 'PInt')]),
          lambda c: ('XCall', c, [x]), lambda c: ('XCall', x, [c]), lambda c: ('XCall', x, [c, y]), lambda c: ('XCall', x, [y, c]),
          lambda c: ('XTuple', [c, y]), lambda c: ('XTuple', [x, c]), lambda c: ('XTuple', [x, c, y]), lambda c: ('XTuple', [y, c]),
          blk, lambda c: ('XBlock', [(None, c)], x), lambda c: ('XBlock', [(None, c)], None),
          lambda c: ('XBlock', [((('PId', 0), None), c)], x), lambda c: ('XBlock', [((('PId', 0), ('APrim', 'PInt')), c), (None, x)], None),
          lambda c: ('XUn', 'Not', c), lambda c: ('XUn', 'Neg', c),
          lambda c: ('XIf', None, c, blk(x), blk(y)), lambda c: ('XIf', None, x, blk(c), blk(y)), lambda c: ('XIf', None, x, blk(y), blk(c)),
          lambda c: ('XIf', ('PVar', 1, None), c, blk(x), blk(y)), lambda c: ('XIf', None, x, blk(y), ('XIf', None, c, blk(x), blk(y))),
          lambda c: ('XMatch', c, [(('PVar', 1, None), x)]), lambda c: ('XMatch', x, [(('PVar', 1, None), c)]),
          lambda c: ('XMatch', x, [(('PVar', 1, None), c), (('PId', 2), y)]), lambda c: ('XMatch', x, [(('PVar', 1, None), y), (('PWild',), c)]),
          lambda c: ('XLam', [(2, None)], c), lambda c: ('XLam', [], c), lambda c: ('XLam', [(2, ('APrim', 'PInt')), (3, None)], c)]
    for o in BOPS:
        cs.append(lambda c, o=o: ('XBin', o, c, x))
        cs.append(lambda c, o=o: ('XBin', o, x, c))
    return cs


def exhaustive_pairs():
    return [cx(ch) for cx in contexts() for ch in child_kinds()]


def exhaustive_triples():
    a, b, c, d = ('XId', 0), ('XLit', ('LInt', 2)), ('XId', 1), ('XLit', ('LInt', 3))
    return [('XBin', o, ('XBin', oa, a, b), ('XBin', ob, c, d)) for o in BOPS for oa in BOPS for ob in BOPS]


def pattern_cases():
    """every (parent pattern constructor, position) x child pattern constructor"""
    kids = [('PWild',), ('PId', 0), ('PTuple', [('PId', 1)]), ('PTuple', [('PId', 1), ('PWild',)]), ('PObj', [(0, None)]),
            ('PObj', [(0, ('PId', 1)), (2, None)]), ('PObj', [(0, ('PId', 0))]), ('PVar', 0, None), ('PVar', 0, [('PId', 1)]),
            ('PVar', 0, [('PWild',), ('PVar', 1, None)]), ('POr', [('PVar', 0, None), ('PVar', 1, None)]),
            ('POr', [('PId', 0), ('PWild',), ('PTuple', [('PId', 1)])])]
    ctx = [lambda c: c, lambda c: ('PTuple', [c]), lambda c: ('PTuple', [('PId', 4), c]), lambda c: ('PTuple', [c, ('PId', 4)]),
           lambda c: ('PObj', [(3, c)]), lambda c: ('PObj', [(3, c), (4, None)]), lambda c: ('PObj', [(4, None), (3, c)]),
           lambda c: ('PVar', 2, [c]), lambda c: ('PVar', 2, [c, ('PWild',)]), lambda c: ('PVar', 2, [('PWild',), c])]
    out = [cx(k) for cx in ctx for k in kids]
    singles = [k for k in kids if k[0] != 'POr']
    out += [('POr', [k, ('PId', 4)]) for k in singles] + [('POr', [('PId', 4), k]) for k in singles]
    out += [('POr', [('PId', 4), k, ('PWild',)]) for k in singles]
    return out


def annot_cases():
    kids = [('APrim', 'PUnit'), ('APrim', 'PBool'), ('APrim', 'PInt'), ('AId', 0, []), ('AGen', 7), ('AId', 1, [('APrim', 'PInt')]),
            ('AId', 1, [('AGen', 7), ('AId', 2, [])]), ('AFn', [], ('APrim', 'PInt')), ('AFn', [('APrim', 'PInt')], ('APrim', 'PUnit')),
            ('AFn', [('AGen', 7), ('AId', 0, [])], ('AGen', 8)), ('AFn', [], ('AFn', [], ('APrim', 'PInt'))),
            ('AId', 1, [('AId', 2, [('AId', 3, [])])])]
    ctx = [lambda c: c, lambda c: ('AId', 4, [c]), lambda c: ('AId', 4, [c, ('APrim', 'PInt')]), lambda c: ('AId', 4, [('APrim', 'PInt'), c]),
           lambda c: ('AFn', [c], ('APrim', 'PUnit')), lambda c: ('AFn', [c, ('AId', 0, [])], ('APrim', 'PUnit')),
           lambda c: ('AFn', [('AId', 0, []), c], ('APrim', 'PUnit')), lambda c: ('AFn', [], c), lambda c: ('AFn', [('APrim', 'PInt')], c)]
    return [cx(k) for cx in ctx for k in kids]


def expression_trees(rng, n_random, all_triples):
    """-> list of (tps, tree)"""
    out = [((), t) for t in exhaustive_pairs()]
    tr = exhaustive_triples()
    if not all_triples:
        tr = [tr[i] for i in sorted({rng.below(len(tr)) for _ in range(400)})]
    out += [((), t) for t in tr]
    # patterns and annotations in every position, inside expressions
    x = ('XId', 3)
    for p in pattern_cases():
        out.append(((), ('XMatch', x, [(p, x)])))
        out.append(((), ('XBlock', [((p, None), x)], None)))
    for i, p in enumerate(pattern_cases()):
        if i % 3 == 0:
            out.append(((), ('XIf', p, x, ('XBlock', [], x), ('XBlock', [], x))))
            out.append(((), ('XMatch', x, [(('PWild',), x), (p, x)])))
    for a in annot_cases():
        out.append(((7, 8), ('XLam', [(0, a)], x)))
        out.append(((7, 8), ('XBlock', [((('PId', 0), a), x)], None)))
        out.append(((7, 8), ('XCall', ('XField', x, False, 1, [a]), [x])))
    for i in range(n_random):
        tps = (7, 8) if i % 4 == 0 else ()
        out.append((tps, gen_fexpr(rng, 2 + i % 4, tps)))
    return out


# source texts for the parser-only tie: things the printer never emits (trailing commas, the `( id` cover paths with
# every continuation, empty statements, missing commas, one-element tuples, more than 16 elements, ...)
def parser_texts(rng, n_random):
    ids = ['v0', 'v1', 'v2']
    base = ['(1,)', '(v0,)', '(v0, v1,)', '(v0, v1,) -> v0', 'v0(1,)', 'v0(,)', 'v0()', '()', '() -> v0', '(v0)', '((v0))', '((v0)) -> v0',
            '(v0) -> v0', '(v0: int) -> v0', '(v0: int,) -> v0', '(v0, v1: int, v2) -> v0', '(v0, v1: int, v2,) -> v0', '(v0, v1: int v2) -> v0',
            '(v0, v1) -> v0', '(v0, v1)', '(v0, v1 + 1)', '(v0, v1.v2, v0)', '(v0, 1)', '(v0, (v1))', '(v0, (v1) -> v1)', '(v0 + 1)', '(v0 + 1, v1)',
            '(v0.v1(v2))', '(v0 v1)', '(v0, v1 v2)', '(v0, , v1)', '(v0,, v1)', '(v0, v1', '(v0, v1))', '(v0: ) -> v0', '(v0, this)', '(this, v0)',
            '(this)', '(C0)', '(C0, v0)', '(v0, C0)', '(v0, -v1)', '(v0, !v1, )', '(v0, v1, 2,)', '(v0 -> v1)', '(v0, v1 -> v2)', '(v0,) -> v1',
            '{ ; ; v0 }', '{ v0; ; }', '{ ;;; }', '{ }', '{ v0 v1 }', '{ let v0 = 1 }', '{ let v0 = 1; }', '{ let v0: int = 1; v0 }', '{ let = 1; }',
            'match v0 { C0 -> 1 C1 -> 2 }', 'match v0 { C0 -> 1, C1 -> 2 }', 'match v0 { C0 -> 1, C1 -> 2, }', 'match v0 { }', 'match v0 { C0 -> 1,, }',
            'match v0 { C0 -> 1 } + 2', 'match v0 { C0 -> 1, } + 2', '(match v0 { C0 -> 1 }) + 2', 'match v0 { _ -> 1, 2 -> 3 }',
            'if v0 { 1 } else { 2 }', 'if v0 { 1 }', 'if v0 { 1 } else 2', 'if v0 { 1 } else if v1 { 2 } else { 3 }', 'if let C0(v1) = v0 { 1 } else { 2 }',
            'if let v1 = v0 { 1 } else { 2 } + 1', 'v0.v1<int>(1)', 'v0.v1<int, bool>', 'v0.v1<>', 'v0.v1<int', 'v0.v1 < 1', 'v0.C1', 'v0.1', 'v0.',
            'v0.v1<C7>(1)', 'v0.v1<C1<C7>>(1)', 'v0.v1<() -> int>(1)', 'v0.v1<(int) -> (bool) -> C7>(1)', 'v0 < v1 > v2', '(v0 < v1) > v2',
            '-2147483648', '- 2147483648', '--2147483648', '1 - -2147483648', '!-1', '-!v0', '!!v0', '- -v0', '1 - - 2',
            '"a" :: "b\\"c"', 'true && false || !true', 'v0 :: v1 :: v2', '(v0, v1, v2, v0, v1, v2, v0, v1, v2, v0, v1, v2, v0, v1, v2, v0, v1)',
            '(1, v1, v2, v0, v1, v2, v0, v1, v2, v0, v1, v2, v0, v1, v2, v0, v1)', '(v0, v1, v2, v0, v1, v2, v0, v1, v2, v0, v1, v2, v0, v1, v2, v0, 1)',
            '(v0, v1, v2, v0, v1, v2, v0, v1, v2, v0, v1, v2, v0, v1, v2, 1)', '(v0, v1, v2, v0, v1, v2, v0, v1, v2, v0, v1, v2, v0, v1, v2, v0, v1) -> 1',
            '{ let (v0, v1) = v2; let { v0, v1 as C0(v2) | C1 } = v2; let _ = 1; let C0 = 2; }', '{ let (v0 | v1) = 1; }', '{ let v0 | = 1; }',
            '{ let C0() = 1; }', '{ let {} = 1; }', '{ let () = 1; }', '{ let (v0,) = 1; }', '{ let { v0, } = 1; }', '{ let C0(v0,) = 1; }',
            '{ let v0: () -> int = 1; }', '{ let v0: (int,) -> int = 1; }', '{ let v0: C0<int,> = 1; }', '{ let v0: C0<> = 1; }', '{ let v0: C7 = 1; }',
            '{ let v0: C7<int> = 1; }', '{ let v0: (C7) -> C8 = 1; }', '{ let v0: Str = 1; }']
    out = [((7, 8), t) for t in base]
    frags = ['(', ')', ',', 'v0', 'v1', '->', ':', 'int', '1', '+', '.', '{', '}', ';', 'C0', '<', '>', '-', 'let', '=', '_', '|', 'if', 'else', 'match', 'this', '!', '"s"', 'as']
    for i in range(n_random):
        n = rng.range(2, 9)
        out.append(((7, 8), ' '.join(rng.pick(frags) for _ in range(n))))
    return out


# ----------------------------------------------------------------------------------------------------------------------
# declarations and modules
#   tparam (n, None | (b, [annot]))     superty (n, [annot])
#   member (public, method, name, [tparam], [(x, annot)], ret)
#   typedef ('TDNone',) | ('TDStruct', [(public, x, annot)]) | ('TDEnum', [(n, [annot])])
#   toplevel ('TInterface', private, name, [tparam], [superty], [member])
#            ('TClass', private, name, [tparam], typedef, [superty], [(member, body)])
#   import ([n], [(upper?, n)])          module ([import], [toplevel])
# Names that take part in the printer's sorting (imported names, module path parts) are taken from 10..99 so that the
# order of the spellings C10..C99 / v10..v99 is the order of the numbers.

def g_bool(b):
    return 'true' if b else 'false'


def g_tparam(tp):
    n, b = tp
    return '(%d, %s)' % (n, g_opt(None if b is None else '(%d, %s)' % (b[0], g_list([g_annot(a) for a in b[1]]))))


def g_member(m):
    pub, meth, name, tps, params, ret = m
    return ('{| m_public := %s; m_method := %s; m_name := %d; m_tparams := %s; m_params := %s; m_ret := %s |}'
            % (g_bool(pub), g_bool(meth), name, g_list([g_tparam(t) for t in tps]),
               g_list(['(%d, %s)' % (x, g_annot(a)) for x, a in params]), g_annot(ret)))


def g_supers(sup):
    return g_list(['(%d, %s)' % (n, g_list([g_annot(a) for a in tas])) for n, tas in sup])


def g_typedef(td):
    if td[0] == 'TDNone':
        return 'TDNone'
    if td[0] == 'TDStruct':
        return '(TDStruct %s)' % g_list(['(%s, %d, %s)' % (g_bool(p), x, g_annot(a)) for p, x, a in td[1]])
    return '(TDEnum %s)' % g_list(['(%d, %s)' % (n, g_list([g_annot(a) for a in tys])) for n, tys in td[1]])


def g_toplevel(t):
    if t[0] == 'TInterface':
        _, priv, name, tps, sup, ms = t
        return '(TInterface %s %d %s %s %s)' % (g_bool(priv), name, g_list([g_tparam(x) for x in tps]), g_supers(sup),
                                                g_list([g_member(m) for m in ms]))
    _, priv, name, tps, td, sup, ms = t
    return '(TClass %s %d %s %s %s %s)' % (g_bool(priv), name, g_list([g_tparam(x) for x in tps]), g_typedef(td), g_supers(sup),
                                           g_list(['(%s, %s)' % (g_member(m), g_fexpr(b)) for m, b in ms]))


def g_import(i):
    ms, parts = i
    return '(%s, %s)' % (g_list([str(n) for n in ms]), g_list(['(%s, %d)' % (g_bool(u), n) for u, n in parts]))


def g_module(m):
    return '(%s, %s)' % (g_list([g_import(i) for i in m[0]]), g_list([g_toplevel(t) for t in m[1]]))


def tparams_from_json(j):
    out = []
    for name, b in (j or []):
        out.append((num(name, 'C'), None if b is None else (num(b[2], 'C'), [annot_from_json(a) for a in (b[3] or [])])))
    return out


def supers_from_json(j):
    return [(num(s[2], 'C'), [annot_from_json(a) for a in (s[3] or [])]) for s in (j or [])]


def member_from_json(j):
    return (bool(j['public']), bool(j['method']), num(j['name'], 'v'), tparams_from_json(j['tparams']),
            [(num(x, 'v'), annot_from_json(a)) for x, a in j['params']], annot_from_json(j['ret']))


def module_from_json(raw):
    """the harness' raw dump (fmt_run.rs dump_module_raw) -> model tree; ValueError outside the model"""
    imps = []
    for ms, parts in raw['imports']:
        ps = []
        for p in parts:
            isup = p[:1] == 'C'
            ps.append((isup, num(p, 'C' if isup else 'v')))
        imps.append(([num(n, 'C') for n in ms], ps))
    tops = []
    for t in raw['toplevels']:
        tps = tparams_from_json(t['tparams'])
        sup = supers_from_json(t['supers'])
        if t['kind'] == 'interface':
            tops.append(('TInterface', bool(t['private']), num(t['name'], 'C'), tps, sup, [member_from_json(m) for m in t['members']]))
        else:
            td = t['typedef']
            if td is None:
                d = ('TDNone',)
            elif td[0] == 'struct':
                d = ('TDStruct', [(bool(p), num(x, 'v'), annot_from_json(a)) for p, x, a in td[1]])
            else:
                d = ('TDEnum', [(num(n, 'C'), [annot_from_json(a) for a in (tys or [])]) for n, tys in td[1]])
            tops.append(('TClass', bool(t['private']), num(t['name'], 'C'), tps, d, sup,
                         [(member_from_json(m), from_json(b)) for m, b in t['members']]))
    return (imps, tops)


# ---- source text of a model tree (conservative parentheses; the trees are only used to produce syntactically valid text)

def src_annot(a):
    k = a[0]
    if k == 'APrim':
        return PRIM_JSON[a[1]]
    if k == 'AGen':
        return up(a[1])
    if k == 'AId':
        return up(a[1]) + ('<' + ', '.join(src_annot(x) for x in a[2]) + '>' if a[2] else '')
    return '(' + ', '.join(src_annot(x) for x in a[1]) + ') -> ' + src_annot(a[2])


def src_pat(p):
    k = p[0]
    if k == 'PWild':
        return '_'
    if k == 'PId':
        return low(p[1])
    if k == 'PTuple':
        return '(' + ', '.join(src_pat(x) for x in p[1]) + ')'
    if k == 'PObj':
        return '{ ' + ', '.join(low(f) if q is None else '%s as %s' % (low(f), src_pat(q)) for f, q in p[1]) + ' }'
    if k == 'PVar':
        return up(p[1]) + ('' if p[2] is None else '(' + ', '.join(src_pat(x) for x in p[2]) + ')')
    return ' | '.join(src_pat(x) for x in p[1])


def src_block(ss, r):
    parts = []
    for bd, x in ss:
        if bd is None:
            parts.append(src_expr(x) + ';')
        else:
            parts.append('let %s%s = %s;' % (src_pat(bd[0]), '' if bd[1] is None else ': ' + src_annot(bd[1]), src_expr(x)))
    if r is not None:
        parts.append(src_expr(r))
    return '{ ' + ' '.join(parts) + ' }'


def src_operand(e):
    """e in an operand position: everything but atoms, tuples and blocks is parenthesised"""
    if e[0] in ('XId', 'XThis', 'XCls', 'XTuple', 'XBlock') or (e[0] == 'XLit' and not (e[1][0] == 'LInt' and e[1][1] < 0)):
        return src_expr(e)
    return '(' + src_expr(e) + ')'


def src_expr(e):
    k = e[0]
    if k == 'XLit':
        l = e[1]
        if l[0] == 'LInt':
            return str(l[1])
        if l[0] == 'LBool':
            return 'true' if l[1] else 'false'
        return '"' + l[1].replace('"', '\\"') + '"'
    if k == 'XId':
        return low(e[1])
    if k == 'XThis':
        return 'this'
    if k == 'XCls':
        return up(e[1])
    if k == 'XTuple':
        return '(' + ', '.join(src_expr(x) for x in e[1]) + ')'
    if k == 'XField':
        return src_operand(e[1]) + '.' + (up(e[3]) if e[2] else low(e[3])) + ('<' + ', '.join(src_annot(x) for x in e[4]) + '>' if e[4] else '')
    if k == 'XCall':
        return (src_operand(e[1]) if e[1][0] != 'XField' else src_expr(e[1])) + '(' + ', '.join(src_expr(x) for x in e[2]) + ')'
    if k == 'XUn':
        return ('!' if e[1] == 'Not' else '-') + src_operand(e[2])
    if k == 'XBin':
        return src_operand(e[2]) + ' ' + BOP_STR[e[1]] + ' ' + src_operand(e[3])
    if k == 'XIf':
        cond = src_expr(e[2]) if e[1] is None else 'let %s = %s' % (src_pat(e[1]), src_expr(e[2]))
        return 'if %s %s else %s' % (cond, src_expr(e[3]), src_expr(e[4]))
    if k == 'XMatch':
        return 'match %s { %s }' % (src_expr(e[1]), ', '.join('%s -> %s' % (src_pat(p), src_expr(b)) for p, b in e[2]))
    if k == 'XLam':
        return '(%s) -> %s' % (', '.join(low(x) + ('' if a is None else ': ' + src_annot(a)) for x, a in e[1]), src_operand(e[2]))
    if k == 'XBlock':
        return src_block(e[1], e[2])
    raise ValueError(k)


def src_tparams(tps):
    if not tps:
        return ''
    return '<' + ', '.join(up(n) + ('' if b is None else ': ' + up(b[0]) + ('<' + ', '.join(src_annot(a) for a in b[1]) + '>' if b[1] else ''))
                           for n, b in tps) + '>'


def src_supers(sup):
    if not sup:
        return ''
    return ' : ' + ', '.join(up(n) + ('<' + ', '.join(src_annot(a) for a in tas) + '>' if tas else '') for n, tas in sup)


def src_member(m, body=None):
    pub, meth, name, tps, params, ret = m
    s = ('' if pub else 'private ') + ('method ' if meth else 'function ') + (src_tparams(tps) + ' ' if tps else '') + low(name)
    s += '(' + ', '.join('%s: %s' % (low(x), src_annot(a)) for x, a in params) + '): ' + src_annot(ret)
    if body is not None:
        s += ' = ' + src_expr(body)
    return s


def src_toplevel(t):
    if t[0] == 'TInterface':
        _, priv, name, tps, sup, ms = t
        return '%sinterface %s%s%s { %s }' % ('private ' if priv else '', up(name), src_tparams(tps), src_supers(sup),
                                              ' '.join(src_member(m) for m in ms))
    _, priv, name, tps, td, sup, ms = t
    if td[0] == 'TDNone':
        d = ''
    elif td[0] == 'TDStruct':
        d = '(' + ', '.join(('' if p else 'private ') + 'val %s: %s' % (low(x), src_annot(a)) for p, x, a in td[1]) + ')'
    else:
        d = '(' + ', '.join(up(n) + ('(' + ', '.join(src_annot(a) for a in tys) + ')' if tys else '') for n, tys in td[1]) + ')'
    return '%sclass %s%s%s%s { %s }' % ('private ' if priv else '', up(name), src_tparams(tps), d, src_supers(sup),
                                        '\n  '.join(src_member(m, b) for m, b in ms))


def src_module(m, rng=None):
    out = []
    for ms, parts in m[0]:
        semi = ';' if (rng is None or rng.chance(2, 3)) else ''
        out.append('import { %s } from %s%s' % (', '.join(up(n) for n in ms), '.'.join((up(n) if u else low(n)) for u, n in parts), semi))
    out += [src_toplevel(t) for t in m[1]]
    return '\n'.join(out) + '\n'


# ---- generators

def gen_tparams(rng, avail_after_pool=(7, 8, 9)):
    k = rng.below(4)
    if k == 0:
        return []
    names = list(avail_after_pool)[:rng.range(1, 3)]
    out = []
    for n in names:
        if rng.chance(1, 3):
            # bound: an identifier with type arguments that mention the parameters (fixed up after the list is complete)
            tas = [rng.pick([('AId', x, []) for x in names] + [('APrim', 'PInt'), ('AId', 1, [('AId', names[0], [])]),
                             ('AFn', [('AId', names[0], [])], ('AId', names[-1], []))]) for _ in range(rng.below(3))]
            out.append((n, (rng.below(6), tas)))
        else:
            out.append((n, None))
    return out


def gen_member(rng, depth, class_tps):
    meth = rng.chance(1, 2)
    tps = gen_tparams(rng, (17, 18))
    avail = tuple((class_tps if meth else ())) + tuple(n for n, _ in tps)
    params = [(x, gen_annot(rng, 2, avail)) for x in rng.shuffle([0, 1, 2, 3])[:rng.below(4)]]
    m = (not rng.chance(1, 5), meth, rng.below(30), tps, params, gen_annot(rng, 2, avail))
    return m, avail


def gen_toplevel(rng, depth):
    tps = gen_tparams(rng)
    ctp = tuple(n for n, _ in tps)
    sup = [(rng.below(6), [gen_annot(rng, 1, ctp) for _ in range(rng.below(3))]) for _ in range(rng.below(3))]
    name = rng.below(40)
    if rng.chance(1, 4):
        ms = []
        for _ in range(rng.below(4)):
            m, _ = gen_member(rng, depth, ctp)
            ms.append((True,) + m[1:])
        return ('TInterface', rng.chance(1, 4), name, tps, sup, ms)
    r = rng.below(4)
    if r == 0:
        td = ('TDNone',)
    elif r < 3:
        td = ('TDStruct', [(not rng.chance(1, 3), x, gen_annot(rng, 1, ctp)) for x in rng.shuffle([0, 1, 2, 3, 4])[:rng.range(1, 4)]])
    else:
        td = ('TDEnum', [(n, [gen_annot(rng, 1, ctp) for _ in range(rng.below(3))]) for n in rng.shuffle([0, 1, 2, 3])[:rng.range(1, 3)]])
    ms = []
    for _ in range(rng.below(4)):
        m, avail = gen_member(rng, depth, ctp)
        ms.append((m, gen_fexpr(rng, depth, avail)))
    return ('TClass', rng.chance(1, 4), name, tps, td, sup, ms)


def gen_modname(rng):
    return [(rng.chance(1, 4), rng.range(10, 14)) for _ in range(rng.range(1, 3))]


def gen_module_tree(rng, depth, conflicts=False):
    """conflicts=False: no name is imported from two different modules (outside the open class K7)"""
    mods = []
    for _ in range(rng.below(4)):
        m = gen_modname(rng)
        if m not in mods:
            mods.append(m)
    pool = rng.shuffle(list(range(10, 40)))
    imps = []
    for m in mods:
        for _ in range(rng.range(1, 2)):
            k = rng.range(1, 3)
            if conflicts:
                names = [rng.range(10, 16) for _ in range(k)]
            else:
                names, pool = pool[:k], pool[k:]
            imps.append((names, m))
    if imps and rng.chance(1, 2):
        imps = rng.shuffle(imps)
    return (imps, [gen_toplevel(rng, depth) for _ in range(rng.range(0, 3))])


def module_texts():
    """hand-written sources for the parser tie of declarations: optional parts, errors, limits"""
    return ['', 'class C1 { }', 'class C1 {}\nclass C2 {}', 'private class C1 { }', 'private interface C1 { }', 'interface C1 : C2, C3<int> { }',
            'interface C1 { private method v1(): unit }', 'interface C1 { method v1(): unit = 1 }', 'class C1 { method v1(): unit }',
            'class C1() { }', 'class C1(val v1: int) { }', 'class C1(private val v1: int, val v2: C2<C3>) : C4 { }', 'class C1(val v1: int,) { }',
            'class C1(C2, C3(int), C4(int, bool),) { }', 'class C1(C2()) { }', 'class C1(C2, val v1: int) { }', 'class C1<> { }', 'class C1<C7> { }',
            'class C1<C7, C8: C2<C7>, C9: C2<C3<C7>>> { method v1(v2: C7, v3: C3<C8>): C9 = v2 function v4(v2: C7): C7 = v2 function <C7> v5(v2: C7): C7 = v2 }',
            'class C1<C7: C2<(C7) -> C8>, C8> { }', 'class C1<C7,> { }', 'class C1 : C2, { }', 'class C1 : { }', 'class C1<C7>(val v1: C7) : C2<C7> { method <C8: C3<C8, C7>> v1(): C8 = 1 }',
            'import { C10 } from v10\nclass C1 { }', 'import { C10, C11 } from v10.C11.v12;\nimport { C12, } from C13\n', 'import { } from v10', 'import { C10 } from', 'import { C10 } v10',
            'import { C10 } from v10.;', 'import { v10 } from v10', 'class C1 { } import { C10 } from v10', 'import { C10 } from v10;;', 'class C1 { } ;', 'class C1 { function v1(): unit = { } } }',
            'class C1 { function v1(v2: int, v3: bool,): unit = 1 }', 'class C1 { function v1(,): unit = 1 }', 'class C1 { function v1() = 1 }', 'class C1 { function v1(): unit = 1 function v2(): unit = 2 }',
            'class C1 { private function v1(): unit = (v2) -> v2 method v3(): unit = 1 }', 'class C1 { function v1(): unit = v2 (v3) }', 'class C1 { function v1(): unit = v2 < v3 }',
            'class C1(val v0: int, val v1: int, val v2: int, val v3: int, val v4: int, val v5: int, val v6: int, val v7: int, val v8: int, val v9: int, val v10: int, val v11: int, '
            'val v12: int, val v13: int, val v14: int, val v15: int) { }',
            'class C1(val v0: int, val v1: int, val v2: int, val v3: int, val v4: int, val v5: int, val v6: int, val v7: int, val v8: int, val v9: int, val v10: int, val v11: int, '
            'val v12: int, val v13: int, val v14: int, val v15: int, val v16: int) { }',
            'import { C10 } from v10\nimport { C10 } from v11\nclass C1 { function v1(): C10 = C10.v2() }', 'import { C11, C10 } from v12\nimport { C12 } from v11\nimport { C13, C10 } from v12\n']
