"""Edit histories for the language server (C10, C11): modules whose diagnostics depend on each
other's signatures directly (imports) and transitively (types that flow through signatures)."""
import re


TYPES = ['int', 'Str', 'bool']
LIT = {'int': '1', 'Str': '"s"', 'bool': 'true'}
LONG = 'aVeryLongIdentifierNameThatLivesInTheHeapTable'   # > 15 bytes: interned, subject to GC


LONG_CLS = [False]


def cls(m):
    return ('CaVeryLongClassNameThatIsInterned' if LONG_CLS[0] else 'C') + m[1:]


def module_text(rng, name, universe, long_ids=False):
    """One version of module `name`. universe: candidate module names to import from."""
    r = rng.below(100)
    if r < 4:
        return rng.pick(['class {', '}}}} import', 'class %s { function f(): int = "unterminated }' % cls(name), '', '/* open comment'])
    t = rng.pick(TYPES)
    others = [m for m in universe if m != name]
    k = rng.pick([0, 1, 1, 2, 2, 3])
    imps = rng.shuffle(others)[:k]
    lines = []
    for m in imps:
        what = cls(m)
        if rng.chance(1, 12):
            what = 'Nope'                       # not exported
        lines.append('import { %s } from %s%s' % (what, m, rng.pick([';', ';', ''])))
    if rng.chance(1, 15):
        lines.append('import { %s } from %s;' % (cls(name), name))       # self import
    if rng.chance(1, 15):
        lines.append('import { Ghost } from Missing;')                    # missing module
    c = cls(name)
    priv = 'private ' if rng.chance(1, 15) else ''
    v = (LONG + name) if long_ids else rng.pick(['v', 'v', 'v', 'w'])           # the field's name may change between versions
    fpriv = 'private ' if (not long_ids and rng.chance(1, 8)) else ''            # ... and its visibility
    body = []
    # documentation comments on declarations that other modules refer to (hover on a use elsewhere shows them); how many
    # a module has varies, so that comment indices of one module are out of range for another
    dr = rng.fork()

    def doc(what):
        if dr.chance(1, 2):
            body.append('  /** documentation of %s in %s */' % (what, name))
    doc('make')
    body.append('  function make(): %s = %s.init(%s)' % (c, c, LIT[t] if not rng.chance(1, 10) else LIT[rng.pick(TYPES)]))
    doc('get')
    body.append('  method get(): %s = this.%s' % (t, v))
    doc('f')
    body.append('  function f(): %s = %s' % (t, LIT[t] if not rng.chance(1, 8) else LIT[rng.pick(TYPES)]))
    if rng.chance(1, 2):
        # uses of the built-in classes (their signatures live in the root module's entry of the global signature)
        body.append('  function show(): Str = Str.fromInt(1) :: "s"')
        body.append('  function say(): unit = Process.println(%s.show())' % c)
    class_doc = '/** documentation of class %s */\n' % c if dr.chance(1, 2) else ''
    field_doc = '/** documentation of the field */ ' if dr.chance(1, 2) else ''
    for m in imps:
        cm = cls(m)
        u = rng.below(100)
        fn = (LONG + 'Fn' + m) if long_ids else 'u' + m
        if u < 40:
            body.append('  function %s(): int = %s.f()' % (fn, cm))
        elif u < 60:
            body.append('  function %s(): %s = %s.make()' % ('via', cm, cm))
        elif u < 70:
            body.append('  function %s(): int = %s.via().get()' % (fn, cm))
        elif u < 80:
            # direct field access: depends on the imported class's field name and visibility, not on any member signature
            body.append('  function %s(): %s = %s.make().v' % (fn, rng.pick(TYPES), cm))
        else:
            body.append('  function %s(): %s = %s.make().get()' % (fn, rng.pick(TYPES), cm))
    extra_decls = ''
    if long_ids:
        # strings that are reachable through exactly one kind of syntax node each, so that a marker that
        # forgets one traversal is observable once the collector has run
        u = '%s%d' % (name, rng.below(1000))
        body.append('  /** a documentation comment with a unique word docword%s that is long enough */' % u)
        body.append('  function localsOf%sWithAVeryLongFunctionName(parameterWithAVeryLongName%s: int): int = {' % (u, u))
        body.append('    // a line comment with a unique word lineword%s that is long enough to be interned' % u)
        body.append('    let localVariableWithAVeryLongName%s = parameterWithAVeryLongName%s + 1;' % (u, u))
        body.append('    /* a block comment with a unique word blockword%s that is long enough */' % u)
        body.append('    let lambdaHolder%s = (lambdaParameterWithAVeryLongName%s: int) -> lambdaParameterWithAVeryLongName%s * 2;' % (u, u, u))
        body.append('    let _ = "a string literal that is unique %s and long enough to be interned";' % u)
        body.append('    lambdaHolder%s(localVariableWithAVeryLongName%s)' % (u, u))
        body.append('  }')
        body.append('  function <TypeParameterWithAVeryLongName%s> identityOf%s(valueOf%s: TypeParameterWithAVeryLongName%s): TypeParameterWithAVeryLongName%s = valueOf%s' % (u, u, u, u, u, u))
        extra_decls = ('\ninterface InterfaceWithAVeryLongName%s { method methodWithAVeryLongNameInInterface%s(): int }\n'
                       'class EnumWithAVeryLongName%s(VariantWithAVeryLongNameOne%s(int), VariantWithAVeryLongNameTwo%s) {\n'
                       '  method matchOn%s(): int = match this { VariantWithAVeryLongNameOne%s(patternBinderWithAVeryLongName%s) -> patternBinderWithAVeryLongName%s, VariantWithAVeryLongNameTwo%s -> 0 }\n}\n'
                       % (u, u, u, u, u, u, u, u, u, u))
    text = '\n'.join(lines) + '\n\n%s%sclass %s(%s%sval %s: %s) {\n%s\n}\n' % (class_doc, priv, c, field_doc, fpriv, v, t, '\n'.join(body)) + extra_decls
    if rng.chance(1, 10):
        # a recoverable syntax error somewhere inside
        text = text.replace('): int =', ') int =', 1) if '): int =' in text else text + '\nclass'
    return text


def gen_history(rng, nmods=5, nsteps=10, long_ids=False):
    LONG_CLS[0] = bool(long_ids)
    try:
        return _gen_history(rng, nmods, nsteps, long_ids)
    finally:
        LONG_CLS[0] = False


def _gen_history(rng, nmods, nsteps, long_ids):
    universe = ['M%d' % i for i in range(nmods)]
    extra = ['M%d' % i for i in range(nmods, nmods + 3)]
    init = {}
    for m in universe:
        if rng.chance(5, 6):
            init[m] = module_text(rng, m, universe, long_ids)
    ops = []
    live = set(init)
    texts = dict(init)           # current text per module name (for edits that change one detail of the current version)
    for _ in range(rng.range(2, nsteps)):
        r = rng.below(100)
        small = [m for m in sorted(live) if m in texts and re.search(r'val [vw]: ', texts[m])]
        same = [m for m in sorted(live) if m in texts]
        if same and rng.chance(1, 6):
            # the client sends a document again with exactly the text the server already has (save without change): nothing
            # may be lost, in particular not the syntax errors of that text
            k = rng.pick([1, 1, 2])
            ms = rng.shuffle(same)[:k]
            ops.append({'op': 'update', 'mods': [[m, texts[m]] for m in ms]})
            continue
        if small and rng.chance(1, 5):
            # an edit that leaves every member signature as it is: the field is renamed, or made private / public
            m = rng.pick(small)
            t = texts[m]
            kind = rng.below(3)
            if kind == 0:
                old_f, new_f = ('v', 'w') if 'val v: ' in t else ('w', 'v')
                t2 = t.replace('val %s: ' % old_f, 'val %s: ' % new_f).replace('this.%s' % old_f, 'this.%s' % new_f)
            elif kind == 1:
                t2 = t.replace('private val ', 'val ') if 'private val ' in t else re.sub(r'val ([vw]): ', r'private val \1: ', t, count=1)
            else:
                t2 = re.sub(r'function f\(\): (\w+) = ', lambda mm: 'function f(): %s = ' % mm.group(1), t) + '\n// touched\n'
            ops.append({'op': 'update', 'mods': [[m, t2]]})
            texts[m] = t2
            continue
        if r < 60 or not live:
            k = rng.pick([1, 1, 1, 2])
            ms = rng.shuffle(universe + extra[:1])[:k]
            mods = [[m, module_text(rng, m, universe + extra[:1], long_ids)] for m in ms]
            if rng.chance(1, 10):
                # the same module twice in one batch: only its last text counts
                m = mods[0][0]
                mods.insert(0, [m, rng.pick(['class {', 'class %s { function f(): int = "unterminated }' % cls(m),
                                             module_text(rng, m, universe, long_ids)])])
            ops.append({'op': 'update', 'mods': mods})
            live.update(ms)
            for mm_, tt_ in mods:
                texts[mm_] = tt_
        elif r < 80:
            a = rng.pick(sorted(live) + universe[:1])
            b = rng.pick(extra + universe)
            ops.append({'op': 'rename', 'pairs': [[a, b]]})
            if a in live:
                live.discard(a)
                live.add(b)
                if a in texts:
                    texts[b] = texts.pop(a)
        else:
            k = rng.pick([1, 1, 2])
            ms = rng.shuffle(sorted(live) + universe[:1])[:k]
            ops.append({'op': 'remove', 'mods': ms})
            for m in ms:
                live.discard(m)
                texts.pop(m, None)
    return {'init': init, 'ops': ops}
