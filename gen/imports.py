"""C16 — workspaces whose main document uses a class it does not import (DESIGN.md section 4, C16).

A *layout* fixes everything about the main document except the name of the unresolved class: what
precedes the first import, every existing import (style, trailing `;`, what follows on the same line,
what separates it from the next item), the comments in front of the first class, and the body.
`render(layout, cls)` gives the document text for one candidate class; `grid()` enumerates the import
area systematically (the last import decides where the server inserts), `random_layout` fills the rest.

Every library class has `function make(): int`, so the document is well typed once the class is
imported, whichever exporting module is chosen.
"""
from gen.rng import Rng

DOC = 'App.Main'

# module -> exported classes (all with `function make(): int`)
LIBS = {
    'Lib.A': ['Foo', 'Bar'],
    'Lib.B': ['Foo', 'Other'],
    'Deep.Nested.C': ['Baz'],
    'Q': ['Qux', 'Quux'],
    'std.extra': ['Sx'],          # a provider under the `std` namespace (imported like any other module)
}
# candidate unresolved classes and the modules that export them
CANDIDATES = {'Foo': ['Lib.A', 'Lib.B'], 'Baz': ['Deep.Nested.C'], 'Qux': ['Q'], 'Sx': ['std.extra']}
# classes an existing import may bring in (never a candidate)
HELPERS = [('Bar', 'Lib.A'), ('Other', 'Lib.B'), ('Quux', 'Q')]


def lib_text(mod, rng=None, without=None):
    out = []
    for i, c in enumerate(LIBS[mod]):
        if c == without:
            continue
        if c in ('Bar',):
            out.append('class %s(val n: int) {\n  function make(): int = %d\n  method get(): int = this.n\n}\n' % (c, i + 1))
        elif c in ('Other',):
            out.append('/** %s of %s */\nclass %s {\n  function make(): int = %d\n}\n' % (c, mod, c, i + 10))
        else:
            out.append('class %s {\n  function make(): int = %d\n}\n' % (c, i + 20))
    return '\n'.join(out)


# a module with PRIVATE classes spelled like the candidates: it exports nothing, so no proposal may name it
PRIVATE_LIB = 'Hidden.P'


def lib_sources():
    src = {m: lib_text(m) for m in LIBS}
    src[PRIVATE_LIB] = ''.join('private class %s {\n  function make(): int = 99\n}\n' % c for c in sorted(CANDIDATES))
    return src


# ------------------------------------------------------------------ layout pieces

PRE = ['', '\n', '\n\n\n', '// header\n', '/* header\n * block */\n', '/** file doc */\n', '   ', '// one\n\n// two\n']
STYLES = ['spaced', 'compact', 'multi', 'trailing_comma', 'inner_comment', 'tight']
# what follows an import on its own line (before the line break)
TRAILERS = ['', ' // trailing note', ' /* block */', ' /* multi\n   line */', '   ', ' // a // b', ' /** doc */']
# a `;` may itself be preceded by blanks or a comment
SEMIS = [';', ' ;', ' /* c */;', '\n;']
SEPS = ['\n', '\n\n', '\n// between\n', '\n/* between */\n', '\n/** doc between */\n', '\n\n\n// a\n// b\n\n', ' ']
# in front of the first class (after the last separator)
CLASS_LEAD = ['', '// about Main\n', '/** Main doc */\n', '/* block */ ', '\n']


def import_text(members, module, style):
    if style == 'spaced':
        return 'import { %s } from %s' % (', '.join(members), module)
    if style == 'compact':
        return 'import {%s} from %s' % (','.join(members), module)
    if style == 'tight':
        return 'import{%s}from %s' % (','.join(members), module)
    if style == 'multi':
        return 'import {\n  %s\n} from %s' % (',\n  '.join(members), module)
    if style == 'trailing_comma':
        return 'import { %s, } from %s' % (', '.join(members), module)
    if style == 'inner_comment':
        return 'import { /* pick */ %s } from /* m */ %s' % (', '.join(members), module)
    raise ValueError(style)


def render(layout, cls, use_name=None):
    """Document text for candidate class `cls`; `use_name` = the identifier actually typed at the use sites."""
    name = use_name or cls
    parts = [layout['pre']]
    for imp in layout['imports']:
        members = list(imp['members'])
        module = imp['module']
        if module == '@same':       # existing import of another class from a module that exports cls
            module = CANDIDATES[cls][0]
            members = [c for c in LIBS[module] if c != cls][:1] or ['Bar']
            if not [c for c in LIBS[module] if c != cls]:
                module, members = 'Lib.A', ['Bar']
        elif module == '@wrong':    # `import { cls } from M` where M exists but has no cls
            module = [m for m in sorted(LIBS) if cls not in LIBS[m]][0]
            members = [cls]
        parts.append(import_text(members, module, imp['style']))
        parts.append(imp['semi'] or '')
        parts.append(imp['trailer'])
        parts.append(imp['sep'])
    parts.append(layout['class_lead'])
    parts.append(layout['body'].replace('@T', name))
    return ''.join(parts)


BODIES = [
    'class Main {\n  function main(): int = @T.make()\n}\n',
    'class Main {\n  function main(): int = @T.make() + @T.make()\n}\n',
    '/** doc of Util */\nclass Util {\n  // inner comment\n  function two(): int = 2\n}\n\nclass Main {\n  function main(): int = Util.two() * @T.make()\n}\n',
    'interface Shape {\n  method area(): int\n}\n\nclass Main(val k: int) : Shape {\n  method area(): int = this.k + @T.make()\n  function main(): int = Main.init(1).area()\n}\n',
    'class Main {\n  function helper(x: int): int = {\n    let y = @T.make(); // note\n    x + y\n  }\n  function main(): int = Main.helper(1)\n}\n// the end\n',
    'private class P {\n  function p(): int = 1\n}\nclass Main {\n  function main(): int = if P.p() == 1 { @T.make() } else { 0 }\n}\n',
]


def body_with_helpers(rng, imports):
    """A body; classes brought in by existing imports are used so that those imports matter."""
    b = rng.pick(BODIES)
    used = []
    for imp in imports:
        if imp['module'] not in ('@same', '@wrong'):
            used += imp['members']
    if used and rng.chance(2, 3):
        extra = 'class UsesImports {\n  function all(): int = %s\n}\n\n' % ' + '.join('%s.make()' % u for u in used)
        b = extra + b
    return b


def mk_import(members, module, style='spaced', semi=None, trailer='', sep='\n'):
    return {'members': members, 'module': module, 'style': style, 'semi': semi, 'trailer': trailer, 'sep': sep}


def random_import(rng, pool):
    if rng.chance(1, 5):
        members, module = ['X'], '@same'
    elif rng.chance(1, 7):
        members, module = ['X'], '@wrong'     # the candidate itself, imported from a module that does not export it
    else:
        c, m = rng.pick(pool)
        members, module = [c], m
    semi = rng.pick(SEMIS) if rng.chance(1, 2) else None
    return mk_import(members, module, rng.pick(STYLES), semi, rng.pick(TRAILERS), rng.pick(SEPS))


def random_layout(rng):
    n = rng.pick([0, 0, 1, 1, 1, 2, 2, 3])
    pool = list(HELPERS)
    imports = []
    for _ in range(n):
        imp = random_import(rng, pool)
        if imp['module'] not in ('@same', '@wrong'):
            pool = [p for p in pool if p[0] != imp['members'][0]] or list(HELPERS)
        imports.append(imp)
    # no duplicate member names (a collision error would be unrelated noise)
    seen, uniq = set(), []
    for imp in imports:
        key = tuple(imp['members']) if imp['module'] not in ('@same', '@wrong') else (imp['module'],)
        if key in seen:
            continue
        seen.add(key)
        uniq.append(imp)
    imports = uniq
    for imp in imports:
        # `import ... from M<blank>import` on one line needs the `;` or at least the blank to stay lexable
        if imp['sep'] == ' ' and imp['trailer'].lstrip().startswith('//'):
            imp['sep'] = '\n'
    lay = {'pre': rng.pick(PRE), 'imports': imports, 'class_lead': rng.pick(CLASS_LEAD), 'body': None, 'kind': 'random'}
    if lay['pre'].strip(' ') == '' and lay['pre'] != '' and not imports:
        pass
    lay['body'] = body_with_helpers(rng, imports)
    return lay


def grid():
    """Systematic sweep of the import area: number of imports x last import's `;` x what follows it on its
    line x what separates it from the first class; what precedes the first import rotates (it only matters
    with zero imports, where every combination is taken).  The body is fixed and small."""
    out = []
    body = BODIES[0]
    pres = ('', '// header\n', '\n\n')
    for pre in pres:
        for lead in CLASS_LEAD:
            out.append({'pre': pre, 'imports': [], 'class_lead': lead, 'body': body, 'kind': 'grid'})
    k = 0
    for n in (1, 2, 3):
        for semi in (None, ';'):
            for trailer in TRAILERS:
                for sep, lead in (('\n', ''), ('\n\n', '/** Main doc */\n'), ('\n// between\n', ''), (' ', '')):
                    if sep == ' ' and trailer.lstrip().startswith('//'):
                        continue
                    k += 1
                    if n == 1:
                        imports = [mk_import(['Bar'], 'Lib.A', 'spaced', semi, trailer, sep)]
                    elif n == 2:    # the last one imports another class from a module that exports the candidate
                        imports = [mk_import(['Other'], 'Lib.B', 'spaced', ';' if k % 2 else None, '', '\n'),
                                   mk_import(['X'], '@same', 'spaced', semi, trailer, sep)]
                    else:
                        imports = [mk_import(['Bar'], 'Lib.A', 'compact', ';', '', '\n'),
                                   mk_import(['Other'], 'Lib.B', 'spaced', None, ' // second', '\n\n'),
                                   mk_import(['Quux'], 'Q', 'spaced', semi, trailer, sep)]
                    out.append({'pre': pres[k % 3], 'imports': imports, 'class_lead': lead, 'body': body, 'kind': 'grid'})
    return out


# ------------------------------------------------------------------ histories

def history_for(rng, layout, cls, final_text):
    """Update batches (module -> text) applied after the server was started on `initial`;
    returns (initial sources, batches).  The texts after the last batch are always the final ones."""
    final = lib_sources()
    final[DOC] = final_text
    kind = rng.pick(['none', 'none', 'doc-late', 'lib-late', 'syntax-then-fix', 'relayout', 'touch-lib', 'many'])
    init = dict(final)
    batches = []
    exporting = CANDIDATES[cls][0]
    if kind == 'doc-late':
        init[DOC] = 'class Main {\n  function main(): int = 0\n}\n'
        batches = [{DOC: final_text}]
    elif kind == 'lib-late':
        for m in CANDIDATES[cls]:
            init[m] = lib_text(m, without=cls)
        batches = [{m: final[m]} for m in CANDIDATES[cls]]
    elif kind == 'syntax-then-fix':
        init[DOC] = final_text.replace('class Main', 'class class Main {', 1)
        batches = [{DOC: final_text[: len(final_text) // 2]}, {DOC: final_text}]
    elif kind == 'relayout':
        other = random_layout(rng)
        init[DOC] = render(other, cls)
        batches = [{DOC: render(random_layout(rng), cls)}, {DOC: final_text}]
    elif kind == 'touch-lib':
        batches = [{exporting: final[exporting] + '\n// touched\n'}, {exporting: final[exporting]}]
    elif kind == 'many':
        init[DOC] = ''
        batches = [{DOC: 'import { %s } from %s\n' % (cls, exporting) + final_text},   # resolved for a while
                   {exporting: lib_text(exporting, without=cls)},
                   {exporting: final[exporting], DOC: final_text}]
    return kind, init, batches


def jobs_for(layout, idx, rng, with_history):
    """One job per candidate class (+ sometimes a typed-prefix variant for completion)."""
    out = []
    for cls in sorted(CANDIDATES):
        text = render(layout, cls)
        hk, init, batches = ('none', None, [])
        if with_history:
            hk, init, batches = history_for(rng, layout, cls, text)
        if init is None:
            init = lib_sources()
            init[DOC] = text
        out.append({'id': '%d/%s' % (idx, cls), 'sources': init, 'history': batches, 'doc': DOC,
                    'cls': cls, 'use_name': cls, 'text': text, 'layout': layout, 'history_kind': hk})
    if rng.chance(1, 4):
        cls = rng.pick(sorted(CANDIDATES))
        name = cls[:-1]
        text = render(layout, cls, use_name=name)
        init = lib_sources()
        init[DOC] = text
        out.append({'id': '%d/%s~%s' % (idx, cls, name), 'sources': init, 'history': [], 'doc': DOC,
                    'cls': cls, 'use_name': name, 'text': text, 'layout': layout, 'history_kind': 'none'})
    return out


def generate(seed, n_layouts, history_share=(1, 3)):
    """The whole grid, then random layouts up to `n_layouts`."""
    rng = Rng(seed ^ 0xC16)
    layouts = grid()
    while len(layouts) < n_layouts:
        layouts.append(random_layout(rng))
    jobs = []
    for i, lay in enumerate(layouts):
        jobs += jobs_for(lay, i, rng, rng.chance(*history_share))
    return layouts, jobs
