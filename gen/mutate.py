"""Token-level mutants of the repository's own sample programs (tests/*.sam) and standard library
(std/*.sam): 'every accepted mutant of the samples' quantifiers (C03, C05, C06)."""
import os
import re

TOKEN = re.compile(r'//[^\n]*|/\*.*?\*/|"(?:\\.|[^"\\])*"|[A-Za-z_][A-Za-z0-9_]*|\d+|::|->|<=|>=|==|!=|&&|\|\||\s+|.', re.S)
SWAP_OPS = [['+', '-', '*'], ['<', '<=', '>', '>='], ['==', '!='], ['&&', '||']]


def load_samples():
    out = {}
    repo = os.environ.get('VERIF_REPO', '/repo')
    for d, prefix in ((repo + '/tests', 'tests'), (repo + '/std', 'std')):
        for fn in sorted(os.listdir(d)):
            if fn.endswith('.sam'):
                out['%s.%s' % (prefix, fn[:-4])] = open(os.path.join(d, fn)).read()
    return out


def mutate_text(rng, text):
    toks = TOKEN.findall(text)
    idx = [i for i, t in enumerate(toks) if not t.isspace() and not t.startswith('//') and not t.startswith('/*')]
    for _ in range(20):
        i = rng.pick(idx)
        t = toks[i]
        kind = rng.below(6)
        if t.isdigit() and kind < 3:
            toks[i] = str(rng.pick([0, 1, 2, 7, int(t) + 1, 2147483647]))
        elif any(t in g for g in SWAP_OPS):
            g = next(g for g in SWAP_OPS if t in g)
            toks[i] = rng.pick([x for x in g if x != t])
        elif t in ('true', 'false'):
            toks[i] = 'false' if t == 'true' else 'true'
        elif re.fullmatch(r'[a-z][A-Za-z0-9]*', t) and kind == 3:
            same = [j for j in idx if re.fullmatch(r'[a-z][A-Za-z0-9]*', toks[j]) and toks[j] != t and abs(j - i) < 60]
            if not same:
                continue
            toks[i] = toks[rng.pick(same)]
        elif t.startswith('"') and kind == 4:
            toks[i] = '"m%d"' % rng.below(10)
        elif kind == 5 and t in (',', ';'):
            continue
        else:
            continue
        return ''.join(toks)
    return None


def gen_mutant(rng, samples, only_prefix='tests.'):
    names = [n for n in samples if n.startswith(only_prefix)]
    for _ in range(10):
        n = rng.pick(names)
        m = mutate_text(rng, samples[n])
        if m and m != samples[n]:
            srcs = dict(samples)
            srcs[n] = m
            return n, srcs
    return None, None
