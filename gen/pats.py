"""Generator for C07: type environments x pattern lists, rendered as samlang programs, with
the abstract pattern matrix for the Coq model and an independent value-enumeration oracle."""
import itertools

UPPER = ['Zed', 'Alpha', 'Mid', 'Beta', 'Quux', 'Cee', 'Yak', 'Dee', 'Xi', 'Eff', 'Wye', 'Gee', 'Vee', 'Aaa', 'Zzz', 'Mmm']
OPAQUE = ['int', 'bool', 'Str']


class Env:
    """types[i] = ('opaque', name) | ('enum', name, cls, [(vname, [tyid])]) | ('struct', name, [(fname, tyid)])"""

    def __init__(self):
        self.types = [('opaque', n) for n in OPAQUE]

    def name(self, t):
        return self.types[t][1]

    def variant_rank(self, t, vname):
        names = sorted(v for v, _ in self.types[t][3])
        return names.index(vname)


def gen_env(rng):
    env = Env()
    ncls = rng.range(1, 4)
    first = len(env.types)
    kinds = []
    for i in range(ncls):
        kinds.append('enum' if i == 0 or rng.chance(2, 3) else 'struct')
    for i, k in enumerate(kinds):
        tid = first + i
        earlier = list(range(0, tid))                       # inhabited by construction
        anyenum = [first + j for j, kk in enumerate(kinds) if kk == 'enum']
        if k == 'struct':
            nf = rng.range(1, 3)
            fields = [('f%d' % j, rng.pick(earlier)) for j in range(nf)]
            env.types.append(('struct', 'S%d' % i, fields))
        else:
            nv = rng.range(1, 4)
            names = rng.shuffle(UPPER)[:nv]
            variants = []
            for j, vn in enumerate(names):
                arity = rng.pick([0, 0, 1, 1, 2, 3]) if j > 0 else rng.pick([0, 0, 1, 2])
                pool = earlier if j == 0 else earlier + anyenum + [tid]
                variants.append((vn, [rng.pick(pool) for _ in range(arity)]))
            env.types.append(('enum', 'E%d' % i, i, variants))
    return env


def render_env(env):
    out = []
    for t in env.types:
        if t[0] == 'struct':
            out.append('class %s(%s) {}' % (t[1], ', '.join('val %s: %s' % (f, env.name(ty)) for f, ty in t[2])))
        elif t[0] == 'enum':
            vs = []
            for vn, tys in t[3]:
                vs.append(vn if not tys else '%s(%s)' % (vn, ', '.join(env.name(x) for x in tys)))
            out.append('class %s(%s) {}' % (t[1], ', '.join(vs)))
    return out


# ---- patterns: ('wild',) ('var',name) ('variant',tag,[ps]) ('tuple',[ps]) ('object',[(field, p|None)]) ('or',[ps])

class Names:
    def __init__(self):
        self.n = 0

    def fresh(self):
        self.n += 1
        return 'x%d' % self.n


def gen_pat(rng, env, t, depth, names, binders=True):
    ty = env.types[t]
    r = rng.below(100)
    if ty[0] == 'opaque' or depth <= 0 or r < 12:
        if binders and rng.chance(1, 2):
            return ('var', names.fresh())
        return ('wild',)
    if r < 24 and depth >= 1:
        k = rng.range(2, 3)
        return ('or', [gen_pat(rng, env, t, depth - 1 if ty[0] == 'enum' else depth, names, False) for _ in range(k)])
    if ty[0] == 'struct':
        fields = ty[2]
        if rng.chance(1, 2):
            return ('tuple', [gen_pat(rng, env, ft, depth, names, binders) for _, ft in fields])
        chosen = rng.shuffle(fields)   # an object pattern must mention every field
        els = []
        for fn, ft in chosen:
            if binders and rng.chance(1, 3):
                els.append((fn, None))            # shorthand: binds the field name itself
            else:
                els.append((fn, gen_pat(rng, env, ft, depth, names, binders)))
        return ('object', els)
    vn, tys = rng.pick(ty[3])
    return ('variant', vn, [gen_pat(rng, env, x, depth - 1, names, binders) for x in tys])


def render_pat(p):
    k = p[0]
    if k == 'wild':
        return '_'
    if k == 'var':
        return p[1]
    if k == 'variant':
        return p[1] if not p[2] else '%s(%s)' % (p[1], ', '.join(render_pat(x) for x in p[2]))
    if k == 'tuple':
        return '(%s)' % ', '.join(render_pat(x) for x in p[1])
    if k == 'object':
        return '{ %s }' % ', '.join(f if q is None else '%s as %s' % (f, render_pat(q)) for f, q in p[1])
    if k == 'or':
        return ' | '.join(render_pat(x) for x in p[1])
    raise ValueError(k)


def pat_depth(p):
    k = p[0]
    if k in ('wild', 'var'):
        return 0
    if k == 'variant':
        return 1 + max([pat_depth(x) for x in p[2]] + [0])
    if k == 'tuple':
        return max([pat_depth(x) for x in p[1]] + [0])
    if k == 'object':
        return max([pat_depth(q) for _, q in p[1] if q is not None] + [0])
    return max(pat_depth(x) for x in p[1])


def to_abstract(env, p, t):
    """The conversion check_matching_pattern performs, for well-typed patterns (Gallina text)."""
    k = p[0]
    if k in ('wild', 'var'):
        return 'PWild'
    ty = env.types[t]
    if k == 'variant':
        tys = dict(ty[3])[p[1]]
        return '(PCtor (Some (%d, %d)) [%s])' % (ty[2], env.variant_rank(t, p[1]),
                                                  '; '.join(to_abstract(env, q, x) for q, x in zip(p[2], tys)))
    if k == 'tuple':
        return '(PCtor None [%s])' % '; '.join(to_abstract(env, q, ft) for q, (_, ft) in zip(p[1], ty[2]))
    if k == 'object':
        given = dict(p[1])
        parts = []
        for fn, ft in ty[2]:
            if fn in given and given[fn] is not None:
                parts.append(to_abstract(env, given[fn], ft))
            else:
                parts.append('PWild')
        return '(PCtor None [%s])' % '; '.join(parts)
    if k == 'or':
        return '(POr [%s])' % '; '.join(to_abstract(env, q, t) for q in p[1])
    raise ValueError(k)


def env_gallina(env):
    out = []
    for t in env.types:
        if t[0] == 'opaque':
            out.append('SOpaque nat')
        elif t[0] == 'struct':
            out.append('SStruct nat [%s]' % '; '.join(str(ft) for _, ft in t[2]))
        else:
            tid = env.types.index(t)
            vs = ['(%d, [%s])' % (env.variant_rank(tid, vn), '; '.join(str(x) for x in tys)) for vn, tys in t[3]]
            out.append('SEnum nat %d [%s]' % (t[2], '; '.join(vs)))
    return '[%s]' % '; '.join(out)


# ---- independent oracle: enumerate values, match source patterns directly

def default_value(env, t, memo=None):
    ty = env.types[t]
    if ty[0] == 'opaque':
        return ('O',)
    if ty[0] == 'struct':
        return ('S', tuple(default_value(env, ft) for _, ft in ty[2]))
    vn, tys = ty[3][0]
    return ('C', vn, tuple(default_value(env, x) for x in tys))


def values(env, t, d, cap):
    """All values of type t whose constructor nesting is explored to depth d (below that, one default)."""
    ty = env.types[t]
    if ty[0] == 'opaque':
        return [('O',)]
    if ty[0] == 'struct':
        cols = [values(env, ft, d, cap) for _, ft in ty[2]]
        n = 1
        for c in cols:
            n *= len(c)
        if n > cap[0]:
            raise OverflowError
        return [('S', tuple(x)) for x in itertools.product(*cols)]
    if d == 0:
        return [default_value(env, t)]
    out = []
    for vn, tys in ty[3]:
        cols = [values(env, x, d - 1, cap) for x in tys]
        n = 1
        for c in cols:
            n *= len(c)
        if n > cap[0]:
            raise OverflowError
        out += [('C', vn, tuple(x)) for x in itertools.product(*cols)]
        if len(out) > cap[0]:
            raise OverflowError
    return out


def matches(env, p, t, v):
    k = p[0]
    if k in ('wild', 'var'):
        return True
    ty = env.types[t]
    if k == 'variant':
        if v[0] != 'C' or v[1] != p[1]:
            return False
        tys = dict(ty[3])[p[1]]
        return all(matches(env, q, x, w) for q, x, w in zip(p[2], tys, v[2]))
    if k == 'tuple':
        return all(matches(env, q, ft, w) for q, (_, ft), w in zip(p[1], ty[2], v[1]))
    if k == 'object':
        idx = {fn: i for i, (fn, _) in enumerate(ty[2])}
        return all(q is None or matches(env, q, ty[2][idx[fn]][1], v[1][idx[fn]]) for fn, q in p[1])
    if k == 'or':
        return any(matches(env, q, t, v) for q in p[1])
    raise ValueError(k)


def parse_cex(text):
    """Parse the counterexample the checker prints (Description::pretty_print of patterns)."""
    pos = [0]

    def ws():
        while pos[0] < len(text) and text[pos[0]] == ' ':
            pos[0] += 1

    def one():
        ws()
        c = text[pos[0]]
        if c == '_':
            pos[0] += 1
            return ('wild',)
        if c == '(':
            pos[0] += 1
            return ('tuple', lst(')'))
        j = pos[0]
        while j < len(text) and (text[j].isalnum()):
            j += 1
        tag = text[pos[0]:j]
        if not tag:
            raise ValueError('bad counterexample text %r at %d' % (text, pos[0]))
        pos[0] = j
        if pos[0] < len(text) and text[pos[0]] == '(':
            pos[0] += 1
            return ('variant', tag, lst(')'))
        return ('variant', tag, [])

    def alt():
        p = one()
        ws()
        ps = [p]
        while pos[0] < len(text) and text[pos[0]] == '|':
            pos[0] += 1
            ps.append(one())
            ws()
        return ps[0] if len(ps) == 1 else ('or', ps)

    def lst(end):
        out = []
        ws()
        if text[pos[0]] == end:
            pos[0] += 1
            return out
        while True:
            out.append(alt())
            ws()
            if text[pos[0]] == ',':
                pos[0] += 1
                continue
            if text[pos[0]] == end:
                pos[0] += 1
                return out
            raise ValueError('bad counterexample text %r' % text)

    p = alt()
    ws()
    if pos[0] != len(text):
        raise ValueError('trailing text in counterexample %r' % text)
    return p


def cex_well_typed(env, p, t):
    k = p[0]
    if k == 'wild':
        return True
    ty = env.types[t]
    if k == 'variant':
        if ty[0] != 'enum' or p[1] not in dict(ty[3]):
            return False
        tys = dict(ty[3])[p[1]]
        return len(tys) == len(p[2]) and all(cex_well_typed(env, q, x) for q, x in zip(p[2], tys))
    if k == 'tuple':
        return ty[0] == 'struct' and len(ty[2]) == len(p[1]) and all(cex_well_typed(env, q, ft) for q, (_, ft) in zip(p[1], ty[2]))
    if k == 'or':
        return all(cex_well_typed(env, q, t) for q in p[1])
    return False


def gen_program(rng, nfun=6):
    """Returns (source text, cases) where each case describes one function of class Main."""
    env = gen_env(rng)
    lines = render_env(env)
    lines.append('class Main {')
    cases = []
    cls_types = [i for i, t in enumerate(env.types) if t[0] != 'opaque']
    for fi in range(nfun):
        t = rng.pick(cls_types)
        kind = rng.pick(['match', 'match', 'match', 'let', 'iflet', 'iflet'])
        names = Names()
        depth = rng.range(1, 3)
        if kind == 'match':
            k = rng.range(1, 5)
            pats = [gen_pat(rng, env, t, depth, names) for _ in range(k)]
            if rng.chance(1, 6):
                pats.append(('wild',))
            arms = ', '.join('%s -> %d' % (render_pat(p), i) for i, p in enumerate(pats))
            src = '  function f%d(v: %s): int = match v { %s }' % (fi, env.name(t), arms)
        elif kind == 'let':
            pats = [gen_pat(rng, env, t, depth, names)]
            src = '  function f%d(v: %s): int = { let %s = v; 0 }' % (fi, env.name(t), render_pat(pats[0]))
        else:
            pats = [gen_pat(rng, env, t, depth, names)]
            src = '  function f%d(v: %s): int = if let %s = v { 1 } else { 0 }' % (fi, env.name(t), render_pat(pats[0]))
        line_no = len(lines)
        lines.append(src)
        cases.append({'kind': kind, 'ty': t, 'pats': pats, 'line': line_no, 'src': src.strip()})
    lines.append('  function main(): unit = {}')
    lines.append('}')
    return env, '\n'.join(lines) + '\n', cases
