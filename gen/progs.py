"""Generator of well-typed samlang programs (DESIGN.md 3.5 `progs`).

Programs are well typed by construction (checked by the real front end; rejected ones are counted
as generator defects and skipped).  Every program has `class Main { function main(): unit }` that
prints a digest of computed values, so behaviour is observable as a list of lines + an ending.

Knobs (`opts`): loops (tail-recursive induction-variable loops), closures, vec, strings, generics,
interfaces, tuples, div (allow / and %), big (literals near INT_MIN/INT_MAX), panics.
"""

INT, BOOL, STR = 'int', 'bool', 'Str'

DEFAULT_OPTS = dict(loops=True, closures=True, vec=True, strings=True, generics=True, interfaces=True,
                    tuples=True, div=True, big=False, panics=True, nfun=5, depth=3, two_modules=False, avoid_known_iv=False, vec_small=False, min_struct_fields=1, loop_focus=False)


class Ctx:
    """Variables in scope: list of (name, type)."""

    def __init__(self, vars=None):
        self.vars = list(vars or [])

    def of(self, t):
        return [n for n, ty in self.vars if ty == t]

    def extend(self, more):
        return Ctx(self.vars + list(more))


class ProgGen:
    def __init__(self, rng, opts=None):
        self.r = rng
        self.o = dict(DEFAULT_OPTS)
        self.o.update(opts or {})
        self.n = 0
        self.enums = []      # (name, [(variant, [types])])
        self.structs = []    # (name, [(field, type)])
        self.funs = []       # (name, [param types], ret type)  static functions of Main callable from later ones
        self.features = set()

    def fresh(self, p='v'):
        self.n += 1
        return '%s%d' % (p, self.n)

    # ------------------------------------------------------------------ declarations
    def gen_decls(self):
        r = self.r
        out = []
        ne = r.range(1, 3)
        for i in range(ne):
            name = 'E%d' % i
            nv = r.range(2, 4)
            variants = []
            for j in range(nv):
                vn = '%s%d' % (r.pick(['A', 'B', 'K', 'Q']), j)
                if j == 0:
                    tys = r.pick([[], [INT], [INT, BOOL]])
                else:
                    pool = [INT, INT, BOOL, STR] + [e[0] for e in self.enums] + [name, name] + [s[0] for s in self.structs]
                    tys = [r.pick(pool) for _ in range(r.pick([0, 1, 1, 2, 2, 3]))]
                variants.append((vn, tys))
            self.enums.append((name, variants))
            if r.chance(1, 2) and i == 0:
                fields = [('f%d' % k, r.pick([INT, INT, BOOL, STR, name])) for k in range(r.range(self.o['min_struct_fields'], 3))]
                self.structs.append(('S%d' % len(self.structs), fields))
        if not self.structs:
            self.structs.append(('S0', [('f0', INT), ('f1', r.pick([INT, BOOL, self.enums[0][0]]))]))
        if self.o['min_struct_fields'] > 1:
            self.features.add('no-single-field-struct')
        for name, variants in self.enums:
            vs = ', '.join(v if not tys else '%s(%s)' % (v, ', '.join(tys)) for v, tys in variants)
            body = self.enum_methods(name, variants)
            out.append('class %s(%s) {\n%s\n}' % (name, vs, body))
        for name, fields in self.structs:
            fs = ', '.join('val %s: %s' % (f, t) for f, t in fields)
            ints = [f for f, t in fields if t == INT]
            m = '  method total(k: int): int = k' + ''.join(' + this.%s' % f for f in ints)
            out.append('class %s(%s) {\n%s\n}' % (name, fs, m))
        if self.o['generics']:
            self.features.add('generics')
            out.append('class Opt<T>(Non, Som(T)) {\n'
                       '  method <R> map(f: (T) -> R): Opt<R> = match this { Non -> Opt.Non(), Som(v) -> Opt.Som(f(v)) }\n'
                       '  method orElse(d: T): T = match this { Som(v) -> v, Non -> d }\n'
                       '  method isSome(): bool = match this { Non -> false, Som(_) -> true }\n'
                       '}')
            out.append('class Lst<T>(Nil, Cons(T, Lst<T>)) {\n'
                       '  method <A> fold(z: A, f: (A, T) -> A): A = match this { Nil -> z, Cons(h, t) -> t.fold(f(z, h), f) }\n'
                       '  method len(): int = match this { Nil -> 0, Cons(_, t) -> 1 + t.len() }\n'
                       '  function <T> rep(x: T, n: int): Lst<T> = if n <= 0 { Lst.Nil<T>() } else { Lst.Cons(x, Lst.rep(x, n - 1)) }\n'
                       '}')
        if self.o['interfaces']:
            self.features.add('interfaces')
            out.append('interface Sh { method sh(k: int): int }')
            out.append('class Sa(val v: int) : Sh { method sh(k: int): int = this.v + k }')
            out.append('class Sb(val a: int, val b: int) : Sh { method sh(k: int): int = this.a * k - this.b }')
            # a GENERIC class implementing the interface (a bounded type parameter instantiated with Sg<Str> / Sg<Sa>)
            out.append('class Sg<T>(val x: T, val k: int) : Sh { method sh(k: int): int = this.k * 2 + k }')
        return out

    def enum_methods(self, name, variants):
        """A method summing the int payloads with nested / or patterns, recursive on self-typed payloads."""
        r = self.r
        arms = []
        for v, tys in variants:
            binds, terms = [], []
            for t in tys:
                if t == INT:
                    x = self.fresh('p')
                    binds.append(x)
                    terms.append(x)
                elif t == name:
                    x = self.fresh('p')
                    binds.append(x)
                    terms.append('%s.wt(d + 1)' % x)
                elif t == BOOL:
                    x = self.fresh('p')
                    binds.append(x)
                    terms.append('(if %s { 1 } else { 0 })' % x)
                else:
                    binds.append('_')
            pat = v if not tys else '%s(%s)' % (v, ', '.join(binds))
            arms.append('%s -> d%s' % (pat, ''.join(' + ' + t for t in terms)))
        m = '  method wt(d: int): int = match this { %s }' % ', '.join(arms)
        # a second method using or-patterns / wildcard
        first = variants[0]
        p0 = first[0] if not first[1] else '%s(%s)' % (first[0], ', '.join('_' for _ in first[1]))
        rest = [(v, tys) for v, tys in variants[1:]]
        if len(rest) >= 2 and r.chance(1, 2):
            alts = ' | '.join(v if not tys else '%s(%s)' % (v, ', '.join('_' for _ in tys)) for v, tys in rest)
            m2 = '  method tag(): int = match this { %s -> 0, %s -> 1 }' % (p0, alts)
            self.features.add('or-pattern')
        else:
            m2 = '  method tag(): int = match this { %s -> 0, _ -> 1 }' % p0
        return m + '\n' + m2

    # ------------------------------------------------------------------ values of class types
    def gen_enum_value(self, name, ctx, depth):
        r = self.r
        vs = dict(self.enums)[name]
        cands = ctx.of(name)
        if cands and r.chance(1, 3):
            return r.pick(cands)
        if depth <= 0:
            v, tys = vs[0]
        else:
            v, tys = r.pick(vs)
        args = [self.gen(t, ctx, depth - 1) for t in tys]
        return '%s.%s(%s)' % (name, v, ', '.join(args))

    def gen_struct_value(self, name, ctx, depth):
        fields = dict(self.structs)[name]
        cands = ctx.of(name)
        if cands and self.r.chance(1, 3):
            return self.r.pick(cands)
        return '%s.init(%s)' % (name, ', '.join(self.gen(t, ctx, depth - 1) for _, t in fields))

    # ------------------------------------------------------------------ expressions
    def lit(self):
        r = self.r
        if self.o['big'] and r.chance(1, 8):
            return r.pick(['2147483647', '-2147483648', '2147483646', '-2147483647', '1073741824', '-1073741825', '65536'])
        return str(r.pick([0, 1, 1, 2, 2, 3, 5, 7, 10, 13, 100, -1, -2, -7]))

    def gen(self, t, ctx, depth):
        if t == INT:
            return self.gen_int(ctx, depth)
        if t == BOOL:
            return self.gen_bool(ctx, depth)
        if t == STR:
            return self.gen_str(ctx, depth)
        if t in dict(self.enums):
            return self.gen_enum_value(t, ctx, depth)
        if t in dict(self.structs):
            return self.gen_struct_value(t, ctx, depth)
        raise ValueError(t)

    def gen_int(self, ctx, depth):
        r = self.r
        vs = ctx.of(INT)
        if depth <= 0 or r.chance(1, 6):
            if vs and r.chance(3, 4):
                return r.pick(vs)
            return self.lit()
        k = r.below(100)
        if k < 3:
            # the same two operands in both orders under a non-commutative operator (value numbering must keep them apart)
            self.features.add('swapped-operands')
            x, y, p_, q_ = self.fresh(), self.fresh(), self.fresh(), self.fresh()
            op = r.pick(['-', '-'] + (['/', '%'] if self.o['div'] else []))
            a, b = self.gen_int(ctx, depth - 2), self.gen_int(ctx, depth - 2)
            if op != '-':
                self.features.add('div')
                a, b = '(%s %% 7 + 9)' % a, '(%s %% 5 + 11)' % b
            return '{ let %s = %s; let %s = %s; let %s = %s %s %s; let %s = %s %s %s; %s * 3 + %s }' % (x, a, y, b, p_, x, op, y, q_, y, op, x, p_, q_)
        if k < 30:
            op = r.pick(['+', '+', '-', '-', '*'] + (['/', '%'] if self.o['div'] else []))
            a = self.gen_int(ctx, depth - 1)
            if op in ('/', '%'):
                self.features.add('div')
                b = r.pick(['2', '3', '-3', '7', '-2', '4', '8', '16', '-4', '(%s %% 5 + 6)' % self.gen_int(ctx, depth - 2)]) if r.chance(4, 5) else self.gen_int(ctx, depth - 1)
                if r.chance(1, 3):
                    # a dividend that is certainly negative at run time (sign of the remainder, rounding of the quotient)
                    self.features.add('negative-dividend')
                    a = '(0 - (%s %% 40 + 41))' % a
            else:
                b = self.gen_int(ctx, depth - 1)
            return '(%s %s %s)' % (a, op, b)
        if k < 40:
            if r.chance(1, 4):      # an else-if chain (three or more branches)
                self.features.add('else-if-chain')
                n = r.range(1, 2)
                mid = ''.join(' else if %s { %s }' % (self.gen_bool(ctx, depth - 2), self.gen_int(ctx, depth - 2)) for _ in range(n))
                return '(if %s { %s }%s else { %s })' % (self.gen_bool(ctx, depth - 1), self.gen_int(ctx, depth - 1), mid, self.gen_int(ctx, depth - 1))
            if r.chance(1, 4) and vs:
                # a choice between a VARIABLE and the constant 0 / 1 with nothing to compute in either branch (the shapes
                # that look like && / || on booleans but are not, on ints)
                self.features.add('if-else-value-or-constant')
                v = r.pick(vs)
                return r.pick(['(if %s { %s } else { 0 })', '(if %s { 1 } else { %s })', '(if %s { 0 } else { %s })', '(if %s { %s } else { 1 })']) % (
                    self.gen_bool(ctx, depth - 1), v)
            return '(if %s { %s } else { %s })' % (self.gen_bool(ctx, depth - 1), self.gen_int(ctx, depth - 1), self.gen_int(ctx, depth - 1))
        if k < 50 and self.funs:
            cands = [f for f in self.funs if f[2] == INT]
            if cands:
                f = r.pick(cands)
                return 'Main.%s(%s)' % (f[0], ', '.join(self.gen(t, ctx, depth - 1) for t in f[1]))
        if k < 58:
            name, variants = r.pick(self.enums)
            e = self.gen_enum_value(name, ctx, depth - 1)
            return '%s.%s' % (e, r.pick(['wt(%s)' % self.gen_int(ctx, depth - 2), 'tag()']))
        if k < 64:
            name, fields = r.pick(self.structs)
            e = self.gen_struct_value(name, ctx, depth - 1)
            ints = [f for f, t in fields if t == INT]
            if ints and r.chance(1, 2):
                return '%s.%s' % (e, r.pick(ints))
            return '%s.total(%s)' % (e, self.gen_int(ctx, depth - 2))
        if k < 72:
            x = self.fresh()
            return '{ let %s = %s; %s }' % (x, self.gen_int(ctx, depth - 1), self.gen_int(ctx.extend([(x, INT)]), depth - 1))
        if k < 78 and self.o['closures']:
            self.features.add('closures')
            x = self.fresh()
            body = self.gen_int(ctx.extend([(x, INT)]), depth - 1)     # captures the enclosing variables
            f = self.fresh('g')
            return '{ let %s = (%s: int) -> %s; %s(%s) }' % (f, x, body, f, self.gen_int(ctx, depth - 1))
        if k < 83 and self.o['generics']:
            x = self.fresh()
            base = 'Opt.Som(%s)' % self.gen_int(ctx, depth - 1) if r.chance(2, 3) else 'Opt.Non<int>()'
            return '%s.map((%s) -> %s).orElse(%s)' % (base, x, self.gen_int(ctx.extend([(x, INT)]), depth - 2), self.gen_int(ctx, depth - 2))
        if k < 87 and self.o['generics']:
            a, x = self.fresh(), self.fresh()
            return 'Lst.rep(%s, %s).fold(%s, (%s, %s) -> %s)' % (
                self.gen_int(ctx, depth - 2), r.pick(['0', '1', '3', '4']), self.gen_int(ctx, depth - 2), a, x,
                self.gen_int(ctx.extend([(a, INT), (x, INT)]), depth - 2))
        if 87 <= k < 93 and self.o['vec'] and self.o['generics'] and r.chance(1, 3):
            self.features.add('vec-of-enum')
            v = self.fresh('w')
            a = self.gen_int(ctx, depth - 2)
            if r.chance(1, 2):
                return '{ let %s = Vec.of(Opt.Som(%s)); %s.push(Opt.Non()); %s.get(0).orElse(1) + %s.get(1).orElse(2) + %s.pop().orElse(3) }' % (v, a, v, v, v, v)
            name, variants = r.pick(self.enums)
            e = self.gen_enum_value(name, ctx, depth - 2)
            return '{ let %s = Vec.of(%s); %s.push(%s.get(0)); %s.get(1).tag() + %s.length() }' % (v, e, v, v, v, v)
        if k < 90 and self.o['interfaces']:
            obj = 'Sa.init(%s)' % self.gen_int(ctx, depth - 2) if r.chance(1, 2) else 'Sb.init(%s, %s)' % (self.gen_int(ctx, depth - 2), self.gen_int(ctx, depth - 2))
            if r.chance(1, 3):
                self.features.add('generic-class-under-bound')
                obj = 'Sg.init(%s, %s)' % (r.pick(['"s"', 'Sa.init(1)', 'true', '7']), self.gen_int(ctx, depth - 2))
            return 'Main.useSh(%s, %s)' % (obj, self.gen_int(ctx, depth - 2))
        if k < 93 and self.o['vec']:
            self.features.add('vec')
            v = self.fresh('w')
            a, b = self.gen_int(ctx, depth - 2), self.gen_int(ctx, depth - 2)
            if self.o['vec_small']:
                a, b = '(%s %% 1000)' % a, '(%s %% 1000)' % b
            return '{ let %s = Vec.of(%s); %s.push(%s); %s.set(0, %s.get(1) + 1); %s.get(0) + %s.length() }' % (v, a, v, b, v, v, v, v)
        if k < 96 and self.o['generics'] and self.o['closures'] and r.chance(1, 2):
            self.features.add('type-parameter-only-in-lambda-body')
            self.need_only_body = True
            return 'Main.onlyBody<%s>(%s)' % (r.pick(['int', 'Str', 'Opt<int>', 'bool']), self.gen_int(ctx, depth - 2))
        if k < 96 and self.o['strings']:
            self.features.add('strings')
            return 'Str.fromInt(%s).toInt()' % self.gen_int(ctx, depth - 1)
        if k < 98 and self.o['tuples']:
            self.features.add('tuples')
            a, b = self.fresh(), self.fresh()
            return '{ let (%s, %s) = (%s, %s); %s - %s }' % (a, b, self.gen_int(ctx, depth - 2), self.gen_int(ctx, depth - 2), a, b)
        return '(-%s)' % (r.pick(vs) if vs else '3')

    def gen_bool(self, ctx, depth):
        r = self.r
        vs = ctx.of(BOOL)
        if depth <= 0:
            return r.pick(vs) if vs and r.chance(1, 2) else r.pick(['true', 'false'])
        k = r.below(100)
        if k < 4:
            # two constant additions whose constants sum past the 32-bit range, then a comparison: the shape on which merging
            # constants first and comparisons next went wrong (no addition of the unoptimised run overflows for small operands)
            self.features.add('big-constant-chain')
            v = self.gen_int(ctx, 0)
            cmp_ = r.pick(['<', '<=', '>', '>=', '==', '!='])
            if r.chance(1, 2):      # negative operand, positive constants: (x + MAX) + c2
                c1, c2 = r.pick([(2147483647, 1), (2147483600, 100), (2147483647, 9)])
                return '(((((%s %% 7) - 20) + %d) + %d) %s %d)' % (v, c1, c2, cmp_, r.pick([-3, 0, 5, 2147483600]))
            c1, c2 = r.pick([(2147483647, 2), (2147483000, 1000), (2147483647, 30)])
            return '(((((%s %% 7) + 40) + (-%d)) + (-%d)) %s %d)' % (v, c1, c2, cmp_, r.pick([-3, 0, 5, -2147483600]))
        if k < 55:
            return '(%s %s %s)' % (self.gen_int(ctx, depth - 1), r.pick(['<', '<=', '>', '>=', '==', '!=']), self.gen_int(ctx, depth - 1))
        if k < 75:
            return '(%s %s %s)' % (self.gen_bool(ctx, depth - 1), r.pick(['&&', '||']), self.gen_bool(ctx, depth - 1))
        if k < 85:
            return '!%s' % self.gen_bool(ctx, 0) if r.chance(1, 2) else '!(%s)' % self.gen_bool(ctx, depth - 1)
        if k < 92 and self.o['generics']:
            return ('Opt.Som(%s)' % self.gen_int(ctx, depth - 1) if r.chance(1, 2) else 'Opt.Non<int>()') + '.isSome()'
        if k < 96 and self.o['vec']:
            # booleans as Vec elements: every way a boolean is computed (comparison, negation, constant) must be the same
            # value to Vec.eq on both back ends
            self.features.add('vec-of-bool')
            a, b = self.gen_bool(ctx, depth - 1), self.gen_bool(ctx, depth - 1)
            return 'Vec.of(%s).eq(Vec.of(%s))' % (r.pick(['!(%s)' % a, a, '!(!(%s))' % a]), r.pick([b, '!(%s)' % b, 'true', 'false']))
        return r.pick(vs) if vs else r.pick(['true', 'false'])

    def gen_str(self, ctx, depth):
        r = self.r
        vs = ctx.of(STR)
        if depth <= 0 or not self.o['strings']:
            return r.pick(vs) if vs and r.chance(1, 2) else '"%s"' % r.pick(['', 'a', 'xy', 'hello', 'Z9'])
        k = r.below(100)
        if k < 40:
            return '(%s :: %s)' % (self.gen_str(ctx, depth - 1), self.gen_str(ctx, depth - 1))
        if k < 80:
            return 'Str.fromInt(%s)' % self.gen_int(ctx, depth - 1)
        return r.pick(vs) if vs else '"s"'

    # ------------------------------------------------------------------ functions
    def gen_plain_fun(self, idx):
        r = self.r
        name = 'f%d' % idx
        np_ = r.range(1, 3)
        extra = []
        if r.chance(1, 4):
            extra = [(self.fresh('e'), r.pick(self.enums)[0])]
        params = [(self.fresh('a'), INT) for _ in range(np_)] + extra
        ctx = Ctx(params)
        body = self.gen_int(ctx, self.o['depth'])
        if self.o['panics'] and r.chance(1, 10):
            self.features.add('panic')
            body = 'if %s { Process.panic("boom%d") } else { %s }' % (self.gen_bool(ctx, 1), idx, body)
        text = '  function %s(%s): int = %s' % (name, ', '.join('%s: %s' % p for p in params), body)
        self.funs.append((name, [t for _, t in params], INT))
        return text

    def gen_loop_fun(self, idx):
        """Tail-recursive loop with a basic induction variable, optional derived induction variables,
        guards of every comparison kind, strides of either sign."""
        r = self.r
        self.features.add('loop')
        name = 'lp%d' % idx
        op = r.pick(['<', '<=', '>', '>=', '<', '>', '!='])
        stride = r.pick([1, 1, 2, 3, 5]) * (1 if op in ('<', '<=') else -1 if op in ('>', '>=') else r.pick([1, -1]))
        if op == '!=':
            stride = 1 if stride > 0 else -1
        mult = r.pick([1, 2, 3, -2, 4])
        off = r.pick([0, 1, -3, 7])
        kind = r.pick([0, 1, 2, 3, 4, 5, 6, 7, 7, 8, 8, 8]) if self.o['loop_focus'] else r.below(9)
        i, acc, n = 'i', 'acc', 'n'
        if kind >= 7:
            # literal bound inside the function, the induction variable (and optionally one accumulator) as the
            # only parameters: the shape the closed-form / trip-count paths of the loop optimizer need
            self.features.add('loop-const-bound')
            bound = r.pick([0, 10, 20, 50, 100, -7, 33])
            step = '%s %s %d' % (i, '+' if stride > 0 else '-', abs(stride))
            exit_op = {'<': '>=', '<=': '>', '>': '<=', '>=': '<', '!=': '=='}[op]
            if kind == 7:
                text = '  function %s(i: int, acc: int, n: int): int = Main.%sc(i)\n  function %sc(i: int): int = if %s %s %d { i } else { Main.%sc(%s) }' % (
                    name, name, name, i, exit_op, bound, name, step)
            else:
                upd2 = r.pick(['acc + 1', 'acc + i', 'acc + 3', 'acc * 2 + 1', 'acc + i * i', '(acc + (i + 1) * (i * 2)) % 100000', 'acc + (i * 3) * (i - 2)'])
                ret2 = r.pick(['acc', 'acc + i', 'i'])
                text = '  function %s(i: int, acc: int, n: int): int = Main.%sc(i, acc)\n  function %sc(i: int, acc: int): int = if %s %s %d { %s } else { Main.%sc(%s, %s) }' % (
                    name, name, name, i, exit_op, bound, ret2, name, step, upd2)
            self._bound_for = getattr(self, '_bound_for', {})
            self._bound_for[name] = bound
            return text, name, op, stride
        if self.o['avoid_known_iv'] and kind == 0 and (op != '<' or mult <= 0):
            kind = 2          # stay out of the open finding C02-iv-elimination-guard
        if kind == 6:
            # tail call that permutes / cross-feeds its parameters (needs simultaneous update)
            self.features.add('loop-permute')
            step = '%s %s %d' % (i, '+' if stride > 0 else '-', abs(stride))
            perm = r.pick(['%s, acc, n + 0' % step + '', None])
            upd_acc = r.pick(['n', 'i', 'acc + i', 'n - acc'])
            body = 'if %s %s %s { Main.%s(%s, %s, %s) } else { acc * 7 + i }' % (
                i, op, n, name, step, upd_acc, n)
            # second function with a genuine swap of two accumulators
            text = ('  function %s(i: int, acc: int, n: int): int = Main.%sw(i, acc, 1, n)\n'
                    '  function %sw(i: int, a: int, b: int, n: int): int = if %s %s %s { Main.%sw(%s, b, %s, n) } else { a * 31 + b }'
                    % (name, name, name, i, op, n, name, step, r.pick(['a', 'a', 'a + i', 'a + 1'])))
            return text, name, op, stride
        step = '%s %s %d' % (i, '+' if stride > 0 else '-', abs(stride))
        if r.chance(1, 8):
            # the ONLY exit sits in a nested conditional; every sibling branch is a tail call (the loop's break value is assigned
            # inside an if-else inside an if-else)
            self.features.add('loop-only-nested-exit')
            s1, s2 = r.pick([1, 2, 3, 7]), r.pick([1, 5, 50])
            ret_ = r.pick(['acc', 'acc + i', 'acc * 2 - n', 'i'])
            text = ('  function %s(i: int, acc: int, n: int): int = if i > 0 { if acc > n + 100 { %s } else { Main.%s(i - 1, acc + %d, n) } } '
                    'else { Main.%s(i + 3, acc + %d, n) }' % (name, ret_, name, s1, name, s2))
            return text, name, '<', 1
        if r.chance(1, 6):
            # a second counter with its own start value and stride, and a value derived from IT (not from the guarded counter)
            self.features.add('loop-two-counters')
            j0 = r.pick(['100', '7', '(acc + 50)', '(n - 3)', '(i + 40)'])
            s2 = r.pick([1, 2, -1, 3])
            guard_ok = '%s %s %s' % (i, op, n)
            lit_bound = r.chance(1, 2) and op != '!='
            if lit_bound:
                # literal bound: the shape the strength reduction needs most often
                guard_ok = '%s %s %d' % (i, op, r.pick([4, 10, 20]) if stride > 0 else r.pick([-4, 0, -9]))
            use = r.pick(['j * %d + %d' % (mult, off), 'j * %d' % mult, '(j * %d + %d) + (i * 2)' % (mult, off)])
            text = ('  function %s(i: int, acc: int, n: int): int = Main.%st(i, %s, acc, n)\n'
                    '  function %st(i: int, j: int, acc: int, n: int): int = if %s { Main.%st(%s, j + %d, (acc + (%s)) %% 1000003, n) } else { acc }'
                    % (name, name, j0, name, guard_ok, name, step, s2, use))
            if lit_bound:
                self._bound_for = getattr(self, '_bound_for', {})
                self._bound_for[name] = int(guard_ok.split()[-1])
            return text, name, op, stride
        if r.chance(1, 6):
            # a struct-typed loop variable rebuilt in every iteration (scalar replacement / escape analysis of loop values)
            self.features.add('loop-struct-variable')
            self.need_lpair = True
            guard = '%s %s %s' % (i, {'<': '>=', '<=': '>', '>': '<=', '>=': '<', '!=': '=='}[op], n)
            text = ('  function %s(i: int, acc: int, n: int): int = Main.%sp(LPair.init(acc, 1), i, n)\n'
                    '  function %sp(p: LPair, i: int, n: int): int = if %s { p.a * 3 + p.b } else { Main.%sp(LPair.init(p.b %% 1000, (p.a + p.b + i) %% 1000), %s, n) }'
                    % (name, name, name, guard, name, step))
            return text, name, op, stride
        if r.chance(1, 6):
            # products of two values that are both affine in the induction variable (not a derived induction variable)
            self.features.add('loop-iv-product')
            prod = r.pick(['%s * %s' % (i, i), '(%s + 1) * (%s * 2)' % (i, i), '(%s * %d) * (%s + %d)' % (i, mult, i, off), '(%s - 3) * (%s - 3)' % (i, i)])
            upd = '(%s + %s) %% 100000' % (acc, prod)
            body = 'if %s %s %s { Main.%s(%s, %s, %s) } else { %s }' % (i, op, n, name, step, upd, n, acc)
            return '  function %s(i: int, acc: int, n: int): int = %s' % (name, body), name, op, stride
        if kind == 0:      # sum of a derived induction variable
            upd = '%s + (%s * %d + %d)' % (acc, i, mult, off)
        elif kind == 1:    # pure counting loop: result is the final value of i
            upd = acc
        elif kind == 2:    # invariant expression inside the loop
            upd = '%s + (%s * %d)' % (acc, n, mult)
        elif kind == 3:    # conditional accumulation
            upd = 'if %s %% 2 == 0 { %s + %s } else { %s - 1 }' % (i, acc, i, acc)
        elif kind == 4:    # derived IV passed along as its own parameter
            upd = '%s + %d' % (acc, mult)
        else:
            upd = '(%s * 3 + %s) %% 1000' % (acc, i)
        ret = i if kind == 1 else acc
        rec = 'Main.%s(%s, %s, %s)' % (name, step, upd, n)
        if r.chance(1, 4):
            # a second exit in front of the tail call: constant (folded by constant propagation: the loop body then ends in
            # an unconditional break after a conditional one) or data dependent (an early exit)
            self.features.add('loop-early-exit')
            cond = r.pick(['0 < 1', '1 < 0', 'true', 'false', '%s == 7' % acc, '%s %% 5 == 3' % i, '%s > 40' % acc])
            rec = 'if %s { %s } else { %s }' % (cond, r.pick(['2', acc, '%s + 1' % i, '%s - %s' % (acc, i)]), rec)
        if r.chance(1, 2):
            body = 'if %s %s %s { %s } else { %s }' % (i, op, n, rec, ret)
        else:
            inv = {'<': '>=', '<=': '>', '>': '<=', '>=': '<', '!=': '=='}[op]
            body = 'if %s %s %s { %s } else { %s }' % (i, inv, n, ret, rec)
        text = '  function %s(i: int, acc: int, n: int): int = %s' % (name, body)
        return text, name, op, stride

    def loop_calls(self, name, op, stride):
        r = self.r
        calls = []
        for _ in range(r.range(2, 4)):
            n = r.pick([0, 1, 5, 10, 17, -4, 100])
            if name in getattr(self, '_bound_for', {}):
                n = self._bound_for[name]
            if op in ('<', '<=', '!=') and stride > 0:
                i0 = n - r.pick([0, 1, 2, 7, 12, 30]) * (abs(stride) if op == '!=' else 1)
            elif stride < 0:
                i0 = n + r.pick([0, 1, 2, 7, 12, 30]) * (abs(stride) if op == '!=' else 1)
            else:
                i0 = n
            if r.chance(1, 6) and op != '!=':
                i0 = n + (5 if stride > 0 else -5)      # zero-trip loop
            if r.chance(3 if self.o['loop_focus'] else 2, 5):
                # constant arguments: after inlining the loop has constant bounds (closed-form / unrolling paths)
                calls.append('Main.%s(%d, %s, %d)' % (name, i0, r.pick(['0', '1']), n))
            else:
                calls.append('Main.%s(Main.inp("%d"), %s, Main.inp("%d"))' % (name, i0, r.pick(['0', '1', 'Main.inp("3")']), n))
        return calls

    def program(self):
        r = self.r
        decls = self.gen_decls()
        body = ['  function inp(s: Str): int = s.toInt()']
        if self.o['interfaces']:
            body.append('  function <T: Sh> useSh(x: T, k: int): int = x.sh(k) + x.sh(0)')
        prints = []
        nfun = self.o['nfun']
        for i in range(nfun):
            if self.o['loops'] and r.chance(4 if self.o['loop_focus'] else 2, 5):
                text, name, op, stride = self.gen_loop_fun(i)
                body.append(text)
                for c in self.loop_calls(name, op, stride):
                    prints.append('Process.println(Str.fromInt(%s))' % c)
            else:
                body.append(self.gen_plain_fun(i))
                f = self.funs[-1]
                for _ in range(r.range(1, 3)):
                    args = []
                    for t in f[1]:
                        if t == INT:
                            args.append('Main.inp("%s")' % r.pick(['0', '1', '2', '3', '7', '-1', '-5', '12', '100']))
                        else:
                            args.append(self.gen(t, Ctx(), 2))
                    prints.append('Process.println(Str.fromInt(Main.%s(%s)))' % (f[0], ', '.join(args)))
        if self.o['strings']:
            prints.append('Process.println(%s)' % self.gen_str(Ctx(), 2))
        main = '  function main(): unit = {\n%s\n  }' % '\n'.join('    %s;' % p for p in prints)
        imports = 'import { Pair } from std.tuples;\n' if self.o['tuples'] else ''
        if getattr(self, 'need_lpair', False):
            decls = list(decls) + ['class LPair(val a: int, val b: int) {}']
        if getattr(self, 'need_only_body', False):
            # the type parameter occurs only in the BODY of the lambda (not in its type, not in what it captures)
            body.append('  function <T> onlyBody(k: int): int = { let g = (q: int) -> match Opt.Non<T>() { Non -> q + k, Som(_) -> q }; g(1) + g(k) }')
        text = imports + '\n'.join(decls) + '\nclass Main {\n' + '\n'.join(body) + '\n' + main + '\n}\n'
        return text


def gen_program(rng, opts=None):
    g = ProgGen(rng, opts)
    text = g.program()
    return {'sources': {'Main': text}, 'entry': 'Main', 'features': sorted(g.features)}


# ---------------------------------------------------------------------------------------------
# Layout-focused programs: nested generic enums over structs / ints / strings / recursive enums,
# matched with nested patterns.  Exercises the unboxed-variant decision for many type shapes.

LAYOUT_DECLS = '''class S(val a: int, val b: int) {}
class One(val v: int) {}
class Nat(Zero, Succ(Nat)) {}
class Opt<T>(Non, Som(T)) {}
class Box<T>(Only(T)) {}
class Two<T>(Lft(T), Rgt(T)) {}
class Tri<T>(Emp, Mid(T), Big(T, int)) {}
class Wrap(W(S)) {}
class WrapOne(WO(One)) {}
class Ma(MaX, MaY(Mb)) {}
class Mb(MbP, MbQ(Ma)) {}
class Look(Fnd(One), Mis(int)) {}
class Look2(Fnd2(S), Mis2(int)) {}
'''

_LBASE_ALL = ['int', 'Str', 'S', 'One', 'Nat', 'Wrap', 'WrapOne', 'Ma', 'Mb', 'Look', 'Look2']
# without single-field structs (a one-element array compared with == against a tag number is the open TS finding)
_LBASE_MULTI = ['int', 'Str', 'S', 'Nat', 'Wrap', 'Ma', 'Mb', 'Look2']
_LBASE = [_LBASE_ALL]


def _lt(rng, depth):
    if depth <= 0 or rng.chance(1, 4):
        return rng.pick(_LBASE[0])
    g = rng.pick(['Opt', 'Opt', 'Box', 'Two', 'Tri'])
    return (g, _lt(rng, depth - 1))


def _tname(t):
    return t if isinstance(t, str) else '%s<%s>' % (t[0], _tname(t[1]))


def _lvals(rng, t, k):
    """(expression text, list of ints identifying it) - returns one random value of type t."""
    if t == 'int':
        return str(rng.range(-3, 9))
    if t == 'Str':
        return '"s%d"' % rng.below(3)
    if t == 'S':
        return 'S.init(%d, %d)' % (rng.below(8), rng.below(5))   # field 0 ranges over the values used as variant tags
    if t == 'One':
        return 'One.init(%d)' % rng.below(8)      # small: field 0 of a struct can collide with a variant tag
    if t == 'Nat':
        n = rng.below(3)
        return 'Nat.Succ(' * n + 'Nat.Zero()' + ')' * n
    if t == 'Wrap':
        return 'Wrap.W(S.init(%d, 1))' % rng.below(8)
    if t == 'WrapOne':
        return 'WrapOne.WO(One.init(%d))' % rng.below(8)
    if t == 'Ma':
        return rng.pick(['Ma.MaX()', 'Ma.MaY(Mb.MbP())', 'Ma.MaY(Mb.MbQ(Ma.MaX()))'])
    if t == 'Mb':
        return rng.pick(['Mb.MbP()', 'Mb.MbQ(Ma.MaX())', 'Mb.MbQ(Ma.MaY(Mb.MbP()))'])
    if t == 'Look':
        return 'Look.Fnd(One.init(%d))' % rng.below(8) if rng.chance(1, 2) else 'Look.Mis(%d)' % rng.below(8)
    if t == 'Look2':
        return 'Look2.Fnd2(S.init(%d, 2))' % rng.below(8) if rng.chance(1, 2) else 'Look2.Mis2(%d)' % rng.below(8)
    g, a = t
    ta = '<%s>' % _tname(a)
    if g == 'Opt':
        return 'Opt.Non%s()' % ta if rng.chance(1, 3) else 'Opt.Som(%s)' % _lvals(rng, a, k)
    if g == 'Box':
        return 'Box.Only(%s)' % _lvals(rng, a, k)
    if g == 'Two':
        return '%s(%s)' % (rng.pick(['Two.Lft', 'Two.Rgt']), _lvals(rng, a, k))
    c = rng.below(3)
    return 'Tri.Emp%s()' % ta if c == 0 else 'Tri.Mid(%s)' % _lvals(rng, a, k) if c == 1 else 'Tri.Big(%s, %d)' % (_lvals(rng, a, k), rng.below(4))


def _larms(t, prefix, cnt):
    """Exhaustive list of (pattern, int expression) for type t, one level of constructors per level of t."""
    if t in ('int',):
        x = 'x%d' % cnt[0]
        cnt[0] += 1
        return [(x, x)]
    if t == 'Str':
        return [('_', '1')]
    if t == 'S':
        x = 'x%d' % cnt[0]
        cnt[0] += 1
        return [(('{ a as %s, b }', '{ b, a as %s }', '(%s, _)')[cnt[0] % 3] % x, x)]     # object patterns in and out of field order
    if t == 'One':
        x = 'x%d' % cnt[0]
        cnt[0] += 1
        return [('(%s)' % x, x)]
    if t == 'Nat':
        return [('Zero', '0'), ('Succ(Zero)', '1'), ('Succ(Succ(_))', '2')]
    if t == 'Wrap':
        x = 'x%d' % cnt[0]
        cnt[0] += 1
        return [('W((%s, _))' % x, x)]
    if t == 'WrapOne':
        x = 'x%d' % cnt[0]
        cnt[0] += 1
        return [('WO((%s))' % x, x)]
    if t == 'Ma':
        return [('MaX', '0'), ('MaY(MbP)', '1'), ('MaY(MbQ(_))', '2')]
    if t == 'Mb':
        return [('MbP', '0'), ('MbQ(MaX)', '1'), ('MbQ(MaY(_))', '2')]
    if t == 'Look':
        x = 'x%d' % cnt[0]
        cnt[0] += 1
        return [('Mis(%s)' % x, '%s + 50' % x), ('Fnd((%s))' % x, x)]     # the boxed variant is tested first
    if t == 'Look2':
        x = 'x%d' % cnt[0]
        cnt[0] += 1
        return [('Mis2(%s)' % x, '%s + 50' % x), ('Fnd2((%s, _))' % x, x)]
    g, a = t
    inner = _larms(a, prefix, cnt)
    out = []
    if g == 'Opt':
        out.append(('Non', '100'))
        out += [('Som(%s)' % p, '(%s) * 2 + 1' % e) for p, e in inner]
    elif g == 'Box':
        out += [('Only(%s)' % p, '(%s) + 7' % e) for p, e in inner]
    elif g == 'Two':
        out += [('Lft(%s)' % p, '(%s) * 3' % e) for p, e in inner]
        out += [('Rgt(%s)' % p.replace('x', 'y'), '(%s) * 3 + 1' % e.replace('x', 'y')) for p, e in inner]
    else:
        out.append(('Emp', '200'))
        out += [('Mid(%s)' % p, '(%s) * 5' % e) for p, e in inner]
        out += [('Big(%s, k%d)' % (p.replace('x', 'z'), cnt[0]), '(%s) * 5 + k%d' % (e.replace('x', 'z'), cnt[0])) for p, e in inner]
        cnt[0] += 1
    return out


def _lall(t, cap=48):
    """Many values of type t: every constructor path, struct fields ranging over the small numbers used as variant tags."""
    if t == 'int':
        return ['-1', '0', '1', '5']
    if t == 'Str':
        return ['"s0"']
    if t == 'S':
        return ['S.init(%d, 1)' % a for a in range(8)]
    if t == 'One':
        return ['One.init(%d)' % a for a in range(8)]
    if t == 'Nat':
        return ['Nat.Zero()', 'Nat.Succ(Nat.Zero())', 'Nat.Succ(Nat.Succ(Nat.Zero()))']
    if t == 'Wrap':
        return ['Wrap.W(S.init(%d, 1))' % a for a in range(8)]
    if t == 'WrapOne':
        return ['WrapOne.WO(One.init(%d))' % a for a in range(8)]
    if t == 'Ma':
        return ['Ma.MaX()', 'Ma.MaY(Mb.MbP())', 'Ma.MaY(Mb.MbQ(Ma.MaX()))']
    if t == 'Mb':
        return ['Mb.MbP()', 'Mb.MbQ(Ma.MaX())', 'Mb.MbQ(Ma.MaY(Mb.MbP()))']
    if t == 'Look':
        return ['Look.Fnd(One.init(%d))' % a for a in range(8)] + ['Look.Mis(%d)' % a for a in range(8)]
    if t == 'Look2':
        return ['Look2.Fnd2(S.init(%d, 2))' % a for a in range(8)] + ['Look2.Mis2(%d)' % a for a in range(8)]
    g, a = t
    ta = '<%s>' % _tname(a)
    inner = _lall(a, cap)
    if g == 'Opt':
        out = ['Opt.Non%s()' % ta] + ['Opt.Som(%s)' % v for v in inner]
    elif g == 'Box':
        out = ['Box.Only(%s)' % v for v in inner]
    elif g == 'Two':
        out = ['Two.Lft(%s)' % v for v in inner] + ['Two.Rgt(%s)' % v for v in inner]
    else:
        out = ['Tri.Emp%s()' % ta] + ['Tri.Mid(%s)' % v for v in inner] + ['Tri.Big(%s, %d)' % (v, i % 4) for i, v in enumerate(inner)]
    if len(out) > cap:                                  # keep every constructor represented
        step = len(out) / float(cap)
        out = [out[int(i * step)] for i in range(cap)]
    return out


def layout_search_programs(depth=2):
    """Search phase after a layout disagreement: one function per type of the catalogue (all types up to `depth` generic
    levels), applied to many values each. Deterministic."""
    base = ['int', 'S', 'One', 'Nat', 'Wrap', 'WrapOne', 'Ma', 'Mb', 'Look', 'Look2']
    types = list(base)
    level = list(base)
    for _ in range(depth):
        level = [(g, a) for g in ('Opt', 'Box', 'Two', 'Tri') for a in level]
        types += level
    progs = []
    for k in range(0, len(types), 3):
        funs, prints = [], []
        for i, t in enumerate(types[k:k + 3]):
            arms = _larms(t, 'p', [0])
            funs.append('  function sh%d(v: %s): int = match v { %s }' % (i, _tname(t), ', '.join('%s -> %s' % a for a in arms)))
            for v in _lall(t):
                prints.append('    Process.println(Str.fromInt(Main.sh%d(%s)));' % (i, v))
        text = LAYOUT_DECLS + 'class Main {\n' + '\n'.join(funs) + '\n  function main(): unit = {\n' + '\n'.join(prints) + '\n  }\n}\n'
        progs.append({'sources': {'Main': text}, 'entry': 'Main', 'features': ['layout-search']})
    return progs


def gen_builtin_program(rng):
    """Straight-line exercise of the runtime library (Str.fromInt / toInt / concat / equality, every Vec operation) on
    boundary and random arguments. Integers reach the calls through "0".toInt() so that nothing is folded at compile time;
    Vec<int> elements stay inside 30 bits (the Vec<int> i31 finding is a separate, registered class)."""
    L = []
    nums = [0, 1, -1, 9, -9, 10, -10, 12, -12, 21, -21, 99, -99, 100, -100, 1068, -1068, 12345, -12345, 120034, -120034,
            999999, -999999, 1000000, 2147483647, -2147483647]
    for d in range(1, 11):                                      # every digit count, both signs
        lo, hi = 10 ** (d - 1), min(10 ** d - 1, 2147483647)
        for _ in range(2):
            n = lo + rng.below(hi - lo + 1)
            nums += [n, -n]
    for n in nums:
        L.append('    Process.println(Str.fromInt(z + %s));' % (('(%d)' % n) if n < 0 else str(n)))
    L.append('    Process.println(Str.fromInt(z - 2147483647 - 1));')
    for t in ['0', '7', '-7', '42', '-42', '1068', '-1068', '2147483647', '-2147483648', '0012', '-0']:
        L.append('    Process.println(Str.fromInt("%s".toInt() + z));' % t)
    L.append('    Process.println("a" :: Str.fromInt(z) :: "b" :: "" :: Str.fromInt(z - 35));')
    L.append('    Main.show("str-eq-1", ("ab" :: Str.fromInt(z)) == "ab0");')
    L.append('    Main.show("str-eq-2", ("ab" :: Str.fromInt(z)) == "ab");')
    L.append('    Main.show("str-eq-3", ("" :: Str.fromInt(z)) != "0");')
    # two vectors driven through a random operation sequence; lengths tracked here so that every access is in bounds
    lens = {'a': 0, 'b': 0}
    L.append('    let a = Vec.empty<int>();')
    L.append('    let b = Vec.withCapacity<int>(z + %d);' % rng.below(4))
    val = lambda: 'z + %d' % rng.range(-5, 20)
    for i in range(rng.range(10, 24)):
        v = rng.pick(['a', 'b'])
        k = rng.below(100)
        if k < 35 or lens[v] == 0:
            L.append('    %s.push(%s);' % (v, val() if rng.chance(2, 3) else 'z + %d' % (12 + lens[v])))
            lens[v] += 1
        elif k < 45:
            L.append('    Process.println(Str.fromInt(%s.pop()));' % v)
            lens[v] -= 1
        elif k < 60:
            L.append('    %s.set(z + %d, %s);' % (v, rng.below(lens[v]), val()))
        elif k < 75:
            L.append('    Process.println(Str.fromInt(%s.get(z + %d)));' % (v, rng.below(lens[v])))
        elif k < 85:
            L.append('    Process.println(Str.fromInt(%s.length()));' % v)
        else:
            L.append('    %s.reserve(z + %d);' % (v, rng.below(9)))
        if rng.chance(1, 3):
            L.append('    Main.show("a.eq(b)@%d", a.eq(b));' % i)
            L.append('    Main.show("b.eq(a)@%d", b.eq(a));' % i)
    # prefixes, equal contents, empty against non-empty
    L.append('    let c = Vec.of(z + 12);')
    L.append('    let d = Vec.of(z + 12);')
    L.append('    Main.show("c.eq(d)", c.eq(d));')
    L.append('    d.push(z + 13);')
    L.append('    Main.show("prefix.eq(longer)", c.eq(d));')
    L.append('    Main.show("longer.eq(prefix)", d.eq(c));')
    L.append('    c.push(z + 13);')
    L.append('    Main.show("same again", c.eq(d));')
    L.append('    c.set(z + 1, z + 14);')
    L.append('    Main.show("last differs", c.eq(d));')
    L.append('    Main.show("empty.eq(nonempty)", Vec.empty<int>().eq(c));')
    L.append('    Main.show("nonempty.eq(empty)", c.eq(Vec.empty<int>()));')
    L.append('    Main.show("empty.eq(empty)", Vec.empty<int>().eq(Vec.empty<int>()));')
    L.append('    Main.show("self", c.eq(c));')
    if rng.chance(1, 2):
        # the LAST statement leaves the bounds: at the length (inside the spare capacity after pushes), past the capacity, at -1, or
        # pops an empty Vec - everything before must have been printed and the run must end abnormally on every engine
        v = rng.pick(['a', 'b'])
        n = lens[v]
        L.append('    Process.println("before the out-of-bounds access");')
        L.append(rng.pick(['    %s.set(z + %d, 1);' % (v, n), '    Process.println(Str.fromInt(%s.get(z + %d)));' % (v, n),
                           '    %s.set(z + %d, 1);' % (v, n + 1), '    %s.set(z - 1, 1);' % v,
                           '    Process.println(Str.fromInt(%s.get(z + %d)));' % (v, n + 40),
                           '    let _ = Vec.empty<int>().pop();']))
        L.append('    Process.println("not reached");')
    text = ('class Main {\n  function show(label: Str, b: bool): unit = if b { Process.println(label :: ": T") } else { Process.println(label :: ": F") }\n'
            '  function main(): unit = {\n    let z = "0".toInt();\n' + '\n'.join(L) + '\n  }\n}\n')
    return {'sources': {'Main': text}, 'entry': 'Main', 'features': ['builtins']}


def oob_programs():
    """Small programs whose LAST action leaves the bounds of a Vec at a chosen place: at the length while the backing array still
    has spare capacity (after 1, 3, 5 pushes / withCapacity), past the capacity, at -1; pop of an empty Vec. Everything before must
    be printed and every engine must end abnormally (spec: get / set / pop panic when out of bounds)."""
    out = []
    for pushes in (1, 3, 5):
        for how in ('set', 'get'):
            for idx, label in ((pushes, 'at-length'), (pushes + 9, 'past-capacity'), (-1, 'negative')):
                access = ('v.set(z + %d, 7);' % idx) if how == 'set' else ('Process.println(Str.fromInt(v.get(z + %d)));' % idx)
                mk = 'let v = Vec.empty<int>();' if pushes != 3 else 'let v = Vec.withCapacity<int>(z + 6);'
                body = '\n'.join(['    ' + mk] + ['    v.push(z + %d);' % (10 + k) for k in range(pushes)] +
                                 ['    Process.println(Str.fromInt(v.length()));', '    Process.println("before");', '    ' + access,
                                  '    Process.println("after");'])
                text = 'class Main {\n  function main(): unit = {\n    let z = "0".toInt();\n' + body + '\n  }\n}\n'
                out.append({'sources': {'Main': text}, 'entry': 'Main', 'features': ['oob:%s-%s-%d' % (how, label, pushes)]})
    text = ('class Main {\n  function main(): unit = {\n    let v = Vec.empty<int>();\n    v.push(1);\n    Process.println(Str.fromInt(v.pop()));\n'
            '    Process.println("before");\n    Process.println(Str.fromInt(v.pop()));\n    Process.println("after");\n  }\n}\n')
    out.append({'sources': {'Main': text}, 'entry': 'Main', 'features': ['oob:pop-empty']})
    # negative and boundary int elements read back through get / pop (not a trap: values of the 31-bit boxing range)
    text = ('class Main {\n  function main(): unit = {\n    let z = "0".toInt();\n    let v = Vec.of(z - 5);\n    v.push(z - 1);\n    v.push(z - 1073741824);\n'
            '    v.push(z + 1073741823);\n    v.set(z + 0, z - 7);\n    Process.println(Str.fromInt(v.get(z + 0)));\n    Process.println(Str.fromInt(v.get(z + 1)));\n'
            '    Process.println(Str.fromInt(v.get(z + 2)));\n    Process.println(Str.fromInt(v.pop()));\n    Process.println(Str.fromInt(v.pop()));\n'
            '    Process.println(Str.fromInt(v.pop() + v.length()));\n  }\n}\n')
    out.append({'sources': {'Main': text}, 'entry': 'Main', 'features': ['vec:negative-and-boundary-elements']})
    return out


INFER_PRELUDE = '''class Opt<T>(Non, Som(T)) {
  method <R> map(f: (T) -> R): Opt<R> = match this { Non -> Opt.Non(), Som(v) -> Opt.Som(f(v)) }
  method <R> bind(f: (T) -> Opt<R>): Opt<R> = match this { Non -> Opt.Non(), Som(v) -> f(v) }
  method orElse(d: T): T = match this { Som(v) -> v, Non -> d }
  method size(): int = match this { Som(_) -> 1, Non -> 0 }
}
class Pr<A, B>(val fst: A, val snd: B) {}
class Bx2<T>(val v: T) {
  method <U> conv(extra: U, f: (T, U) -> Opt<U>): Opt<U> = f(this.v, extra)
  method same(o: T): T = this.v
}
interface Nd<E> { method edge(): E }
class Ed(val w: int) {}
class MyNd(val e: Ed) : Nd<Ed> { method edge(): Ed = this.e }
class Gr<N: Nd<E>, E>(val n: N, val e: E) { method first(): E = this.n.edge() }
class Gr2<E, N: Nd<E>>(val n: N, val e: E) { method first(): E = this.n.edge() }
class Me(val a: int) {
  method me(): Me = this
  method pick(b: bool): Me = if b { this } else { Me.init(1) }
  method wrap(): Opt<Me> = Opt.Som(this)
  method other(o: Me): Me = if o.a > this.a { o } else { this }
  method count(n: int, acc: int): int = if n == 0 { acc + this.a } else { this.count(n - 1, acc + n) }
}
interface Sh0 { method sh(k: int): int }
class Sa0(val a: int) : Sh0 { method sh(k: int): int = this.a + k }
class Nb0(val a: int) {}
'''

INFER_HELPERS = '''  function <T> pick(f: (int) -> Opt<T>, d: T): T = f(1).orElse(d)
  function <A, B> app(f: (A) -> B, a: A): B = f(a)
  function <A, B, C> comp(f: (A) -> B, g: (B) -> C, a: A): C = g(f(a))
  function <T> twice(f: (T) -> T, x: T): T = f(f(x))
  function <A, B> mk(a: A, f: (A) -> B): Pr<A, B> = Pr.init(a, f(a))
  function <T> first(o: Opt<T>, p: Opt<T>): Opt<T> = match o { Som(_) -> o, Non -> p }
  function f3w(f: (int, int, int) -> int, k: int): int = f(k, k + 1, k + 2)
  function <N: Nd<E>, E> firstOf(n: N, e: E): E = n.edge()
  function <T: Sh0> useSh0(x: T): int = x.sh(1)
  function <R> mapSame(o: Opt<R>, f: (R) -> R): Opt<R> = o.map(f)
  function <R> mapOne(o: Opt<R>): Opt<int> = o.map((q) -> 1)
  function <R> mapBox(o: Opt<R>): Opt<Opt<R>> = o.map((q) -> Opt.Som(q))
  function <R> mapNested(o: Opt<Opt<R>>): Opt<int> = o.map((q) -> 1)
  function <R> mapNested2(o: Opt<Pr<R, int>>): Opt<int> = o.map((q) -> q.snd)
  function appNb(f: (Nb0) -> int): int = f(Nb0.init(2))
  function appSa(f: (Sa0) -> int): int = f(Sa0.init(2))
'''

INFER_TWIN_ANNOTATIONS = [
    ('function <R> mapNested(o: Opt<Opt<R>>): Opt<int> = o.map((q) -> 1)', 'function <R> mapNested(o: Opt<Opt<R>>): Opt<int> = o.map((q: Opt<R>) -> 1)'),
    ('function <R> mapNested2(o: Opt<Pr<R, int>>): Opt<int> = o.map((q) -> q.snd)', 'function <R> mapNested2(o: Opt<Pr<R, int>>): Opt<int> = o.map((q: Pr<R, int>) -> q.snd)'),
    ('function <R> mapOne(o: Opt<R>): Opt<int> = o.map((q) -> 1)', 'function <R> mapOne(o: Opt<R>): Opt<int> = o.map((q: R) -> 1)'),
    ('function <R> mapBox(o: Opt<R>): Opt<Opt<R>> = o.map((q) -> Opt.Som(q))', 'function <R> mapBox(o: Opt<R>): Opt<Opt<R>> = o.map<Opt<R>>((q: R) -> Opt.Som(q))'),
]

# bodies of type int whose acceptance depends on how much the checker infers from hints: lambdas whose body needs the
# expected type (a generic constructor without type arguments, a nested un-annotated lambda), type arguments solved from a
# lambda argument, from another argument, or from the return-type hint
INFER_TEMPLATES = [
    # the caller's type parameter nested inside another class type in the receiver's type arguments
    'Main.mapNested(Opt.Som(Opt.Som(@k))).orElse(@j) + Main.mapNested2(Opt.Som(Pr.init("s", @k))).orElse(0)',
    # if / else-if / else chains whose later branches need the type of the first (no expected type from outside)
    '{ let @x = if @k > 3 { (@y: int) -> @y } else if @k > 1 { (@y) -> @y + 1 } else { (@y) -> @y + 2 }; @x(@j) }',
    '{ let @x = if @k > 3 { Opt.Som(@k) } else if @k > 1 { Opt.Non() } else { Opt.Non() }; @x.orElse(@j) }',
    # methods that hand out `this`, taken as function values (the receiver is erased in the function's signature)
    '{ let @x = Me.init(@k).me; @x().a }',
    '{ let @x = Me.init(@k).pick; @x(true).a + @x(false).a }',
    '{ let @x = Me.init(@k).wrap; match @x() { Som(@y) -> @y.a, Non -> 0 } }',
    '{ let @x = Me.init(@k).other; @x(Me.init(@j)).a }',
    # a TAIL-RECURSIVE method taken as a function value (its receiver parameter is renamed by the tail recursion rewrite)
    '{ let @x = Me.init(@k).count; @x(@j, 0) + Me.init(@j).count(3, 1) }',
    # callers whose type parameter is spelled like the called method's own (`<R>` calling Opt<R>.map<R>)
    'Main.mapSame(Opt.Som(@k), (@x) -> @x + @j).orElse(0) + Main.mapOne(Opt.Som("s")).orElse(@j)',
    'Main.mapBox(Opt.Som(@k)).orElse(Opt.Non()).orElse(@j)',
    # a bounded generic function used as a value: its type argument comes from the expected function type
    '{ let @x: (Sa0) -> int = Main.useSh0; @x(Sa0.init(@k)) }',
    'Main.appSa(Main.useSh0) + @k',
    # a bound that names a LATER type parameter (and the mirrored declaration order): inferred vs written type arguments
    '{ let @x = Gr.init(MyNd.init(Ed.init(@k)), Ed.init(@j)); @x.first().w }',
    '{ let @x = Gr2.init(MyNd.init(Ed.init(@k)), Ed.init(@j)); @x.first().w + @x.e.w }',
    'Main.firstOf(MyNd.init(Ed.init(@k)), Ed.init(@j)).w',
    '{ let @x = Opt.Som(Gr.init(MyNd.init(Ed.init(@k)), Ed.init(@j))); match @x { Som(@y) -> @y.e.w, Non -> 0 } }',
    'Main.pick((@x) -> Opt.Non(), @k)',
    'Main.pick((@x) -> Opt.Som(@x + @k), 0)',
    'Main.pick((@x) -> Main.first(Opt.Non(), Opt.Som(@x)), @k)',
    'Main.app((@x) -> (@y: int) -> @x + @y, @k)(@j)',
    'Main.comp((@x) -> Opt.Som(@x), (@y) -> @y.orElse(@j), @k)',
    'Main.comp((@x) -> @x + 1, (@y) -> Opt.Som(@y), @k).orElse(0)',
    'Opt.Som(@k).bind<int>((@x) -> Opt.Non()).orElse(@j)',
    'Opt.Som(@k).bind((@x) -> Opt.Som(@x * 2)).map((@y) -> @y + @j).orElse(0)',
    'Main.app((@x) -> Main.pick((@y) -> Opt.Non(), @x), @k)',
    'Main.twice((@x) -> @x + @j, @k)',
    'Main.twice((@x) -> @x.map((@y) -> @y + 1), Opt.Som(@k)).orElse(@j)',
    'Main.mk(@k, (@x) -> Opt.Som(@x)).snd.orElse(@j)',
    'Main.mk(@k, (@x) -> (@y: int) -> @x + @y).snd(@j)',
    'Main.first(Opt.Non(), Opt.Som(@k)).orElse(@j)',
    '{ let @x = Opt.Som(@k); let @y = @x.map((@z) -> @z + @j); @y.orElse(0) }',
    '{ let @x: Opt<int> = Opt.Non(); @x.orElse(@k) }',
    '{ let @x = (@y: int) -> Opt.Som(@y); @x(@k).orElse(@j) }',
    'if @k > @j { Main.pick((@x) -> Opt.Non(), 1) } else { Main.pick((@x) -> Opt.Som(@x), 2) }',
    'match Opt.Som(@k) { Som(@x) -> Main.app((@y) -> @y + @x, @j), Non -> 0 }',
    # a generic method of a generic class taken as a function value (class and method type arguments differ)
    '{ let @x: (bool, (int, bool) -> Opt<bool>) -> Opt<bool> = Bx2.init(@k).conv; if @x(true, (@y, @z) -> Opt.Som(@z && @y > @j)).orElse(false) { 1 } else { 0 } }',
    # ... with type arguments of different run-time representation (int vs a pointer)
    '{ let @x: (Str, (int, Str) -> Opt<Str>) -> Opt<Str> = Bx2.init(@k).conv; if @x("a", (@y, @z) -> Opt.Som(@z :: Str.fromInt(@y))).orElse("") == "a@k" { 1 } else { @j } }',
    '{ let @x: (int, (Str, int) -> Opt<int>) -> Opt<int> = Bx2.init("s@k").conv; @x(@j, (@y, @z) -> if @y == "s@k" { Opt.Som(@z + 1) } else { Opt.Non() }).orElse(0) }',
    '{ let @x = Bx2.init(@k).same; @x(@j) }',
    # lambdas whose parameters are only partly annotated (one of several parser productions for `(a, b, c: T) -> e`)
    'Main.f3w((@x, @y, @z: int) -> @x + @y * @z, @k)',
    'Main.f3w((@x, @y: int, @z) -> { let w = @x - @y; w + @z }, @j)',
    'Main.f3w((@x: int, @y, @z) -> @x, @k) + Main.app((@x: int) -> @x + 1, @j)',
]


def gen_infer_program(rng, nfun=10):
    """Programs whose type checking leans on inference: generic calls with lambda arguments, generic constructors without
    type arguments, nested lambdas. All templates are accepted as written; rewrites that make an inferred type explicit
    (parameter annotations, explicit type arguments) or wrap an argument in a block / parentheses must keep them accepted."""
    names = ['x', 'y', 'z', 'u', 'v', 'w', 'p', 'q', 'r', 's']
    funs, prints = [], []
    tpls = rng.shuffle(list(range(len(INFER_TEMPLATES))))[:nfun]
    for i, ti in enumerate(tpls):
        x, y, z = rng.shuffle(names)[:3]
        body = (INFER_TEMPLATES[ti].replace('@x', x).replace('@y', y).replace('@z', z)
                .replace('@k', str(rng.range(0, 9))).replace('@j', str(rng.range(0, 9))))
        funs.append('  function t%d(): int = %s' % (i, body))
        prints.append('    Process.println(Str.fromInt(Main.t%d()));' % i)
    text = INFER_PRELUDE + 'class Main {\n' + INFER_HELPERS + '\n'.join(funs) + '\n  function main(): unit = {\n' + '\n'.join(prints) + '\n  }\n}\n'
    # the same program with lambda parameters annotated by the types they have BY CONSTRUCTION (an annotation taken from the
    # checker's own inference cannot expose an inference that is wrong but consistent)
    twin = text
    for a, b in INFER_TWIN_ANNOTATIONS:
        assert a in twin, a
        twin = twin.replace(a, b)
    return {'sources': {'Main': text}, 'entry': 'Main', 'features': ['inference'], 'annotated_twin': {'Main': twin}}


ORDER_PRELUDE = '''class Bx(val v: int) {
  function mk(tag: int, v: int): Bx = { Process.println("mk" :: Str.fromInt(tag)); Bx.init(v) }
  method add(o: Bx): Bx = Bx.init(this.v + o.v)
  method plus(k: int): int = this.v + k
  method three(a: int, b: int, c: int): int = this.v + a * 100 + b * 10 + c
}
class Pr2(val a: int, val b: int) {}
'''


INFER_VIOLATIONS = [
    # an argument whose own type is closed but which hides an undecidable type argument inside
    ('underconstrained-inside-argument', 'Main.twice((@x) -> @x + 1, Opt.Non().size())'),
    ('underconstrained-inside-argument', 'Main.app((@x: int) -> @x, { let @y = 1; Opt.Non().size() + @y })'),
    ('field-access-on-class-name', 'Ed.w + @k'),
    ('field-access-on-class-name', 'Pr.fst + @k'),
    ('bound-violation-solved-from-hint', '{ let @x: (Nb0) -> int = Main.useSh0; @x(Nb0.init(@k)) }'),
    ('bound-violation-solved-from-hint', 'Main.appNb(Main.useSh0) + @k'),
    ('lambda-result-vs-fixed-type-parameter', 'Main.twice((@x) -> "s", @k)'),
    ('lambda-result-vs-fixed-type-parameter', 'Main.fold(@k, @j, (@x, @y) -> "not a number") + 1'),
    ('lambda-result-vs-fixed-type-parameter', 'Main.mk(@k, (@x) -> @x).snd.orElse(0)'),
    ('lambda-parameter-use-vs-fixed-type-parameter', 'Main.app((@x) -> @x.orElse(1), @k)'),
    ('lambda-result-vs-return-hint', 'Main.pick((@x) -> @x, @k)'),
    ('second-lambda-vs-first', 'Main.comp((@x) -> Opt.Som(@x), (@y) -> @y + 1, @k)'),
    ('method-value-annotation-mismatch', '{ let @x: (bool, (Str, bool) -> Opt<bool>) -> Opt<bool> = Bx2.init(@k).conv; 0 }'),
]


def infer_violation_programs(rng):
    """One module per violation: a generic call whose lambda argument conflicts with a type parameter that another argument
    (or the expected result type) fixes. Every one must be rejected with an error in Main."""
    out = []
    names = ['x', 'y', 'z', 'u', 'v', 'w']
    for kind, tpl in INFER_VIOLATIONS:
        x, y, z = rng.shuffle(names)[:3]
        body = (tpl.replace('@x', x).replace('@y', y).replace('@z', z).replace('@k', str(rng.range(0, 9))).replace('@j', str(rng.range(0, 9))))
        text = (INFER_PRELUDE + 'class Main {\n' + INFER_HELPERS +
                '  function <A, B> fold(init: B, item: A, f: (B, A) -> B): B = f(init, item)\n'
                '  function bad(): int = %s\n  function main(): unit = Process.println(Str.fromInt(Main.bad()))\n}\n' % body)
        out.append((kind, {'sources': {'Main': text}, 'entry': 'Main', 'mutated': 'Main'}))
    # whole-member violations: a type parameter of the caller spelled like the method's own (the method's must not capture it),
    # and a member that takes the name of the generated constructor
    members = [
        ('type-parameter-capture', '  function <R> cap(o: Opt<R>): Opt<Str> = o.map((%s) -> %s)\n' % (names[0], names[0])),
        ('type-parameter-capture', '  function <R> cap(o: Opt<R>, d: R): Str = o.map((%s) -> %s).orElse(d)\n' % (names[1], names[1])),
        ('type-parameter-capture', '  function <U> cap(b: Bx2<U>, k: U): Opt<int> = b.conv(k, (%s, %s) -> Opt.Som(1))\n' % (names[0], names[1])),
    ]
    # an annotation that is not a valid instantiation, on a `let` whose initialiser takes its type FROM the annotation
    members += [
        ('let-annotation-invalid-instantiation', '  function bad(): int = { let _: Bx2 = Process.panic("x"); 1 }\n'),
        ('let-annotation-invalid-instantiation', '  function bad(): int = { let _: Pr<int> = Process.panic("x"); 1 }\n'),
        ('let-annotation-invalid-instantiation', '  function bad(): int = { let _: Gr<Nb0, Ed> = Process.panic("x"); 1 }\n'),
        ('let-annotation-invalid-instantiation', '  function bad(): int = { let _: Sh0 = Process.panic("x"); 1 }\n'),
        ('let-annotation-invalid-instantiation', '  function <T> mkT(): T = Process.panic("m")\n  function bad(): int = { let _: Opt<Bx2> = Main.mkT(); 1 }\n'),
    ]
    for kind, member in members:
        text = (INFER_PRELUDE + 'class Main {\n' + INFER_HELPERS + member + '  function main(): unit = Process.println("x")\n}\n')
        out.append((kind, {'sources': {'Main': text}, 'entry': 'Main', 'mutated': 'Main'}))
    # a refutable pattern nested in an object pattern, followed by an irrefutable element: not exhaustive
    for kind, member in [
        ('nonexhaustive-object-pattern', '  function bad(p: PO): int = match p { { a as Som(%s), b } -> %s + b }\n' % (names[0], names[0])),
        ('nonexhaustive-object-pattern', '  function bad(p: PO): int = { let { a as Som(%s), b } = p; %s + b }\n' % (names[1], names[1])),
        ('nonexhaustive-object-pattern', '  function bad(p: PO): int = match p { { b, a as Non } -> b }\n'),
    ]:
        text = (INFER_PRELUDE + 'class PO(val a: Opt<int>, val b: int) {}\nclass Main {\n' + INFER_HELPERS + member +
                '  function main(): unit = Process.println(Str.fromInt(Main.bad(PO.init(Opt.Non(), 1)) + Main.bad(PO.init(Opt.Som(2), 1))))\n}\n')
        out.append((kind, {'sources': {'Main': text}, 'entry': 'Main', 'mutated': 'Main'}))
    # names / instantiations inside positions that have their own traversal: the RESULT of a function type, the bound of a type
    # parameter of a STATIC function of a generic class (first, second position)
    for kind, member in [
        ('unresolved-name-in-function-type-result', '  function bad(f: (int) -> Nope): int = 1\n'),
        ('unresolved-name-in-function-type-result', '  function bad(f: (int) -> (Str) -> Nope2): int = 1\n'),
        ('unresolved-name-in-function-type-result', '  function bad(): int = { let g: ((int) -> Nope3) -> int = (h) -> 1; 1 }\n'),
        ('unresolved-name-in-function-type-result', '  function bad(): (int) -> Opt<Nope4> = (q) -> Opt.Non()\n'),
    ]:
        text = (INFER_PRELUDE + 'class Main {\n' + INFER_HELPERS + member + '  function main(): unit = Process.println("x")\n}\n')
        out.append((kind, {'sources': {'Main': text}, 'entry': 'Main', 'mutated': 'Main'}))
    for cls in ['class BoxB<A>(val a: A) { function <T: Nd> cmpB(x: T): int = 0 }\n',
                'class BoxB<A, B>(val a: A, val b: B) { function <S, T: Nd> cmpB(x: T, y: S): int = 0 }\n',
                'class BoxB<A>(val a: A) { function <T: Gr<int>> cmpB(x: T): int = 0 }\n',
                'class BoxB<A>(val a: A) { method <T: Nd> cmpB(x: T): int = 0 }\n']:
        text = (INFER_PRELUDE + cls + 'class Main {\n' + INFER_HELPERS + '  function main(): unit = Process.println("x")\n}\n')
        out.append(('invalid-bound-of-member-type-parameter', {'sources': {'Main': text}, 'entry': 'Main', 'mutated': 'Main'}))
    # the same generic interface reached at two instantiations (directly and through a diamond); the method fits only one
    for cls in ['interface BaseG<T> { method get(): T }\ninterface GA : BaseG<int> {}\ninterface GB : BaseG<Str> {}\n'
                'class CG(val v: int) : GA, GB { method get(): int = this.v }\n',
                'interface BaseG<T> { method get(): T }\ninterface GA : BaseG<int> {}\ninterface GB : BaseG<Str> {}\n'
                'class CG(val v: int) : GB, GA { method get(): int = this.v }\n',
                'interface BaseG<T> { method get(): T }\nclass CG(val v: int) : BaseG<int>, BaseG<Str> { method get(): int = this.v }\n']:
        text = (INFER_PRELUDE + cls + 'class Main {\n' + INFER_HELPERS + '  function <T: BaseG<Str>> showG(t: T): Str = t.get()\n'
                '  function main(): unit = Process.println(Main.showG(CG.init(3)))\n}\n')
        out.append(('method-conformance-second-instantiation', {'sources': {'Main': text}, 'entry': 'Main', 'mutated': 'Main'}))
    # a class implementing two unrelated interfaces that declare the same method with different signatures
    for a, b in (('int', 'Str'), ('Str', 'int')):
        cls = ('interface SzA { method measure(): %s }\ninterface SzB { method measure(): %s }\n'
               'class BoxM(val v: int) : SzA, SzB { method measure(): int = this.v }\n' % (a, b))
        text = (INFER_PRELUDE + cls + 'class Main {\n' + INFER_HELPERS + '  function main(): unit = Process.println(Str.fromInt(BoxM.init(3).measure()))\n}\n')
        out.append(('method-conformance-second-interface', {'sources': {'Main': text}, 'entry': 'Main', 'mutated': 'Main'}))
    for kind, cls in [('member-named-init', 'class WithInit(val x: int) { function init(s: Str): WithInit = Process.panic(s) }\n'),
                      ('member-named-init', 'class WithInit(val x: int) { method init(k: int): int = this.x + k }\n')]:
        text = (INFER_PRELUDE + cls + 'class Main {\n' + INFER_HELPERS + '  function main(): unit = Process.println(Str.fromInt(WithInit.init(3).x))\n}\n')
        out.append((kind, {'sources': {'Main': text}, 'entry': 'Main', 'mutated': 'Main'}))
    return out


def gen_order_program(rng, nfun=8):
    """Evaluation order: every sub-expression prints a unique tag when it is evaluated (`Main.t(tag, value)`), so the order
    in which receiver, callee, arguments, operands, fields and conditions are evaluated - and which ones are skipped by
    && / || / if - is visible in the output."""
    cnt = [0]

    def t(v):
        cnt[0] += 1
        return 'Main.t(%d, %s)' % (cnt[0], v)

    def tb(v):
        cnt[0] += 1
        return 'Main.tb(%d, %s)' % (cnt[0], v)

    def bx(v):
        cnt[0] += 1
        return 'Bx.mk(%d, %s)' % (cnt[0], v)

    def ie(d):
        k = rng.below(12) if d > 0 else 99
        if k == 0:
            return '(%s %s %s)' % (ie(d - 1), rng.pick(['+', '-', '*']), ie(d - 1))
        if k == 1:
            return '%s.plus(%s)' % (bx(ie(d - 1)), ie(d - 1))                       # receiver with an effect, then the argument
        if k == 2:
            return '%s.add(%s).v' % (bx(ie(d - 1)), bx(ie(d - 1)))
        if k == 3:
            return '%s.three(%s, %s, %s)' % (bx(str(rng.below(5))), ie(d - 1), t(str(rng.below(9))), ie(d - 1))
        if k == 4:
            return 'Main.f3(%s, %s, %s)' % (ie(d - 1), ie(d - 1), t(str(rng.below(9))))
        if k == 5:
            return '{ let g = %s; g }(%s)' % ('Main.mkf(%d)' % rng.below(9), ie(d - 1)) # closure callee with an effect, then the argument
        if k == 6:
            return '(if %s { %s } else { %s })' % (be(d - 1), ie(d - 1), ie(d - 1))
        if k == 7:
            return '{ let p = Pr2.init(%s, %s); p.a * 10 + p.b }' % (ie(d - 1), ie(d - 1))
        if k == 8:
            return '{ let (x, y) = (%s, %s); x - y }' % (ie(d - 1), ie(d - 1))
        if k == 9:
            return 'Main.mkf(%d)(%s)' % (rng.below(9), ie(d - 1))
        return t(str(rng.range(0, 9)))

    def be(d):
        k = rng.below(8) if d > 0 else 99
        if k == 6:
            # an operand whose VALUE is a constant but whose evaluation is visible (must still be evaluated, and only when the
            # other operand does not decide)
            return rng.pick(['(%s || true)', '(%s && false)', '(%s || false)', '(%s && true)', '(true && %s)', '(false || %s)',
                             '{ let _ = %s; true }', '{ let _ = %s; false }']) % tb(rng.pick(['true', 'false']))
        if k == 7:
            return '(%s %s %s)' % (be(d - 1), rng.pick(['&&', '||']),
                                   rng.pick(['(%s || true)', '(%s && false)', '{ let _ = %s; true }', '{ let _ = %s; false }']) % be(d - 1))
        if k == 0:
            return '(%s && %s)' % (be(d - 1), be(d - 1))
        if k == 1:
            return '(%s || %s)' % (be(d - 1), be(d - 1))
        if k == 2:
            return '(%s %s %s)' % (ie(d - 1), rng.pick(['<', '==', '>=']), ie(d - 1))
        if k == 3:
            return '!%s' % tb(rng.pick(['true', 'false']))
        return tb(rng.pick(['true', 'false']))

    funs, prints = [], []
    for i in range(nfun):
        funs.append('  function e%d(): int = %s' % (i, ie(3)))
        prints.append('    Process.println(Str.fromInt(Main.e%d()));' % i)
    text = (ORDER_PRELUDE + 'class Main {\n'
            '  function t(tag: int, v: int): int = { Process.println("t" :: Str.fromInt(tag)); v }\n'
            '  function tb(tag: int, v: bool): bool = { Process.println("b" :: Str.fromInt(tag)); v }\n'
            '  function f3(a: int, b: int, c: int): int = a * 100 + b * 10 + c\n'
            '  function mkf(tag: int): (int) -> int = { Process.println("f" :: Str.fromInt(tag)); (x) -> x + tag }\n'
            + '\n'.join(funs) + '\n  function main(): unit = {\n' + '\n'.join(prints) + '\n  }\n}\n')
    return {'sources': {'Main': text}, 'entry': 'Main', 'features': ['evaluation-order']}


def gen_layout_program(rng, nty=4, single_field=True):
    _LBASE[0] = _LBASE_ALL if single_field else _LBASE_MULTI
    try:
        return _gen_layout_program(rng, nty)
    finally:
        _LBASE[0] = _LBASE_ALL


def _gen_layout_program(rng, nty):
    funs, prints = [], []
    for i in range(nty):
        t = _lt(rng, rng.range(1, 3))
        arms = _larms(t, 'p', [0])
        funs.append('  function sh%d(v: %s): int = match v { %s }' % (i, _tname(t), ', '.join('%s -> %s' % a for a in arms)))
        seen = set()
        for _ in range(10):                      # distinct values: every constructor path should be hit for small types
            v = _lvals(rng, t, 0)
            if v not in seen:
                seen.add(v)
                prints.append('    Process.println(Str.fromInt(Main.sh%d(%s)));' % (i, v))
    text = LAYOUT_DECLS + 'class Main {\n' + '\n'.join(funs) + '\n  function main(): unit = {\n' + '\n'.join(prints) + '\n  }\n}\n'
    return {'sources': {'Main': text}, 'entry': 'Main', 'features': ['layout']}
