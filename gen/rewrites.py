"""Meaning-preserving source rewrites for C13 (DESIGN.md section 4, C13).

Every rewrite is an edit of the program TEXT at byte ranges reported by the real front end
(`vh rewrite-run`, harness/src/rewrite_run.rs: parser locations, the SSA resolution graph and the types of
the checked AST).  `variants(prog, info, rng, cap)` returns a list of
    {'kind': <rewrite>, 'site': <description>, 'sources': {module: text}, 'entry': module}
for ONE module of the program.  Kinds:

  rename          one local binder (parameter / let or match pattern variable / lambda parameter / interface
                  method parameter) and all occurrences that resolve to it -> a name that occurs nowhere
  rename-all      every renamable binder of the module at once, each to its own fresh name
  reorder-top     permutation of the classes / interfaces of the module
  reorder-mem     permutation of the members of one class / interface
  paren           (e) around one expression            block          { e } around one expression
  paren-many      (e) around many expressions at once
  annot-let       let p = e   ->  let p: T = e         (T: type of e in the checked AST)
  annot-lambda    (x) -> e    ->  (x: T) -> e          (one parameter, or all parameters of one lambda)
  targs           C.f(e) / o.m(e)  ->  C.f<T..>(e) / o.m<T..>(e)   (inferred type arguments of the checked AST)
  split           some classes move to a new module; imports added on both sides

Sites that are not applicable are skipped and counted in `skips` (a dict passed by the caller): text of the
expression not bracket-balanced (the location of `(a + b) * c` starts inside the parenthesis), inferred type
not expressible in the module (contains `any`, a class-statics type, a class that is not imported), callee
of a GENERIC member call for `block` (by design of the language: a call `C.f(x)` is one syntactic form, the member
reference alone has no arguments to infer its type arguments from), binders of patterns with an or-pattern nested in a later
alternative (open finding of C15), private classes for `split`.
"""
import re

IDENT = re.compile(rb'[A-Za-z_][A-Za-z0-9_]*')
KEYWORDS = {'let', 'match', 'if', 'else', 'function', 'method', 'class', 'val', 'int', 'unit', 'this', 'as', 'import',
            'from', 'true', 'false', 'bool', 'private', 'interface', 'any'}


class Text:
    """A module text with (line, byte column) -> byte offset conversion."""

    def __init__(self, text):
        self.b = text.encode('utf-8')
        self.starts = [0]
        for i, c in enumerate(self.b):
            if c == 10:
                self.starts.append(i + 1)

    def off(self, line, col):
        if line >= len(self.starts):
            return len(self.b)
        return min(self.starts[line] + col, len(self.b))

    def span(self, loc):
        return self.off(loc[0], loc[1]), self.off(loc[2], loc[3])

    def get(self, loc):
        s, e = self.span(loc)
        return self.b[s:e]


def apply_edits(b, edits):
    """edits: (start, end, replacement bytes, order); non-overlapping ranges; insertions at the same offset are
    emitted in increasing `order`."""
    out = []
    pos = 0
    for s, e, r, _ in sorted(edits, key=lambda x: (x[0], x[3])):
        if s < pos:
            raise ValueError('overlapping edits')
        out.append(b[pos:s])
        out.append(r)
        pos = e
    out.append(b[pos:])
    return b''.join(out).decode('utf-8')


def _scan(b):
    """(number of unmatched closing brackets, stack of unmatched opening brackets) of a fragment; string
    literals and comments skipped; None if brackets of different kinds cross."""
    stack = []
    closes = []
    i, n = 0, len(b)
    pairs = {ord(')'): ord('('), ord('}'): ord('{'), ord(']'): ord('[')}
    while i < n:
        c = b[i]
        if c == 34:  # "
            i += 1
            while i < n and b[i] != 34:
                i += 2 if b[i] == 92 else 1
            i += 1
            continue
        if c == 47 and i + 1 < n and b[i + 1] == 47:
            while i < n and b[i] != 10:
                i += 1
            continue
        if c == 47 and i + 1 < n and b[i + 1] == 42:
            j = b.find(b'*/', i + 2)
            i = n if j < 0 else j + 2
            continue
        if c in (40, 123, 91):
            stack.append(c)
        elif c in pairs:
            if stack:
                if stack[-1] != pairs[c]:
                    return None
                stack.pop()
            else:
                closes.append(c)
        i += 1
    return closes, stack


def balanced(b):
    """Brackets of a source fragment are balanced (string literals and comments skipped)."""
    r = _scan(b)
    return r is not None and not r[0] and not r[1]


def extend_balanced(b, s, e):
    """The parser drops parentheses: the location of `(a + b) * c` starts at `a`, the location of a member
    whose body is `(match ..)` ends before `)`.  Extend [s, e) over the enclosing parentheses that the
    fragment leaves open, or return None."""
    for _ in range(64):
        r = _scan(b[s:e])
        if r is None:
            return None
        closes, opens = r
        if not closes and not opens:
            return s, e
        if closes:
            if closes[0] != 41:
                return None
            j = s - 1
            while j >= 0 and b[j] in b' \t\r\n':
                j -= 1
            if j < 0 or b[j] != 40:
                return None
            s = j
        else:
            if opens[-1] != 40:
                return None
            j = e
            while j < len(b) and b[j] in b' \t\r\n':
                j += 1
            if j >= len(b) or b[j] != 41:
                return None
            e = j + 1
    return None


def all_identifiers(sources):
    ids = set()
    for t in sources.values():
        ids.update(m.group(0).decode() for m in IDENT.finditer(t.encode('utf-8')))
    return ids


def fresh_names(sources, n, stem='zq'):
    used = all_identifiers(sources)
    out, k = [], 0
    while len(out) < n:
        name = '%s%d' % (stem, k)
        k += 1
        if name not in used:
            out.append(name)
    return out


def _skip(skips, why):
    if skips is not None:
        skips[why] = skips.get(why, 0) + 1


def _mk(prog, module, kind, site, text, extra=None):
    srcs = dict(prog['sources'])
    srcs[module] = text
    if extra:
        srcs.update(extra)
    return {'kind': kind, 'site': site, 'sources': srcs, 'entry': prog['entry'], 'module': module}


# ----------------------------------------------------------------------------- (1) rename

def _binder_edits(tx, b, new, shorthand, skips, colliding=()):
    if b.get('occ') is None or b['invalid'] or b['name'] in ('this', '_') or b['name'] in colliding:
        # a binder that collides with another one (NameAlreadyBound) is not alpha-renamable: the program has
        # a scoping error exactly there
        _skip(skips, 'rename:' + ('name-collision' if b['invalid'] or b['name'] in colliding else 'no-occurrences'))
        return None
    edits = []
    for loc in b['occ']:
        if tx.get(loc) != b['name'].encode():
            _skip(skips, 'rename:location-text-mismatch')
            return None
        s, e = tx.span(loc)
        rep = ('%s as %s' % (b['name'], new)) if tuple(loc) in shorthand else new
        edits.append((s, e, rep.encode(), 0))
    return edits


def rename_variants(prog, module, sites, rng, cap, skips=None):
    tx = Text(prog['sources'][module])
    shorthand = {tuple(l) for l in sites['shorthand']}
    binders = sites['binders']
    out = []
    names = fresh_names(prog['sources'], len(binders) + 2)
    colliding = {b['name'] for b in binders if b['invalid']}
    idx = list(range(len(binders)))
    if len(idx) > cap:
        idx = sorted(rng.shuffle(idx)[:cap])
    for i in idx:
        b = binders[i]
        ed = _binder_edits(tx, b, names[0], shorthand, skips, colliding)
        if ed is None:
            continue
        out.append(_mk(prog, module, 'rename', {'binder': b['name'], 'kind': b['kind'], 'loc': b['loc'], 'new': names[0],
                                               'occurrences': len(b['occ'])}, apply_edits(tx.b, ed)))
    # all binders at once
    alled, n = [], 0
    seen = set()
    for i, b in enumerate(binders):
        ed = _binder_edits(tx, b, names[i + 1], shorthand, None, colliding)
        if ed is None or any((s, e) in seen for s, e, _, _ in ed):
            continue
        seen.update((s, e) for s, e, _, _ in ed)
        alled += ed
        n += 1
    if n >= 2:
        try:
            out.append(_mk(prog, module, 'rename-all', {'binders': n}, apply_edits(tx.b, alled)))
        except ValueError:
            _skip(skips, 'rename-all:overlap')
    return out


# ----------------------------------------------------------------------------- (2) reorder

def _segments(tx, locs):
    """prefix, [segment per item], tail: item i owns the text from the end of item i-1 to its own end; the
    first item starts at its own start."""
    spans = [extend_balanced(tx.b, *tx.span(l)) for l in locs]
    if spans and spans[0] is not None:
        # the location of a member starts at `function` / `method`: a preceding `private` belongs to it
        s0, e0 = spans[0]
        j = s0
        while j > 0 and tx.b[j - 1] in b' \t\r\n':
            j -= 1
        if tx.b[max(0, j - 7):j] == b'private' and (j < 8 or not (tx.b[j - 8:j - 7].isalnum() or tx.b[j - 8:j - 7] == b'_')):
            spans[0] = (j - 7, e0)
    if any(x is None for x in spans) or any(spans[i][1] > spans[i + 1][0] for i in range(len(spans) - 1)):
        return None
    prefix = tx.b[:spans[0][0]]
    segs = []
    prev = spans[0][0]
    for s, e in spans:
        segs.append(tx.b[prev:e])
        prev = e
    return prefix, segs, tx.b[prev:]


def _perms(n, rng, cap):
    ident = list(range(n))
    cands = [ident[::-1], ident[1:] + ident[:1]]
    for i in range(n - 1):
        p = list(ident)
        p[i], p[i + 1] = p[i + 1], p[i]
        cands.append(p)
    for _ in range(3):
        cands.append(rng.shuffle(ident))
    out = []
    for p in cands:
        if p != ident and p not in out:
            out.append(p)
    if len(out) > cap:
        out = rng.shuffle(out)[:cap]
    return out


def _join(prefix, segs, perm, tail):
    return (prefix + b'\n'.join(segs[i].strip(b' \t') if k else segs[i] for k, i in enumerate(perm)) + tail).decode('utf-8')


def reorder_variants(prog, module, sites, rng, cap, skips=None):
    tx = Text(prog['sources'][module])
    out = []
    tops = sites['toplevels']
    if len(tops) >= 2:
        sg = _segments(tx, [t['loc'] for t in tops])
        if sg is None:
            _skip(skips, 'reorder-top:overlapping-locations')
        else:
            names = [t['name'] for t in tops]
            dup = len(set(names)) != len(names)
            for p in _perms(len(tops), rng, max(1, cap // 2)):
                v = _mk(prog, module, 'reorder-top', {'order': [tops[i]['name'] for i in p]}, _join(sg[0], sg[1], p, sg[2]))
                v['dup_names'] = dup
                out.append(v)
    cands = [t for t in tops if len(t['members']) >= 2]
    per = max(1, (cap - len(out)) // max(1, len(cands)))
    for t in cands:
        sg = _segments(tx, [m['loc'] for m in t['members']])
        if sg is None:
            _skip(skips, 'reorder-mem:overlapping-locations')
            continue
        names = [m['name'] for m in t['members']]
        dup = len(set(names)) != len(names)
        for p in _perms(len(t['members']), rng, per):
            v = _mk(prog, module, 'reorder-mem', {'class': t['name'], 'order': [t['members'][i]['name'] for i in p]},
                    _join(sg[0], sg[1], p, sg[2]))
            # duplicate names: the excluded case of C13_perm_invariant (the last declaration wins); the checker reports
            # NameAlreadyBound in every order, which is all the monitor then compares
            v['dup_names'] = dup
            out.append(v)
    return out


# ----------------------------------------------------------------------------- (3) wrap

NO_WRAP_ROLES = {'branch', 'else-if'}          # `if c { .. } else { .. }` / `else if`: syntactically fixed


def wrap_sites(tx, sites, skips=None):
    out = []
    for e in sites['exprs']:
        if e['role'] in NO_WRAP_ROLES:
            continue
        s, t = tx.span(e['loc'])
        x = extend_balanced(tx.b, s, t) if s < t else None
        if x is None:
            _skip(skips, 'wrap:location-not-balanced')
            continue
        out.append((e, x[0], x[1]))
    return out


# site classes currently excluded from `block`; checks/c13.py removes a class when its witness no longer fails
EXCLUDED_BLOCK_CLASSES = {'generic-member-callee', 'method-callee-on-generic-receiver'}


def block_excluded(e, generic_member, receiver):
    """Classes of `block` sites that are not rewritten (checks/c13.py replays one fixed witness per class):
    * generic-member-callee — BY DESIGN of the language, always excluded, not a finding: `{ C.f }(x)` for a member
      with type parameters.  `C.f(args)` / `e.m(args)` are call forms (spec 6.7.1 / 6.7.2); once the member
      reference is a value of its own its type arguments have no context (spec 5.7) -> Underconstrained;
    * method-callee-on-generic-receiver — only while the witness of the finding C03-method-value-generic-receiver
      (fixed by d1b42a2) fails again: `{ o.m }(x)` where o has a generic class type made the compiler panic."""
    if e['role'] == 'callee' and e['k'] in ('method', 'field'):
        if e['i'] in generic_member:
            return 'generic-member-callee' if 'generic-member-callee' in EXCLUDED_BLOCK_CLASSES else None
        r = receiver.get(e['i'])
        if e['k'] == 'method' and r is not None and '<' in r['ty']['s'] and 'method-callee-on-generic-receiver' in EXCLUDED_BLOCK_CLASSES:
            return 'method-callee-on-generic-receiver'
    return None


def wrap_variants(prog, module, sites, rng, cap, skips=None, exhaustive=False):
    tx = Text(prog['sources'][module])
    ws = wrap_sites(tx, sites, skips)
    out = []
    generic_member = {t['expr'] for t in sites['targs'] if t['inferred'] and not t['explicit']}
    receiver = {e['parent']: e for e in sites['exprs'] if e['role'] == 'object'}
    chosen = ws if len(ws) <= cap else sorted(rng.shuffle(ws)[:cap], key=lambda x: x[0]['i'])
    for e, s, t in chosen:
        desc = {'expr': e['i'], 'k': e['k'], 'role': e['role'], 'loc': e['loc'], 'type': e['ty']['s']}
        modes = ['paren', 'block'] if exhaustive else ['paren' if rng.chance(1, 2) else 'block']
        for mode in modes:
            if mode == 'block':
                why = block_excluded(e, generic_member, receiver)
                if why:
                    _skip(skips, 'block:' + why)
                    if exhaustive:
                        continue
                    mode = 'paren'
            l, r = (b'(', b')') if mode == 'paren' else (b'{ ', b' }')
            out.append(_mk(prog, module, mode, desc, apply_edits(tx.b, [(s, s, l, 0), (t, t, r, 0)])))
    # many parentheses at once (nested sites allowed: identical tokens, any order)
    if len(ws) >= 2:
        many = [w for w in ws if rng.chance(1, 2)]
        ed = []
        for e, s, t in many:
            ed.append((s, s, b'(', 0))
            ed.append((t, t, b')', 0))
        if ed:
            out.append(_mk(prog, module, 'paren-many', {'sites': len(many)}, apply_edits(tx.b, ed)))
    return out


# ----------------------------------------------------------------------------- (4) explicit types

def _scope_of(sites):
    """module -> names usable in annotations of this module: its own toplevels and its imports."""
    return None


def _expressible(ty, module, sites, site, skips, what):
    """Can the inferred type be written as an annotation at this site of this module?"""
    if ty['any']:
        _skip(skips, what + ':type-contains-any')
        return False
    if ty['statics']:
        _skip(skips, what + ':class-statics-type')
        return False
    local = {t['name'] for t in sites['toplevels']}
    imported = {}
    for imp in sites['imports']:
        for n in imp['names']:
            imported[n] = imp['module']
    for m, n in ty['noms']:
        if m == '':
            if n in local or n in imported:
                _skip(skips, what + ':builtin-class-shadowed')
                return False
            continue
        if m == module and n in local:
            continue
        if imported.get(n) == m:
            continue
        _skip(skips, what + ':class-not-in-scope')
        return False
    top = sites['toplevels'][site['toplevel']]
    tps = set()
    mem = next((x for x in top['members'] if x.get('index') == site['member']), None)
    if mem is not None:
        tps.update(mem['tparams'])
        if mem['is_method']:
            tps.update(top['tparams'])
    if not set(ty['gens']) <= tps:
        _skip(skips, what + ':type-variable-not-in-scope')
        return False
    return True


def annot_variants(prog, module, sites, rng, cap, skips=None):
    tx = Text(prog['sources'][module])
    cands = []
    for l in sites['lets']:
        if l['annotated']:
            continue
        if not _expressible(l['ty'], module, sites, l, skips, 'annot-let'):
            continue
        _, e = tx.span(l['pat_loc'])
        cands.append(('annot-let', {'let': l['loc'], 'pattern': l['pat_kind'], 'type': l['ty']['s']},
                      [(e, e, (': ' + l['ty']['s']).encode(), 0)]))
    by_lambda = {}
    for p in sites['lparams']:
        by_lambda.setdefault(p['lambda'], []).append(p)
    for lam, ps in sorted(by_lambda.items()):
        todo = [p for p in ps if not p['annotated']]
        ok = [p for p in todo if _expressible(p['ty'], module, sites, p, skips, 'annot-lambda')]
        for p in ok:
            _, e = tx.span(p['loc'])
            cands.append(('annot-lambda', {'lambda': lam, 'param': p['index'], 'type': p['ty']['s']},
                          [(e, e, (': ' + p['ty']['s']).encode(), 0)]))
        if len(ok) >= 2 and len(ok) == len(todo):
            ed = []
            for p in ok:
                _, e = tx.span(p['loc'])
                ed.append((e, e, (': ' + p['ty']['s']).encode(), 0))
            cands.append(('annot-lambda', {'lambda': lam, 'param': 'all', 'types': [p['ty']['s'] for p in ok]}, ed))
    for t in sites['targs']:
        if t['explicit'] or not t['inferred']:
            continue
        if not all(_expressible(ty, module, sites, t, skips, 'targs') for ty in t['inferred']):
            continue
        _, e = tx.span(t['name_loc'])
        txt = '<' + ', '.join(ty['s'] for ty in t['inferred']) + '>'
        cands.append(('targs', {'member': t['name'], 'kind': t['kind'], 'called': t['called'], 'type_arguments': txt,
                                'loc': t['name_loc']}, [(e, e, txt.encode(), 0)]))
    if len(cands) > cap:
        # keep the three kinds represented; candidates whose written type mentions a type variable or nests a generic class
        # are rare and are always kept (a bare upper-case letter or `<...<` in the text of the type)
        def generic_type(c):
            txt = ' '.join(str(c[1].get(k, '')) for k in ('type', 'types', 'type_arguments'))
            return re.search(r'\b[A-Z]\b', txt) is not None or re.search(r'<[^<>]*<', txt) is not None
        kinds = {}
        always = [c for c in cands if generic_type(c)]
        for c in rng.shuffle([c for c in cands if not generic_type(c)]):
            kinds.setdefault(c[0], []).append(c)
        picked = list(always)
        while len(picked) < cap and any(kinds.values()):
            for k in sorted(kinds):
                if kinds[k] and len(picked) < cap:
                    picked.append(kinds[k].pop())
        cands = picked
    return [_mk(prog, module, k, d, apply_edits(tx.b, ed)) for k, d, ed in cands]


# ----------------------------------------------------------------------------- (5) split

def split_variants(prog, module, sites, rng, cap, skips=None, entry_class='Main', keep=()):
    tx = Text(prog['sources'][module])
    tops = sites['toplevels']
    if len(tops) < 2:
        return []
    if module == 'std.tuples':
        # tuple expressions and patterns are typed as std.tuples.Pair / Triple / TupleN by the checker itself
        # (main_checker.rs check_tuple): these classes cannot live anywhere else
        _skip(skips, 'split:module-known-to-the-compiler')
        return []
    new_mod = 'Zsplit'
    k = 0
    while new_mod in prog['sources'] or new_mod in all_identifiers(prog['sources']):
        k += 1
        new_mod = 'Zsplit%d' % k
    sg = _segments(tx, [t['loc'] for t in tops])
    if sg is None:
        _skip(skips, 'split:overlapping-locations')
        return []
    prefix, segs, tail = sg
    names = [t['name'] for t in tops]
    private = {t['name'] for t in tops if t['private']}
    local_uses = []
    ext_uses = []
    for t in tops:
        local_uses.append({n for m, n in t['uses'] if m == module and n in names and n != t['name']})
        ext_uses.append({(m, n) for m, n in t['uses'] if m not in ('', module)})
    movable = []
    for i, t in enumerate(tops):
        if (module == prog['entry'] and t['name'] == entry_class) or t['name'] in keep:
            continue
        if t['private']:
            _skip(skips, 'split:private-class')
            continue
        movable.append(i)
    if not movable:
        return []
    sets = [[i] for i in movable]
    if len(movable) >= 2:
        for _ in range(2):
            s = sorted(i for i in movable if rng.chance(1, 2))
            if s and s not in sets:
                sets.append(s)
        if movable not in sets:
            sets.append(list(movable))
    if len(sets) > cap:
        sets = rng.shuffle(sets)[:cap]
    imported_from = {}
    for imp in sites['imports']:
        for n in imp['names']:
            imported_from[n] = imp['module']
    out = []
    for mv in sets:
        mvset = set(mv)
        stay = [i for i in range(len(tops)) if i not in mvset]
        # classes the moved ones need from the original module, and vice versa
        need_back = set().union(*[local_uses[i] for i in mv]) - {names[i] for i in mv}
        need_fwd = set().union(*[local_uses[i] for i in stay]) & {names[i] for i in mv} if stay else set()
        if need_back & private:
            _skip(skips, 'split:uses-private-class')
            continue
        new_imports = {}
        for i in mv:
            for m, n in ext_uses[i]:
                if imported_from.get(n) == m:
                    new_imports.setdefault(m, set()).add(n)
        if need_back:
            new_imports.setdefault(module, set()).update(need_back)
        new_text = ''.join('import { %s } from %s;\n' % (', '.join(sorted(ns)), m) for m, ns in sorted(new_imports.items()))
        new_text += b'\n'.join(segs[i].strip(b' \t') for i in mv).decode('utf-8') + '\n'
        head = ('import { %s } from %s;\n' % (', '.join(sorted(need_fwd)), new_mod)) if need_fwd else ''
        old_text = head + prefix.decode('utf-8') + b'\n'.join(segs[i].strip(b' \t') if k else segs[i] for k, i in enumerate(stay)).decode('utf-8') + tail.decode('utf-8')
        out.append(_mk(prog, module, 'split', {'moved': [names[i] for i in mv], 'new_module': new_mod,
                                              'imports_back': sorted(need_back), 'imports_forward': sorted(need_fwd)},
                       old_text, extra={new_mod: new_text}))
    return out


# ----------------------------------------------------------------------------- all

KINDS = ('rename', 'reorder', 'wrap', 'annot', 'split')


def imported_elsewhere(prog, module):
    """Names other modules of the program import from `module` (they cannot move in a split)."""
    keep = set()
    pat = re.compile(r'import\s*\{([^}]*)\}\s*from\s+%s\b' % re.escape(module))
    for m, t in prog['sources'].items():
        if m != module:
            for g in pat.findall(t):
                keep.update(x.strip() for x in g.split(',') if x.strip())
    return keep


def variants(prog, module, sites, rng, cap=30, skips=None, exhaustive=False):
    """Up to ~cap variants of one module, spread over the rewrite kinds.  exhaustive: every site (cap ignored),
    parentheses AND block at every expression."""
    if exhaustive:
        cap = 10 ** 6
    per = {'rename': cap // 5 + 1, 'reorder': cap // 6 + 1, 'wrap': cap // 3 + 1, 'annot': cap // 4 + 1, 'split': max(2, cap // 10)}
    out = []
    out += rename_variants(prog, module, sites, rng.fork(), per['rename'], skips)
    out += reorder_variants(prog, module, sites, rng.fork(), per['reorder'], skips)
    out += wrap_variants(prog, module, sites, rng.fork(), per['wrap'], skips, exhaustive)
    out += annot_variants(prog, module, sites, rng.fork(), per['annot'], skips)
    out += split_variants(prog, module, sites, rng.fork(), per['split'], skips, keep=imported_elsewhere(prog, module))
    return out


# ----------------------------------------------------------------------------- ill-typed programs

def inject_error(prog, module, sites, rng):
    """One type / scoping error injected into an accepted program, at a site of the checked AST.
    Returns (program, description) or None."""
    tx = Text(prog['sources'][module])
    exprs = sites['exprs']
    cands = []
    for e in exprs:
        s, t = tx.span(e['loc'])
        if s >= t or not balanced(tx.b[s:t]):
            continue
        ty = e['ty']['s']
        if e['k'] == 'lit' and ty == 'int':
            cands.append((e, s, t, b'true', 'int-literal->bool'))
        elif e['k'] == 'lit' and ty == 'bool':
            cands.append((e, s, t, b'7', 'bool-literal->int'))
        elif e['k'] == 'lit' and ty == 'Str':
            cands.append((e, s, t, b'3', 'string-literal->int'))
        elif e['k'] == 'local' and tx.b[s:t] != b'this':
            cands.append((e, s, t, b'unboundName', 'unbound-variable'))
        elif e['k'] == 'call' and e['role'] in ('arg', 'lhs', 'rhs', 'let-rhs', 'final'):
            cands.append((e, s, t, b'(' + tx.b[s:t] + b', 1)', 'value->tuple'))
        elif e['k'] == 'lambda':
            cands.append((e, s, t, b'0', 'lambda->int'))
    for tg in sites['targs']:
        s, t = tx.span(tg['name_loc'])
        cands.append((None, s, t, b'noSuchMember', 'unknown-member'))
    if not cands:
        return None
    e, s, t, rep, what = rng.pick(cands)
    srcs = dict(prog['sources'])
    srcs[module] = apply_edits(tx.b, [(s, t, rep, 0)])
    return {'sources': srcs, 'entry': prog['entry'], 'features': sorted(set(prog.get('features', [])) | {'injected:' + what})}, what
