"""splitmix64: the one PRNG of the Python generators (VERIF_SEED -> everything)."""
M = (1 << 64) - 1


class Rng:
    def __init__(self, seed):
        self.s = (seed * 0x9E3779B97F4A7C15 + 0x1234567) & M

    def next(self):
        self.s = (self.s + 0x9E3779B97F4A7C15) & M
        z = self.s
        z = ((z ^ (z >> 30)) * 0xBF58476D1CE4E5B9) & M
        z = ((z ^ (z >> 27)) * 0x94D049BB133111EB) & M
        return z ^ (z >> 31)

    def below(self, n):
        return self.next() % n if n > 0 else 0

    def range(self, lo, hi):
        return lo + self.below(hi - lo + 1)

    def chance(self, num, den):
        return self.below(den) < num

    def pick(self, xs):
        return xs[self.below(len(xs))]

    def shuffle(self, xs):
        xs = list(xs)
        for i in range(len(xs) - 1, 0, -1):
            j = self.below(i + 1)
            xs[i], xs[j] = xs[j], xs[i]
        return xs

    def fork(self):
        return Rng(self.next())
