"""Generator of scoping-heavy samlang programs for C15 (DESIGN.md section 4, C15).

Well typed by construction (everything computes `int`); every program has `class Main` with
`function main(): unit` printing one line per generated function, so behaviour is observable.

Binding constructs exercised: function / method parameters, `let` with identifier, tuple, nested tuple,
struct (`{ f }`, `{ f as x }`, nested, positional) patterns and wildcards, `match` arms on enums with
variant patterns, nested variant patterns, or-patterns that bind the same names in every alternative
(also or-patterns nested inside the FIRST alternative or inside a constructor), `if let`, lambdas with
and without annotations capturing outer variables, nested lambdas, `this`.

The language has no shadowing, so a name is never rebound inside the scope of another binding of it;
names ARE reused aggressively in sibling scopes (other arms, other blocks, other lambdas, other
functions) and coincide with field names, which is where a resolver can go wrong.

Knob `allow_known`: also generate an or-pattern nested inside a NON-first alternative of an or-pattern
(the open finding C15-nested-or-later-alt); off by default.
"""

import re

PRELUDE = '''import { Pair, Triple } from std.tuples;

class P(val a: int, val b: int) {
  method sum(k: int): int = this.a + this.b + k
}

class Q(val p: P, val c: int) {}

class E(A(int), B(int), C(int, int), D) {}

class W(X(E), Y(E), Z(int, E)) {}

class V(L(P), R(P), T(P, int), N) {}

interface Cmp { method cmp(o: int): int }

class K(val k: int) : Cmp { method cmp(o: int): int = this.k - o }

class Opt<T>(Non, Som(T)) {
  method <R> map(f: (T) -> R): Opt<R> =
    match this {
      Non -> Opt.Non(),
      Som(v) -> Opt.Som(f(v)),
    }

  method orElse(d: T): T =
    match this {
      Som(v) -> v,
      Non -> d,
    }
}
'''

POOL = ['a', 'b', 'c', 'd', 'x', 'y', 'z', 'k', 'm', 'n', 'p', 'q', 'v', 'w', 'acc', 'it']


class ScopeGen:
    def __init__(self, rng, allow_known=False, depth=4, nfun=5, allow_as_same=False):
        self.r = rng
        self.allow_known = allow_known
        self.allow_as_same = allow_as_same
        self.depth = depth
        self.nfun = nfun
        self.n = 0
        self.k = 0
        self.alias = {}
        self.features = {}

    def feat(self, f):
        self.features[f] = self.features.get(f, 0) + 1

    # Binders are emitted as tokens (\x01<id>\x02) and spelled afterwards, so that one generated program can be rendered
    # twice: with the pool names (sibling scopes reuse names) and with every binder renamed apart (u<id>) - two programs
    # that differ by a consistent renaming of local variables only.
    def inuse(self, xs):
        return {self.alias.get(x, x) for x in xs}

    def name(self, bound, avoid=()):
        """a name not bound in any enclosing scope (no shadowing), preferring the small pool so that
        sibling scopes reuse names"""
        used = self.inuse(bound) | self.inuse(avoid)
        cands = [n for n in POOL if n not in used]
        if cands and self.r.chance(9, 10):
            nm = self.r.pick(cands[:8]) if self.r.chance(2, 3) else self.r.pick(cands)
        else:
            self.n += 1
            nm = 't%d' % self.n
        self.k += 1
        tok = '\x01%d\x02' % self.k
        self.alias[tok] = nm
        return tok

    def fld(self, f, x):
        """`f as x`; the shorthand `f` when x is f (`f as f` is legal but rename rewrites it: finding
        C15-rename-rewrites-as-same-name, only generated with allow_as_same)"""
        if self.alias.get(x, x) == f and not self.allow_as_same:
            self.feat('struct-shorthand')
            return x.replace('\x02', '\x03') if x in self.alias else f      # \x03: spelled `f` / `f as u<id>`
        return '%s as %s' % (f, x)

    def render(self, text, apart=False):
        def sub(m):
            tok = '\x01%s\x02' % m.group(1)
            if not apart:
                return self.alias[tok]
            return ('%s as u%s' % (self.alias[tok], m.group(1))) if m.group(2) == '\x03' else 'u' + m.group(1)
        return re.sub('\x01(\\d+)([\x02\x03])', sub, text)

    def names(self, bound, k):
        out = []
        for _ in range(k):
            out.append(self.name(bound, out))
        return out

    # ------------------------------------------------------------------ values
    def lit(self):
        return str(self.r.pick([0, 1, 1, 2, 3, 5, 7, 10, 12]))

    def atom(self, ints):
        if ints and self.r.chance(4, 5):
            return self.r.pick(ints)
        return self.lit()

    def gE(self, bound, ints, depth):
        k = self.r.below(4)
        if k == 0:
            return 'E.A(%s)' % self.gi(bound, ints, depth - 1)
        if k == 1:
            return 'E.B(%s)' % self.gi(bound, ints, depth - 1)
        if k == 2:
            return 'E.C(%s, %s)' % (self.gi(bound, ints, depth - 1), self.gi(bound, ints, depth - 1))
        return 'E.D()'

    def gW(self, bound, ints, depth):
        k = self.r.below(3)
        if k == 0:
            return 'W.X(%s)' % self.gE(bound, ints, depth)
        if k == 1:
            return 'W.Y(%s)' % self.gE(bound, ints, depth)
        return 'W.Z(%s, %s)' % (self.gi(bound, ints, depth - 1), self.gE(bound, ints, depth))

    # ------------------------------------------------------------------ patterns over E
    def pE_single(self, v, binders):
        """pattern for variant v of E binding exactly `binders` (list of 0..2 names); None if impossible"""
        r = self.r
        if v == 'D':
            return 'D' if not binders else None
        if v in ('A', 'B'):
            if len(binders) > 1:
                return None
            return '%s(%s)' % (v, binders[0] if binders else '_')
        if len(binders) == 2:
            return 'C(%s, %s)' % tuple(binders if r.chance(1, 2) else binders[::-1])
        if len(binders) == 1:
            return 'C(%s, _)' % binders[0] if r.chance(1, 2) else 'C(_, %s)' % binders[0]
        return 'C(_, _)'

    def pE_binding(self, binders, allow_or=True):
        """a (possibly or-) pattern over E binding exactly `binders`, and the variants it covers"""
        r = self.r
        ok = [v for v in 'ABCD' if self.pE_single(v, binders) is not None]
        k = r.range(1, min(3, len(ok))) if allow_or else 1
        vs = r.shuffle(ok)[:k]
        if len(vs) > 1:
            self.feat('or-pattern')
        return ' | '.join(self.pE_single(v, binders) for v in vs), vs

    # ------------------------------------------------------------------ int expressions
    def gi(self, bound, ints, depth):
        r = self.r
        if depth <= 0 or r.chance(1, 7):
            return self.atom(ints)
        k = r.below(100)
        if k < 14:
            return '(%s %s %s)' % (self.gi(bound, ints, depth - 1), r.pick(['+', '+', '-']), self.gi(bound, ints, depth - 1))
        if k < 17:
            return '(%s * %s)' % (self.atom(ints), r.pick(['2', '3']))
        if k < 25:   # let
            self.feat('let')
            x = self.name(bound)
            e = self.gi(bound, ints, depth - 1)
            return '{ let %s = %s; %s }' % (x, e, self.gi(bound | {x}, ints + [x], depth - 1))
        if k < 33:   # tuple patterns
            self.feat('tuple-pattern')
            if r.chance(1, 2):
                x, y = self.names(bound, 2)
                pat = r.pick(['(%s, %s)', '(%s, %s)', '(%s, _)'])
                if pat.count('%s') == 1:
                    pat, new = pat % x, [x]
                else:
                    pat, new = pat % (x, y), [x, y]
                e = '(%s, %s)' % (self.gi(bound, ints, depth - 2), self.gi(bound, ints, depth - 2))
            else:
                self.feat('nested-tuple-pattern')
                x, y, z = self.names(bound, 3)
                pat, new = '((%s, %s), %s)' % (x, y, z), [x, y, z]
                e = '((%s, %s), %s)' % (self.gi(bound, ints, depth - 2), self.atom(ints), self.atom(ints))
            return '{ let %s = %s; %s }' % (pat, e, self.gi(bound | set(new), ints + new, depth - 1))
        if k < 43:   # struct patterns
            self.feat('struct-pattern')
            e = 'P.init(%s, %s)' % (self.gi(bound, ints, depth - 2), self.gi(bound, ints, depth - 2))
            form = r.below(5)
            if form == 0 and 'a' not in self.inuse(bound) and 'b' not in self.inuse(bound):
                self.feat('struct-shorthand')
                pat, new = '{ a, b }', ['a', 'b']
            elif form == 1 and 'b' not in self.inuse(bound):
                self.feat('struct-shorthand')
                x = self.name(bound, ['b'])
                pat, new = '{ %s, b }' % self.fld('a', x), [x, 'b']
            elif form == 2:
                x, y = self.names(bound, 2)
                pat, new = '{ %s, %s }' % (self.fld('a', x), self.fld('b', y)), [x, y]
            elif form == 3:
                x = self.name(bound)
                pat, new = '{ %s, a as _ }' % self.fld('b', x), [x]
            else:
                self.feat('struct-positional')
                x, y = self.names(bound, 2)
                pat, new = '(%s, %s)' % (x, y), [x, y]
            if r.chance(1, 3):
                self.feat('nested-struct-pattern')
                z = self.name(bound, new)
                if pat.startswith('{'):
                    pat, e, new = '{ p as %s, %s }' % (pat, self.fld('c', z)), 'Q.init(%s, %s)' % (e, self.atom(ints)), new + [z]
            return '{ let %s = %s; %s }' % (pat, e, self.gi(bound | set(new), ints + new, depth - 1))
        if k < 55:   # match on E
            self.feat('match')
            return self.match_E(bound, ints, depth)
        if k < 62:   # match on W: nested patterns
            self.feat('nested-match')
            return self.match_W(bound, ints, depth)
        if k < 65:   # match on V: struct patterns (object / tuple form) inside the alternatives of an or-pattern
            self.feat('struct-in-or-pattern')
            return self.match_V(bound, ints, depth)
        if k < 73:   # if let
            self.feat('if-let')
            form = r.below(3)
            if form == 0:
                nb = r.pick([1, 1, 2, 0])
                xs = self.names(bound, nb)
                pat, _ = self.pE_binding(xs)
                scrut = self.gE(bound, ints, depth - 1)
            elif form == 1:
                xs = self.names(bound, 1)
                inner, _ = self.pE_binding(xs, allow_or=False)
                pat = r.pick(['X(%s)', 'Y(%s)', 'Z(_, %s)']) % inner
                scrut = self.gW(bound, ints, depth - 1)
            else:
                xs = self.names(bound, 2)
                pat = '(%s(%s), %s)' % (r.pick(['A', 'B']), xs[0], xs[1])
                scrut = '(%s, %s)' % (self.gE(bound, ints, depth - 1), self.atom(ints))
            return '(if let %s = %s { %s } else { %s })' % (
                pat, scrut, self.gi(bound | set(xs), ints + xs, depth - 1), self.gi(bound, ints, depth - 1))
        if k < 85:   # lambdas
            self.feat('lambda')
            form = r.below(5)
            if form == 0:
                x = self.name(bound)
                f = self.name(bound, [x])
                body = self.gi(bound | {x, f}, ints + [x], depth - 1)       # captures the enclosing variables
                return '{ let %s = (%s: int) -> %s; %s(%s) }' % (f, x, body, f, self.gi(bound | {f}, ints, depth - 2))
            if form == 1:
                self.feat('nested-lambda')
                x, y = self.names(bound, 2)
                f = self.name(bound, [x, y])
                body = self.gi(bound | {x, y, f}, ints + [x, y], depth - 2)
                return '{ let %s = (%s: int) -> (%s: int) -> %s; %s(%s)(%s) }' % (
                    f, x, y, body, f, self.atom(ints), self.atom(ints))
            if form == 2:
                x = self.name(bound)
                return 'Main.app((%s) -> %s, %s)' % (x, self.gi(bound | {x}, ints + [x], depth - 1), self.gi(bound, ints, depth - 2))
            if form == 3:
                x, y = self.names(bound, 2)
                return 'Main.app2((%s, %s) -> %s, %s, %s)' % (
                    x, y, self.gi(bound | {x, y}, ints + [x, y], depth - 1), self.atom(ints), self.atom(ints))
            x = self.name(bound)
            base = 'Opt.Som(%s)' % self.gi(bound, ints, depth - 2) if r.chance(2, 3) else 'Opt.Non<int>()'
            return '%s.map((%s) -> %s).orElse(%s)' % (base, x, self.gi(bound | {x}, ints + [x], depth - 2), self.atom(ints))
        if k < 92:
            return '(if %s %s %s { %s } else { %s })' % (self.atom(ints), r.pick(['<', '<=', '==', '!=']), self.atom(ints),
                                                        self.gi(bound, ints, depth - 1), self.gi(bound, ints, depth - 1))
        if k < 96:
            return 'P.init(%s, %s).sum(%s)' % (self.atom(ints), self.atom(ints), self.atom(ints))
        return self.atom(ints)

    def match_E(self, bound, ints, depth):
        r = self.r
        scrut = self.gE(bound, ints, depth - 1)
        left = list('ABCD')
        arms = []
        while left:
            if len(arms) >= 1 and r.chance(1, 5):
                arms.append('_ -> %s' % self.gi(bound, ints, depth - 2))
                break
            # pick a binder count and a group of not-yet-covered variants compatible with it
            nb = r.pick([0, 1, 1, 1, 2])
            xs = self.names(bound, nb)
            ok = [v for v in left if self.pE_single(v, xs) is not None]
            if not ok:
                continue
            vs = r.shuffle(ok)[:r.range(1, min(3, len(ok)))]
            if len(vs) > 1:
                self.feat('or-pattern')
            pat = ' | '.join(self.pE_single(v, xs) for v in vs)
            arms.append('%s -> %s' % (pat, self.gi(bound | set(xs), ints + xs, depth - 2)))
            left = [v for v in left if v not in vs]
        return '(match %s { %s })' % (scrut, ', '.join(arms))

    def pP(self, x, slot):
        """a pattern over the struct P binding x to field `slot` (0 = a, 1 = b), in object or tuple form"""
        r = self.r
        form = r.below(3)
        if form == 0:
            return '(%s, _)' % x if slot == 0 else '(_, %s)' % x
        other = 'b as _' if slot == 0 else 'a as _'
        mine = '%s as %s' % ('ab'[slot], x)
        parts = [mine, other] if form == 1 else [other, mine]         # written in and out of field order
        return '{ %s }' % ', '.join(parts)

    def match_V(self, bound, ints, depth):
        r = self.r
        scrut = r.pick(['V.L(P.init(%s, %s))', 'V.R(P.init(%s, %s))', 'V.T(P.init(%s, %s), 1)']) % (self.atom(ints), self.atom(ints))
        x = self.name(bound)
        vs = r.shuffle(['L', 'R', 'T'])[:r.range(2, 3)]
        alts = []
        for v in vs:
            p = self.pP(x, r.below(2))
            alts.append('%s(%s)' % (v, p) if v != 'T' else 'T(%s, _)' % p)
        self.feat('or-pattern')
        arms = ['%s -> %s' % (' | '.join(alts), self.gi(bound | {x}, ints + [x], depth - 2)),
                '_ -> %s' % self.gi(bound, ints, depth - 2)]
        return '(match %s { %s })' % (scrut, ', '.join(arms))

    def match_W(self, bound, ints, depth):
        r = self.r
        scrut = self.gW(bound, ints, depth - 1)
        arms = []
        for _ in range(r.range(1, 3)):
            nb = r.pick([1, 1, 2])
            xs = self.names(bound, nb)
            form = r.below(6)
            if form == 0:       # X(pe) | Y(pe)
                p1, _ = self.pE_binding(xs, allow_or=False)
                p2, _ = self.pE_binding(xs, allow_or=False)
                pat = 'X(%s) | Y(%s)' % (p1, p2)
                self.feat('or-pattern')
            elif form == 1:     # or-pattern nested inside a constructor
                p1, vs = self.pE_binding(xs, allow_or=True)
                pat = '%s(%s)' % (r.pick(['X', 'Y']), p1)
                if len(vs) > 1:
                    self.feat('or-inside-constructor')
            elif form == 2:     # or-pattern nested inside the FIRST alternative
                p1, vs = self.pE_binding(xs, allow_or=True)
                p2, _ = self.pE_binding(xs, allow_or=False)
                pat = 'X(%s) | Y(%s)' % (p1, p2)
                self.feat('or-pattern')
                if len(vs) > 1:
                    self.feat('or-nested-in-first-alternative')
            elif form == 3 and len(xs) == 2:   # Z(k, pe)
                p1, _ = self.pE_binding(xs[1:], allow_or=False)
                pat = 'Z(%s, %s)' % (xs[0], p1)
            elif form == 4 and self.allow_known:   # the open finding: or-pattern in a later alternative
                p1, _ = self.pE_binding(xs, allow_or=False)
                p2 = None
                for _try in range(6):
                    p2, vs = self.pE_binding(xs, allow_or=True)
                    if len(vs) > 1:
                        break
                pat = 'X(%s) | Y(%s)' % (p1, p2)
                self.feat('KNOWN-or-nested-in-later-alternative')
            else:
                p1, _ = self.pE_binding(xs, allow_or=False)
                pat = 'Z(_, %s)' % p1
            arms.append('%s -> %s' % (pat, self.gi(bound | set(xs), ints + xs, depth - 2)))
        arms.append('_ -> %s' % self.gi(bound, ints, depth - 2))
        return '(match %s { %s })' % (scrut, ', '.join(arms))

    # ------------------------------------------------------------------ program
    def program(self):
        r = self.r
        funs, prints = [], []
        funs.append('  function app(f: (int) -> int, v: int): int = f(v)')
        funs.append('  function app2(f: (int, int) -> int, u: int, v: int): int = f(u, v)')
        for i in range(self.nfun):
            np_ = r.range(1, 3)
            params = self.names(set(), np_)
            body = self.gi(set(params), list(params), self.depth)
            funs.append('  function f%d(%s): int = %s' % (i, ', '.join('%s: int' % p for p in params), body))
            for _ in range(r.range(1, 2)):
                prints.append('    Process.println(Str.fromInt(Main.f%d(%s)));' % (i, ', '.join(self.lit() for _ in params)))
        # generic functions whose parameters of a bounded type-parameter type are method-call receivers
        for i in range(r.range(1, 2)):
            a, b, c, d = self.names(set(), 4)
            body = r.pick(['%s.cmp(%s) + %s.cmp(%s.cmp(0))' % (a, c, b, a), '{ let %s = %s.cmp(%s); %s.cmp(%s) - %s }' % (d, b, c, a, d, c),
                           'if %s.cmp(%s) > 0 { %s.cmp(1) } else { %s.cmp(%s) }' % (a, c, b, a, c)])
            funs.append('  function <C: Cmp> g%d(%s: C, %s: C, %s: int): int = %s' % (i, a, b, c, body))
            prints.append('    Process.println(Str.fromInt(Main.g%d(K.init(%s), K.init(%s), %s)));' % (i, self.lit(), self.lit(), self.lit()))
        # a class with methods: `this`, parameters named like fields of other classes
        ms = []
        for i in range(r.range(1, 2)):
            params = self.names({'this'}, r.range(1, 2))
            body = self.gi(set(params) | {'this'}, list(params), self.depth - 1)
            ms.append('  method m%d(%s): int = this.u + %s' % (i, ', '.join('%s: int' % p for p in params), body))
            prints.append('    Process.println(Str.fromInt(M.init(%s, %s).m%d(%s)));' % (self.lit(), self.lit(), i, ', '.join(self.lit() for _ in params)))
        cls_m = 'class M(val u: int, val a: int) {\n%s\n}\n' % '\n'.join(ms)
        main = '  function main(): unit = {\n%s\n  }' % '\n'.join(prints)
        return PRELUDE + '\n' + cls_m + '\nclass Main {\n' + '\n'.join(funs) + '\n' + main + '\n}\n'


def gen_scope_program(rng, allow_known=True, depth=4, nfun=5, allow_as_same=False):
    g = ScopeGen(rng, allow_known=allow_known, depth=depth, nfun=nfun, allow_as_same=allow_as_same)
    raw = g.program()
    return {'sources': {'Main': g.render(raw)}, 'entry': 'Main', 'features': dict(g.features),
            # the same program with every generated binder renamed apart (a consistent renaming of local variables)
            'renamed_apart': {'Main': g.render(raw, apart=True)}}


def gen_error_program(rng):
    """A scoping-error variant: an accepted program with one identifier replaced by an unbound name or one
    binder duplicated (collision with an enclosing frame).  Only used for the model/implementation
    correspondence of the analysis (diagnostics, unbound_names, invalid_defines), not for the monitor."""
    import re
    p = gen_scope_program(rng, depth=3, nfun=3)
    text = p['sources']['Main']
    body_start = text.index('class Main')
    toks = [m for m in re.finditer(r'\b[a-z][A-Za-z0-9]*\b', text) if m.start() > body_start]
    kw = {'let', 'match', 'if', 'else', 'function', 'method', 'class', 'val', 'int', 'unit', 'this', 'as', 'import', 'from',
          'true', 'false', 'bool', 'private', 'interface'}
    toks = [m for m in toks if m.group(0) not in kw and text[m.start() - 1] != '.' and not text[m.end():].lstrip().startswith('(')]
    if not toks:
        return p
    for _ in range(rng.range(1, 2)):
        m = rng.pick(toks)
        other = rng.pick(toks).group(0) if rng.chance(1, 2) else 'unb%d' % rng.below(3)
        if len(other) == len(m.group(0)) or True:
            text = text[:m.start()] + other + text[m.end():]
            toks = [t for t in re.finditer(r'\b[a-z][A-Za-z0-9]*\b', text) if t.start() > body_start and t.group(0) not in kw
                    and text[t.start() - 1] != '.' and not text[t.end():].lstrip().startswith('(')]
    return {'sources': {'Main': text}, 'entry': 'Main', 'features': {'mutated': 1}}


# ----------------------------------------------------------------------------- scope violations (for C06)

VIOLATIONS = [
    ('iflet-binder-in-else', 'if let A(@x) = E.A(a) { @x } else { @x }'),
    ('iflet-binder-in-else-if-chain', 'if let A(@x) = E.A(a) { @x } else if a > 1 { @x + 1 } else { 0 }'),
    ('iflet-binder-in-later-else-if-condition', 'if let A(@x) = E.A(a) { @x } else if @x > 1 { 1 } else { 0 }'),
    ('match-binder-in-other-arm', 'match E.A(a) { A(@x) -> @x, B(@y) -> @x, _ -> 0 }'),
    ('match-binder-after-match', '(match E.A(a) { A(@x) | B(@x) -> @x, _ -> 0 }) + @x'),
    ('let-after-its-block', '{ let @x = a; @x } + @x'),
    ('let-of-then-branch-in-else', 'if a > 0 { let @x = a; @x } else { @x }'),
    ('lambda-parameter-outside', '{ let @y = (@x: int) -> @x + 1; @y(a) + @x }'),
    ('inner-lambda-parameter-in-outer-scope', '{ let @y = (@x: int) -> (@z: int) -> @x + @z; @y(1)(2) + @z }'),
    ('struct-pattern-binder-after-block', '{ let { a as @x, b as _ } = P.init(a, 1); @x } + @x'),
    ('tuple-pattern-binder-after-block', '{ let (@x, _) = (a, 1); @x } + @x'),
    ('use-before-definition', '{ let @y = @x + 1; let @x = a; @y }'),
    ('nested-pattern-binder-in-sibling-arm', 'match W.X(E.A(a)) { X(A(@x)) -> @x, Y(B(@y)) -> @x + @y, _ -> 0 }'),
    ('or-pattern-binder-of-first-arm-in-second', 'match E.C(a, 1) { C(@x, _) | A(@x) -> @x, B(_) -> @x, D -> 0 }'),
]


def scope_violation_programs(rng):
    """One small module per violation kind: a function whose body uses a binder outside the region where it is in scope.
    Every one must be rejected with an error in Main (the name does not resolve there)."""
    out = []
    for kind, tpl in VIOLATIONS:
        x, y, z = rng.shuffle([n for n in POOL if n != 'a'])[:3]
        body = tpl.replace('@x', x).replace('@y', y).replace('@z', z)
        text = PRELUDE + '\nclass Main {\n  function sv(a: int): int = %s\n  function main(): unit = Process.println(Str.fromInt(Main.sv(3)))\n}\n' % body
        out.append((kind, {'sources': {'Main': text}, 'entry': 'Main', 'mutated': 'Main'}))
    return out
