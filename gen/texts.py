"""Source-text generators for C05 (robustness) and C14 (source positions).

Streams (all deterministic in the Rng given):
  random_text      random bytes decoded leniently / random code points (multi-byte, exotic white space)
  scanner_soup     dense in the bytes the hand-written scanners look at: quote backslash slash star LF CR
  token_soup       tokens of the language's own vocabulary in random order with random separators
  token_mutant     token-level mutation of a sample file (delete / duplicate / swap / replace / insert / truncate)
  tree_mutant      bracket-tree mutation of a sample file (delete / duplicate / swap / wrap / unbalance a region)
  hostile_layout   the same token sequence as a valid module, re-laid-out (CRLF, tabs, blank lines,
                   multi-line comments, long lines, non-ASCII comments): still a valid module
  deep_nesting     valid and invalid modules nested up to a given depth
"""
import os
import re

KEYWORDS = ['import', 'from', 'class', 'interface', 'val', 'function', 'method', 'as', 'private', 'protected',
            'internal', 'public', 'if', 'then', 'else', 'match', 'return', 'int', 'string', 'bool', 'unit', 'true',
            'false', 'this', 'self', 'const', 'let', 'var', 'type', 'constructor', 'destructor', 'extends',
            'implements', 'exports', 'assert']
OPERATORS = ['_', '(', ')', '{', '}', '[', ']', '?', ';', ':', '::', ',', '.', '|', '->', '=', '!', '*', '/', '%',
             '+', '-', '<', '<=', '>', '>=', '==', '!=', '&&', '||', '...']
INTS = ['0', '1', '7', '42', '00', '007', '2147483647', '2147483648', '2147483649', '4294967296',
        '9223372036854775807', '9223372036854775808', '123456789012345678901234567890', '-2147483648', '- 2147483648']
IDS = ['a', 'b', 'x', 'foo', 'fooBar', 'i1', 'Main', 'Foo', 'T', 'Str', 'Process', 'Vec', 'Option', 'Some', 'None',
       'println', 'main', 'ofInt', 'asserts', 'classy', 'A1b2']
STRINGS = ['""', '"a"', '"hello world"', '"\\n"', '"\\t\\"q\\""', '"\\\\"', '"\\\\\\""', '"\\a"', '"\\c"', '"é"', '"日本語"',
           '"\U0001F600"', '"abc', '"', '"a\nb"', '"\\', '"\\"', '"//"', '"/*"', '"*/"', '"\\\\\\"']
COMMENTS = ['// c\n', '//\n', '// é\n', '//', '// no newline', '/* c */', '/**/', '/***/', '/** d */', '/*/', '/*',
            '/* a\n * b\n */', '/** a\r\n * b\r\n */', '/* é */', '/* "q" */', '/* // */', '// /* \n', '/* * / */',
            '/****/', '/* \\ */']
SEPS = [' ', ' ', ' ', '', '\n', '\t', '\r\n', '  ', '\x0c', '\n\n']
GARBAGE = ['$', '#', '@', '&', '~', '`', '^', '\\', "'", '\x00', '\x0b', '\x7f', ' ', ' ', '﻿', 'é',
           '\U0001F600', '..', '&x', '?.', '=>']


def sample_files():
    out = []
    for d in ('/repo/tests', '/repo/std'):
        for fn in sorted(os.listdir(d)):
            if fn.endswith('.sam'):
                out.append((d.split('/')[-1] + '/' + fn, open(os.path.join(d, fn), encoding='utf-8').read()))
    return out


# ----------------------------------------------------------------------------- random text

def random_text(rng, maxlen=120):
    n = rng.range(0, maxlen)
    mode = rng.below(4)
    if mode == 0:      # raw bytes, decoded leniently (invalid sequences become U+FFFD)
        b = bytes(rng.below(256) for _ in range(n))
        return b.decode('utf-8', errors='replace')
    if mode == 1:      # ASCII incl. control characters
        return ''.join(chr(rng.below(128)) for _ in range(n))
    if mode == 2:      # code points of all UTF-8 lengths
        pools = [(0x20, 0x7e), (0x80, 0x7ff), (0x800, 0xd7ff), (0xe000, 0xffff), (0x10000, 0x10ffff), (0, 0x1f)]
        out = []
        for _ in range(n):
            lo, hi = rng.pick(pools)
            out.append(chr(rng.range(lo, hi)))
        return ''.join(out)
    # printable ASCII biased to punctuation
    alphabet = ' \n\t"\\/*-+<>=!&|.:;,(){}[]_?%0123456789abcXYZ'
    return ''.join(rng.pick(alphabet) for _ in range(n))


def scanner_soup(rng, maxlen=60):
    alphabet = ['"', '"', '\\', '\\', '/', '/', '*', '*', '\n', '\r', ' ', '\t', 'a', '0', '-', 'é', '\x0c', '\x0b',
                '2147483648', '//', '/*', '*/', '\\"', '/**/', '/**', '\\\\']
    return ''.join(rng.pick(alphabet) for _ in range(rng.range(0, maxlen)))


def random_token(rng):
    k = rng.below(20)
    if k < 5:
        return rng.pick(KEYWORDS)
    if k < 10:
        return rng.pick(OPERATORS)
    if k < 13:
        return rng.pick(IDS)
    if k < 15:
        return rng.pick(INTS)
    if k < 17:
        return rng.pick(STRINGS)
    if k < 19:
        return rng.pick(COMMENTS)
    return rng.pick(GARBAGE)


def token_soup(rng, maxtok=40):
    out = []
    for _ in range(rng.range(0, maxtok)):
        out.append(random_token(rng))
        out.append(rng.pick(SEPS))
    return ''.join(out)


# ----------------------------------------------------------------------------- tokenizer (for mutation / re-layout)

TOKEN_RE = re.compile(
    r'(?P<ws>[ \t\r\n\x0c]+)'
    r'|(?P<line>//[^\n]*)'
    r'|(?P<block>/\*.*?\*/)'
    r'|(?P<str>"(?:[^"\\\n]|\\.)*")'
    r'|(?P<id>[A-Za-z][A-Za-z0-9]*)'
    r'|(?P<int>0|[1-9][0-9]*)'
    r'|(?P<op>::|\.\.\.|->|<=|>=|==|!=|&&|\|\||[_(){}\[\]?;:,.|=!*/%+\-<>])'
    r'|(?P<other>.)', re.S)


def tokenize(text):
    """[(kind, text)] with kinds ws line block str id int op other; concatenation gives the text back."""
    return [(m.lastgroup, m.group(0)) for m in TOKEN_RE.finditer(text)]


def _sig(toks):
    return [t for t in toks if t[0] != 'ws']


def token_mutant(rng, text, nmut=None):
    toks = _sig(tokenize(text))
    if not toks:
        return text
    for _ in range(nmut if nmut is not None else rng.range(1, 4)):
        if not toks:
            break
        i = rng.below(len(toks))
        m = rng.below(8)
        if m == 0:
            del toks[i]
        elif m == 1:
            toks.insert(i, toks[i])
        elif m == 2:
            j = rng.below(len(toks))
            toks[i], toks[j] = toks[j], toks[i]
        elif m == 3:
            toks[i] = ('x', random_token(rng))
        elif m == 4:
            toks.insert(i, ('x', random_token(rng)))
        elif m == 5:
            toks = toks[:i]
        elif m == 6:
            j = min(len(toks), i + rng.range(1, 12))
            del toks[i:j]
        else:
            toks = toks[i:]
    out = []
    for k, t in toks:
        out.append(t)
        out.append('\n' if k == 'line' else ' ')
    return ''.join(out)


OPEN = {'(': ')', '{': '}', '[': ']'}
CLOSE = {')', '}', ']'}


def _regions(toks):
    """(i, j) index pairs of matching brackets."""
    stack, out = [], []
    for i, (k, t) in enumerate(toks):
        if k != 'op':
            continue
        if t in OPEN:
            stack.append(i)
        elif t in CLOSE and stack:
            j = stack.pop()
            if OPEN[toks[j][1]] == t:
                out.append((j, i))
    return out


def tree_mutant(rng, text):
    toks = _sig(tokenize(text))
    regs = _regions(toks)
    if not regs:
        return token_mutant(rng, text)
    a, b = rng.pick(regs)
    m = rng.below(7)
    if m == 0:       # delete the region
        toks = toks[:a] + toks[b + 1:]
    elif m == 1:     # delete its inside
        toks = toks[:a + 1] + toks[b:]
    elif m == 2:     # duplicate it
        toks = toks[:b + 1] + toks[a:b + 1] + toks[b + 1:]
    elif m == 3:     # replace it by another region
        c, d = rng.pick(regs)
        toks = toks[:a] + toks[c:d + 1] + toks[b + 1:]
    elif m == 4:     # wrap it k times in its own brackets
        k = rng.range(1, 40)
        o, c = toks[a], toks[b]
        toks = toks[:a] + [o] * k + toks[a:b + 1] + [c] * k + toks[b + 1:]
    elif m == 5:     # unbalance: drop the closing bracket
        toks = toks[:b] + toks[b + 1:]
    else:            # swap the bracket kinds
        o = rng.pick(list(OPEN))
        toks = toks[:a] + [('op', o)] + toks[a + 1:b] + [('op', OPEN[o])] + toks[b + 1:]
    out = []
    for k, t in toks:
        out.append(t)
        out.append('\n' if k == 'line' else ' ')
    return ''.join(out)


# ----------------------------------------------------------------------------- hostile layouts of a valid module

LAYOUTS = ['crlf', 'tabs', 'blank', 'comments', 'longline', 'mixed']

_ML_COMMENTS = ['/* a\n   b\n   c */', '/** doc\n * more\n */', '/*\n\n*/', '/* é ü 日本 */', '/* x */', '/**/',
                '/* "unbalanced */', '/* // not a line comment */', '/*\r\n * crlf\r\n */', '/***/']
_LINE_COMMENTS = ['// c', '//', '// é日本', '// "quote', '// /* not a block', '//\t tab']


def hostile_layout(rng, text, layout):
    """Same significant tokens (and the original comments), new white space / extra comments."""
    toks = _sig(tokenize(text))
    if any(k == 'other' for k, _ in toks):
        return None
    out = []
    for idx, (k, t) in enumerate(toks):
        out.append(t)
        if k == 'line':
            out.append('\r\n' if layout in ('crlf',) else '\n')
            continue
        if t == '-' and idx + 1 < len(toks) and toks[idx + 1][1] == '2147483648':
            # `-` and 2147483648 are merged into one literal only when adjacent in the token stream: a
            # comment between them makes the module invalid ("Not a 32-bit integer."), so none is put there
            out.append(' ')
            continue
        if layout == 'crlf':
            out.append(rng.pick([' ', '\r\n', '\r\n\r\n', ' \r\n  ']))
        elif layout == 'tabs':
            out.append(rng.pick(['\t', '\t\t', '\n\t', ' \t ', '\x0c']))
        elif layout == 'blank':
            out.append(rng.pick(['\n', '\n\n', '\n\n\n\n', ' ', '\n \n']))
        elif layout == 'comments':
            r = rng.below(6)
            if r == 0:
                out.append(' ' + rng.pick(_ML_COMMENTS) + ' ')
            elif r == 1:
                out.append(' ' + rng.pick(_LINE_COMMENTS) + '\n')
            else:
                out.append(' ')
        elif layout == 'longline':
            out.append(' ' * (rng.range(1, 400) if rng.chance(1, 40) else 1))
        elif layout == 'unicode':
            # many multi-byte characters in front of tokens on the same line, line breaks inside expressions: the code frames of
            # diagnostics (columns are byte offsets) start and end at every kind of place relative to them
            r = rng.below(12)
            if r < 3:
                out.append(' ' + rng.pick(['/* é ü 日本 */', '/* 日本語のテキスト */', '/* ✓✓✓✓✓✓ */', '/* ß */', '/* 𝔘𝔫𝔦𝔠𝔬𝔡𝔢 */']) + ' ')
            elif r < 5:
                out.append('\n')
            elif r == 5:
                out.append(' // 日本語のテキスト é\n')
            else:
                out.append(' ')
        else:
            r = rng.below(10)
            if r == 0:
                out.append(' ' + rng.pick(_ML_COMMENTS) + '\r\n')
            elif r == 1:
                out.append('\t' + rng.pick(_LINE_COMMENTS) + '\r\n')
            elif r == 2:
                out.append('\r\n\t')
            elif r == 3:
                out.append('\n\n')
            elif r == 4:
                out.append(' ' * rng.range(1, 200))
            else:
                out.append(' ')
    return ''.join(out)


# ----------------------------------------------------------------------------- deep nesting

NEST_KINDS = ['paren', 'block', 'ifelse', 'lambda', 'binary', 'unary-not', 'unary-neg', 'generic', 'call-chain',
              'field-chain', 'tuple', 'match', 'fn-type', 'tuple-pattern', 'open-paren', 'open-brace', 'open-bracket',
              'concat', 'comment-run', 'string-run', 'toplevels', 'else-if-chain']


def deep_nesting(kind, depth):
    """A module nested `depth` deep; the first ones are syntactically valid, `open-*` are not."""
    d = depth
    wrap = lambda body, ret='int': 'class Main {\n  function f(a: int, b: bool): %s = %s\n}\n' % (ret, body)
    if kind == 'paren':
        return wrap('(' * d + '1' + ')' * d)
    if kind == 'block':
        return wrap('{ ' * d + '1' + ' }' * d)
    if kind == 'ifelse':
        return wrap('if b { ' * d + '1' + ' } else { 0 }' * d)
    if kind == 'else-if-chain':
        return wrap('if b { 1 } else ' * d + '{ 0 }')
    if kind == 'lambda':
        return wrap('(x: int) -> ' * d + '1', ret='int')
    if kind == 'binary':
        return wrap('1' + ' + 1' * d)
    if kind == 'concat':
        return wrap('"a"' + ' :: "a"' * d, ret='Str')
    if kind == 'unary-not':
        return wrap('!' * d + 'b', ret='bool')
    if kind == 'unary-neg':
        return wrap('-' * d + 'a')
    if kind == 'generic':
        return 'class Box<T>(val v: T) {}\nclass Main {\n  function f(a: %s): int = 1\n}\n' % ('Box<' * d + 'int' + '>' * d)
    if kind == 'call-chain':
        return wrap('a' + '()' * d)
    if kind == 'field-chain':
        return wrap('a' + '.foo' * d)
    if kind == 'tuple':
        return wrap('(1, ' * d + '1' + ')' * d)
    if kind == 'match':
        return wrap('match a { _ -> ' * d + '1' + ' }' * d)
    if kind == 'fn-type':
        return 'class Main {\n  function f(a: %s): int = 1\n}\n' % ('(int) -> ' * d + 'int')
    if kind == 'tuple-pattern':
        return wrap('{ let ' + '(x, ' * d + 'y' + ')' * d + ' = a; 1 }')
    if kind == 'open-paren':
        return wrap('(' * d)
    if kind == 'open-brace':
        return wrap('{' * d)
    if kind == 'open-bracket':
        return wrap('[' * d)
    if kind == 'comment-run':
        return wrap('/* c */ ' * d + '1')
    if kind == 'string-run':
        return wrap('"' + '\\\\' * d + '"', ret='Str')
    if kind == 'toplevels':
        return ''.join('class C%d {}\n' % i for i in range(d))
    raise ValueError(kind)


# ----------------------------------------------------------------------------- patterns applied to values of the wrong shape

_BAD_PATTERNS = [
    ('(a, b)', ['1', '"s"', 'true', 'Main.u()', '(x: int) -> x', 'Bx.init(1)', 'En.P(1)']),
    ('(a, (b, c))', ['(1, 2)', '1', '(1, "s")']),
    ('{ a, b }', ['1', '(1, 2)', 'En.P(1)', '"s"', 'Bx.init(1)']),
    ('{ v as a, w as b }', ['Bx.init(1)', '1']),
    ('P(a)', None),            # variant patterns are only allowed in match / if let
    ('(a, b, c)', ['(1, 2)', 'Bx.init(1)']),
]
_BAD_MATCH = [
    ('1', ['P(a) -> a, Q(b) -> 0']), ('Bx.init(1)', ['P(a) -> a, Q(a) -> 0']), ('En.P(1)', ['Zz(a) -> a, P(a) -> a, Q(a) -> 0']),
    ('En.P(1)', ['P(a, b) -> a, Q(a) -> 0']), ('En.Q("s")', ['P(a) -> a, Q((a, b)) -> a']), ('(1, 2)', ['P(a) -> a, _ -> 0']),
    ('En.P(1)', ['(a, b) -> a']), ('En.P(1)', ['{ a, b } -> a']),
    # rows of one match that disagree about the number of elements of a variant / tuple
    ('(En.P(1), En.P(2))', ['(P(a), P(d)) -> a, (P(a, b), P(e)) -> 1, (Q(f), _) -> 3, (_, Q(g)) -> 4']),
    ('(En.P(1), 2)', ['(P(a), _) -> a, (P(a), _, _) -> 1, (Q(f), _) -> 3']),
    ('(1, 2)', ['(a, _) -> a, (a, _, _) -> 1']),
]
_USES = [
    '{ let g = () -> %s; g() }', '{ let g = (z: int) -> z + %s; g(1) }', '%s + 1', 'Main.id(%s)', '{ let h = () -> () -> %s; h()() }',
    '{ let (p, q) = %s; p }', 'match %s { P(k) -> k, Q(_) -> 0 }', 'if let P(k) = %s { k } else { 0 }', '{ let t = (%s, 1); t.e0 }',
    '%s.v', '%s(1)', '[%s]',
]


def bad_pattern_program(rng):
    """A pattern that cannot be checked against its value (wrong shape, unknown tag, wrong arity), and the names it binds used
    afterwards in every kind of place (captured by a lambda, matched again, called, projected)."""
    use = rng.pick(_USES)
    name = rng.pick(['a', 'b', 'a', 'c'])
    if rng.chance(1, 2):
        pat, vals = rng.pick(_BAD_PATTERNS)
        val = rng.pick(vals) if vals else rng.pick(['En.P(1)', '1'])
        if rng.chance(1, 6):
            val = ''                                 # a recovered initialiser
        body = '{ let %s = %s; %s }' % (pat, val, use % name)
    else:
        val, arms = rng.pick(_BAD_MATCH)
        arms = rng.pick(arms)
        arms = ', '.join(a.replace('-> a', '-> ' + (use % 'a')) if i == 0 else a for i, a in enumerate(arms.split(', ')))
        body = rng.pick(['match %s { %s }', 'if let %s = %s { 1 } else { 0 }']) 
        body = (body % (val, arms)) if body.startswith('match') else ('if let %s = %s { %s } else { 0 }' % (arms.split(' -> ')[0], val, use % 'a'))
    return ('import { Pair, Triple } from std.tuples;\nclass Bx(val v: int, val w: int) {}\nclass En(P(int), Q(Str)) {}\n'
            'class Main {\n  function u(): unit = {}\n  function id(x: int): int = x\n  function f(): int = %s\n'
            '  function main(): unit = Process.println(Str.fromInt(Main.f()))\n}\n' % body)


# ----------------------------------------------------------------------------- names the parser invents during recovery

def recovered_name_programs():
    """The parser calls a missing identifier `missing`; programs that also USE that spelling reach definitions that were
    never checked."""
    uses = ['() -> missing', 'missing', 'missing + 1', '{ let g = () -> missing; g() }', 'match missing { _ -> 1 }', 'Main.f2(missing)',
            '{ let missing = 1; () -> missing }']
    out = []
    for head in ('class {\n}\n', 'class (val a: int) {}\n', 'interface {\n}\n', 'class Main2 { function (): int = 1 }\n',
                 'class Main2 { function g(: int): int = 1 }\n', 'import { } from A;\n'):
        for u in uses:
            rt = '() -> int' if u.startswith('() ->') or u.endswith('() -> missing }') else 'int'
            out.append(head + 'class Main { function f2(x: int): int = x\n  function f(): %s = %s }\n' % (rt, u))
    return out
