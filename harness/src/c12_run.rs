//! C12: the two order-sensitive primitives behind "results depend only on the sources".
//! usage: vh c12-run   (one JSON job per stdin line, one JSON result per stdout line)
//!
//! {"kind":"merge","items":[[m,line,col,k,s],...],"groups":[[item index,...],...],"orders":[[group index,...],...],
//!  "trees":[T,...]}   T = group index | [T,T]
//!   Builds one ErrorSet per group (report order = the order in the group), merges them with ErrorSet::merge in each of the
//!   given orders / along each of the given reduction trees and reports the resulting sequence as ranks; the rank of an item
//!   is its position in the ErrorSet that received every item directly.
//! {"kind":"names","start":n,"threads":t,"per_thread":k}
//!   t threads take k names each from one TempPStrCounter::new(start); then the heap functions create_temp_counter /
//!   sync_temp_counter / alloc_temp_str are exercised the way optimize_sources uses them.
use crate::front::{mod_ref, panic_msg};
use samlang_ast::{Location, Position};
use samlang_errors::ErrorSet;
use samlang_heap::{Heap, PStr, TempPStrCounter};
use serde_json::{Value, json};
use std::collections::HashMap;
use std::io::BufRead;
use std::panic::{AssertUnwindSafe, catch_unwind};

fn report(heap: &mut Heap, es: &mut ErrorSet, item: &Value) {
  let m = mod_ref(heap, &format!("M{}", item[0].as_u64().unwrap()));
  let line = item[1].as_u64().unwrap() as u32;
  let col = item[2].as_u64().unwrap() as u32;
  let loc = Location { module_reference: m, start: Position(line, col), end: Position(line, col + 3) };
  let s = item[4].as_str().unwrap_or("x");
  match item[3].as_u64().unwrap() {
    0 => es.report_invalid_syntax_error(loc, s.to_string()),
    1 => {
      let n = heap.alloc_string(s.to_string());
      es.report_cannot_resolve_name_error(loc, n)
    }
    2 => es.report_underconstrained_error(loc),
    3 => es.report_useless_pattern_error(loc, s.len() % 2 == 0),
    _ => es.report_illegal_function_in_interface(loc),
  }
}

fn key(heap: &Heap, e: &samlang_errors::CompileTimeError) -> String {
  format!(
    "{}:{}:{}:{}",
    e.location.module_reference.pretty_print(heap),
    e.location.start.0,
    e.location.start.1,
    format!("{:?}", e.detail)
  )
}

fn group_set(heap: &mut Heap, items: &[Value], group: &Value) -> ErrorSet {
  let mut es = ErrorSet::new();
  for i in group.as_array().unwrap() {
    report(heap, &mut es, &items[i.as_u64().unwrap() as usize]);
  }
  es
}

fn eval_tree(heap: &mut Heap, items: &[Value], groups: &[Value], t: &Value) -> ErrorSet {
  if let Some(i) = t.as_u64() {
    group_set(heap, items, &groups[i as usize])
  } else {
    let a = t.as_array().unwrap();
    let mut l = eval_tree(heap, items, groups, &a[0]);
    let r = eval_tree(heap, items, groups, &a[1]);
    l.merge(r);
    l
  }
}

fn merge_job(job: &Value) -> Value {
  let mut heap = Heap::new();
  let items = job["items"].as_array().unwrap().clone();
  let groups = job["groups"].as_array().unwrap().clone();
  // reference: every item reported into one set
  let mut all = ErrorSet::new();
  for it in &items {
    report(&mut heap, &mut all, it);
  }
  let rank: HashMap<String, usize> = all.errors().iter().enumerate().map(|(i, e)| (key(&heap, e), i)).collect();
  let item_rank: Vec<usize> = items
    .iter()
    .map(|it| {
      let mut es = ErrorSet::new();
      report(&mut heap, &mut es, it);
      rank[&key(&heap, es.errors()[0])]
    })
    .collect();
  let ranks = |heap: &Heap, es: &ErrorSet| -> Vec<usize> { es.errors().iter().map(|e| rank[&key(heap, e)]).collect() };
  let ref_text = all.pretty_print_error_messages(&heap, &HashMap::new());
  let mut seqs = vec![];
  let mut texts_equal = true;
  for order in job["orders"].as_array().unwrap() {
    let mut acc = ErrorSet::new();
    for g in order.as_array().unwrap() {
      let es = group_set(&mut heap, &items, &groups[g.as_u64().unwrap() as usize]);
      acc.merge(es);
    }
    texts_equal &= acc.pretty_print_error_messages(&heap, &HashMap::new()) == ref_text;
    seqs.push(json!({"ranks": ranks(&heap, &acc), "has_errors": acc.has_errors()}));
  }
  let mut trees = vec![];
  for t in job["trees"].as_array().unwrap() {
    let es = eval_tree(&mut heap, &items, &groups, t);
    texts_equal &= es.pretty_print_error_messages(&heap, &HashMap::new()) == ref_text;
    trees.push(json!({"ranks": ranks(&heap, &es), "has_errors": es.has_errors()}));
  }
  json!({"item_rank": item_rank, "all": ranks(&heap, &all), "orders": seqs, "trees": trees, "texts_equal": texts_equal})
}

/// {"kind":"opt-fresh","sources":{..}}: after optimize_sources the heap's next temporary name must be fresh with respect
/// to every `_tN` that occurs in the optimized program (the invariant that makes later lowering stages hand out unused
/// names, whatever the scheduling of the parallel passes was). Deterministic: it does not need an unlucky schedule.
fn opt_fresh_job(job: &Value) -> Value {
  let mut heap = Heap::new();
  let texts = crate::front::load_sources(&mut heap, job);
  let mut error_set = ErrorSet::new();
  let mut parsed = HashMap::new();
  for (m, text) in &texts {
    parsed.insert(*m, samlang_parser::parse_source_module_from_text(text, *m, &mut heap, &mut error_set));
  }
  let checked = samlang_checker::type_check_sources(&parsed, &mut error_set).0;
  if error_set.has_errors() {
    return json!({"rejected": true});
  }
  let unoptimized = samlang_compiler::compile_sources_to_mir(&mut heap, &checked);
  let configuration = samlang_optimization::OptimizationConfiguration {
    does_perform_local_value_numbering: true,
    does_perform_common_sub_expression_elimination: true,
    does_perform_loop_optimization: true,
    does_perform_inlining: true,
    does_perform_scalar_replacement: true,
  };
  let optimized = samlang_optimization::optimize_sources(&mut heap, unoptimized, &configuration);
  let text = optimized.debug_print(&heap);
  let mut max_id: i64 = -1;
  let b = text.as_bytes();
  let mut i = 0;
  while i + 2 < b.len() {
    let boundary = i == 0 || !(b[i - 1].is_ascii_alphanumeric() || b[i - 1] == b'_');
    if boundary && b[i] == b'_' && b[i + 1] == b't' && b[i + 2].is_ascii_digit() {
      let mut j = i + 2;
      let mut n: i64 = 0;
      while j < b.len() && b[j].is_ascii_digit() {
        n = n * 10 + (b[j] - b'0') as i64;
        j += 1;
      }
      if j == b.len() || !(b[j].is_ascii_alphanumeric() || b[j] == b'_') {
        max_id = max_id.max(n);
      }
      i = j;
    } else {
      i += 1;
    }
  }
  let next = heap.alloc_temp_str().as_str(&heap).to_string();
  json!({"max_temp_in_program": max_id, "next_heap_temp": next})
}

fn names_job(job: &Value) -> Value {
  let start = job["start"].as_u64().unwrap() as u32;
  let threads = job["threads"].as_u64().unwrap() as usize;
  let k = job["per_thread"].as_u64().unwrap() as usize;
  let heap = Heap::new();
  let counter = TempPStrCounter::new(start);
  let mut per_thread: Vec<Vec<PStr>> = vec![];
  std::thread::scope(|s| {
    let hs: Vec<_> = (0..threads)
      .map(|_| {
        let c = &counter;
        s.spawn(move || (0..k).map(|_| c.alloc_temp_str()).collect::<Vec<_>>())
      })
      .collect();
    for h in hs {
      per_thread.push(h.join().unwrap());
    }
  });
  let names: Vec<Vec<String>> =
    per_thread.iter().map(|v| v.iter().map(|p| p.as_str(&heap).to_string()).collect()).collect();
  // the heap side, as optimize_sources uses it
  let mut heap2 = Heap::new();
  let c0 = heap2.create_temp_counter();
  let first = c0.alloc_temp_str().as_str(&heap2).to_string();
  for _ in 1..k.max(1) {
    c0.alloc_temp_str();
  }
  heap2.sync_temp_counter(&c0);
  let after_sync = heap2.alloc_temp_str().as_str(&heap2).to_string();
  let c1 = heap2.create_temp_counter();
  let next_round = c1.alloc_temp_str().as_str(&heap2).to_string();
  json!({"names": names, "heap_first": first, "heap_after_sync": after_sync, "heap_next_round": next_round})
}

pub fn main(_args: &[String]) {
  let stdin = std::io::stdin();
  for line in stdin.lock().lines() {
    let line = line.unwrap();
    if line.trim().is_empty() {
      continue;
    }
    let job: Value = serde_json::from_str(&line).unwrap();
    let r = catch_unwind(AssertUnwindSafe(|| match job["kind"].as_str().unwrap() {
      "merge" => merge_job(&job),
      "opt-fresh" => opt_fresh_job(&job),
      _ => names_job(&job),
    }));
    match r {
      Ok(v) => println!("{}", v),
      Err(e) => println!("{}", json!({"panic": panic_msg(e)})),
    }
  }
}
