//! C10 correspondence: DependencyGraph::affected_set on generated import graphs.
//! stdin: one JSON per line {"mods": {"M0": ["M1", ...]}, "dirty": ["M2"]}; stdout: {"affected": [sorted names]}
use crate::front::mod_ref;
use samlang_errors::ErrorSet;
use samlang_heap::Heap;
use serde_json::{Value, json};
use std::collections::{HashMap, HashSet};
use std::io::BufRead;

pub fn main(_args: &[String]) {
  let stdin = std::io::stdin();
  for line in stdin.lock().lines() {
    let line = line.unwrap();
    if line.trim().is_empty() {
      continue;
    }
    let job: Value = serde_json::from_str(&line).unwrap();
    let mut heap = Heap::new();
    let mut parsed = HashMap::new();
    for (name, imps) in job["mods"].as_object().unwrap() {
      let mut text = String::new();
      for i in imps.as_array().unwrap() {
        text.push_str(&format!("import {{ X }} from {};\n", i.as_str().unwrap()));
      }
      let m = mod_ref(&mut heap, name);
      let mut es = ErrorSet::new();
      parsed.insert(m, samlang_parser::parse_source_module_from_text(&text, m, &mut heap, &mut es));
    }
    let dirty: HashSet<_> =
      job["dirty"].as_array().unwrap().iter().map(|d| mod_ref(&mut heap, d.as_str().unwrap())).collect();
    let mut out: Vec<String> = samlang_services::verif::affected_set(&parsed, dirty)
      .into_iter()
      .map(|m| m.pretty_print(&heap))
      .collect();
    out.sort();
    println!("{}", json!({"affected": out}));
  }
}
