//! C16: text edits proposed by the language server.
//!
//! `vh edits-run diff`  — stdin: one JSON `{"id":..,"old":[ints],"new":[ints]}` per line; stdout:
//!   `{"id":..,"script":[[kind, index, [items]]...]}` = the edit script of
//!   `ast_differ::list_differ::compute` (through `samlang_services::verif::list_diff`), or `{"id":..,"panic":..}`.
//!
//! `vh edits-run docs`  — stdin: one JSON job per line
//!   `{"id":.., "sources": {"Mod.Name": text, ...}, "history": [{"Mod.Name": text, ...}, ...], "doc": "Mod.Name"}`
//!   A real `ServerState` is started on `sources`, every element of `history` is applied as one
//!   `ServerState::update` batch, then, for the module `doc`:
//!   * "text": the text the server holds for it,
//!   * "analysis": its diagnostics in the server, and imports / toplevels of that text parsed afresh,
//!   * "unresolved": for every `CannotResolveClass` diagnostic: the quick-fix `code_actions` asked with the
//!     cursor at the start of the name and with the whole name selected, and the completion items that carry
//!     the same label or non-empty `additional_edits`, asked at the start and at the end of the name.
//!   The harness never applies an edit: that is done by an independent applier in checks/c16.py, which
//!   sends the edited text back through this same subcommand (empty history) to analyse it.
use crate::front::{mod_ref, panic_msg};
use samlang_ast::{Location, Position};
use samlang_errors::{ErrorDetail, ErrorSet};
use samlang_heap::ModuleReference;
use samlang_services::server_state::ServerState;
use serde_json::{Value, json};
use std::collections::HashMap;
use std::io::BufRead;
use std::panic::{AssertUnwindSafe, catch_unwind};

fn loc_json(l: &Location) -> Value {
  json!([l.start.0, l.start.1, l.end.0, l.end.1])
}

fn edits_json(edits: &[(Location, String)]) -> Value {
  Value::Array(edits.iter().map(|(l, t)| json!({"range": loc_json(l), "text": t})).collect())
}

fn within(inner: &Location, outer: &Location) -> bool {
  outer.start <= inner.start && inner.end <= outer.end
}

/// Diagnostics held by the server + the module's text parsed afresh (imports, toplevels).
fn analyze(state: &mut ServerState, m: ModuleReference) -> Value {
  let text = state.string_sources.get(&m).cloned().unwrap_or_default();
  let errors: Vec<Value> = state
    .get_errors(&m)
    .iter()
    .map(|e| {
      let ide = e.to_ide_format(&state.heap, &state.string_sources);
      let d = format!("{:?}", e.detail);
      let kind: String = d.chars().take_while(|c| c.is_alphanumeric()).collect();
      let class = match &e.detail {
        ErrorDetail::CannotResolveClass { module_reference: _, name } => json!(name.as_str(&state.heap)),
        _ => Value::Null,
      };
      json!({"loc": loc_json(&e.location), "kind": kind, "syntax": e.is_syntax_error(), "msg": ide.ide_error, "class": class})
    })
    .collect();
  let mut es = ErrorSet::new();
  let parsed = samlang_parser::parse_source_module_from_text(&text, m, &mut state.heap, &mut es);
  let fresh_syntax_errors = es.errors().iter().filter(|e| e.is_syntax_error()).count();
  let mut es2 = ErrorSet::new();
  let tokens = samlang_parser::verif::lex(&text, m, &mut state.heap, &mut es2);
  let imports: Vec<Value> = parsed
    .imports
    .iter()
    .map(|i| {
      json!({
        "members": i.imported_members.iter().map(|id| id.name.as_str(&state.heap).to_string()).collect::<Vec<_>>(),
        "module": i.imported_module.pretty_print(&state.heap),
        "loc": loc_json(&i.loc),
        "pp": samlang_printer::pretty_print_import(&state.heap, 100, &parsed.comment_store, i),
      })
    })
    .collect();
  let toplevels: Vec<Value> = parsed
    .toplevels
    .iter()
    .map(|t| {
      let loc = t.loc();
      let toks: Vec<String> = tokens
        .iter()
        .filter(|(k, l, _)| !k.ends_with("comment") && within(l, &loc))
        .map(|(_, _, s)| s.clone())
        .collect();
      // comments in front of the toplevel: those between the previous non-comment token and the toplevel's
      // first token that do not start on the line where that previous token ends (such a comment trails
      // the previous item, it does not introduce this one)
      let first = tokens.iter().position(|(k, l, _)| !k.ends_with("comment") && within(l, &loc));
      let mut lead: Vec<String> = Vec::new();
      if let Some(first) = first {
        let mut k = first;
        while k > 0 && tokens[k - 1].0.ends_with("comment") {
          k -= 1;
        }
        let prev_end_line = if k > 0 { Some(tokens[k - 1].1.end.0) } else { None };
        for (kind, l, text) in &tokens[k..first] {
          if Some(l.start.0) != prev_end_line {
            lead.push(format!("{kind}:{text}"));
          }
        }
      }
      json!({
        "name": t.name().name.as_str(&state.heap),
        "loc": loc_json(&loc),
        "pp": samlang_printer::pretty_print_toplevel(&state.heap, 100, &parsed.comment_store, t),
        "toks": toks.join(" "),
        "lead": lead,
      })
    })
    .collect();
  json!({"errors": errors, "fresh_syntax_errors": fresh_syntax_errors, "imports": imports, "toplevels": toplevels})
}

fn actions_json(state: &ServerState, loc: Location) -> Value {
  match catch_unwind(AssertUnwindSafe(|| samlang_services::rewrite::code_actions(state, loc))) {
    Ok(actions) => Value::Array(
      actions
        .into_iter()
        .map(|a| match a {
          samlang_services::rewrite::CodeAction::Quickfix { title, edits } => {
            json!({"title": title, "edits": edits_json(&edits)})
          }
        })
        .collect(),
    ),
    Err(e) => json!({"panic": panic_msg(e)}),
  }
}

fn completion_json(state: &ServerState, m: &ModuleReference, pos: Position, label: &str) -> Value {
  match catch_unwind(AssertUnwindSafe(|| samlang_services::completion::auto_complete(state, m, pos))) {
    Ok(items) => Value::Array(
      items
        .into_iter()
        .filter(|i| i.label == label || !i.additional_edits.is_empty())
        .map(|i| {
          json!({"label": i.label, "insert_text": i.insert_text, "detail": i.detail,
                 "kind": format!("{:?}", i.kind), "edits": edits_json(&i.additional_edits)})
        })
        .collect(),
    ),
    Err(e) => json!({"panic": panic_msg(e)}),
  }
}

pub fn run_doc_job(job: &Value) -> Value {
  let mut heap = samlang_heap::Heap::new();
  let mut sources = HashMap::new();
  for (n, t) in job["sources"].as_object().unwrap() {
    sources.insert(mod_ref(&mut heap, n), t.as_str().unwrap().to_string());
  }
  let doc_name = job["doc"].as_str().unwrap().to_string();
  let mut state = match catch_unwind(AssertUnwindSafe(|| ServerState::new(heap, false, sources))) {
    Ok(s) => s,
    Err(e) => return json!({"id": job["id"], "panic": format!("ServerState::new: {}", panic_msg(e))}),
  };
  if let Some(hist) = job["history"].as_array() {
    for (k, batch) in hist.iter().enumerate() {
      let r = catch_unwind(AssertUnwindSafe(|| {
        let mut ups = Vec::new();
        for (n, t) in batch.as_object().unwrap() {
          ups.push((mod_ref(&mut state.heap, n), t.as_str().unwrap().to_string()));
        }
        state.update(ups);
      }));
      if let Err(e) = r {
        return json!({"id": job["id"], "panic": format!("update #{k}: {}", panic_msg(e))});
      }
    }
  }
  let m = mod_ref(&mut state.heap, &doc_name);
  let text = state.string_sources.get(&m).cloned();
  let analysis = match catch_unwind(AssertUnwindSafe(|| analyze(&mut state, m))) {
    Ok(a) => a,
    Err(e) => return json!({"id": job["id"], "panic": format!("analyze: {}", panic_msg(e))}),
  };
  let mut unresolved = Vec::new();
  let targets: Vec<(Location, String)> = state
    .get_errors(&m)
    .iter()
    .filter_map(|e| match &e.detail {
      ErrorDetail::CannotResolveClass { module_reference: _, name } => {
        Some((e.location, name.as_str(&state.heap).to_string()))
      }
      _ => None,
    })
    .collect();
  for (loc, name) in targets {
    let at_start = Location { module_reference: m, start: loc.start, end: loc.start };
    unresolved.push(json!({
      "name": name,
      "loc": loc_json(&loc),
      "actions_at_start": actions_json(&state, at_start),
      "actions_selected": actions_json(&state, loc),
      "completion_at_start": completion_json(&state, &m, loc.start, &name),
      "completion_at_end": completion_json(&state, &m, loc.end, &name),
    }));
  }
  json!({"id": job["id"], "text": text, "analysis": analysis, "unresolved": unresolved})
}

fn run_diff_job(job: &Value) -> Value {
  let get = |k: &str| -> Vec<i64> { job[k].as_array().unwrap().iter().map(|x| x.as_i64().unwrap()).collect() };
  let (old, new) = (get("old"), get("new"));
  match catch_unwind(AssertUnwindSafe(|| samlang_services::verif::list_diff(&old, &new))) {
    Ok(script) => {
      let s: Vec<Value> = script
        .into_iter()
        .map(|(k, i, items)| json!([k, i, items.iter().map(|x| x.parse::<i64>().unwrap()).collect::<Vec<_>>()]))
        .collect();
      json!({"id": job["id"], "script": s})
    }
    Err(e) => json!({"id": job["id"], "panic": panic_msg(e)}),
  }
}

pub fn main(args: &[String]) {
  let mode = args.first().map(|s| s.as_str()).unwrap_or("");
  let stdin = std::io::stdin();
  for line in stdin.lock().lines() {
    let line = line.unwrap();
    if line.trim().is_empty() {
      continue;
    }
    let job: Value = serde_json::from_str(&line).unwrap();
    match mode {
      "diff" => println!("{}", run_diff_job(&job)),
      "docs" => println!("{}", run_doc_job(&job)),
      other => {
        eprintln!("edits-run: unknown mode {other} (diff | docs)");
        std::process::exit(2);
      }
    }
  }
}
