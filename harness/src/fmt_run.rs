//! C08 / C09: the formatter (samlang-printer) and the parser, driven for the checks.
//!
//!   vh fmt-run prec-table      one JSON object: `E::precedence()` of a representative of every expression
//!                              constructor, `BinaryOperator::precedence()` / `kind_str()` of every operator
//!   vh fmt-run doc             stdin: {"doc": D, "widths": [w..]} per line -> {"out": [rendered..]}
//!                              (D is the JSON form of samlang_printer::verif::Doc)
//!   vh fmt-run expr            stdin: {"e": E, "widths": [w..]} per line -> printed text per width, its token
//!                              list (real lexer) and the tree the real parser reads back
//!   vh fmt-run parse-expr      stdin: {"text": "..."} -> {"errors": n, "tree": E}
//!   vh fmt-run module          stdin: {"text": "...", "widths": [w..], "typecheck": bool, "name": "M"} ->
//!                              parse / print / re-parse comparison, idempotence, comment inventory
//!   vh fmt-run module-raw      stdin: {"text": "...", "width": w} -> tokens, tree as parsed (import lines in source
//!                              order), the formatted text with its tokens and the tree it parses to
//!   vh fmt-run lit             stdin: {"str": "...", "int": "..."} literal print/lex round trips
//! Every call into /repo code runs under catch_unwind.
use crate::front::{mod_ref, panic_msg};
use samlang_ast::Location;
use samlang_ast::source::{
  self, CommentKind, CommentStore, Id, Literal, Module, NO_COMMENT_REFERENCE, Toplevel, TypeDefinition, annotation,
  expr, pattern,
};
use samlang_errors::ErrorSet;
use samlang_heap::{Heap, ModuleReference, PStr};
use samlang_printer::verif::Doc;
use serde_json::{Value, json};
use std::collections::{BTreeMap, HashMap};
use std::io::BufRead;
use std::panic::{AssertUnwindSafe, catch_unwind};

// ------------------------------------------------------------------------------------------------
// canonical dump: AST -> JSON without locations, comment references and checker-filled fields

fn id_s(heap: &Heap, id: &Id) -> Value {
  json!(id.name.as_str(heap))
}

fn dump_targs(heap: &Heap, t: &Option<annotation::TypeArguments>) -> Value {
  match t {
    None => Value::Null,
    Some(t) => Value::Array(t.arguments.iter().map(|a| dump_annot(heap, a)).collect()),
  }
}

fn dump_id_annot(heap: &Heap, a: &annotation::Id) -> Value {
  json!(["tid", a.module_reference.pretty_print(heap), id_s(heap, &a.id), dump_targs(heap, &a.type_arguments)])
}

pub fn dump_annot(heap: &Heap, a: &annotation::T) -> Value {
  match a {
    annotation::T::Primitive(_, _, k) => json!(["prim", k.kind_str()]),
    annotation::T::Id(a) => dump_id_annot(heap, a),
    annotation::T::Generic(_, id) => json!(["tgen", id_s(heap, id)]),
    annotation::T::Fn(f) => json!([
      "tfn",
      f.parameters.annotations.iter().map(|a| dump_annot(heap, a)).collect::<Vec<_>>(),
      dump_annot(heap, &f.return_type)
    ]),
  }
}

fn dump_tuple_pat(heap: &Heap, p: &pattern::TuplePattern<()>) -> Value {
  Value::Array(p.elements.iter().map(|e| dump_pat(heap, &e.pattern)).collect())
}

pub fn dump_pat(heap: &Heap, p: &pattern::MatchingPattern<()>) -> Value {
  match p {
    pattern::MatchingPattern::Tuple(t) => json!(["ptuple", dump_tuple_pat(heap, t)]),
    pattern::MatchingPattern::Object { elements, .. } => json!([
      "pobj",
      elements
        .iter()
        .map(|e| json!([id_s(heap, &e.field_name), e.shorthand, dump_pat(heap, &e.pattern)]))
        .collect::<Vec<_>>()
    ]),
    pattern::MatchingPattern::Variant(v) => json!([
      "pvar",
      id_s(heap, &v.tag),
      match &v.data_variables {
        None => Value::Null,
        Some(t) => dump_tuple_pat(heap, t),
      }
    ]),
    pattern::MatchingPattern::Id(id, _) => json!(["pid", id_s(heap, id)]),
    pattern::MatchingPattern::Wildcard { .. } => json!(["pwild"]),
    pattern::MatchingPattern::Or { patterns, .. } => {
      json!(["por", patterns.iter().map(|p| dump_pat(heap, p)).collect::<Vec<_>>()])
    }
  }
}

fn dump_block(heap: &Heap, b: &expr::Block<()>) -> Value {
  let stmts: Vec<Value> = b
    .statements
    .iter()
    .map(|s| match s {
      expr::Statement::Declaration(d) => json!([
        "let",
        dump_pat(heap, &d.pattern),
        d.annotation.as_ref().map(|a| dump_annot(heap, a)).unwrap_or(Value::Null),
        dump_expr(heap, &d.assigned_expression)
      ]),
      expr::Statement::Expression(e) => json!(["expr", dump_expr(heap, e)]),
    })
    .collect();
  json!(["block", stmts, b.expression.as_ref().map(|e| dump_expr(heap, e)).unwrap_or(Value::Null)])
}

fn dump_if(heap: &Heap, e: &expr::IfElse<()>) -> Value {
  let cond = match e.condition.as_ref() {
    expr::IfElseCondition::Expression(c) => json!(["e", dump_expr(heap, c)]),
    expr::IfElseCondition::Guard(p, c) => json!(["guard", dump_pat(heap, p), dump_expr(heap, c)]),
  };
  let e2 = match e.e2.as_ref() {
    expr::IfElseOrBlock::IfElse(n) => dump_if(heap, n),
    expr::IfElseOrBlock::Block(b) => dump_block(heap, b),
  };
  json!(["if", cond, dump_block(heap, &e.e1), e2])
}

pub fn dump_expr(heap: &Heap, e: &expr::E<()>) -> Value {
  match e {
    expr::E::Literal(_, Literal::Bool(b)) => json!(["bool", b]),
    expr::E::Literal(_, Literal::Int(i)) => json!(["int", i]),
    expr::E::Literal(_, Literal::String(s)) => json!(["str", s.as_str(heap)]),
    expr::E::LocalId(_, id) => json!(["id", id_s(heap, id)]),
    expr::E::ClassId(_, m, id) => json!(["cid", m.pretty_print(heap), id_s(heap, id)]),
    expr::E::Tuple(_, l) => json!(["tuple", l.expressions.iter().map(|e| dump_expr(heap, e)).collect::<Vec<_>>()]),
    expr::E::FieldAccess(f) => {
      json!(["field", dump_expr(heap, &f.object), id_s(heap, &f.field_name), dump_targs(heap, &f.explicit_type_arguments)])
    }
    expr::E::MethodAccess(f) => {
      json!(["method", dump_expr(heap, &f.object), id_s(heap, &f.method_name), dump_targs(heap, &f.explicit_type_arguments)])
    }
    expr::E::Unary(u) => json!(["un", u.operator.kind_str(), dump_expr(heap, &u.argument)]),
    expr::E::Call(c) => json!([
      "call",
      dump_expr(heap, &c.callee),
      c.arguments.expressions.iter().map(|e| dump_expr(heap, e)).collect::<Vec<_>>()
    ]),
    expr::E::Binary(b) => json!(["bin", b.operator.kind_str(), dump_expr(heap, &b.e1), dump_expr(heap, &b.e2)]),
    expr::E::IfElse(i) => dump_if(heap, i),
    expr::E::Match(m) => json!([
      "match",
      dump_expr(heap, &m.matched),
      m.cases.iter().map(|c| json!([dump_pat(heap, &c.pattern), dump_expr(heap, &c.body)])).collect::<Vec<_>>()
    ]),
    expr::E::Lambda(l) => json!([
      "lambda",
      l.parameters
        .parameters
        .iter()
        .map(|p| json!([id_s(heap, &p.name), p.annotation.as_ref().map(|a| dump_annot(heap, a)).unwrap_or(Value::Null)]))
        .collect::<Vec<_>>(),
      dump_expr(heap, &l.body)
    ]),
    expr::E::Block(b) => dump_block(heap, b),
  }
}

fn dump_tparams(heap: &Heap, t: &Option<annotation::TypeParameters>) -> Value {
  match t {
    None => Value::Null,
    Some(t) => Value::Array(
      t.parameters
        .iter()
        .map(|p| json!([id_s(heap, &p.name), p.bound.as_ref().map(|b| dump_id_annot(heap, b)).unwrap_or(Value::Null)]))
        .collect(),
    ),
  }
}

fn dump_member(heap: &Heap, m: &source::ClassMemberDeclaration) -> Value {
  json!({
    "public": m.is_public, "method": m.is_method, "name": id_s(heap, &m.name),
    "tparams": dump_tparams(heap, &m.type_parameters),
    "params": m.parameters.parameters.iter().map(|p| json!([id_s(heap, &p.name), dump_annot(heap, &p.annotation)])).collect::<Vec<_>>(),
    "ret": dump_annot(heap, &m.return_type),
  })
}

fn dump_supers(heap: &Heap, n: &Option<source::ExtendsOrImplementsNodes>) -> Value {
  match n {
    None => Value::Null,
    Some(n) => Value::Array(n.nodes.iter().map(|i| dump_id_annot(heap, i)).collect()),
  }
}

pub fn dump_module(heap: &Heap, m: &Module<()>) -> Value {
  // imports: merged per module, members sorted, modules sorted (the documented normalisation)
  let mut imports: BTreeMap<String, Vec<String>> = BTreeMap::new();
  for i in &m.imports {
    let e = imports.entry(i.imported_module.pretty_print(heap)).or_default();
    for id in &i.imported_members {
      e.push(id.name.as_str(heap).to_string());
    }
  }
  for v in imports.values_mut() {
    v.sort();
  }
  let tops: Vec<Value> = m
    .toplevels
    .iter()
    .map(|t| match t {
      Toplevel::Interface(i) => json!({
        "kind": "interface", "private": i.private, "name": id_s(heap, &i.name),
        "tparams": dump_tparams(heap, &i.type_parameters),
        "supers": dump_supers(heap, &i.extends_or_implements_nodes),
        "members": i.members.members.iter().map(|m| dump_member(heap, m)).collect::<Vec<_>>(),
      }),
      Toplevel::Class(c) => json!({
        "kind": "class", "private": c.private, "name": id_s(heap, &c.name),
        "tparams": dump_tparams(heap, &c.type_parameters),
        "supers": dump_supers(heap, &c.extends_or_implements_nodes),
        "typedef": match &c.type_definition {
          None => Value::Null,
          Some(TypeDefinition::Struct { fields, .. }) => json!(["struct", fields.iter().map(|f| json!([f.is_public, id_s(heap, &f.name), dump_annot(heap, &f.annotation)])).collect::<Vec<_>>()]),
          Some(TypeDefinition::Enum { variants, .. }) => json!(["enum", variants.iter().map(|v| json!([id_s(heap, &v.name), match &v.associated_data_types { None => Value::Null, Some(l) => Value::Array(l.annotations.iter().map(|a| dump_annot(heap, a)).collect()) }])).collect::<Vec<_>>()]),
        },
        "members": c.members.members.iter().map(|m| json!([dump_member(heap, &m.decl), dump_expr(heap, &m.body)])).collect::<Vec<_>>(),
      }),
    })
    .collect();
  json!({"imports": imports, "toplevels": tops})
}

/// the module as parsed: import lines in source order (members, module path parts), toplevels as in dump_module
pub fn dump_module_raw(heap: &Heap, m: &Module<()>) -> Value {
  let imports: Vec<Value> = m
    .imports
    .iter()
    .map(|i| {
      json!([
        i.imported_members.iter().map(|id| json!(id.name.as_str(heap))).collect::<Vec<_>>(),
        i.imported_module.pretty_print(heap).split('.').map(|p| json!(p)).collect::<Vec<_>>()
      ])
    })
    .collect();
  json!({"imports": imports, "toplevels": dump_module(heap, m)["toplevels"].clone()})
}

/// first path at which two JSON values differ (for reports)
fn first_diff(a: &Value, b: &Value, path: String) -> Option<(String, Value, Value)> {
  match (a, b) {
    (Value::Array(x), Value::Array(y)) => {
      for (i, (p, q)) in x.iter().zip(y.iter()).enumerate() {
        if let Some(d) = first_diff(p, q, format!("{path}/{i}")) {
          return Some(d);
        }
      }
      if x.len() != y.len() { Some((format!("{path}#len"), json!(x.len()), json!(y.len()))) } else { None }
    }
    (Value::Object(x), Value::Object(y)) => {
      for (k, p) in x {
        match y.get(k) {
          Some(q) => {
            if let Some(d) = first_diff(p, q, format!("{path}/{k}")) {
              return Some(d);
            }
          }
          None => return Some((format!("{path}/{k}"), p.clone(), Value::Null)),
        }
      }
      for k in y.keys() {
        if !x.contains_key(k) {
          return Some((format!("{path}/{k}"), Value::Null, y[k].clone()));
        }
      }
      None
    }
    _ => {
      if a == b {
        None
      } else {
        let clip = |v: &Value| {
          let s = v.to_string();
          if s.len() > 300 { json!(format!("{}...", &s[..300])) } else { v.clone() }
        };
        Some((path, clip(a), clip(b)))
      }
    }
  }
}

// ------------------------------------------------------------------------------------------------
// builder: JSON tree -> expr::E<()> (no comments, dummy locations)

fn common() -> expr::ExpressionCommon<()> {
  expr::ExpressionCommon::dummy(())
}

fn mk_id(heap: &mut Heap, s: &str) -> Id {
  Id { loc: Location::dummy(), associated_comments: NO_COMMENT_REFERENCE, name: heap.alloc_string(s.to_string()) }
}

fn binop_of(s: &str) -> expr::BinaryOperator {
  use expr::BinaryOperator::*;
  for o in ALL_BINOPS {
    if o.kind_str() == s {
      return o;
    }
  }
  let _ = MUL;
  panic!("unknown binary operator {s}")
}

const ALL_BINOPS: [expr::BinaryOperator; 14] = [
  expr::BinaryOperator::MUL,
  expr::BinaryOperator::DIV,
  expr::BinaryOperator::MOD,
  expr::BinaryOperator::PLUS,
  expr::BinaryOperator::MINUS,
  expr::BinaryOperator::LT,
  expr::BinaryOperator::LE,
  expr::BinaryOperator::GT,
  expr::BinaryOperator::GE,
  expr::BinaryOperator::EQ,
  expr::BinaryOperator::NE,
  expr::BinaryOperator::AND,
  expr::BinaryOperator::OR,
  expr::BinaryOperator::CONCAT,
];

fn binop_name(o: expr::BinaryOperator) -> &'static str {
  use expr::BinaryOperator::*;
  match o {
    MUL => "MUL",
    DIV => "DIV",
    MOD => "MOD",
    PLUS => "PLUS",
    MINUS => "MINUS",
    LT => "LT",
    LE => "LE",
    GT => "GT",
    GE => "GE",
    EQ => "EQ",
    NE => "NE",
    AND => "AND",
    OR => "OR",
    CONCAT => "CONCAT",
  }
}

fn build_targs(heap: &mut Heap, v: &Value) -> Option<annotation::TypeArguments> {
  if v.is_null() {
    return None;
  }
  Some(annotation::TypeArguments {
    location: Location::dummy(),
    start_associated_comments: NO_COMMENT_REFERENCE,
    ending_associated_comments: NO_COMMENT_REFERENCE,
    arguments: v.as_array().unwrap().iter().map(|a| build_annot(heap, a)).collect(),
  })
}

/// ["prim", k] | ["tid", _, name, targs|null] | ["tgen", name] | ["tfn", [params], ret]
pub fn build_annot(heap: &mut Heap, v: &Value) -> annotation::T {
  match v[0].as_str().unwrap() {
    "prim" => annotation::T::Primitive(
      Location::dummy(),
      NO_COMMENT_REFERENCE,
      match v[1].as_str().unwrap() {
        "unit" => annotation::PrimitiveTypeKind::Unit,
        "bool" => annotation::PrimitiveTypeKind::Bool,
        "int" => annotation::PrimitiveTypeKind::Int,
        k => panic!("primitive kind {k}"),
      },
    ),
    "tid" => annotation::T::Id(annotation::Id {
      location: Location::dummy(),
      module_reference: ModuleReference::DUMMY,
      id: mk_id(heap, v[2].as_str().unwrap()),
      type_arguments: build_targs(heap, &v[3]),
    }),
    "tgen" => annotation::T::Generic(Location::dummy(), mk_id(heap, v[1].as_str().unwrap())),
    "tfn" => annotation::T::Fn(annotation::Function {
      location: Location::dummy(),
      associated_comments: NO_COMMENT_REFERENCE,
      parameters: annotation::ParenthesizedAnnotationList {
        location: Location::dummy(),
        start_associated_comments: NO_COMMENT_REFERENCE,
        ending_associated_comments: NO_COMMENT_REFERENCE,
        annotations: v[1].as_array().unwrap().iter().map(|a| build_annot(heap, a)).collect(),
      },
      return_type: Box::new(build_annot(heap, &v[2])),
    }),
    k => panic!("annotation kind {k}"),
  }
}

fn build_tuple_pat(heap: &mut Heap, v: &Value) -> pattern::TuplePattern<()> {
  pattern::TuplePattern {
    location: Location::dummy(),
    start_associated_comments: NO_COMMENT_REFERENCE,
    ending_associated_comments: NO_COMMENT_REFERENCE,
    elements: v
      .as_array()
      .unwrap()
      .iter()
      .map(|p| pattern::TuplePatternElement { pattern: Box::new(build_pat(heap, p)), type_: () })
      .collect(),
  }
}

/// ["ptuple", [..]] | ["pobj", [[field, shorthand, pat]..]] | ["pvar", tag, null|[..]] | ["pid", x] | ["pwild"] | ["por", [..]]
pub fn build_pat(heap: &mut Heap, v: &Value) -> pattern::MatchingPattern<()> {
  match v[0].as_str().unwrap() {
    "ptuple" => pattern::MatchingPattern::Tuple(build_tuple_pat(heap, &v[1])),
    "pobj" => pattern::MatchingPattern::Object {
      location: Location::dummy(),
      start_associated_comments: NO_COMMENT_REFERENCE,
      ending_associated_comments: NO_COMMENT_REFERENCE,
      elements: v[1]
        .as_array()
        .unwrap()
        .iter()
        .map(|e| pattern::ObjectPatternElement {
          loc: Location::dummy(),
          field_order: 0,
          field_name: mk_id(heap, e[0].as_str().unwrap()),
          pattern: Box::new(build_pat(heap, &e[2])),
          shorthand: e[1].as_bool().unwrap(),
          type_: (),
        })
        .collect(),
    },
    "pvar" => pattern::MatchingPattern::Variant(pattern::VariantPattern {
      loc: Location::dummy(),
      tag_order: 0,
      tag: mk_id(heap, v[1].as_str().unwrap()),
      data_variables: if v[2].is_null() { None } else { Some(build_tuple_pat(heap, &v[2])) },
      type_: (),
    }),
    "pid" => pattern::MatchingPattern::Id(mk_id(heap, v[1].as_str().unwrap()), ()),
    "pwild" => pattern::MatchingPattern::Wildcard { location: Location::dummy(), associated_comments: NO_COMMENT_REFERENCE },
    "por" => pattern::MatchingPattern::Or {
      location: Location::dummy(),
      patterns: v[1].as_array().unwrap().iter().map(|p| build_pat(heap, p)).collect(),
    },
    k => panic!("pattern kind {k}"),
  }
}

fn build_block(heap: &mut Heap, v: &Value) -> expr::Block<()> {
  // ["block", [stmts], e|null]
  let stmts = v[1]
    .as_array()
    .unwrap()
    .iter()
    .map(|s| match s[0].as_str().unwrap() {
      "expr" => expr::Statement::Expression(Box::new(build_expr(heap, &s[1]))),
      "let" => expr::Statement::Declaration(Box::new(expr::DeclarationStatement {
        loc: Location::dummy(),
        associated_comments: NO_COMMENT_REFERENCE,
        pattern: build_pat(heap, &s[1]),
        annotation: if s[2].is_null() { None } else { Some(build_annot(heap, &s[2])) },
        assigned_expression: Box::new(build_expr(heap, &s[3])),
      })),
      k => panic!("statement kind {k}"),
    })
    .collect();
  expr::Block {
    common: common(),
    statements: stmts,
    expression: if v[2].is_null() { None } else { Some(Box::new(build_expr(heap, &v[2]))) },
    ending_associated_comments: NO_COMMENT_REFERENCE,
  }
}

fn build_if(heap: &mut Heap, v: &Value) -> expr::IfElse<()> {
  let cond = match v[1][0].as_str().unwrap() {
    "e" => expr::IfElseCondition::Expression(build_expr(heap, &v[1][1])),
    "guard" => expr::IfElseCondition::Guard(build_pat(heap, &v[1][1]), build_expr(heap, &v[1][2])),
    k => panic!("condition kind {k}"),
  };
  let e2 = if v[3][0] == "if" {
    expr::IfElseOrBlock::IfElse(build_if(heap, &v[3]))
  } else {
    expr::IfElseOrBlock::Block(build_block(heap, &v[3]))
  };
  expr::IfElse { common: common(), condition: Box::new(cond), e1: Box::new(build_block(heap, &v[2])), e2: Box::new(e2) }
}

pub fn build_expr(heap: &mut Heap, v: &Value) -> expr::E<()> {
  match v[0].as_str().unwrap() {
    "int" => expr::E::Literal(common(), Literal::Int(v[1].as_i64().unwrap() as i32)),
    "bool" => expr::E::Literal(common(), Literal::Bool(v[1].as_bool().unwrap())),
    "str" => expr::E::Literal(common(), Literal::String(heap.alloc_string(v[1].as_str().unwrap().to_string()))),
    "id" if v[1] == "this" => expr::E::LocalId(
      common(),
      Id { loc: Location::dummy(), associated_comments: NO_COMMENT_REFERENCE, name: PStr::THIS },
    ),
    "id" => expr::E::LocalId(common(), mk_id(heap, v[1].as_str().unwrap())),
    "cid" => expr::E::ClassId(common(), ModuleReference::DUMMY, mk_id(heap, v[2].as_str().unwrap())),
    "tuple" => expr::E::Tuple(
      common(),
      expr::ParenthesizedExpressionList {
        loc: Location::dummy(),
        start_associated_comments: NO_COMMENT_REFERENCE,
        ending_associated_comments: NO_COMMENT_REFERENCE,
        expressions: v[1].as_array().unwrap().iter().map(|e| build_expr(heap, e)).collect(),
      },
    ),
    "field" => expr::E::FieldAccess(expr::FieldAccess {
      common: common(),
      explicit_type_arguments: build_targs(heap, &v[3]),
      inferred_type_arguments: Vec::new(),
      object: Box::new(build_expr(heap, &v[1])),
      field_name: mk_id(heap, v[2].as_str().unwrap()),
      field_order: -1,
    }),
    "method" => expr::E::MethodAccess(expr::MethodAccess {
      common: common(),
      explicit_type_arguments: build_targs(heap, &v[3]),
      inferred_type_arguments: Vec::new(),
      object: Box::new(build_expr(heap, &v[1])),
      method_name: mk_id(heap, v[2].as_str().unwrap()),
    }),
    "un" => expr::E::Unary(expr::Unary {
      common: common(),
      operator: if v[1] == "!" { expr::UnaryOperator::NOT } else { expr::UnaryOperator::NEG },
      argument: Box::new(build_expr(heap, &v[2])),
    }),
    "call" => expr::E::Call(expr::Call {
      common: common(),
      callee: Box::new(build_expr(heap, &v[1])),
      arguments: expr::ParenthesizedExpressionList {
        loc: Location::dummy(),
        start_associated_comments: NO_COMMENT_REFERENCE,
        ending_associated_comments: NO_COMMENT_REFERENCE,
        expressions: v[2].as_array().unwrap().iter().map(|e| build_expr(heap, e)).collect(),
      },
    }),
    "bin" => expr::E::Binary(expr::Binary {
      common: common(),
      operator_preceding_comments: NO_COMMENT_REFERENCE,
      operator: binop_of(v[1].as_str().unwrap()),
      e1: Box::new(build_expr(heap, &v[2])),
      e2: Box::new(build_expr(heap, &v[3])),
    }),
    "if" => expr::E::IfElse(build_if(heap, v)),
    "match" => expr::E::Match(expr::Match {
      common: common(),
      matched: Box::new(build_expr(heap, &v[1])),
      cases: v[2]
        .as_array()
        .unwrap()
        .iter()
        .map(|c| expr::VariantPatternToExpression {
          loc: Location::dummy(),
          pattern: build_pat(heap, &c[0]),
          body: Box::new(build_expr(heap, &c[1])),
          ending_associated_comments: NO_COMMENT_REFERENCE,
        })
        .collect(),
    }),
    "lambda" => expr::E::Lambda(expr::Lambda {
      common: common(),
      parameters: expr::LambdaParameters {
        loc: Location::dummy(),
        parameters: v[1]
          .as_array()
          .unwrap()
          .iter()
          .map(|p| source::OptionallyAnnotatedId {
            name: mk_id(heap, p[0].as_str().unwrap()),
            type_: (),
            annotation: if p[1].is_null() { None } else { Some(build_annot(heap, &p[1])) },
          })
          .collect(),
        ending_associated_comments: NO_COMMENT_REFERENCE,
      },
      captured: HashMap::new(),
      body: Box::new(build_expr(heap, &v[2])),
    }),
    "block" => expr::E::Block(build_block(heap, v)),
    k => panic!("expression kind {k}"),
  }
}

// ------------------------------------------------------------------------------------------------
// prec-table

fn prec_table() -> Value {
  let mut heap = Heap::new();
  let reps: Vec<(&str, Value)> = vec![
    ("Literal", json!(["int", 0])),
    ("LocalId", json!(["id", "a"])),
    ("ClassId", json!(["cid", "", "A"])),
    ("Tuple", json!(["tuple", [["int", 0], ["int", 1]]])),
    ("FieldAccess", json!(["field", ["id", "a"], "f", null])),
    ("MethodAccess", json!(["method", ["id", "a"], "f", null])),
    ("Unary", json!(["un", "!", ["id", "a"]])),
    ("Call", json!(["call", ["id", "a"], []])),
    ("IfElse", json!(["if", ["e", ["id", "a"]], ["block", [], ["int", 0]], ["block", [], ["int", 1]]])),
    ("Match", json!(["match", ["id", "a"], [[["pvar", "A", null], ["int", 0]]]])),
    ("Lambda", json!(["lambda", [["x", null]], ["id", "x"]])),
    ("Block", json!(["block", [], ["int", 0]])),
  ];
  let mut e = serde_json::Map::new();
  for (name, v) in reps {
    let ex = build_expr(&mut heap, &v);
    e.insert(name.to_string(), json!(ex.precedence()));
  }
  let mut b = serde_json::Map::new();
  let mut bs = serde_json::Map::new();
  let mut bn = serde_json::Map::new();
  for o in ALL_BINOPS {
    b.insert(binop_name(o).to_string(), json!(o.precedence()));
    bs.insert(binop_name(o).to_string(), json!(o.kind_str()));
    let ex = build_expr(&mut heap, &json!(["bin", o.kind_str(), ["id", "a"], ["id", "b"]]));
    bn.insert(binop_name(o).to_string(), json!(ex.precedence()));
  }
  json!({"expr": e, "binop": b, "binop_str": bs, "binary_node": bn,
         "unop_str": {"NOT": expr::UnaryOperator::NOT.kind_str(), "NEG": expr::UnaryOperator::NEG.kind_str()}})
}

// ------------------------------------------------------------------------------------------------
// doc mode

fn build_doc(v: &Value) -> Doc {
  match v[0].as_str().unwrap() {
    "nil" => Doc::Nil,
    "concat" => Doc::Concat(Box::new(build_doc(&v[1])), Box::new(build_doc(&v[2]))),
    "nest" => Doc::Nest(v[1].as_u64().unwrap() as usize, Box::new(build_doc(&v[2]))),
    "text" => Doc::Text(v[1].as_str().unwrap().to_string()),
    "line" => Doc::Line,
    "linenil" => Doc::LineFlattenToNil,
    "linehard" => Doc::LineHard,
    "union" => Doc::Union(Box::new(build_doc(&v[1])), Box::new(build_doc(&v[2]))),
    "group" => Doc::Group(Box::new(build_doc(&v[1]))),
    "linecomment" => Doc::LineComment(v[1].as_str().unwrap().to_string()),
    "multiline" => Doc::MultilineComment(v[1].as_bool().unwrap(), v[2].as_str().unwrap().to_string()),
    k => panic!("doc kind {k}"),
  }
}

fn widths(job: &Value) -> Vec<usize> {
  job["widths"].as_array().map(|a| a.iter().map(|w| w.as_u64().unwrap() as usize).collect()).unwrap_or(vec![100])
}

fn run_doc(job: &Value) -> Value {
  let doc = build_doc(&job["doc"]);
  let outs: Vec<Value> = widths(job)
    .into_iter()
    .map(|w| match catch_unwind(AssertUnwindSafe(|| samlang_printer::verif::pretty_print(w, &doc))) {
      Ok(s) => json!(s),
      Err(e) => json!({"panic": panic_msg(e)}),
    })
    .collect();
  json!({"id": job["id"], "out": outs})
}

// ------------------------------------------------------------------------------------------------
// lexing helpers

fn lex_tokens(text: &str) -> (Vec<(String, String)>, usize) {
  let mut heap = Heap::new();
  let mut es = ErrorSet::new();
  let toks = samlang_parser::verif::lex(text, ModuleReference::DUMMY, &mut heap, &mut es);
  (toks.into_iter().map(|(k, _, s)| (k.to_string(), s)).collect(), es.errors().len())
}

fn literals_of(text: &str) -> Vec<Value> {
  lex_tokens(text).0.into_iter().filter(|(k, _)| k == "int" || k == "string").map(|(k, s)| json!([k, s])).collect()
}

fn comments_of(text: &str) -> Vec<Value> {
  lex_tokens(text).0.into_iter().filter(|(k, _)| k.ends_with("comment")).map(|(k, s)| json!([k, s])).collect()
}

// ------------------------------------------------------------------------------------------------
// expr mode

const WRAP_PRE: &str = "class Main { function main(): unit = ";
const WRAP_POST: &str = " }";

/// parse `text` as the body of a member (so that trailing tokens are syntax errors)
fn parse_wrapped(text: &str) -> Value {
  parse_wrapped_tparams(text, "")
}

/// the same with `tparams` (e.g. "<C7, C8> ") as the member's type parameters
fn parse_wrapped_tparams(text: &str, tparams: &str) -> Value {
  let r = catch_unwind(AssertUnwindSafe(|| {
    let mut heap = Heap::new();
    let mut es = ErrorSet::new();
    let src = format!("class Main {{ function {tparams}main(): unit = {text}{WRAP_POST}");
    let m = samlang_parser::parse_source_module_from_text(&src, ModuleReference::DUMMY, &mut heap, &mut es);
    let n = es.errors().len();
    let tree = match m.toplevels.first() {
      Some(Toplevel::Class(c)) if c.members.members.len() == 1 && m.toplevels.len() == 1 => {
        dump_expr(&heap, &c.members.members[0].body)
      }
      _ => Value::Null,
    };
    let msgs = es.pretty_print_error_messages_no_frame_for_test(&heap);
    (n, tree, msgs)
  }));
  match r {
    Ok((n, tree, msgs)) => json!({"errors": n, "tree": tree, "messages": msgs.chars().take(400).collect::<String>()}),
    Err(e) => json!({"panic": panic_msg(e)}),
  }
}

fn run_expr(job: &Value) -> Value {
  let mut outs = Vec::new();
  for w in widths(job) {
    let r = catch_unwind(AssertUnwindSafe(|| {
      let mut heap = Heap::new();
      let e = build_expr(&mut heap, &job["e"]);
      samlang_printer::pretty_print_expression(&heap, w, &CommentStore::new(), &e)
    }));
    match r {
      Ok(text) => {
        let (toks, lex_errors) = lex_tokens(&text);
        outs.push(json!({"width": w, "text": text, "lex_errors": lex_errors,
          "tokens": toks.iter().map(|(k, s)| json!([k, s])).collect::<Vec<_>>(),
          "reparse": parse_wrapped_tparams(&text, job["tparams"].as_str().unwrap_or(""))}));
      }
      Err(e) => outs.push(json!({"width": w, "panic": panic_msg(e)})),
    }
  }
  json!({"id": job["id"], "out": outs})
}

// ------------------------------------------------------------------------------------------------
// literal mode

fn run_lit(job: &Value) -> Value {
  let mut res = serde_json::Map::new();
  res.insert("id".into(), job["id"].clone());
  if let Some(s) = job["str"].as_str() {
    // heap string s -> printed literal -> lexed / parsed back
    let r = catch_unwind(AssertUnwindSafe(|| {
      let mut heap = Heap::new();
      let e = build_expr(&mut heap, &json!(["str", s]));
      samlang_printer::pretty_print_expression(&heap, 100000, &CommentStore::new(), &e)
    }));
    match r {
      Ok(text) => {
        let t = text.trim_end_matches('\n').to_string();
        let (toks, le) = lex_tokens(&t);
        res.insert("str_printed".into(), json!(t));
        res.insert("str_tokens".into(), json!(toks.iter().map(|(k, s)| json!([k, s])).collect::<Vec<_>>()));
        res.insert("str_lex_errors".into(), json!(le));
        res.insert("str_reparse".into(), parse_wrapped(&t));
      }
      Err(e) => {
        res.insert("str_panic".into(), json!(panic_msg(e)));
      }
    }
  }
  if let Some(src) = job["src"].as_str() {
    // source text of one expression: tokens, parsed tree, printed again
    let (toks, le) = lex_tokens(src);
    res.insert("src_tokens".into(), json!(toks.iter().map(|(k, s)| json!([k, s])).collect::<Vec<_>>()));
    res.insert("src_lex_errors".into(), json!(le));
    let r = catch_unwind(AssertUnwindSafe(|| {
      let mut heap = Heap::new();
      let mut es = ErrorSet::new();
      let full = format!("{WRAP_PRE}{src}{WRAP_POST}");
      let m = samlang_parser::parse_source_module_from_text(&full, ModuleReference::DUMMY, &mut heap, &mut es);
      let n = es.errors().len();
      let (tree, printed) = match m.toplevels.first() {
        Some(Toplevel::Class(c)) if c.members.members.len() == 1 => {
          let b = &c.members.members[0].body;
          (dump_expr(&heap, b), samlang_printer::pretty_print_expression(&heap, 100000, &m.comment_store, b))
        }
        _ => (Value::Null, String::new()),
      };
      (n, tree, printed)
    }));
    match r {
      Ok((n, tree, printed)) => {
        res.insert("src_errors".into(), json!(n));
        res.insert("src_tree".into(), tree);
        res.insert("src_printed".into(), json!(printed.trim_end_matches('\n')));
      }
      Err(e) => {
        res.insert("src_panic".into(), json!(panic_msg(e)));
      }
    }
  }
  Value::Object(res)
}

// ------------------------------------------------------------------------------------------------
// module mode

struct Parsed {
  errors: usize,
  messages: String,
  dump: Value,
  ast_comments: Vec<Value>,
}

fn kind_name(k: CommentKind) -> &'static str {
  match k {
    CommentKind::LINE => "line-comment",
    CommentKind::BLOCK => "block-comment",
    CommentKind::DOC => "doc-comment",
  }
}

fn parse_and<R>(text: &str, name: &str, f: impl FnOnce(&mut Heap, &Module<()>, ModuleReference) -> R) -> Result<(Parsed, R), String> {
  catch_unwind(AssertUnwindSafe(|| {
    let mut heap = Heap::new();
    let mut es = ErrorSet::new();
    let mr = mod_ref(&mut heap, name);
    let m = samlang_parser::parse_source_module_from_text(text, mr, &mut heap, &mut es);
    let mut ast_comments = Vec::new();
    for node in m.comment_store.all_comments() {
      for c in node.iter() {
        ast_comments.push(json!([kind_name(c.kind), c.text.as_str(&heap)]));
      }
    }
    let p = Parsed {
      errors: es.errors().len(),
      messages: es.pretty_print_error_messages_no_frame_for_test(&heap).chars().take(400).collect(),
      dump: dump_module(&heap, &m),
      ast_comments,
    };
    let r = f(&mut heap, &m, mr);
    (p, r)
  }))
  .map_err(panic_msg)
}

fn typecheck(text: &str, name: &str) -> Value {
  let r = catch_unwind(AssertUnwindSafe(|| {
    let mut heap = Heap::new();
    let mut es = ErrorSet::new();
    let mut sources = HashMap::new();
    for (k, v) in samlang_parser::builtin_std_raw_sources(&mut heap) {
      sources.insert(k, v);
    }
    let mr = mod_ref(&mut heap, name);
    sources.insert(mr, text.to_string());
    let mut parsed = HashMap::new();
    for (m, t) in &sources {
      parsed.insert(*m, samlang_parser::parse_source_module_from_text(t, *m, &mut heap, &mut es));
    }
    let _ = samlang_checker::type_check_sources(&parsed, &mut es);
    let mut kinds: Vec<String> = es
      .errors()
      .iter()
      .map(|e| {
        let d = format!("{:?}", e.detail);
        d.chars().take_while(|c| c.is_alphanumeric()).collect()
      })
      .collect();
    kinds.sort();
    kinds
  }));
  match r {
    Ok(k) => json!(k),
    Err(e) => json!({"panic": panic_msg(e)}),
  }
}

fn run_module(job: &Value) -> Value {
  let text = job["text"].as_str().unwrap();
  let name = job["name"].as_str().unwrap_or("Test");
  let ws = widths(job);
  let want_tc = job["typecheck"].as_bool().unwrap_or(false);
  let want_text = job["return_text"].as_bool().unwrap_or(false);
  let ws2 = ws.clone();
  let first = parse_and(text, name, move |heap, m, _| {
    ws2
      .iter()
      .map(|w| catch_unwind(AssertUnwindSafe(|| samlang_printer::pretty_print_source_module(heap, *w, m))).map_err(panic_msg))
      .collect::<Vec<_>>()
  });
  let (p0, printed) = match first {
    Ok(x) => x,
    Err(msg) => return json!({"id": job["id"], "parse_panic": msg}),
  };
  let in_comments = comments_of(text);
  let mut res = serde_json::Map::new();
  res.insert("id".into(), job["id"].clone());
  res.insert("errors".into(), json!(p0.errors));
  res.insert("messages".into(), json!(p0.messages));
  res.insert("comments".into(), json!(in_comments));
  res.insert("ast_comments".into(), json!(p0.ast_comments.len()));
  if p0.errors > 0 {
    return Value::Object(res);
  }
  let lits0 = literals_of(text);
  if job["return_dump"].as_bool().unwrap_or(false) {
    res.insert("dump".into(), p0.dump.clone());
    res.insert("literals".into(), json!(lits0));
  }
  let tc0 = if want_tc { typecheck(text, name) } else { Value::Null };
  let mut outs = Vec::new();
  for (w, pr) in ws.iter().zip(printed.into_iter()) {
    let mut o = serde_json::Map::new();
    o.insert("width".into(), json!(w));
    match pr {
      Err(msg) => {
        o.insert("print_panic".into(), json!(msg));
      }
      Ok(out) => {
        if want_text {
          o.insert("text".into(), json!(out));
        }
        let w2 = *w;
        match parse_and(&out, name, move |heap, m, _| {
          catch_unwind(AssertUnwindSafe(|| samlang_printer::pretty_print_source_module(heap, w2, m))).map_err(panic_msg)
        }) {
          Err(msg) => {
            o.insert("reparse_panic".into(), json!(msg));
          }
          Ok((p1, again)) => {
            o.insert("reparse_errors".into(), json!(p1.errors));
            if p1.errors > 0 {
              o.insert("reparse_messages".into(), json!(p1.messages));
            }
            let d = first_diff(&p0.dump, &p1.dump, String::new());
            o.insert("same_tree".into(), json!(d.is_none()));
            if let Some((path, a, b)) = d {
              o.insert("diff".into(), json!({"path": path, "before": a, "after": b}));
            }
            o.insert("comments".into(), json!(comments_of(&out)));
            let lits1 = literals_of(&out);
            o.insert("literals_same".into(), json!(lits0 == lits1));
            if lits0 != lits1 {
              let i = lits0.iter().zip(lits1.iter()).take_while(|(a, b)| a == b).count();
              o.insert("literal_diff".into(), json!({"before": lits0.get(i), "after": lits1.get(i)}));
            }
            match again {
              Ok(out2) => {
                o.insert("idempotent".into(), json!(out2 == out));
                if out2 != out {
                  let (la, lb): (Vec<&str>, Vec<&str>) = (out.lines().collect(), out2.lines().collect());
                  let i = la.iter().zip(lb.iter()).take_while(|(x, y)| x == y).count();
                  o.insert(
                    "idem_diff".into(),
                    json!({"line": i, "first": la.get(i).copied().unwrap_or("<eof>"), "second": lb.get(i).copied().unwrap_or("<eof>")}),
                  );
                }
              }
              Err(msg) => {
                o.insert("print2_panic".into(), json!(msg));
              }
            }
            if want_tc {
              let tc1 = typecheck(&out, name);
              o.insert("typecheck_same".into(), json!(tc0 == tc1));
              if tc0 != tc1 {
                o.insert("typecheck".into(), json!({"before": tc0, "after": tc1}));
              }
            }
          }
        }
      }
    }
    outs.push(Value::Object(o));
  }
  res.insert("out".into(), json!(outs));
  if want_tc {
    res.insert("typecheck_errors".into(), json!(tc0.as_array().map(|a| a.len())));
  }
  Value::Object(res)
}


// ------------------------------------------------------------------------------------------------
// module-raw mode: text -> tokens, tree as parsed (imports in source order), formatted text, its tokens and tree

fn parse_raw(text: &str, name: &str, width: Option<usize>) -> Result<(usize, Value, Option<String>), String> {
  catch_unwind(AssertUnwindSafe(|| {
    let mut heap = Heap::new();
    let mut es = ErrorSet::new();
    let mr = mod_ref(&mut heap, name);
    let m = samlang_parser::parse_source_module_from_text(text, mr, &mut heap, &mut es);
    let n = es.errors().len();
    let printed = match width {
      Some(w) if n == 0 => Some(samlang_printer::pretty_print_source_module(&heap, w, &m)),
      _ => None,
    };
    (n, dump_module_raw(&heap, &m), printed)
  }))
  .map_err(panic_msg)
}

fn tokens_json(text: &str) -> (Value, usize) {
  let (toks, le) = lex_tokens(text);
  (json!(toks.iter().map(|(k, s)| json!([k, s])).collect::<Vec<_>>()), le)
}

fn run_module_raw(job: &Value) -> Value {
  let text = job["text"].as_str().unwrap();
  let name = job["name"].as_str().unwrap_or("Test");
  let width = job["width"].as_u64().unwrap_or(100) as usize;
  let (toks, le) = tokens_json(text);
  let mut res = serde_json::Map::new();
  res.insert("id".into(), job["id"].clone());
  res.insert("tokens".into(), toks);
  res.insert("lex_errors".into(), json!(le));
  match parse_raw(text, name, Some(width)) {
    Err(msg) => {
      res.insert("panic".into(), json!(msg));
    }
    Ok((n, raw, printed)) => {
      res.insert("errors".into(), json!(n));
      if n == 0 {
        res.insert("raw".into(), raw);
      }
      if let Some(out) = printed {
        let (ptoks, ple) = tokens_json(&out);
        let mut p = serde_json::Map::new();
        p.insert("tokens".into(), ptoks);
        p.insert("lex_errors".into(), json!(ple));
        match parse_raw(&out, name, None) {
          Err(msg) => {
            p.insert("panic".into(), json!(msg));
          }
          Ok((n2, raw2, _)) => {
            p.insert("errors".into(), json!(n2));
            if n2 == 0 {
              p.insert("raw".into(), raw2);
            }
          }
        }
        p.insert("text".into(), json!(out));
        res.insert("printed".into(), Value::Object(p));
      }
    }
  }
  Value::Object(res)
}

// ------------------------------------------------------------------------------------------------
// tokens with byte offsets, comment injection (C09)

fn line_starts(text: &str) -> Vec<usize> {
  let mut v = vec![0];
  for (i, b) in text.bytes().enumerate() {
    if b == b'\n' {
      v.push(i + 1);
    }
  }
  v
}

/// (kind, text, start offset, end offset) of every token, comments included
fn tokens_with_offsets(text: &str) -> Vec<(String, String, usize, usize)> {
  let mut heap = Heap::new();
  let mut es = ErrorSet::new();
  let ls = line_starts(text);
  let off = |p: samlang_ast::Position| ls.get(p.0 as usize).copied().unwrap_or(text.len()) + p.1 as usize;
  samlang_parser::verif::lex(text, ModuleReference::DUMMY, &mut heap, &mut es)
    .into_iter()
    .map(|(k, loc, s)| (k.to_string(), s, off(loc.start), off(loc.end)))
    .collect()
}

fn run_tokens(job: &Value) -> Value {
  let text = job["text"].as_str().unwrap();
  match catch_unwind(AssertUnwindSafe(|| tokens_with_offsets(text))) {
    Ok(t) => json!({"id": job["id"], "tokens": t.iter().map(|(k, s, a, b)| json!([k, s, a, b])).collect::<Vec<_>>()}),
    Err(e) => json!({"id": job["id"], "panic": panic_msg(e)}),
  }
}


// ------------------------------------------------------------------------------------------------
// syntactic context of a site (for the C09 class predicates): where expression lists and type
// annotations start in the UNINJECTED text, according to the real parser

#[derive(Default)]
struct Ctx {
  expr_lists: Vec<Location>,
  annots: Vec<Location>,
}

fn ctx_annot(c: &mut Ctx, a: &annotation::T) {
  c.annots.push(a.location());
  match a {
    annotation::T::Primitive(..) | annotation::T::Generic(..) => {}
    annotation::T::Id(i) => ctx_id_annot_args(c, i),
    annotation::T::Fn(f) => {
      for p in &f.parameters.annotations {
        ctx_annot(c, p);
      }
      ctx_annot(c, &f.return_type);
    }
  }
}

fn ctx_id_annot_args(c: &mut Ctx, i: &annotation::Id) {
  if let Some(t) = &i.type_arguments {
    for a in &t.arguments {
      ctx_annot(c, a);
    }
  }
}

fn ctx_targs(c: &mut Ctx, t: &Option<annotation::TypeArguments>) {
  if let Some(t) = t {
    for a in &t.arguments {
      ctx_annot(c, a);
    }
  }
}

fn ctx_block(c: &mut Ctx, b: &expr::Block<()>) {
  for s in &b.statements {
    match s {
      expr::Statement::Declaration(d) => {
        if let Some(a) = &d.annotation {
          ctx_annot(c, a);
        }
        ctx_expr(c, &d.assigned_expression);
      }
      expr::Statement::Expression(e) => ctx_expr(c, e),
    }
  }
  if let Some(e) = &b.expression {
    ctx_expr(c, e);
  }
}

fn ctx_if(c: &mut Ctx, i: &expr::IfElse<()>) {
  match i.condition.as_ref() {
    expr::IfElseCondition::Expression(e) => ctx_expr(c, e),
    expr::IfElseCondition::Guard(_, e) => ctx_expr(c, e),
  }
  ctx_block(c, &i.e1);
  match i.e2.as_ref() {
    expr::IfElseOrBlock::IfElse(n) => ctx_if(c, n),
    expr::IfElseOrBlock::Block(b) => ctx_block(c, b),
  }
}

fn ctx_expr(c: &mut Ctx, e: &expr::E<()>) {
  match e {
    expr::E::Literal(..) | expr::E::LocalId(..) | expr::E::ClassId(..) => {}
    expr::E::Tuple(_, l) => {
      c.expr_lists.push(l.loc);
      for x in &l.expressions {
        ctx_expr(c, x);
      }
    }
    expr::E::FieldAccess(f) => {
      ctx_targs(c, &f.explicit_type_arguments);
      ctx_expr(c, &f.object);
    }
    expr::E::MethodAccess(f) => {
      ctx_targs(c, &f.explicit_type_arguments);
      ctx_expr(c, &f.object);
    }
    expr::E::Unary(u) => ctx_expr(c, &u.argument),
    expr::E::Call(call) => {
      c.expr_lists.push(call.arguments.loc);
      ctx_expr(c, &call.callee);
      for x in &call.arguments.expressions {
        ctx_expr(c, x);
      }
    }
    expr::E::Binary(b) => {
      ctx_expr(c, &b.e1);
      ctx_expr(c, &b.e2);
    }
    expr::E::IfElse(i) => ctx_if(c, i),
    expr::E::Match(m) => {
      ctx_expr(c, &m.matched);
      for case in &m.cases {
        ctx_expr(c, &case.body);
      }
    }
    expr::E::Lambda(l) => {
      for p in &l.parameters.parameters {
        if let Some(a) = &p.annotation {
          ctx_annot(c, a);
        }
      }
      ctx_expr(c, &l.body);
    }
    expr::E::Block(b) => ctx_block(c, b),
  }
}

fn ctx_tparams(c: &mut Ctx, t: &Option<annotation::TypeParameters>) {
  if let Some(t) = t {
    for p in &t.parameters {
      if let Some(b) = &p.bound {
        c.annots.push(b.location);
        ctx_id_annot_args(c, b);
      }
    }
  }
}

fn ctx_member(c: &mut Ctx, m: &source::ClassMemberDeclaration) {
  ctx_tparams(c, &m.type_parameters);
  for p in m.parameters.parameters.iter() {
    ctx_annot(c, &p.annotation);
  }
  ctx_annot(c, &m.return_type);
}

fn ctx_supers(c: &mut Ctx, n: &Option<source::ExtendsOrImplementsNodes>) {
  if let Some(n) = n {
    for i in &n.nodes {
      c.annots.push(i.location);
      ctx_id_annot_args(c, i);
    }
  }
}

fn ctx_module(m: &Module<()>) -> Ctx {
  let mut c = Ctx::default();
  for t in &m.toplevels {
    match t {
      Toplevel::Interface(i) => {
        ctx_tparams(&mut c, &i.type_parameters);
        ctx_supers(&mut c, &i.extends_or_implements_nodes);
        for m in &i.members.members {
          ctx_member(&mut c, m);
        }
      }
      Toplevel::Class(cl) => {
        ctx_tparams(&mut c, &cl.type_parameters);
        ctx_supers(&mut c, &cl.extends_or_implements_nodes);
        match &cl.type_definition {
          None => {}
          Some(TypeDefinition::Struct { fields, .. }) => {
            for f in fields {
              ctx_annot(&mut c, &f.annotation);
            }
          }
          Some(TypeDefinition::Enum { variants, .. }) => {
            for v in variants {
              if let Some(l) = &v.associated_data_types {
                for a in &l.annotations {
                  ctx_annot(&mut c, a);
                }
              }
            }
          }
        }
        for m in &cl.members.members {
          ctx_member(&mut c, &m.decl);
          ctx_expr(&mut c, &m.body);
        }
      }
    }
  }
  c
}

/// (offsets where an expression list `(` opens, offsets where a type annotation starts) of `text`
fn context_offsets(text: &str, name: &str) -> (Vec<usize>, Vec<usize>) {
  catch_unwind(AssertUnwindSafe(|| {
    let mut heap = Heap::new();
    let mut es = ErrorSet::new();
    let mr = mod_ref(&mut heap, name);
    let m = samlang_parser::parse_source_module_from_text(text, mr, &mut heap, &mut es);
    let ls = line_starts(text);
    let off = |p: samlang_ast::Position| ls.get(p.0 as usize).copied().unwrap_or(text.len()) + p.1 as usize;
    let c = ctx_module(&m);
    (c.expr_lists.iter().map(|l| off(l.start)).collect(), c.annots.iter().map(|l| off(l.start)).collect())
  }))
  .unwrap_or_default()
}

fn format_once(text: &str, name: &str, width: usize) -> Result<(usize, String, Vec<Value>, Value, Value), String> {
  // -> (syntax errors, formatted text, comments referenced from the AST's comment store, import comment texts)
  catch_unwind(AssertUnwindSafe(|| {
    let mut heap = Heap::new();
    let mut es = ErrorSet::new();
    let mr = mod_ref(&mut heap, name);
    let m = samlang_parser::parse_source_module_from_text(text, mr, &mut heap, &mut es);
    let mut store = Vec::new();
    for node in m.comment_store.all_comments() {
      for c in node.iter() {
        store.push(json!([kind_name(c.kind), c.text.as_str(&heap)]));
      }
    }
    let mut import_comments = Vec::new();
    for i in &m.imports {
      for c in m.comment_store.get(i.associated_comments).iter() {
        import_comments.push(json!([kind_name(c.kind), c.text.as_str(&heap)]));
      }
    }
    let n = es.errors().len();
    let out = if n == 0 { samlang_printer::pretty_print_source_module(&heap, width, &m) } else { String::new() };
    (n, out, store, json!(import_comments), dump_module(&heap, &m))
  }))
  .map_err(panic_msg)
}

type Tok = (String, String, usize, usize);

/// the tokens around offset `off` and the syntactic context there (see checks/c09.py)
fn site_ctx(toks: &[Tok], off: usize, expr_list_opens: &[usize], annot_starts: &[usize]) -> serde_json::Map<String, Value> {
  let prev = toks.iter().rev().find(|t| t.3 <= off).map(|t| json!([t.0, t.1])).unwrap_or(Value::Null);
  let next = toks.iter().find(|t| t.2 >= off).map(|t| json!([t.0, t.1])).unwrap_or(Value::Null);
  let mut r = serde_json::Map::new();
  r.insert("prev".into(), prev);
  r.insert("next".into(), next);
  // innermost bracket that is open at the site, and whether it opens an expression list (call arguments, tuple)
  let mut stack: Vec<&Tok> = Vec::new();
  for t in toks.iter().filter(|t| t.3 <= off) {
    if t.0 == "operator" {
      match t.1.as_str() {
        "(" | "{" | "[" => stack.push(t),
        ")" | "}" | "]" => {
          stack.pop();
        }
        _ => {}
      }
    }
  }
  let encl = stack.last();
  r.insert("encl_open".into(), encl.map(|t| json!(t.1)).unwrap_or(Value::Null));
  // the token before that bracket (an expression end means the bracket opens call arguments)
  let encl_prev = encl.and_then(|e| toks.iter().rev().find(|t| t.3 <= e.2)).map(|t| json!([t.0, t.1])).unwrap_or(Value::Null);
  r.insert("encl_prev".into(), encl_prev);
  r.insert("encl_expr_list".into(), json!(encl.map(|t| expr_list_opens.contains(&t.2)).unwrap_or(false)));
  let next_start = toks.iter().find(|t| t.2 >= off).map(|t| t.2);
  r.insert("next_is_type".into(), json!(next_start.map(|o| annot_starts.contains(&o)).unwrap_or(false)));
  r
}

/// every comment of `text` with the site it sits at
fn run_comment_sites(job: &Value) -> Value {
  let text = job["text"].as_str().unwrap();
  let name = job["name"].as_str().unwrap_or("Test");
  let all = tokens_with_offsets(text);
  let toks: Vec<Tok> = all.iter().filter(|t| !t.0.ends_with("comment")).cloned().collect();
  let (expr_list_opens, annot_starts) = context_offsets(text, name);
  let mut out = Vec::new();
  for t in all.iter().filter(|t| t.0.ends_with("comment")) {
    let mut r = site_ctx(&toks, t.2, &expr_list_opens, &annot_starts);
    r.insert("kind".into(), json!(t.0));
    r.insert("text".into(), json!(t.1));
    out.push(Value::Object(r));
  }
  json!({"id": job["id"], "comments": out})
}

fn run_inject(job: &Value) -> Value {
  let text = job["text"].as_str().unwrap();
  let name = job["name"].as_str().unwrap_or("Test");
  let width = job["width"].as_u64().unwrap_or(100) as usize;
  let toks: Vec<(String, String, usize, usize)> =
    tokens_with_offsets(text).into_iter().filter(|t| !t.0.ends_with("comment")).collect();
  let base_comments = comments_of(text);
  let (expr_list_opens, annot_starts) = context_offsets(text, name);
  let mut results = Vec::new();
  for site in job["sites"].as_array().unwrap() {
    let off = site[0].as_u64().unwrap() as usize;
    let kind = site[1].as_str().unwrap();
    let marker = site[2].as_str().unwrap();
    let piece = match kind {
      "line" => format!(" // {marker}\n"),
      "block" => format!(" /* {marker} */ "),
      _ => format!(" /** {marker} */ "),
    };
    let injected = format!("{}{}{}", &text[..off], piece, &text[off..]);
    let mut r = site_ctx(&toks, off, &expr_list_opens, &annot_starts);
    r.insert("site".into(), site.clone());
    match format_once(&injected, name, width) {
      Err(msg) => {
        r.insert("panic".into(), json!(msg));
      }
      Ok((n, out, store, import_comments, dump0)) => {
        if n > 0 {
          r.insert("status".into(), json!("syntax"));
        } else {
          let in_comments = comments_of(&injected);
          let out_comments = comments_of(&out);
          let is_marker = |c: &Value| c[1].as_str() == Some(marker);
          let present = out_comments.iter().any(is_marker);
          let in_store = store.iter().any(is_marker);
          let on_import = import_comments.as_array().unwrap().iter().any(is_marker);
          // relative order: the output sequence equals the input sequence (comments on import lines set aside)
          let imp: Vec<&Value> = import_comments.as_array().unwrap().iter().collect();
          let strip = |v: &Vec<Value>| v.iter().filter(|c| !imp.contains(c)).cloned().collect::<Vec<_>>();
          let same_seq = strip(&in_comments) == strip(&out_comments);
          let mut a: Vec<String> = in_comments.iter().map(|c| c.to_string()).collect();
          let mut b: Vec<String> = out_comments.iter().map(|c| c.to_string()).collect();
          a.sort();
          b.sort();
          r.insert("status".into(), json!("ok"));
          r.insert("present".into(), json!(present));
          // where the comment sits in the output: the tokens around it
          let out_toks = tokens_with_offsets(&out);
          if let Some(i) = out_toks.iter().position(|t| t.0.ends_with("comment") && t.1 == marker) {
            let p = out_toks[..i].iter().rev().find(|t| !t.0.ends_with("comment")).map(|t| json!([t.0, t.1])).unwrap_or(Value::Null);
            let n = out_toks[i + 1..].iter().find(|t| !t.0.ends_with("comment")).map(|t| json!([t.0, t.1])).unwrap_or(Value::Null);
            r.insert("out_prev".into(), p);
            r.insert("out_next".into(), n);
          }
          r.insert("in_store".into(), json!(in_store));
          r.insert("on_import".into(), json!(on_import));
          r.insert("same_multiset".into(), json!(a == b));
          r.insert("same_sequence".into(), json!(same_seq));
          r.insert("others_lost".into(), json!(base_comments.iter().filter(|c| !out_comments.contains(c)).count()));
          match format_once(&out, name, width) {
            Ok((n2, out2, _, _, dump1)) => {
              r.insert("reparse_errors".into(), json!(n2));
              r.insert("same_tree".into(), json!(dump0 == dump1));
              r.insert("idempotent".into(), json!(n2 == 0 && out2 == out));
            }
            Err(msg) => {
              r.insert("panic2".into(), json!(msg));
            }
          }
          if job["return_text"].as_bool().unwrap_or(false) {
            r.insert("input".into(), json!(injected));
            r.insert("output".into(), json!(out));
          }
        }
      }
    }
    results.push(Value::Object(r));
  }
  json!({"id": job["id"], "results": results})
}

// ------------------------------------------------------------------------------------------------

fn unused(_: PStr) {}

pub fn main(args: &[String]) {
  let _ = unused;
  let mode = args.first().map(|s| s.as_str()).unwrap_or("");
  if mode == "prec-table" {
    match catch_unwind(prec_table) {
      Ok(v) => println!("{v}"),
      Err(e) => println!("{}", json!({"panic": panic_msg(e)})),
    }
    return;
  }
  let stdin = std::io::stdin();
  for line in stdin.lock().lines() {
    let line = line.unwrap();
    if line.trim().is_empty() {
      continue;
    }
    let job: Value = serde_json::from_str(&line).unwrap();
    let out = match mode {
      "doc" => run_doc(&job),
      "expr" => run_expr(&job),
      "parse-expr" => {
        let mut v = parse_wrapped_tparams(job["text"].as_str().unwrap(), job["tparams"].as_str().unwrap_or(""));
        v["id"] = job["id"].clone();
        if job["tokens"].as_bool().unwrap_or(false) {
          let (toks, le) = lex_tokens(job["text"].as_str().unwrap());
          v["tokens"] = json!(toks.iter().map(|(k, s)| json!([k, s])).collect::<Vec<_>>());
          v["lex_errors"] = json!(le);
        }
        v
      }
      "lit" => run_lit(&job),
      "module" => run_module(&job),
      "module-raw" => run_module_raw(&job),
      "tokens" => run_tokens(&job),
      "inject" => run_inject(&job),
      "comment-sites" => run_comment_sites(&job),
      other => {
        eprintln!("unknown fmt-run mode {other}");
        std::process::exit(2);
      }
    };
    println!("{out}");
  }
}
