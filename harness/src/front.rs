//! Generic front-end / compile driver.  Reads one JSON job per line on stdin:
//!   {"id": any, "sources": {"Mod.Name": "text", ...}, "entries": ["Mod.Name"], "compile": bool,
//!    "with_std": bool (default true), "emit": bool (return ts/wasm as files under "out_dir")}
//! and prints one JSON result per line:
//!   {"id":..., "errors":[{"module","loc":[sl,sc,el,ec],"kind","msg"}], "text": rendered diagnostics,
//!    "compile": "ok" | "rejected" | "panic: ..." | "skipped"}
use samlang_errors::ErrorSet;
use samlang_heap::{Heap, ModuleReference};
use serde_json::{Value, json};
use std::collections::HashMap;
use std::io::BufRead;
use std::panic::{AssertUnwindSafe, catch_unwind};

pub fn mod_ref(heap: &mut Heap, name: &str) -> ModuleReference {
  heap.alloc_module_reference_from_string_vec(name.split('.').map(|s| s.to_string()).collect())
}

pub fn panic_msg(e: Box<dyn std::any::Any + Send>) -> String {
  if let Some(s) = e.downcast_ref::<&str>() {
    s.to_string()
  } else if let Some(s) = e.downcast_ref::<String>() {
    s.clone()
  } else {
    "<non-string panic>".to_string()
  }
}

pub fn error_json(heap: &Heap, sources: &HashMap<ModuleReference, String>, es: &ErrorSet) -> Vec<Value> {
  es.errors()
    .iter()
    .map(|e| {
      let d = format!("{:?}", e.detail);
      let kind: String = d.chars().take_while(|c| c.is_alphanumeric()).collect();
      let ide = e.to_ide_format(heap, sources);
      json!({
        "module": e.location.module_reference.pretty_print(heap),
        "loc": [e.location.start.0, e.location.start.1, e.location.end.0, e.location.end.1],
        "kind": kind,
        "msg": ide.ide_error,
      })
    })
    .collect()
}

pub fn load_sources(heap: &mut Heap, job: &Value) -> HashMap<ModuleReference, String> {
  let mut sources: HashMap<ModuleReference, String> = HashMap::new();
  if job["with_std"].as_bool().unwrap_or(true) {
    for (k, v) in samlang_parser::builtin_std_raw_sources(heap) {
      sources.insert(k, v);
    }
  }
  // the order in which the driver enumerates modules decides the ids of their module references
  if let Some(order) = job["alloc_order"].as_array() {
    for name in order {
      mod_ref(heap, name.as_str().unwrap());
    }
  }
  for (name, text) in job["sources"].as_object().unwrap() {
    let m = mod_ref(heap, name);
    sources.insert(m, text.as_str().unwrap().to_string());
  }
  sources
}

pub fn run_job(job: &Value) -> Value {
  let mut heap = Heap::new();
  let sources = load_sources(&mut heap, job);
  // front end
  let mut format_ms = 0u64;
  let front = catch_unwind(AssertUnwindSafe(|| {
    let mut error_set = ErrorSet::new();
    let mut parsed = HashMap::new();
    // as samlang_compiler::compile_sources does since b2cae97: in the order of the module references
    let mut ms: Vec<ModuleReference> = sources.keys().copied().collect();
    ms.sort();
    for m in &ms {
      parsed.insert(*m, samlang_parser::parse_source_module_from_text(&sources[m], *m, &mut heap, &mut error_set));
    }
    if job["format"].as_bool().unwrap_or(false) {
      let t0 = std::time::Instant::now();
      for (_, module) in parsed.iter() {
        let _ = samlang_printer::pretty_print_source_module(&heap, 100, module);
      }
      format_ms = t0.elapsed().as_millis() as u64;
    }
    let _ = samlang_checker::type_check_sources(&parsed, &mut error_set);
    let text = error_set.pretty_print_error_messages(&heap, &sources);
    (error_json(&heap, &sources, &error_set), text)
  }));
  let (errors, text, front_panic) = match front {
    Ok((e, t)) => (e, t, Value::Null),
    Err(e) => (vec![], String::new(), json!(panic_msg(e))),
  };
  let mut compile = json!("skipped");
  let mut compile_text = String::new();
  let mut files = json!({});
  if job["compile"].as_bool().unwrap_or(false) {
    let entries: Vec<ModuleReference> =
      job["entries"].as_array().unwrap().iter().map(|n| mod_ref(&mut heap, n.as_str().unwrap())).collect();
    let r = catch_unwind(AssertUnwindSafe(|| {
      samlang_compiler::compile_sources(&mut heap, sources.clone(), entries, false)
    }));
    compile = match r {
      Ok(Ok(res)) => {
        if let Some(dir) = job["out_dir"].as_str() {
          std::fs::create_dir_all(dir).unwrap();
          for (name, text) in &res.text_code_results {
            std::fs::write(format!("{dir}/{name}"), text).unwrap();
          }
          std::fs::write(format!("{dir}/__all__.wasm"), &res.wasm_file).unwrap();
          files = json!(res.text_code_results.keys().collect::<Vec<_>>());
        }
        json!("ok")
      }
      Ok(Err(t)) => {
        // the diagnostics as the real driver renders them (its own parse loop)
        compile_text = t;
        json!("rejected")
      }
      Err(e) => json!(format!("panic: {}", panic_msg(e))),
    };
  }
  let want_text = job["want_text"].as_bool().unwrap_or(false);
  let text = if want_text { text } else { String::new() };
  let compile_text = if want_text { compile_text } else { String::new() };
  json!({"id": job["id"], "errors": errors, "text": text, "compile_text": compile_text, "front_panic": front_panic, "compile": compile, "files": files, "format_ms": format_ms})
}

pub fn main(_args: &[String]) {
  let stdin = std::io::stdin();
  for line in stdin.lock().lines() {
    let line = line.unwrap();
    if line.trim().is_empty() {
      continue;
    }
    let job: Value = serde_json::from_str(&line).unwrap();
    println!("{}", run_job(&job));
  }
}
