//! C17: run operation histories on samlang_heap::Heap and record what is observable.
//! usage: vh heap-run gen <seed> <count> <maxlen> | vh heap-run replay <file.json>
//! Output: one JSON object per history on stdout.
use crate::rng::Rng;
use samlang_heap::{Heap, ModuleReference, PStr};
use serde_json::{Value, json};
use std::panic::{AssertUnwindSafe, catch_unwind};

const POOL: &[&str] = &[
  // long (> 15 bytes): live in the table
  "aaaaaaaaaaaaaaaaaaaa",
  "bbbbbbbbbbbbbbbbbbbbbbbb",
  "a_rather_long_identifier",
  "another_quite_long_name_1",
  "another_quite_long_name_2",
  "sixteen_bytes_xx",  // exactly 16
  "seventeen_bytes_x",
  "ÀÀÀÀÀÀÀÀ",          // 8 chars, 16 bytes
  "日本語の識別子です",
  "long long string with spaces",
  "zzzzzzzzzzzzzzzzzzzzzzzzzzzzzzzzzzzzzzzz",
  "_t0_not_a_temp_but_long_enough",
  // short (<= 15 bytes): inline
  "",
  "a",
  "ab",
  "fifteen_bytes_x", // exactly 15
  "ÀÀÀÀÀÀÀ",         // 7 chars, 14 bytes
  "_t1",
  "std",
  "DUMMY",
  // exactly 15 bytes whose last byte is not ASCII (the byte that shares its position with the tag)
  "thirteen_char\u{e9}",
  "abcdefghijklm\u{c0}",
  "twelve_chars\u{65e5}",
  "\u{0}\u{0}\u{0}zzzzzzzzzz\u{e9}",
  // 16 bytes ending in a multi-byte character
  "fourteen_chars\u{e9}",
];

fn gen_ops(rng: &mut Rng, maxlen: usize) -> Vec<Value> {
  let n = 3 + rng.below(maxlen as u64 - 2) as usize;
  let mut ops = Vec::new();
  let mut handles = 0usize; // number of handles the history will have produced
  let mut mods = 3usize;
  let mut table_guess = 0usize;
  let mut pending_unmarked = 0usize;
  for _ in 0..n {
    let r = rng.below(100);
    let s = || -> usize { 0 };
    let _ = s;
    if r < 28 {
      let idx = rng.below(POOL.len() as u64) as usize;
      ops.push(json!({"op":"alloc_string","s":POOL[idx]}));
      handles += 1;
      table_guess += 1;
    } else if r < 36 {
      let idx = rng.below(POOL.len() as u64) as usize;
      ops.push(json!({"op":"alloc_static","s":POOL[idx]}));
      handles += 1;
      table_guess += 1;
    } else if r < 40 {
      ops.push(json!({"op":"alloc_temp"}));
      handles += 1;
      table_guess += 1;
    } else if r < 43 {
      ops.push(json!({"op":"sync_temp","k":rng.below(4), "extra": rng.below(3)}));
      table_guess += 2;
    } else if r < 49 && handles > 0 {
      let k = rng.below(4) as usize;
      let parts: Vec<usize> = (0..k).map(|_| rng.below(handles as u64) as usize).collect();
      ops.push(json!({"op":"modref","parts":parts}));
      mods += 1;
    } else if r < 54 {
      let k = rng.below(3) as usize + 1;
      let parts: Vec<&str> = (0..k).map(|_| POOL[rng.below(POOL.len() as u64) as usize]).collect();
      ops.push(json!({"op":"modref_str","parts":parts}));
      mods += 1;
      table_guess += k;
    } else if r < 59 {
      ops.push(json!({"op":"add_unmarked","m":rng.below(mods as u64)}));
      pending_unmarked += 1;
    } else if r < 69 || (pending_unmarked > 0 && r < 80) {
      ops.push(json!({"op":"pop"}));
      pending_unmarked = pending_unmarked.saturating_sub(1);
    } else if r < 84 && handles > 0 {
      ops.push(json!({"op":"mark","h":rng.below(handles as u64)}));
    } else {
      let t = table_guess.max(1);
      // u64::MAX: a work unit far beyond the table (the cursor arithmetic must not overflow)
      let units = [0, 1, 2, 3, t / 2, t, t + 7, 10000, u64::MAX as usize, u64::MAX as usize];
      ops.push(json!({"op":"sweep","n":units[rng.below(units.len() as u64) as usize]}));
    }
  }
  ops
}

fn handle_json(h: &PStr) -> Value {
  // Debug of PStr is `PStr("abc")` or `PStr(id=3)`
  let d = format!("{h:?}");
  let inner = &d[5..d.len() - 1];
  if let Some(id) = inner.strip_prefix("id=") {
    json!({"id": id.parse::<u64>().unwrap()})
  } else {
    // inline: take the string through as_str (no heap access for inline handles)
    let heap = Heap::new();
    json!({"inline": h.as_str(&heap)})
  }
}

fn modref_num(m: &ModuleReference) -> u64 {
  let d = format!("{m:?}");
  d["ModuleReference(".len()..d.len() - 1].parse().unwrap()
}

fn parse_stat(s: &str) -> (u64, u64) {
  // "Total slots: {}. Total used: {}. Total unused: {}"
  let nums: Vec<u64> = s
    .split(|c: char| !c.is_ascii_digit())
    .filter(|p| !p.is_empty())
    .map(|p| p.parse().unwrap())
    .collect();
  (nums[0], nums[2])
}

pub fn run_history(ops: &[Value]) -> Value {
  let mut heap = Heap::new();
  let mut handles: Vec<PStr> = Vec::new();
  let mut created_from: Vec<String> = Vec::new();
  let mut must_live: Vec<bool> = Vec::new(); // permanent by construction (static / module part)
  let mut mods: Vec<ModuleReference> =
    vec![ModuleReference::ROOT, ModuleReference::DUMMY, ModuleReference::STD_TUPLES];
  let mut snaps = Vec::new();
  let mut resolved_ops = Vec::new();
  let mut monitor: Vec<String> = Vec::new();
  for (step, op) in ops.iter().enumerate() {
    let kind = op["op"].as_str().unwrap();
    let mut resolved = op.clone();
    let res = catch_unwind(AssertUnwindSafe(|| -> Value {
      match kind {
        "alloc_string" => {
          let s = op["s"].as_str().unwrap();
          let h = heap.alloc_string(s.to_string());
          handles.push(h);
          created_from.push(s.to_string());
          must_live.push(false);
          json!({"h": handle_json(&h)})
        }
        "alloc_static" => {
          let s = op["s"].as_str().unwrap();
          let leaked: &'static str = Box::leak(s.to_string().into_boxed_str());
          let h = heap.alloc_str_for_test(leaked);
          handles.push(h);
          created_from.push(s.to_string());
          must_live.push(true);
          json!({"h": handle_json(&h)})
        }
        "alloc_temp" => {
          let h = heap.alloc_temp_str();
          handles.push(h);
          created_from.push(h.as_str(&heap).to_string());
          must_live.push(true);
          json!({"h": handle_json(&h)})
        }
        "sync_temp" => {
          let k = op["k"].as_u64().unwrap();
          let extra = op["extra"].as_u64().unwrap();
          let counter = heap.create_temp_counter();
          let (slots, _) = parse_stat(&heap.stat());
          let mut names = vec![];
          for _ in 0..k {
            names.push(counter.alloc_temp_str().as_str(&heap).to_string());
          }
          // allocations that happen while the counter is out (they take table slots too)
          for j in 0..extra {
            heap.alloc_temp_str();
            let _ = j;
          }
          heap.sync_temp_counter(&counter);
          resolved = json!({"op":"sync_temp","target": slots + k, "extra": extra, "k": k});
          json!({"u": names, "start": slots})
        }
        "modref" => {
          let idxs: Vec<usize> =
            op["parts"].as_array().unwrap().iter().map(|v| v.as_u64().unwrap() as usize).collect();
          let parts: Vec<PStr> = idxs.iter().map(|i| handles[*i]).collect();
          resolved =
            json!({"op":"modref","parts": parts.iter().map(handle_json).collect::<Vec<_>>(), "idx": idxs});
          let m = heap.alloc_module_reference(parts);
          for i in &idxs {
            // a part that was still live when the reference was made is permanent from now on
            if catch_unwind(AssertUnwindSafe(|| handles[*i].as_str(&heap).len())).is_ok() {
              must_live[*i] = true;
            }
          }
          if !mods.contains(&m) {
            mods.push(m);
          }
          json!({"m": modref_num(&m)})
        }
        "modref_str" => {
          let parts: Vec<String> = op["parts"]
            .as_array()
            .unwrap()
            .iter()
            .map(|v| v.as_str().unwrap().to_string())
            .collect();
          let m = heap.alloc_module_reference_from_string_vec(parts);
          if !mods.contains(&m) {
            mods.push(m);
          }
          json!({"m": modref_num(&m)})
        }
        "add_unmarked" => {
          let i = op["m"].as_u64().unwrap() as usize % mods.len();
          resolved = json!({"op":"add_unmarked","m": modref_num(&mods[i])});
          heap.add_unmarked_module_reference(mods[i]);
          json!({"u": null})
        }
        "pop" => {
          let r = heap.pop_unmarked_module_reference();
          resolved = json!({"op":"pop","m": r.map(|m| modref_num(&m))});
          json!({"b": true})
        }
        "mark" => {
          let i = op["h"].as_u64().unwrap() as usize % handles.len().max(1);
          if handles.is_empty() {
            resolved = json!({"op":"mark","hd": {"inline": ""}});
          } else {
            resolved = json!({"op":"mark","hd": handle_json(&handles[i]), "idx": i});
            heap.mark(handles[i]);
          }
          json!({"u": null})
        }
        "sweep" => {
          heap.sweep(op["n"].as_u64().unwrap() as usize);
          json!({"u": null})
        }
        other => panic!("unknown op {other}"),
      }
    }));
    let obs = match res {
      Ok(v) => v,
      Err(_) => json!({"panic": true}),
    };
    resolved_ops.push(resolved);
    // observations after the step
    let mut reads = Vec::new();
    for (i, h) in handles.iter().enumerate() {
      let r = catch_unwind(AssertUnwindSafe(|| h.as_str(&heap).to_string())).ok();
      if let Some(s) = &r {
        if *s != created_from[i] {
          monitor.push(format!("step {step}: handle #{i} created from {:?} now reads {:?}", created_from[i], s));
        }
      } else if must_live[i] {
        monitor.push(format!("step {step}: protected handle #{i} ({:?}) was reclaimed", created_from[i]));
      }
      reads.push(r);
    }
    // injectivity on readable handles
    for i in 0..handles.len() {
      for j in (i + 1)..handles.len() {
        if let (Some(a), Some(b)) = (&reads[i], &reads[j]) {
          let eq_h = handles[i] == handles[j];
          if eq_h != (a == b) {
            monitor.push(format!("step {step}: handles #{i},#{j}: equal={eq_h} but strings {:?} {:?}", a, b));
          }
        }
      }
    }
    // a string just allocated must read back
    if kind == "alloc_string" || kind == "alloc_static" {
      if reads.last().cloned().flatten().as_deref() != op["s"].as_str() {
        monitor.push(format!("step {step}: fresh handle does not read back {:?}", op["s"]));
      }
    }
    let (slots, dead) = parse_stat(&heap.stat());
    let unmarked: Vec<String> = {
      let s = heap.debug_unmarked_strings();
      if s.is_empty() && !heap.debug_unmarked_strings().contains('\n') {
        // ambiguous: no unmarked strings at all, or exactly one empty string (impossible: empty is inline)
        vec![]
      } else {
        s.split('\n').map(|x| x.to_string()).collect()
      }
    };
    snaps.push(json!({"obs": obs, "reads": reads, "slots": slots, "dead": dead, "unmarked": unmarked}));
  }
  json!({"ops": resolved_ops, "raw_ops": ops, "snaps": snaps, "monitor": monitor})
}

pub fn main(args: &[String]) {
  match args[0].as_str() {
    "gen" => {
      let seed: u64 = args[1].parse().unwrap();
      let count: usize = args[2].parse().unwrap();
      let maxlen: usize = args[3].parse().unwrap();
      let mut rng = Rng::new(seed);
      for _ in 0..count {
        let mut r = rng.fork();
        let ops = gen_ops(&mut r, maxlen);
        println!("{}", run_history(&ops));
      }
    }
    "replay" => {
      let text = std::fs::read_to_string(&args[1]).unwrap();
      let v: Value = serde_json::from_str(&text).unwrap();
      let ops = v["raw_ops"].as_array().or(v["input"]["raw_ops"].as_array()).unwrap().clone();
      println!("{}", run_history(&ops));
    }
    _ => panic!("heap-run gen|replay"),
  }
}
