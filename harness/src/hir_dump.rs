//! `vh hir-dump` — layer B of the pattern-lowering slice of C01 (coq/theories/C01pat): prints, for every
//! `match` / `if let` / `let pattern` of the functions in the fragment, the source pattern (from the checked
//! AST) next to the HIR statements that `lower_matching_pattern` (hir_lowering.rs) emitted for it, so that the
//! Gallina `lower_pattern` / `lower_match` can be run on the pattern and compared with the real statements
//! inside coqc (checks/c01_pat.py).  The HIR is the one `compile_sources_with_generics_preserved` produces,
//! reached through the hook `samlang_compiler::verif::compile_sources_to_hir` (no later pass has run).
//!
//! One JSON job per line on stdin, one JSON result per line:
//!   {"id":.., "sources": {"Mod": text, ..}, "with_std": bool, "scan_std": bool}
//! Result: {"id":.., "sites": [SITE..], "functions": n, "total": {"match_arms","iflet","let"},
//!          "outside": {reason: count}}  |  {"id":.., "rejected": true, ..} | {"id":.., "lowering_panic": msg}
//!
//! The fragment (how a site is located in the HIR without a hook into the lowering): the function body is
//! walked together with the statement list the lowering produced for it.  Handled expression forms:
//!   * a literal or a variable: no statements;
//!   * `match x { p_i -> body_i }` on a variable x whose statements are the WHOLE list: the list is
//!     `LateInitDeclaration* ; <pattern statements> ; IfElse {cond, s1 = body, s2 = next arm .., [final]}` — the
//!     declarations are as many as `pattern.bindings()` has keys, the IfElse is the last statement, what lies
//!     between is the pattern's; s2 of the last arm is the one `Process.panic` call;
//!   * `if let p = x {..} else {..}` on a variable, whole list: the same shape, or (condition the literal 1,
//!     recognised on the source pattern: no variant and no or-pattern inside) declarations and pattern
//!     statements followed by nothing because the block is a literal or a variable;
//!   * a block `{ let p1 = x1; ..; let pn = xn; e }` of declarations on variables: the list is cut in front of
//!     every top-level LateInitDeclaration run (pattern statements never contain one at top level), so every
//!     construct after the first must begin with a declaration (a pattern that binds something) or be empty.
//! Everything else is "outside" with a reason; sites inside it are counted in "total" only.
//!
//! Encoding (names are the PStr texts; types erased):
//!   E = ["i", int] | ["v", name] | ["o", text]
//!   S = ["idx", x, E, index] | ["destr", E, tag, [x|null..], [S..], [S..], [[x,E,E]..]]
//!     | ["if", E, [S..], [S..], [[x,E,E]..]] | ["decl", x] | ["asg", x, E] | ["panic", x|null] | ["out", kind]
//!   P = ["wild"] | ["var", name] | ["tuple", [P..]] | ["object", [[field_order, P]..]]
//!     | ["variant", tag_order, [P..]] | ["or", [P..]]
//!   ARM  = {"pattern": P, "bn": [[source name, hir name]..] (order of `bindings()` = order of the declarations),
//!           "stmts": [S..] (the pattern's, without the declarations), "cond": E|null,
//!           "body": {"stmts": [S..], "expr": E}|null, "final": name|null}
//!   SITE = {"function", "kind": "match"|"iflet"|"let", "scrutinee": E, "arms": [ARM..],
//!           "panic": name|null, "result": E|null, "chain": [S..] (match only: the whole statement list as it is)}
use crate::front::{load_sources, panic_msg};
use samlang_ast::{hir, source};
use samlang_checker::type_::Type;
use samlang_heap::{Heap, ModuleReference, PStr};
use serde_json::{Value, json};
use std::collections::{BTreeMap, HashMap};
use std::io::BufRead;
use std::panic::{AssertUnwindSafe, catch_unwind};
use std::sync::Arc;

type Pat = source::pattern::MatchingPattern<Arc<Type>>;
type Expr = source::expr::E<Arc<Type>>;
type Block = source::expr::Block<Arc<Type>>;

struct Cx<'a> {
  heap: &'a Heap,
  sites: Vec<Value>,
  outside: BTreeMap<String, usize>,
  function: String,
}

fn n(heap: &Heap, p: PStr) -> String {
  p.as_str(heap).to_string()
}

fn jexpr(heap: &Heap, e: &hir::Expression) -> Value {
  match e {
    hir::Expression::IntLiteral(i) => json!(["i", i]),
    hir::Expression::Int31Zero => json!(["o", "i31:0"]),
    hir::Expression::StringName(s) => json!(["o", format!("str:{}", s.as_str(heap))]),
    hir::Expression::Variable(v) => json!(["v", n(heap, v.name)]),
  }
}

fn jfas(heap: &Heap, fas: &[(PStr, hir::Type, hir::Expression, hir::Expression)]) -> Value {
  Value::Array(fas.iter().map(|(x, _, e1, e2)| json!([n(heap, *x), jexpr(heap, e1), jexpr(heap, e2)])).collect())
}

fn is_panic_call(heap: &Heap, s: &hir::Statement) -> Option<Option<PStr>> {
  if let hir::Statement::Call { callee: hir::Callee::FunctionName(f), arguments, return_collector, .. } = s {
    if f.name.fn_name == PStr::PANIC
      && f.name.type_name.type_name == PStr::PROCESS_TYPE
      && f.name.type_name.module_reference == Some(ModuleReference::ROOT)
      && arguments.len() == 2
      && matches!(arguments[0], hir::Expression::IntLiteral(0))
    {
      if let hir::Expression::StringName(s) = &arguments[1] {
        let _ = s.as_str(heap);
        return Some(*return_collector);
      }
    }
  }
  None
}

fn jstmts(heap: &Heap, ss: &[hir::Statement]) -> Value {
  Value::Array(ss.iter().map(|s| jstmt(heap, s)).collect())
}

fn jstmt(heap: &Heap, s: &hir::Statement) -> Value {
  use hir::Statement as S;
  match s {
    S::IndexedAccess { name, type_: _, pointer_expression, index } => {
      json!(["idx", n(heap, *name), jexpr(heap, pointer_expression), index])
    }
    S::ConditionalDestructure { test_expr, tag, bindings, s1, s2, final_assignments } => {
      let bs: Vec<Value> =
        bindings.iter().map(|b| b.as_ref().map(|(x, _)| json!(n(heap, *x))).unwrap_or(Value::Null)).collect();
      json!(["destr", jexpr(heap, test_expr), tag, bs, jstmts(heap, s1), jstmts(heap, s2), jfas(heap, final_assignments)])
    }
    S::IfElse { condition, s1, s2, final_assignments } => {
      json!(["if", jexpr(heap, condition), jstmts(heap, s1), jstmts(heap, s2), jfas(heap, final_assignments)])
    }
    S::LateInitDeclaration { name, type_: _ } => json!(["decl", n(heap, *name)]),
    S::LateInitAssignment { name, assigned_expression } => json!(["asg", n(heap, *name), jexpr(heap, assigned_expression)]),
    S::Call { .. } => match is_panic_call(heap, s) {
      Some(c) => json!(["panic", c.map(|c| n(heap, c))]),
      None => json!(["out", "call"]),
    },
    S::Not { .. } => json!(["out", "not"]),
    S::Binary { .. } => json!(["out", "binary"]),
    S::StructInit { .. } => json!(["out", "struct-init"]),
    S::EnumInit { .. } => json!(["out", "enum-init"]),
    S::ClosureInit { .. } => json!(["out", "closure-init"]),
  }
}

fn jpat(heap: &Heap, p: &Pat) -> Value {
  match p {
    Pat::Wildcard { .. } => json!(["wild"]),
    Pat::Id(id, _) => json!(["var", n(heap, id.name)]),
    Pat::Tuple(t) => json!(["tuple", t.elements.iter().map(|e| jpat(heap, &e.pattern)).collect::<Vec<_>>()]),
    Pat::Object { elements, .. } => {
      json!(["object", elements.iter().map(|e| json!([e.field_order, jpat(heap, &e.pattern)])).collect::<Vec<_>>()])
    }
    Pat::Variant(v) => {
      let ps: Vec<Value> =
        v.data_variables.iter().flat_map(|t| t.elements.iter()).map(|e| jpat(heap, &e.pattern)).collect();
      json!(["variant", v.tag_order, ps])
    }
    Pat::Or { patterns, .. } => json!(["or", patterns.iter().map(|q| jpat(heap, q)).collect::<Vec<_>>()]),
  }
}

/// no variant and no or-pattern inside: the lowered condition is the literal 1
fn plain(p: &Pat) -> bool {
  match p {
    Pat::Wildcard { .. } | Pat::Id(_, _) => true,
    Pat::Tuple(t) => t.elements.iter().all(|e| plain(&e.pattern)),
    Pat::Object { elements, .. } => elements.iter().all(|e| plain(&e.pattern)),
    Pat::Variant(_) | Pat::Or { .. } => false,
  }
}

type Vars = HashMap<PStr, String>;

fn simple_expr(heap: &Heap, e: &Expr, vars: &Vars) -> Option<Value> {
  match e {
    Expr::Literal(_, source::Literal::Int(i)) => Some(json!(["i", i])),
    Expr::Literal(_, source::Literal::Bool(b)) => Some(json!(["i", if *b { 1 } else { 0 }])),
    Expr::LocalId(_, id) => {
      if id.name == PStr::THIS {
        Some(json!(["v", "_this"]))
      } else if let Some(h) = vars.get(&id.name) {
        Some(json!(["v", h]))
      } else {
        Some(json!(["v", n(heap, id.name)]))
      }
    }
    _ => None,
  }
}

fn simple_block(b: &Block) -> bool {
  b.statements.is_empty()
    && match b.expression.as_deref() {
      None => true,
      Some(Expr::Literal(_, source::Literal::Int(_) | source::Literal::Bool(_))) | Some(Expr::LocalId(_, _)) => true,
      _ => false,
    }
}

fn binds(p: &Pat) -> usize {
  p.bindings().len()
}

/// does the lowering of e begin with a LateInitDeclaration (Some(true)), produce nothing (Some(false)),
/// or neither / unknown (None)?
fn begins_with_decl(e: &Expr) -> Option<bool> {
  match e {
    Expr::Literal(_, source::Literal::Int(_) | source::Literal::Bool(_)) | Expr::LocalId(_, _) => Some(false),
    Expr::Match(m) => match (m.matched.as_ref(), m.cases.first()) {
      (Expr::LocalId(_, _), Some(c)) if binds(&c.pattern) > 0 => Some(true),
      _ => None,
    },
    Expr::IfElse(ie) => match ie.condition.as_ref() {
      source::expr::IfElseCondition::Guard(p, Expr::LocalId(_, _)) if binds(p) > 0 => Some(true),
      _ => None,
    },
    _ => None,
  }
}

impl Cx<'_> {
  fn out(&mut self, reason: &str) {
    *self.outside.entry(reason.to_string()).or_insert(0) += 1;
  }

  /// declarations + pattern statements of one lowering call; returns (bn, hir names added to vars)
  fn take_decls(&self, p: &Pat, ss: &[hir::Statement]) -> Option<(Vec<(PStr, PStr)>, usize)> {
    let keys: Vec<PStr> = p.bindings().keys().copied().collect();
    if ss.len() < keys.len() {
      return None;
    }
    let mut bn = Vec::new();
    for (i, k) in keys.iter().enumerate() {
      match &ss[i] {
        hir::Statement::LateInitDeclaration { name, .. } => bn.push((*k, *name)),
        _ => return None,
      }
    }
    Some((bn, keys.len()))
  }

  fn arm_json(
    &self,
    p: &Pat,
    bn: &[(PStr, PStr)],
    stmts: &[hir::Statement],
    cond: Option<&hir::Expression>,
    body: Option<(&[hir::Statement], &hir::Expression)>,
    final_: Option<PStr>,
  ) -> Value {
    json!({
      "pattern": jpat(self.heap, p),
      "bn": bn.iter().map(|(s, h)| json!([n(self.heap, *s), n(self.heap, *h)])).collect::<Vec<_>>(),
      "stmts": jstmts(self.heap, stmts),
      "cond": cond.map(|c| jexpr(self.heap, c)),
      "body": body.map(|(ss, e)| json!({"stmts": jstmts(self.heap, ss), "expr": jexpr(self.heap, e)})),
      "final": final_.map(|f| n(self.heap, f)),
    })
  }

  fn extend(&self, vars: &Vars, bn: &[(PStr, PStr)]) -> Vars {
    let mut v = vars.clone();
    for (s, h) in bn {
      v.insert(*s, n(self.heap, *h));
    }
    v
  }

  /// `ss` is exactly the lowering of `e`
  fn walk_exact(&mut self, e: &Expr, ss: &[hir::Statement], vars: &Vars) -> bool {
    match e {
      Expr::Literal(_, source::Literal::Int(_) | source::Literal::Bool(_)) | Expr::LocalId(_, _) => {
        if ss.is_empty() {
          true
        } else {
          self.out("statements after a literal or variable");
          false
        }
      }
      Expr::Match(m) => self.walk_match(m, ss, vars),
      Expr::IfElse(ie) => self.walk_if(ie, ss, vars),
      Expr::Block(b) => self.walk_block(b, ss, vars),
      _ => {
        self.out("expression form outside the fragment");
        false
      }
    }
  }

  fn walk_match(&mut self, m: &source::expr::Match<Arc<Type>>, ss: &[hir::Statement], vars: &Vars) -> bool {
    let Some(scrut) = simple_expr(self.heap, &m.matched, vars).filter(|_| matches!(m.matched.as_ref(), Expr::LocalId(_, _))) else {
      self.out("match: scrutinee is not a variable");
      return false;
    };
    let mut arms = Vec::new();
    let mut cur: &[hir::Statement] = ss;
    let mut bodies: Vec<(&Expr, &[hir::Statement], Vars)> = Vec::new();
    let mut result: Option<Value> = None;
    for (i, case) in m.cases.iter().enumerate() {
      let Some((bn, k)) = self.take_decls(&case.pattern, cur) else {
        self.out("match: declarations not found");
        return false;
      };
      let Some(hir::Statement::IfElse { condition, s1, s2, final_assignments }) = cur.last() else {
        self.out("match: arm does not end in IfElse");
        return false;
      };
      if final_assignments.len() != 1 || cur.len() < k + 1 {
        self.out("match: arm shape");
        return false;
      }
      let (fname, _, e1, _) = &final_assignments[0];
      if i == 0 {
        result = Some(json!(["v", n(self.heap, *fname)]));
      }
      let pstmts = &cur[k..cur.len() - 1];
      arms.push(self.arm_json(&case.pattern, &bn, pstmts, Some(condition), Some((s1, e1)), Some(*fname)));
      bodies.push((&case.body, s1, self.extend(vars, &bn)));
      cur = s2;
    }
    let panic = if cur.len() == 1 { is_panic_call(self.heap, &cur[0]) } else { None };
    let Some(panic) = panic else {
      self.out("match: fall-through is not the panic call");
      return false;
    };
    self.sites.push(json!({
      "function": self.function, "kind": "match", "scrutinee": scrut, "arms": arms,
      "panic": panic.map(|c| n(self.heap, c)), "result": result, "chain": jstmts(self.heap, ss),
    }));
    // nested sites in the bodies (a body outside the fragment does not invalidate this site)
    let mut ok = true;
    for (b, s1, v) in bodies {
      ok &= self.walk_exact(b, s1, &v);
    }
    ok
  }

  fn walk_if(&mut self, ie: &source::expr::IfElse<Arc<Type>>, ss: &[hir::Statement], vars: &Vars) -> bool {
    let source::expr::IfElseCondition::Guard(p, scrutinee) = ie.condition.as_ref() else {
      self.out("if without a pattern");
      return false;
    };
    let Some(scrut) = simple_expr(self.heap, scrutinee, vars).filter(|_| matches!(scrutinee, Expr::LocalId(_, _))) else {
      self.out("if let: scrutinee is not a variable");
      return false;
    };
    let Some((bn, k)) = self.take_decls(p, ss) else {
      self.out("if let: declarations not found");
      return false;
    };
    let inner = self.extend(vars, &bn);
    let constant = if simple_block(&ie.e1) {
      !matches!(ss.last(), Some(hir::Statement::IfElse { final_assignments, .. }) if final_assignments.len() == 1)
    } else if !p.always_matching() {
      false
    } else if plain(p) {
      self.out("if let: constant condition with statements in the block");
      return false;
    } else {
      self.out("if let: always-matching pattern with variant / or inside and statements in the block");
      return false;
    };
    if constant {
      if !plain(p) {
        self.out("if let: no IfElse although the pattern has a variant / or inside");
        return false;
      }
      let arm = self.arm_json(p, &bn, &ss[k..], Some(&hir::ONE), None, None);
      self.sites.push(json!({"function": self.function, "kind": "iflet", "scrutinee": scrut, "arms": [arm],
                              "panic": null, "result": null}));
      return true;
    }
    let Some(hir::Statement::IfElse { condition, s1, s2, final_assignments }) = ss.last() else {
      self.out("if let: does not end in IfElse");
      return false;
    };
    if final_assignments.len() != 1 || ss.len() < k + 1 {
      self.out("if let: shape");
      return false;
    }
    let arm = self.arm_json(p, &bn, &ss[k..ss.len() - 1], Some(condition), None, None);
    self.sites.push(json!({"function": self.function, "kind": "iflet", "scrutinee": scrut, "arms": [arm],
                            "panic": null, "result": null}));
    let a = self.walk_block(&ie.e1, s1, &inner);
    let b = match ie.e2.as_ref() {
      source::expr::IfElseOrBlock::IfElse(e) => self.walk_if(e, s2, vars),
      source::expr::IfElseOrBlock::Block(b) => self.walk_block(b, s2, vars),
    };
    a && b
  }

  fn walk_block(&mut self, b: &Block, ss: &[hir::Statement], vars: &Vars) -> bool {
    let mut vars = vars.clone();
    let mut pos = 0usize;
    let nst = b.statements.len();
    for (i, st) in b.statements.iter().enumerate() {
      let source::expr::Statement::Declaration(d) = st else {
        self.out("block: expression statement");
        return false;
      };
      let Some(scrut) = simple_expr(self.heap, &d.assigned_expression, &vars) else {
        self.out("let: assigned expression is not a variable or literal");
        return false;
      };
      let Some((bn, k)) = self.take_decls(&d.pattern, &ss[pos..]) else {
        self.out("let: declarations not found");
        return false;
      };
      // what comes next must begin with a declaration or be empty
      let next = if i + 1 < nst {
        match &b.statements[i + 1] {
          // (the statements of its assigned expression would come in front of its declarations)
          source::expr::Statement::Declaration(d2)
            if binds(&d2.pattern) > 0 && simple_expr(self.heap, &d2.assigned_expression, &vars).is_some() =>
          {
            Some(true)
          }
          _ => None,
        }
      } else {
        match b.expression.as_deref() {
          None => Some(false),
          Some(e) => begins_with_decl(e),
        }
      };
      let start = pos + k;
      let end = match next {
        None => {
          self.out("let: cannot delimit the pattern statements (next construct does not begin with a declaration)");
          return false;
        }
        Some(false) => ss.len(),
        Some(true) => {
          let mut j = start;
          while j < ss.len() && !matches!(ss[j], hir::Statement::LateInitDeclaration { .. }) {
            j += 1;
          }
          j
        }
      };
      let arm = self.arm_json(&d.pattern, &bn, &ss[start..end], None, None, None);
      self.sites.push(json!({"function": self.function, "kind": "let", "scrutinee": scrut, "arms": [arm],
                              "panic": null, "result": null}));
      vars = self.extend(&vars, &bn);
      pos = end;
    }
    match b.expression.as_deref() {
      None => {
        if pos == ss.len() {
          true
        } else {
          self.out("block: statements left over");
          false
        }
      }
      Some(e) => self.walk_exact(e, &ss[pos..], &vars),
    }
  }
}

// ---------------------------------------------------------------- all sites of the source (for the coverage figure)
fn count_expr(e: &Expr, c: &mut [usize; 3]) {
  match e {
    Expr::Literal(..) | Expr::LocalId(..) | Expr::ClassId(..) => {}
    Expr::Tuple(_, es) => es.expressions.iter().for_each(|x| count_expr(x, c)),
    Expr::FieldAccess(f) => count_expr(&f.object, c),
    Expr::MethodAccess(f) => count_expr(&f.object, c),
    Expr::Unary(u) => count_expr(&u.argument, c),
    Expr::Call(call) => {
      count_expr(&call.callee, c);
      call.arguments.expressions.iter().for_each(|x| count_expr(x, c));
    }
    Expr::Binary(b) => {
      count_expr(&b.e1, c);
      count_expr(&b.e2, c);
    }
    Expr::IfElse(ie) => count_if(ie, c),
    Expr::Match(m) => {
      count_expr(&m.matched, c);
      for case in &m.cases {
        c[0] += 1;
        count_expr(&case.body, c);
      }
    }
    Expr::Lambda(l) => count_expr(&l.body, c),
    Expr::Block(b) => count_block(b, c),
  }
}

fn count_if(ie: &source::expr::IfElse<Arc<Type>>, c: &mut [usize; 3]) {
  match ie.condition.as_ref() {
    source::expr::IfElseCondition::Expression(e) => count_expr(e, c),
    source::expr::IfElseCondition::Guard(_, e) => {
      c[1] += 1;
      count_expr(e, c);
    }
  }
  count_block(&ie.e1, c);
  match ie.e2.as_ref() {
    source::expr::IfElseOrBlock::IfElse(e) => count_if(e, c),
    source::expr::IfElseOrBlock::Block(b) => count_block(b, c),
  }
}

fn count_block(b: &Block, c: &mut [usize; 3]) {
  for st in &b.statements {
    match st {
      source::expr::Statement::Declaration(d) => {
        c[2] += 1;
        count_expr(&d.assigned_expression, c);
      }
      source::expr::Statement::Expression(e) => count_expr(e, c),
    }
  }
  if let Some(e) = &b.expression {
    count_expr(e, c);
  }
}

fn dump(job: &Value) -> Value {
  let id = job["id"].clone();
  let mut heap = Heap::new();
  let texts = load_sources(&mut heap, job);
  let own: Vec<ModuleReference> = job["sources"]
    .as_object()
    .map(|o| o.keys().map(|k| crate::front::mod_ref(&mut heap, k)).collect())
    .unwrap_or_default();
  let scan_std = job["scan_std"].as_bool().unwrap_or(false);
  let lowered = catch_unwind(AssertUnwindSafe(|| {
    let mut error_set = samlang_errors::ErrorSet::new();
    let mut parsed = HashMap::new();
    for (m, text) in &texts {
      parsed.insert(*m, samlang_parser::parse_source_module_from_text(text, *m, &mut heap, &mut error_set));
    }
    let checked = samlang_checker::type_check_sources(&parsed, &mut error_set).0;
    if error_set.has_errors() {
      let kinds: Vec<String> = error_set
        .errors()
        .iter()
        .map(|e| format!("{:?}", e.detail).chars().take_while(|c| c.is_alphanumeric()).collect())
        .collect();
      return Err(kinds);
    }
    let hir = samlang_compiler::verif::compile_sources_to_hir(&mut heap, &checked);
    Ok((checked, hir))
  }));
  let (checked, hir_sources) = match lowered {
    Ok(Ok(x)) => x,
    Ok(Err(kinds)) => return json!({"id": id, "rejected": true, "error_kinds": kinds}),
    Err(p) => return json!({"id": id, "lowering_panic": panic_msg(p)}),
  };
  let mut by_name: BTreeMap<hir::FunctionName, &hir::Function> = BTreeMap::new();
  for f in &hir_sources.functions {
    by_name.entry(f.name).or_insert(f);
  }
  let mut cx = Cx { heap: &heap, sites: Vec::new(), outside: BTreeMap::new(), function: String::new() };
  let mut total = [0usize; 3];
  let mut functions = 0usize;
  let mut mods: Vec<&ModuleReference> = checked.keys().filter(|m| scan_std || own.contains(m)).collect();
  mods.sort();
  for m in mods {
    let module = &checked[m];
    for toplevel in &module.toplevels {
      let source::Toplevel::Class(c) = toplevel else { continue };
      for member in &c.members.members {
        functions += 1;
        count_expr(&member.body, &mut total);
        let name = hir::FunctionName {
          type_name: hir::TypeName { module_reference: Some(*m), type_name: c.name.name },
          fn_name: member.decl.name.name,
        };
        let Some(f) = by_name.get(&name) else {
          cx.out("function not found in the HIR");
          continue;
        };
        cx.function = format!("{}.{}.{}", m.pretty_print(&heap), c.name.name.as_str(&heap), member.decl.name.name.as_str(&heap));
        let vars: Vars = HashMap::new();
        let r = catch_unwind(AssertUnwindSafe(|| {
          let mut sub = Cx { heap: cx.heap, sites: Vec::new(), outside: BTreeMap::new(), function: cx.function.clone() };
          sub.walk_exact(&member.body, &f.body, &vars);
          (sub.sites, sub.outside)
        }));
        match r {
          Ok((sites, outside)) => {
            cx.sites.extend(sites);
            for (k, v) in outside {
              *cx.outside.entry(k).or_insert(0) += v;
            }
          }
          Err(p) => cx.out(&format!("harness: {}", panic_msg(p))),
        }
      }
    }
  }
  json!({"id": id, "functions": functions, "sites": cx.sites, "outside": cx.outside,
         "total": {"match_arms": total[0], "iflet": total[1], "let": total[2]}})
}

pub fn main(_args: &[String]) {
  let stdin = std::io::stdin();
  for line in stdin.lock().lines() {
    let Ok(line) = line else { break };
    if line.trim().is_empty() {
      continue;
    }
    let result = match serde_json::from_str::<Value>(&line) {
      Ok(job) => catch_unwind(AssertUnwindSafe(|| dump(&job)))
        .unwrap_or_else(|p| json!({"id": job["id"], "harness_panic": panic_msg(p)})),
      Err(e) => json!({"error": format!("bad job: {e}")}),
    };
    println!("{result}");
  }
}
