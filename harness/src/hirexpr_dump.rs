//! `vh hirexpr-dump` — layer B of the expression-lowering slice of C01 (coq/theories/C01expr): prints, for every
//! class member of the job's own modules, the checked source expression of its body next to the HIR function that
//! `compile_sources_with_generics_preserved` produced for it (hook `samlang_compiler::verif::compile_sources_to_hir`,
//! no later pass has run), so that the Gallina `lower` can be run on the source term and compared with the real
//! statements inside coqc (checks/c01_expr.py).  Nothing is interpreted here: both sides are printed as they are.
//! What the lowering reads of the TYPES is printed with the node that needs it, computed the way the lowering
//! computes it: the HIR function name of a method access / tuple (create_hir_function_name), `void` of a call
//! (is_void_return), the primitive kind of the left operand of a binary operator.
//!
//! One JSON job per line on stdin, one JSON result per line:
//!   {"id":.., "sources": {"Mod": text, ..}, "with_std": bool, "scan_std": bool}
//! Result: {"id":.., "functions": [FN..], "constructors": [fname..], "concat": fname, "synthetic": n}
//!         | {"id":.., "rejected": true, ..} | {"id":.., "lowering_panic": msg}
//!   FN = {"name": fname, "params": [x..] (the HIR parameters, `_this` first), "src": X, "stmts": [S..], "ret": E}
//!        + "method": bool, "class": text, "pk": [K..] kinds of the source parameters, "rk": K kind of the result
//!   K = "int"|"bool"|"unit"|"str"|"fn"|"other"|["class", text];  "structs": {class text: [K..] fields | null (generic)};
//!   "enums": {class text: [[K..] payload per variant ..] | null (generic)}
//!   "synthetic_functions": {fname: {"params", "stmts", "ret"}} the functions made for lambdas (`_GenFn.<k>`)
//!   "constructors": the HIR functions whose body is the one StructInit of their own parameters (lower_constructors)
//!   fname = "M:<module>.<class>.<fn>" | "G:<type parameter>.<fn>"
//! Source expressions:
//!   X = ["int", i] | ["bool", b] | ["str", text] | ["var", x] | ["class", text]
//!     | ["tuple", fname of init, [X..]] | ["field", X, field_order] | ["method", X, fname]
//!     | ["un", "!"|"-", X] | ["call", X, [X..], void] | ["bin", op, X, X, kind of e1: "int"|"bool"|"unit"|"str"|"other"]
//!     | ["if", ["cond", X] | ["guard", P, [key..], X], BLOCK, BLOCK | IF] | ["match", X, [[P, [key..], X]..]]
//!     | ["lambda", [param..], [captured key.. in the iteration order of the map], X]
//!     | ["block", [["let", P, [key..], X] | ["exp", X] ..], X|null]
//!   P = ["wild"] | ["var", x] | ["tuple", [P..]] | ["object", [[field_order, P]..]] | ["variant", tag_order, [P..]] | ["or", [P..]]
//!   [key..] = the keys of `pattern.bindings()` in the order the lowering iterates them
//! HIR:
//!   E = ["i", int] | ["i31"] | ["s", text] | ["v", x]
//!   S = ["bin", x, op, E, E] | ["not", x, E] | ["call", ["fn", fname] | ["var", x], [E..], x|null]
//!     | ["if", E, [S..], [S..], [[x,E,E]..]] | ["idx", x, E, index] | ["decl", x] | ["asg", x, E]
//!     | ["struct", x, [E..]] | ["enum", x, tag, [E..]] | ["closure", x, fname, E]
//!     | ["destr", E, tag, [x|null..], [S..], [S..], [[x,E,E]..]]
use crate::front::{load_sources, panic_msg};
use samlang_ast::{hir, source};
use samlang_checker::type_::{PrimitiveTypeKind, Type};
use samlang_heap::{Heap, ModuleReference, PStr};
use serde_json::{Value, json};
use std::collections::{BTreeMap, HashMap};
use std::io::BufRead;
use std::panic::{AssertUnwindSafe, catch_unwind};
use std::sync::Arc;

type Pat = source::pattern::MatchingPattern<Arc<Type>>;
type Expr = source::expr::E<Arc<Type>>;
type Block = source::expr::Block<Arc<Type>>;
type IfElse = source::expr::IfElse<Arc<Type>>;

fn n(heap: &Heap, p: PStr) -> String {
  p.as_str(heap).to_string()
}

fn fname_parts(heap: &Heap, module: Option<ModuleReference>, type_name: PStr, fn_name: PStr) -> String {
  match module {
    Some(m) => format!("M:{}.{}.{}", m.pretty_print(heap), type_name.as_str(heap), fn_name.as_str(heap)),
    None => format!("G:{}.{}", type_name.as_str(heap), fn_name.as_str(heap)),
  }
}

fn hir_fname(heap: &Heap, f: &hir::FunctionName) -> String {
  fname_parts(heap, f.type_name.module_reference, f.type_name.type_name, f.fn_name)
}

/// create_hir_function_name (hir_lowering.rs 241-248)
fn source_fname(heap: &Heap, receiver: &Type, fn_name: PStr) -> String {
  if let Some(t) = receiver.as_nominal() {
    fname_parts(heap, Some(t.module_reference), t.id, fn_name)
  } else if let Some((_, g)) = receiver.as_generic() {
    fname_parts(heap, None, *g, fn_name)
  } else {
    "?:receiver is neither nominal nor generic".to_string()
  }
}

fn kind(t: &Type) -> &'static str {
  match t.as_primitive() {
    Some((_, PrimitiveTypeKind::Int)) => "int",
    Some((_, PrimitiveTypeKind::Bool)) => "bool",
    Some((_, PrimitiveTypeKind::Unit)) => "unit",
    None => match t.as_nominal() {
      Some(nt) if nt.module_reference == ModuleReference::ROOT && nt.id == PStr::STR_TYPE => "str",
      _ => "other",
    },
  }
}

/// the kind of a source type, for the environments / worlds of the sanity evaluation (checks/c01_expr.py)
fn tkind(heap: &Heap, t: &Type) -> Value {
  match t {
    Type::Primitive(_, PrimitiveTypeKind::Int) => json!("int"),
    Type::Primitive(_, PrimitiveTypeKind::Bool) => json!("bool"),
    Type::Primitive(_, PrimitiveTypeKind::Unit) => json!("unit"),
    Type::Nominal(nt) if nt.module_reference == ModuleReference::ROOT && nt.id == PStr::STR_TYPE => json!("str"),
    Type::Nominal(nt) => json!(["class", format!("{}.{}", nt.module_reference.pretty_print(heap), nt.id.as_str(heap))]),
    Type::Fn(_) => json!("fn"),
    _ => json!("other"),
  }
}

fn jpat(heap: &Heap, p: &Pat) -> Value {
  match p {
    Pat::Wildcard { .. } => json!(["wild"]),
    Pat::Id(id, _) => json!(["var", n(heap, id.name)]),
    Pat::Tuple(t) => json!(["tuple", t.elements.iter().map(|e| jpat(heap, &e.pattern)).collect::<Vec<_>>()]),
    Pat::Object { elements, .. } => {
      json!(["object", elements.iter().map(|e| json!([e.field_order, jpat(heap, &e.pattern)])).collect::<Vec<_>>()])
    }
    Pat::Variant(v) => {
      let ps: Vec<Value> =
        v.data_variables.iter().flat_map(|t| t.elements.iter()).map(|e| jpat(heap, &e.pattern)).collect();
      json!(["variant", v.tag_order, ps])
    }
    Pat::Or { patterns, .. } => json!(["or", patterns.iter().map(|q| jpat(heap, q)).collect::<Vec<_>>()]),
  }
}

fn keys(heap: &Heap, p: &Pat) -> Value {
  Value::Array(p.bindings().keys().map(|k| json!(n(heap, *k))).collect())
}

fn jx(heap: &Heap, e: &Expr) -> Value {
  use source::expr::E;
  match e {
    E::Literal(_, source::Literal::Int(i)) => json!(["int", i]),
    E::Literal(_, source::Literal::Bool(b)) => json!(["bool", b]),
    E::Literal(_, source::Literal::String(s)) => json!(["str", n(heap, *s)]),
    E::LocalId(_, id) => {
      if id.name == PStr::THIS {
        json!(["var", n(heap, PStr::UNDERSCORE_THIS)])
      } else {
        json!(["var", n(heap, id.name)])
      }
    }
    E::ClassId(_, m, id) => json!(["class", format!("{}.{}", m.pretty_print(heap), id.name.as_str(heap))]),
    E::Tuple(common, es) => json!([
      "tuple",
      source_fname(heap, &common.type_, PStr::INIT),
      es.expressions.iter().map(|x| jx(heap, x)).collect::<Vec<_>>()
    ]),
    E::FieldAccess(f) => json!(["field", jx(heap, &f.object), f.field_order]),
    E::MethodAccess(m) => {
      json!(["method", jx(heap, &m.object), source_fname(heap, m.object.type_(), m.method_name.name)])
    }
    E::Unary(u) => json!(["un", u.operator.kind_str(), jx(heap, &u.argument)]),
    E::Call(c) => {
      let void = matches!(c.common.type_.as_primitive(), Some((_, PrimitiveTypeKind::Unit)));
      json!(["call", jx(heap, &c.callee), c.arguments.expressions.iter().map(|x| jx(heap, x)).collect::<Vec<_>>(), void])
    }
    E::Binary(b) => json!(["bin", b.operator.kind_str(), jx(heap, &b.e1), jx(heap, &b.e2), kind(b.e1.type_())]),
    E::IfElse(ie) => jif(heap, ie),
    E::Match(m) => json!([
      "match",
      jx(heap, &m.matched),
      m.cases.iter().map(|c| json!([jpat(heap, &c.pattern), keys(heap, &c.pattern), jx(heap, &c.body)])).collect::<Vec<_>>()
    ]),
    E::Lambda(l) => json!([
      "lambda",
      l.parameters.parameters.iter().map(|p| n(heap, p.name.name)).collect::<Vec<_>>(),
      l.captured.keys().map(|k| if *k == PStr::THIS { n(heap, PStr::UNDERSCORE_THIS) } else { n(heap, *k) }).collect::<Vec<_>>(),
      jx(heap, &l.body)
    ]),
    E::Block(b) => jblock(heap, b),
  }
}

fn jif(heap: &Heap, ie: &IfElse) -> Value {
  let cond = match ie.condition.as_ref() {
    source::expr::IfElseCondition::Expression(e) => json!(["cond", jx(heap, e)]),
    source::expr::IfElseCondition::Guard(p, e) => json!(["guard", jpat(heap, p), keys(heap, p), jx(heap, e)]),
  };
  let e2 = match ie.e2.as_ref() {
    source::expr::IfElseOrBlock::IfElse(x) => jif(heap, x),
    source::expr::IfElseOrBlock::Block(b) => jblock(heap, b),
  };
  json!(["if", cond, jblock(heap, &ie.e1), e2])
}

fn jblock(heap: &Heap, b: &Block) -> Value {
  let stmts: Vec<Value> = b
    .statements
    .iter()
    .map(|s| match s {
      source::expr::Statement::Declaration(d) => {
        json!(["let", jpat(heap, &d.pattern), keys(heap, &d.pattern), jx(heap, &d.assigned_expression)])
      }
      source::expr::Statement::Expression(e) => json!(["exp", jx(heap, e)]),
    })
    .collect();
  json!(["block", stmts, b.expression.as_ref().map(|e| jx(heap, e))])
}

fn jexpr(heap: &Heap, e: &hir::Expression) -> Value {
  match e {
    hir::Expression::IntLiteral(i) => json!(["i", i]),
    hir::Expression::Int31Zero => json!(["i31"]),
    hir::Expression::StringName(s) => json!(["s", s.as_str(heap)]),
    hir::Expression::Variable(v) => json!(["v", n(heap, v.name)]),
  }
}

fn jfas(heap: &Heap, fas: &[(PStr, hir::Type, hir::Expression, hir::Expression)]) -> Value {
  Value::Array(fas.iter().map(|(x, _, e1, e2)| json!([n(heap, *x), jexpr(heap, e1), jexpr(heap, e2)])).collect())
}

fn jexprs(heap: &Heap, es: &[hir::Expression]) -> Value {
  Value::Array(es.iter().map(|e| jexpr(heap, e)).collect())
}

fn jstmts(heap: &Heap, ss: &[hir::Statement]) -> Value {
  Value::Array(ss.iter().map(|s| jstmt(heap, s)).collect())
}

fn jstmt(heap: &Heap, s: &hir::Statement) -> Value {
  use hir::Statement as S;
  match s {
    S::Not { name, operand } => json!(["not", n(heap, *name), jexpr(heap, operand)]),
    S::Binary { name, operator, e1, e2 } => {
      json!(["bin", n(heap, *name), operator.as_str(), jexpr(heap, e1), jexpr(heap, e2)])
    }
    S::IndexedAccess { name, type_: _, pointer_expression, index } => {
      json!(["idx", n(heap, *name), jexpr(heap, pointer_expression), index])
    }
    S::Call { callee, arguments, return_type: _, return_collector } => {
      let c = match callee {
        hir::Callee::FunctionName(f) => json!(["fn", hir_fname(heap, &f.name)]),
        hir::Callee::Variable(v) => json!(["var", n(heap, v.name)]),
      };
      json!(["call", c, jexprs(heap, arguments), return_collector.map(|c| n(heap, c))])
    }
    S::ConditionalDestructure { test_expr, tag, bindings, s1, s2, final_assignments } => {
      let bs: Vec<Value> =
        bindings.iter().map(|b| b.as_ref().map(|(x, _)| json!(n(heap, *x))).unwrap_or(Value::Null)).collect();
      json!(["destr", jexpr(heap, test_expr), tag, bs, jstmts(heap, s1), jstmts(heap, s2), jfas(heap, final_assignments)])
    }
    S::IfElse { condition, s1, s2, final_assignments } => {
      json!(["if", jexpr(heap, condition), jstmts(heap, s1), jstmts(heap, s2), jfas(heap, final_assignments)])
    }
    S::LateInitDeclaration { name, type_: _ } => json!(["decl", n(heap, *name)]),
    S::LateInitAssignment { name, assigned_expression } => json!(["asg", n(heap, *name), jexpr(heap, assigned_expression)]),
    S::StructInit { struct_variable_name, type_: _, expression_list } => {
      json!(["struct", n(heap, *struct_variable_name), jexprs(heap, expression_list)])
    }
    S::EnumInit { enum_variable_name, enum_type: _, tag, associated_data_list } => {
      json!(["enum", n(heap, *enum_variable_name), tag, jexprs(heap, associated_data_list)])
    }
    S::ClosureInit { closure_variable_name, closure_type: _, function_name, context } => {
      json!(["closure", n(heap, *closure_variable_name), hir_fname(heap, &function_name.name), jexpr(heap, context)])
    }
  }
}

/// body = [StructInit o [_f0.._fk]] returning o, parameters = _this, _f0.._fk
fn is_struct_constructor(f: &hir::Function) -> bool {
  if f.name.fn_name != PStr::INIT || f.body.len() != 1 || f.parameters.is_empty() {
    return false;
  }
  let hir::Statement::StructInit { struct_variable_name, expression_list, .. } = &f.body[0] else { return false };
  let hir::Expression::Variable(r) = &f.return_value else { return false };
  r.name == *struct_variable_name
    && expression_list.len() + 1 == f.parameters.len()
    && expression_list
      .iter()
      .zip(f.parameters.iter().skip(1))
      .all(|(e, p)| matches!(e, hir::Expression::Variable(v) if v.name == *p))
}

fn dump(job: &Value) -> Value {
  let id = job["id"].clone();
  let mut heap = Heap::new();
  let texts = load_sources(&mut heap, job);
  let own: Vec<ModuleReference> = job["sources"]
    .as_object()
    .map(|o| o.keys().map(|k| crate::front::mod_ref(&mut heap, k)).collect())
    .unwrap_or_default();
  let scan_std = job["scan_std"].as_bool().unwrap_or(false);
  let lowered = catch_unwind(AssertUnwindSafe(|| {
    let mut error_set = samlang_errors::ErrorSet::new();
    let mut parsed = HashMap::new();
    for (m, text) in &texts {
      parsed.insert(*m, samlang_parser::parse_source_module_from_text(text, *m, &mut heap, &mut error_set));
    }
    let checked = samlang_checker::type_check_sources(&parsed, &mut error_set).0;
    if error_set.has_errors() {
      let kinds: Vec<String> = error_set
        .errors()
        .iter()
        .map(|e| format!("{:?}", e.detail).chars().take_while(|c| c.is_alphanumeric()).collect())
        .collect();
      return Err(kinds);
    }
    let hir = samlang_compiler::verif::compile_sources_to_hir(&mut heap, &checked);
    Ok((checked, hir))
  }));
  let (checked, hir_sources) = match lowered {
    Ok(Ok(x)) => x,
    Ok(Err(kinds)) => return json!({"id": id, "rejected": true, "error_kinds": kinds}),
    Err(p) => return json!({"id": id, "lowering_panic": panic_msg(p)}),
  };
  let mut by_name: BTreeMap<hir::FunctionName, &hir::Function> = BTreeMap::new();
  let mut synthetic = 0usize;
  for f in &hir_sources.functions {
    if f.name.type_name.type_name == PStr::UNDERSCORE_GENERATED_FN {
      synthetic += 1;
    }
    by_name.entry(f.name).or_insert(f);
  }
  let constructors: Vec<String> =
    hir_sources.functions.iter().filter(|f| is_struct_constructor(f)).map(|f| hir_fname(&heap, &f.name)).collect();
  let concat = fname_parts(&heap, Some(ModuleReference::ROOT), PStr::STR_TYPE, PStr::CONCAT);
  let mut functions = Vec::new();
  let mut structs = serde_json::Map::new();
  let mut enums = serde_json::Map::new();
  for (m, module) in checked.iter() {
    for toplevel in &module.toplevels {
      let source::Toplevel::Class(c) = toplevel else { continue };
      if let Some(source::TypeDefinition::Enum { variants, .. }) = c.type_definition.as_ref() {
        let generic = c.type_parameters.is_some();
        enums.insert(
          format!("{}.{}", m.pretty_print(&heap), c.name.name.as_str(&heap)),
          if generic {
            Value::Null
          } else {
            Value::Array(
              variants
                .iter()
                .map(|v| {
                  Value::Array(
                    v.associated_data_types
                      .iter()
                      .flat_map(|l| l.annotations.iter())
                      .map(|a| tkind(&heap, &Type::from_annotation(a)))
                      .collect(),
                  )
                })
                .collect(),
            )
          },
        );
      }
      if let Some(source::TypeDefinition::Struct { fields, .. }) = c.type_definition.as_ref() {
        let generic = c.type_parameters.is_some();
        structs.insert(
          format!("{}.{}", m.pretty_print(&heap), c.name.name.as_str(&heap)),
          if generic {
            Value::Null
          } else {
            Value::Array(fields.iter().map(|f| tkind(&heap, &Type::from_annotation(&f.annotation))).collect())
          },
        );
      }
    }
  }
  let mut mods: Vec<&ModuleReference> = checked.keys().filter(|m| scan_std || own.contains(m)).collect();
  mods.sort();
  for m in mods {
    let module = &checked[m];
    for toplevel in &module.toplevels {
      let source::Toplevel::Class(c) = toplevel else { continue };
      for member in &c.members.members {
        let name = hir::FunctionName {
          type_name: hir::TypeName { module_reference: Some(*m), type_name: c.name.name },
          fn_name: member.decl.name.name,
        };
        let Some(f) = by_name.get(&name) else {
          functions.push(json!({"name": hir_fname(&heap, &name), "missing": true}));
          continue;
        };
        let pk: Vec<Value> = member
          .decl
          .parameters
          .parameters
          .iter()
          .map(|p| tkind(&heap, &Type::from_annotation(&p.annotation)))
          .collect();
        functions.push(json!({
          "name": hir_fname(&heap, &name),
          "method": member.decl.is_method,
          "class": format!("{}.{}", m.pretty_print(&heap), c.name.name.as_str(&heap)),
          "pk": pk,
          "rk": tkind(&heap, &Type::from_annotation(&member.decl.return_type)),
          "params": f.parameters.iter().map(|p| n(&heap, *p)).collect::<Vec<_>>(),
          "src": jx(&heap, &member.body),
          "stmts": jstmts(&heap, &f.body),
          "ret": jexpr(&heap, &f.return_value),
        }));
      }
    }
  }
  let mut synthetic_functions = serde_json::Map::new();
  for f in &hir_sources.functions {
    if f.name.type_name.type_name == PStr::UNDERSCORE_GENERATED_FN {
      synthetic_functions.insert(
        hir_fname(&heap, &f.name),
        json!({"params": f.parameters.iter().map(|p| n(&heap, *p)).collect::<Vec<_>>(),
               "stmts": jstmts(&heap, &f.body), "ret": jexpr(&heap, &f.return_value)}),
      );
    }
  }
  json!({"id": id, "functions": functions, "constructors": constructors, "concat": concat, "synthetic": synthetic,
         "synthetic_functions": synthetic_functions,
         "structs": structs, "enums": enums})
}

pub fn main(_args: &[String]) {
  let stdin = std::io::stdin();
  for line in stdin.lock().lines() {
    let Ok(line) = line else { break };
    if line.trim().is_empty() {
      continue;
    }
    let result = match serde_json::from_str::<Value>(&line) {
      Ok(job) => catch_unwind(AssertUnwindSafe(|| dump(&job)))
        .unwrap_or_else(|p| json!({"id": job["id"], "harness_panic": panic_msg(p)})),
      Err(e) => json!({"error": format!("bad job: {e}")}),
    };
    println!("{result}");
  }
}
