//! `vh inl-dump` — layer B of the C02inl check (coq/theories/C02inl): whole MIR programs immediately BEFORE and
//! AFTER the real inlining pass alone (`samlang_optimization::verif::run_inlining` =
//! `inlining::optimize_functions`), and single functions before / after the real scalar-replacement pass
//! (`verif::run_function_pass("sroa", ..)`), so that the Gallina models can be run on `before` and compared
//! with `after` for equality inside coqc.
//!
//! One JSON job per line on stdin, one JSON result per line.
//!
//! ENCODING (names are STRINGS, the check numbers them; t / f / ft are JSON integers)
//!   F = {"name": f, "params": [n..], "atys": [t..], "rty": t, "body": [S..], "ret": E}
//!   E = ["i", int] | ["j", int] (Int31Literal) | ["s", n] (StringName) | ["v", n, t]
//!   C = ["fn", f, [t..], t] | ["var", n, t]
//!   Q = [n, t, E, E]   (IfElseFinalAssignment name,type_,e1,e2 ; GenenalLoopVariable name,type_,initial,loop)
//!   S = ["bin", n, OP, E, E] | ["not", n, E] | ["prim", n, "idx"|"isptr"|"cast", t, index, E]
//!     | ["call", C, [E..], t, n|null] | ["if", E, [S..], [S..], [Q..]] | ["sif", E, bool, [S..]] | ["brk", E]
//!     | ["while", [Q..], [S..], [n, t]|null] | ["decl", n, t] | ["assign", n, E]
//!     | ["struct", n, t, [E..]] | ["closure", n, t, f, ft, E]
//!   t: type number; 0 is always Int32; a TypeNameId N is numbered as Type::Id(N); ft: number of a FunctionType
//!   (same table, key "fn:..."); "ftys" gives {ft: [[t..], t]}.
//!   f: function-name number = RANK of the FunctionName in `FunctionName::cmp` (the order `sort_by_key(|a| a.name)`
//!   of optimize_functions uses) among all function names of the job.
//!
//! (1) {"id":.., "sources": {"Mod": text, ..}, "entry": "Mod", "mode": "pipeline"|"raw", "fuel": N, "run": bool,
//!      "sroa": bool}
//!     mode "raw": one stage, the unoptimised MIR (`compile_sources_to_mir`) goes into the inlining pass.
//!     mode "pipeline": the four iterations of `optimize_sources` with every switch on are re-played with the
//!     hooks (run_function_rounds on every function, run_inlining, run_unused_name_elimination); one stage per
//!     iteration = the program that enters the inlining pass there and the program that leaves it.
//!     -> {"id", "types":[..], "ftys": {..}, "fnames":[..] (by rank), "main": f|null,
//!         "stages": [{"base": first temporary id the pass could allocate, "before":[F..],
//!                     "after":[F..] | "panic": msg, "runs": {"before": O, "after": O}} ..],
//!         "sroa": [{"before": F, "after": F | "panic": msg, "changed": bool} ..]}
//!     "sroa": every function of every stage's `after` (and of the raw program), first through the real "ccp"
//!     pass, then "sroa"; only the cases where sroa changed the function, plus every 4th other one.
//!     | {"id", "rejected": true} | {"id", "lowering_panic": msg}
//! (2) {"id":.., "program": [F..], "pass": "inline"|"sroa"}   replay of model terms on the real passes: names are
//!     used as they are (strings), types 0 -> int, 1 -> i31, t >= 2 -> Id "T<t>", f -> "f%05d" (rank = number),
//!     ft -> `() -> <type ft>`.
//!     -> {"id", "base", "after": [F..] | "panic": msg}   ("sroa": function by function)
use crate::front::{load_sources, mod_ref, panic_msg};
use crate::mirsem::{self, MirEnding, MirOptions, MirOutcome};
use samlang_ast::hir::BinaryOperator as Op;
use samlang_ast::mir::{
  Binary, Callee, Expression, Function, FunctionName, FunctionNameExpression, FunctionType, GenenalLoopVariable,
  INT_31_TYPE, INT_32_TYPE, IfElseFinalAssignment, Sources, Statement, SymbolTable, Type, TypeNameId, VariableName,
};
use samlang_heap::{Heap, ModuleReference, PStr};
use samlang_optimization::verif as hooks;
use serde_json::{Value, json};
use std::collections::{BTreeMap, HashMap};
use std::io::BufRead;
use std::panic::{AssertUnwindSafe, catch_unwind};

const OPS: [(&str, Op); 16] = [
  ("MUL", Op::MUL), ("DIV", Op::DIV), ("MOD", Op::MOD), ("PLUS", Op::PLUS), ("MINUS", Op::MINUS), ("LAND", Op::LAND),
  ("LOR", Op::LOR), ("SHL", Op::SHL), ("SHR", Op::SHR), ("XOR", Op::XOR), ("LT", Op::LT), ("LE", Op::LE),
  ("GT", Op::GT), ("GE", Op::GE), ("EQ", Op::EQ), ("NE", Op::NE),
];

fn op_name(op: Op) -> &'static str {
  OPS.iter().find(|(_, o)| *o == op).map(|(n, _)| *n).unwrap()
}

fn temp_id(s: &str) -> Option<u64> {
  s.strip_prefix("_t").and_then(|r| r.parse::<u64>().ok())
}

/// `Heap::alloc_temp_str` makes "_t<id>" with id = the length of the heap's string table; peeking costs one id.
fn peek_temp(heap: &mut Heap) -> u64 {
  let p = heap.alloc_temp_str();
  temp_id(p.as_str(heap)).unwrap_or(0)
}

// ------------------------------------------------------------------------------------------------
// tables + encoder
// ------------------------------------------------------------------------------------------------

struct Tables {
  types: HashMap<String, usize>,
  type_strs: Vec<String>,
  ftys: BTreeMap<usize, Value>,
  /// function names in the order of first use; ranked at the end
  fnames: HashMap<FunctionName, usize>,
  fname_list: Vec<(FunctionName, String)>,
  /// replay mode: function names are "f<number>", the number is the answer
  replay: bool,
}

impl Tables {
  fn new(replay: bool) -> Tables {
    let mut t = Tables {
      types: HashMap::new(),
      type_strs: Vec::new(),
      ftys: BTreeMap::new(),
      fnames: HashMap::new(),
      fname_list: Vec::new(),
      replay,
    };
    t.types.insert(format!("{:?}", INT_32_TYPE), 0);
    t.type_strs.push("int".to_string());
    t
  }

  /// first-use index -> rank in FunctionName::cmp
  fn ranks(&self) -> Vec<usize> {
    let mut order: Vec<usize> = (0..self.fname_list.len()).collect();
    order.sort_by_key(|i| self.fname_list[*i].0);
    let mut rank = vec![0; order.len()];
    for (r, i) in order.iter().enumerate() {
      rank[*i] = r;
    }
    rank
  }
}

struct Enc<'a> {
  tb: &'a mut Tables,
  heap: &'a Heap,
  table: &'a SymbolTable,
}

impl Enc<'_> {
  fn ty(&mut self, t: &Type) -> usize {
    let key = format!("{t:?}");
    if let Some(n) = self.tb.types.get(&key) {
      return *n;
    }
    let n = self.tb.type_strs.len();
    let (heap, table) = (self.heap, self.table);
    let pretty = catch_unwind(AssertUnwindSafe(|| t.pretty_print(heap, table))).unwrap_or_else(|_| key.clone());
    self.tb.types.insert(key, n);
    self.tb.type_strs.push(pretty);
    n
  }

  fn fty(&mut self, t: &FunctionType) -> usize {
    let key = format!("fn:{t:?}");
    if let Some(n) = self.tb.types.get(&key) {
      return *n;
    }
    let n = self.tb.type_strs.len();
    let (heap, table) = (self.heap, self.table);
    let pretty = catch_unwind(AssertUnwindSafe(|| t.pretty_print(heap, table))).unwrap_or_else(|_| key.clone());
    self.tb.types.insert(key, n);
    self.tb.type_strs.push(pretty);
    let atys: Vec<usize> = t.argument_types.iter().map(|a| self.ty(a)).collect();
    let rty = self.ty(&t.return_type);
    self.tb.ftys.insert(n, json!([atys, rty]));
    n
  }

  /// first-use index (mode 1; replaced by the rank at the end) or the number in "f<number>" (replay)
  fn fname(&mut self, f: &FunctionName) -> usize {
    if let Some(n) = self.tb.fnames.get(f) {
      return *n;
    }
    let (heap, table) = (self.heap, self.table);
    let s = catch_unwind(AssertUnwindSafe(|| f.encoded_for_test(heap, table))).unwrap_or_else(|_| "<fn>".to_string());
    let n = if self.tb.replay {
      let fn_name = f.fn_name.as_str(heap);
      fn_name.strip_prefix('f').and_then(|r| r.parse::<usize>().ok()).unwrap_or(9_000_000 + self.tb.fname_list.len())
    } else {
      self.tb.fname_list.len()
    };
    self.tb.fnames.insert(*f, n);
    self.tb.fname_list.push((*f, s));
    n
  }

  fn name(&mut self, p: PStr) -> Value {
    json!(p.as_str(self.heap))
  }

  fn expr(&mut self, e: &Expression) -> Value {
    match e {
      Expression::Int32Literal(i) => json!(["i", i]),
      Expression::Int31Literal(i) => json!(["j", i]),
      Expression::StringName(n) => json!(["s", self.name(*n)]),
      Expression::Variable(v) => {
        let n = self.name(v.name);
        let t = self.ty(&v.type_);
        json!(["v", n, t])
      }
    }
  }

  fn exprs(&mut self, es: &[Expression]) -> Value {
    Value::Array(es.iter().map(|e| self.expr(e)).collect())
  }

  fn tys(&mut self, ts: &[Type]) -> Value {
    Value::Array(ts.iter().map(|t| json!(self.ty(t))).collect())
  }

  fn callee(&mut self, c: &Callee) -> Value {
    match c {
      Callee::FunctionName(f) => {
        let n = self.fname(&f.name);
        let atys = self.tys(&f.type_.argument_types);
        let rty = self.ty(&f.type_.return_type);
        json!(["fn", n, atys, rty])
      }
      Callee::Variable(v) => {
        let n = self.name(v.name);
        let t = self.ty(&v.type_);
        json!(["var", n, t])
      }
    }
  }

  fn stmts(&mut self, ss: &[Statement]) -> Value {
    Value::Array(ss.iter().map(|s| self.stmt(s)).collect())
  }

  fn stmt(&mut self, s: &Statement) -> Value {
    match s {
      Statement::Binary(Binary { name, operator, e1, e2 }) => {
        let n = self.name(*name);
        let (a, b) = (self.expr(e1), self.expr(e2));
        json!(["bin", n, op_name(*operator), a, b])
      }
      Statement::Not { name, operand } => {
        let n = self.name(*name);
        let e = self.expr(operand);
        json!(["not", n, e])
      }
      Statement::IsPointer { name, pointer_type, operand } => {
        let n = self.name(*name);
        let t = self.ty(&Type::Id(*pointer_type));
        let e = self.expr(operand);
        json!(["prim", n, "isptr", t, 0, e])
      }
      Statement::IndexedAccess { name, type_, pointer_expression, index } => {
        let n = self.name(*name);
        let t = self.ty(type_);
        let e = self.expr(pointer_expression);
        json!(["prim", n, "idx", t, index, e])
      }
      Statement::Cast { name, type_, assigned_expression } => {
        let n = self.name(*name);
        let t = self.ty(type_);
        let e = self.expr(assigned_expression);
        json!(["prim", n, "cast", t, 0, e])
      }
      Statement::Call { callee, arguments, return_type, return_collector } => {
        let c = self.callee(callee);
        let args = self.exprs(arguments);
        let t = self.ty(return_type);
        let rc = return_collector.map(|c| self.name(c));
        json!(["call", c, args, t, rc])
      }
      Statement::IfElse { condition, s1, s2, final_assignments } => {
        let c = self.expr(condition);
        let (b1, b2) = (self.stmts(s1), self.stmts(s2));
        let mut fas = Vec::new();
        for fa in final_assignments {
          let n = self.name(fa.name);
          let t = self.ty(&fa.type_);
          let (a, b) = (self.expr(&fa.e1), self.expr(&fa.e2));
          fas.push(json!([n, t, a, b]));
        }
        json!(["if", c, b1, b2, fas])
      }
      Statement::SingleIf { condition, invert_condition, statements } => {
        let c = self.expr(condition);
        let b = self.stmts(statements);
        json!(["sif", c, invert_condition, b])
      }
      Statement::Break(e) => json!(["brk", self.expr(e)]),
      Statement::While { loop_variables, statements, break_collector } => {
        let mut lvs = Vec::new();
        for v in loop_variables {
          let n = self.name(v.name);
          let t = self.ty(&v.type_);
          let (a, b) = (self.expr(&v.initial_value), self.expr(&v.loop_value));
          lvs.push(json!([n, t, a, b]));
        }
        let b = self.stmts(statements);
        let bc = match break_collector {
          Some(c) => {
            let n = self.name(c.name);
            let t = self.ty(&c.type_);
            json!([n, t])
          }
          None => Value::Null,
        };
        json!(["while", lvs, b, bc])
      }
      Statement::LateInitDeclaration { name, type_ } => {
        let n = self.name(*name);
        let t = self.ty(type_);
        json!(["decl", n, t])
      }
      Statement::LateInitAssignment { name, assigned_expression } => {
        let n = self.name(*name);
        let e = self.expr(assigned_expression);
        json!(["assign", n, e])
      }
      Statement::StructInit { struct_variable_name, type_name, expression_list } => {
        let n = self.name(*struct_variable_name);
        let t = self.ty(&Type::Id(*type_name));
        let es = self.exprs(expression_list);
        json!(["struct", n, t, es])
      }
      Statement::ClosureInit { closure_variable_name, closure_type_name, function_name, context } => {
        let n = self.name(*closure_variable_name);
        let t = self.ty(&Type::Id(*closure_type_name));
        let f = self.fname(&function_name.name);
        let ft = self.fty(&function_name.type_);
        let e = self.expr(context);
        json!(["closure", n, t, f, ft, e])
      }
    }
  }

  fn function(&mut self, f: &Function) -> Value {
    let name = self.fname(&f.name);
    let params: Vec<Value> = f.parameters.iter().map(|p| self.name(*p)).collect();
    let atys = self.tys(&f.type_.argument_types);
    let rty = self.ty(&f.type_.return_type);
    let body = self.stmts(&f.body);
    let ret = self.expr(&f.return_value);
    json!({"name": name, "params": params, "atys": atys, "rty": rty, "body": body, "ret": ret})
  }

  fn functions(&mut self, fs: &[Function]) -> Vec<Value> {
    fs.iter().map(|f| self.function(f)).collect()
  }
}

/// replaces every function-name number (first-use index) by its rank, in place
fn rerank(v: &mut Value, rank: &[usize]) {
  let r = |x: &Value| -> Value { json!(rank.get(x.as_u64().unwrap_or(0) as usize).copied().unwrap_or(9_999_999)) };
  match v {
    Value::Object(o) => {
      if let Some(n) = o.get("name").cloned()
        && n.is_u64()
        && o.contains_key("body")
      {
        o.insert("name".to_string(), r(&n));
      }
      for (_, x) in o.iter_mut() {
        rerank(x, rank);
      }
    }
    Value::Array(a) => {
      let tag = a.first().and_then(|t| t.as_str()).map(|s| s.to_string());
      match tag.as_deref() {
        Some("fn") if a.len() == 4 => {
          let n = r(&a[1]);
          a[1] = n;
        }
        Some("closure") if a.len() == 6 => {
          let n = r(&a[3]);
          a[3] = n;
          rerank(&mut a[5], rank);
        }
        _ => {
          for x in a.iter_mut() {
            rerank(x, rank);
          }
        }
      }
    }
    _ => {}
  }
}

// ------------------------------------------------------------------------------------------------
// mode (1)
// ------------------------------------------------------------------------------------------------

enum Lowered {
  Rejected,
  Panic(String),
  Ok(Sources),
}

fn lower(job: &Value) -> (Heap, ModuleReference, Lowered) {
  let mut heap = Heap::new();
  let texts = load_sources(&mut heap, job);
  let entry = mod_ref(&mut heap, job["entry"].as_str().unwrap_or(""));
  let lowered = catch_unwind(AssertUnwindSafe(|| {
    let mut error_set = samlang_errors::ErrorSet::new();
    let mut parsed = HashMap::new();
    let mut ms: Vec<ModuleReference> = texts.keys().copied().collect();
    ms.sort();
    for m in &ms {
      parsed.insert(*m, samlang_parser::parse_source_module_from_text(&texts[m], *m, &mut heap, &mut error_set));
    }
    let checked = samlang_checker::type_check_sources(&parsed, &mut error_set).0;
    if error_set.has_errors() || !parsed.contains_key(&entry) {
      return None;
    }
    Some(samlang_compiler::compile_sources_to_mir(&mut heap, &checked))
  }));
  let lowered = match lowered {
    Ok(Some(s)) => Lowered::Ok(s),
    Ok(None) => Lowered::Rejected,
    Err(p) => Lowered::Panic(panic_msg(p)),
  };
  (heap, entry, lowered)
}

/// ccp, then sroa, on one function; (before sroa, after sroa | panic message)
fn sroa_case(heap: &mut Heap, f: &Function) -> Option<(Function, Result<Function, String>)> {
  let counter = heap.create_temp_counter();
  let mut g = f.clone();
  let ok = catch_unwind(AssertUnwindSafe(|| {
    hooks::run_function_pass("ccp", &mut g, &counter);
    g
  }));
  heap.sync_temp_counter(&counter);
  let g = ok.ok()?;
  let mut h = g.clone();
  let after = catch_unwind(AssertUnwindSafe(|| {
    hooks::run_function_pass("sroa", &mut h, &counter);
    h
  }))
  .map_err(panic_msg);
  Some((g, after))
}

fn dump_sources(job: &Value) -> Value {
  let id = job["id"].clone();
  let fuel = job["fuel"].as_u64().unwrap_or(200_000);
  let do_run = job["run"].as_bool().unwrap_or(true);
  let do_sroa = job["sroa"].as_bool().unwrap_or(true);
  let pipeline = job["mode"].as_str().unwrap_or("pipeline") == "pipeline";
  let (mut heap, entry, lowered) = lower(job);
  let mut sources = match lowered {
    Lowered::Ok(s) => s,
    Lowered::Rejected => return json!({"id": id, "rejected": true}),
    Lowered::Panic(m) => return json!({"id": id, "lowering_panic": m}),
  };
  let main = catch_unwind(AssertUnwindSafe(|| mirsem::find_main(&heap, &sources, entry))).ok().flatten();
  let run = |heap: &Heap, sources: &Sources| -> Value {
    let outcome = match &main {
      Some(m) => mirsem::run_mir_with(heap, sources, m, fuel, 2000, MirOptions::default()),
      None => MirOutcome {
        lines: Vec::new(),
        ending: MirEnding::Fault("entry module has no Main.main".to_string()),
        overflowed: false,
      },
    };
    mirsem::outcome_json(&outcome)
  };
  let mut tb = Tables::new(false);
  let mut stages: Vec<Value> = Vec::new();
  let mut sroa: Vec<Value> = Vec::new();
  let mut sroa_seen = 0usize;
  let mut sroa_on = |heap: &mut Heap, tb: &mut Tables, table: &SymbolTable, fs: &[Function], out: &mut Vec<Value>| {
    for f in fs {
      let Some((before, after)) = sroa_case(heap, f) else { continue };
      let mut enc = Enc { tb, heap, table };
      let b = enc.function(&before);
      match after {
        Ok(a) => {
          let a = enc.function(&a);
          let changed = a != b;
          sroa_seen += 1;
          if changed || sroa_seen % 4 == 0 {
            out.push(json!({"before": b, "after": a, "changed": changed}));
          }
        }
        Err(m) => out.push(json!({"before": b, "panic": m, "changed": true})),
      }
    }
  };
  if do_sroa {
    let fs = sources.functions.clone();
    sroa_on(&mut heap, &mut tb, &sources.symbol_table, &fs, &mut sroa);
  }
  let iterations = if pipeline { 4 } else { 1 };
  for _ in 0..iterations {
    if pipeline {
      let counter = heap.create_temp_counter();
      let mut failed = None;
      for f in sources.functions.iter_mut() {
        let r = catch_unwind(AssertUnwindSafe(|| hooks::run_function_rounds(f, &counter, true, true, true, true)));
        if let Err(p) = r {
          failed = Some(panic_msg(p));
          break;
        }
      }
      heap.sync_temp_counter(&counter);
      if let Some(m) = failed {
        stages.push(json!({"rounds_panic": m}));
        break;
      }
    }
    let before_fns = sources.functions.clone();
    let before = Enc { tb: &mut tb, heap: &heap, table: &sources.symbol_table }.functions(&before_fns);
    let run_before = if do_run { run(&heap, &sources) } else { Value::Null };
    let base = peek_temp(&mut heap) + 1;
    let input = before_fns.clone();
    let after_fns = catch_unwind(AssertUnwindSafe(|| hooks::run_inlining(input, &mut heap))).map_err(panic_msg);
    match after_fns {
      Err(m) => {
        stages.push(json!({"base": base, "before": before, "panic": m, "runs": {"before": run_before}}));
        break;
      }
      Ok(fs) => {
        sources.functions = fs;
        let after = Enc { tb: &mut tb, heap: &heap, table: &sources.symbol_table }.functions(&sources.functions);
        let run_after = if do_run { run(&heap, &sources) } else { Value::Null };
        stages.push(json!({"base": base, "before": before, "after": after, "runs": {"before": run_before, "after": run_after}}));
        if do_sroa {
          let fs = sources.functions.clone();
          sroa_on(&mut heap, &mut tb, &sources.symbol_table, &fs, &mut sroa);
        }
        if pipeline {
          let r = catch_unwind(AssertUnwindSafe(|| hooks::run_unused_name_elimination(&mut sources)));
          if r.is_err() {
            break;
          }
        }
      }
    }
  }
  let main_number = main.as_ref().map(|m| Enc { tb: &mut tb, heap: &heap, table: &sources.symbol_table }.fname(m));
  let rank = tb.ranks();
  let mut stages = Value::Array(stages);
  let mut sroa = Value::Array(sroa);
  rerank(&mut stages, &rank);
  rerank(&mut sroa, &rank);
  let mut fnames = vec![String::new(); rank.len()];
  for (i, (_, s)) in tb.fname_list.iter().enumerate() {
    fnames[rank[i]] = s.clone();
  }
  let ftys: serde_json::Map<String, Value> = tb.ftys.iter().map(|(k, v)| (k.to_string(), v.clone())).collect();
  json!({"id": id, "types": tb.type_strs, "ftys": ftys, "fnames": fnames, "main": main_number.map(|m| rank[m]),
         "stages": stages, "sroa": sroa})
}

// ------------------------------------------------------------------------------------------------
// mode (2): replay of model terms
// ------------------------------------------------------------------------------------------------

struct Dec {
  heap: Heap,
  table: SymbolTable,
  ids: Vec<TypeNameId>,
  tb: Tables,
}

impl Dec {
  fn new() -> Dec {
    let mut d = Dec { heap: Heap::new(), table: SymbolTable::new(), ids: Vec::new(), tb: Tables::new(true) };
    d.tb.types.insert(format!("{:?}", INT_31_TYPE), 1);
    d.tb.type_strs.push("i31".to_string());
    d.id(1);
    d
  }

  fn num(v: &Value) -> u64 {
    v.as_u64().unwrap_or(0)
  }

  fn name(&mut self, v: &Value) -> PStr {
    match v.as_str() {
      Some(s) => self.heap.alloc_string(s.to_string()),
      None => self.heap.alloc_string(format!("V{:07}", Self::num(v))),
    }
  }

  fn id(&mut self, n: u64) -> TypeNameId {
    let n = n as usize;
    while self.ids.len() <= n {
      let k = self.ids.len();
      let name = self.heap.alloc_string(format!("T{k}"));
      let id = self.table.create_type_name_for_test(name);
      if k >= 2 {
        self.tb.types.insert(format!("{:?}", Type::Id(id)), k);
        while self.tb.type_strs.len() <= k {
          self.tb.type_strs.push(String::new());
        }
        self.tb.type_strs[k] = format!("T{k}");
      }
      self.ids.push(id);
    }
    self.ids[n]
  }

  fn ty(&mut self, v: &Value) -> Type {
    match Self::num(v) {
      0 => INT_32_TYPE,
      1 => INT_31_TYPE,
      n => Type::Id(self.id(n)),
    }
  }

  fn tys(&mut self, v: &Value) -> Vec<Type> {
    v.as_array().map(|a| a.iter().map(|t| self.ty(t)).collect()).unwrap_or_default()
  }

  fn fty(&mut self, v: &Value) -> FunctionType {
    let t = FunctionType { argument_types: Vec::new(), return_type: Box::new(self.ty(v)) };
    self.tb.types.insert(format!("fn:{t:?}"), Self::num(v) as usize);
    t
  }

  fn fname(&mut self, v: &Value) -> FunctionName {
    let n = Self::num(v);
    let f = FunctionName::new_for_test(self.heap.alloc_string(format!("f{n:05}")));
    self.tb.fnames.insert(f, n as usize);
    f
  }

  fn expr(&mut self, v: &Value) -> Expression {
    match v[0].as_str().unwrap_or("") {
      "i" => Expression::Int32Literal(v[1].as_i64().unwrap_or(0) as i32),
      "j" => Expression::Int31Literal(v[1].as_i64().unwrap_or(0) as i32),
      "s" => Expression::StringName(self.name(&v[1])),
      _ => Expression::Variable(VariableName { name: self.name(&v[1]), type_: self.ty(&v[2]) }),
    }
  }

  fn exprs(&mut self, v: &Value) -> Vec<Expression> {
    v.as_array().map(|a| a.iter().map(|e| self.expr(e)).collect()).unwrap_or_default()
  }

  fn callee(&mut self, v: &Value) -> Callee {
    match v[0].as_str().unwrap_or("") {
      "var" => Callee::Variable(VariableName { name: self.name(&v[1]), type_: self.ty(&v[2]) }),
      _ => Callee::FunctionName(FunctionNameExpression {
        name: self.fname(&v[1]),
        type_: FunctionType { argument_types: self.tys(&v[2]), return_type: Box::new(self.ty(&v[3])) },
      }),
    }
  }

  fn stmts(&mut self, v: &Value) -> Vec<Statement> {
    v.as_array().map(|a| a.iter().map(|s| self.stmt(s)).collect()).unwrap_or_default()
  }

  fn opt_name(&mut self, v: &Value) -> Option<PStr> {
    if v.is_null() { None } else { Some(self.name(v)) }
  }

  fn stmt(&mut self, v: &Value) -> Statement {
    match v[0].as_str().unwrap_or("") {
      "bin" => {
        let op = OPS.iter().find(|(n, _)| Some(*n) == v[2].as_str()).map(|(_, o)| *o).unwrap_or(Op::PLUS);
        Statement::Binary(Binary { name: self.name(&v[1]), operator: op, e1: self.expr(&v[3]), e2: self.expr(&v[4]) })
      }
      "not" => Statement::Not { name: self.name(&v[1]), operand: self.expr(&v[2]) },
      "prim" => {
        let name = self.name(&v[1]);
        let e = self.expr(&v[5]);
        match v[2].as_str().unwrap_or("") {
          "idx" => Statement::IndexedAccess {
            name,
            type_: self.ty(&v[3]),
            pointer_expression: e,
            index: v[4].as_u64().unwrap_or(0) as usize,
          },
          "isptr" => Statement::IsPointer { name, pointer_type: self.id(Self::num(&v[3])), operand: e },
          _ => Statement::Cast { name, type_: self.ty(&v[3]), assigned_expression: e },
        }
      }
      "call" => Statement::Call {
        callee: self.callee(&v[1]),
        arguments: self.exprs(&v[2]),
        return_type: self.ty(&v[3]),
        return_collector: self.opt_name(&v[4]),
      },
      "if" => Statement::IfElse {
        condition: self.expr(&v[1]),
        s1: self.stmts(&v[2]),
        s2: self.stmts(&v[3]),
        final_assignments: v[4]
          .as_array()
          .map(|a| {
            a.iter()
              .map(|q| IfElseFinalAssignment { name: self.name(&q[0]), type_: self.ty(&q[1]), e1: self.expr(&q[2]), e2: self.expr(&q[3]) })
              .collect()
          })
          .unwrap_or_default(),
      },
      "sif" => Statement::SingleIf {
        condition: self.expr(&v[1]),
        invert_condition: v[2].as_bool().unwrap_or(false),
        statements: self.stmts(&v[3]),
      },
      "brk" => Statement::Break(self.expr(&v[1])),
      "while" => Statement::While {
        loop_variables: v[1]
          .as_array()
          .map(|a| {
            a.iter()
              .map(|q| GenenalLoopVariable {
                name: self.name(&q[0]),
                type_: self.ty(&q[1]),
                initial_value: self.expr(&q[2]),
                loop_value: self.expr(&q[3]),
              })
              .collect()
          })
          .unwrap_or_default(),
        statements: self.stmts(&v[2]),
        break_collector: if v[3].is_null() { None } else { Some(VariableName { name: self.name(&v[3][0]), type_: self.ty(&v[3][1]) }) },
      },
      "decl" => Statement::LateInitDeclaration { name: self.name(&v[1]), type_: self.ty(&v[2]) },
      "assign" => Statement::LateInitAssignment { name: self.name(&v[1]), assigned_expression: self.expr(&v[2]) },
      "struct" => Statement::StructInit {
        struct_variable_name: self.name(&v[1]),
        type_name: self.id(Self::num(&v[2])),
        expression_list: self.exprs(&v[3]),
      },
      "closure" => Statement::ClosureInit {
        closure_variable_name: self.name(&v[1]),
        closure_type_name: self.id(Self::num(&v[2])),
        function_name: FunctionNameExpression { name: self.fname(&v[3]), type_: self.fty(&v[4]) },
        context: self.expr(&v[5]),
      },
      other => panic!("bad statement tag {other:?}"),
    }
  }

  fn function(&mut self, index: usize, v: &Value) -> Function {
    let name = if v["name"].is_null() { self.fname(&json!(index)) } else { self.fname(&v["name"]) };
    let parameters: Vec<PStr> = v["params"].as_array().map(|a| a.iter().map(|p| self.name(p)).collect()).unwrap_or_default();
    let argument_types = if v["atys"].is_null() { vec![INT_32_TYPE; parameters.len()] } else { self.tys(&v["atys"]) };
    let return_type = Box::new(self.ty(&v["rty"]));
    Function {
      name,
      parameters,
      type_: FunctionType { argument_types, return_type },
      body: self.stmts(&v["body"]),
      return_value: self.expr(&v["ret"]),
    }
  }
}

fn replay(job: &Value) -> Value {
  let id = job["id"].clone();
  let pass = job["pass"].as_str().unwrap_or("inline").to_string();
  let mut d = Dec::new();
  let functions: Vec<Function> =
    job["program"].as_array().map(|a| a.iter().enumerate().map(|(i, f)| d.function(i, f)).collect()).unwrap_or_default();
  let Dec { mut heap, table, ids: _, mut tb } = d;
  let base = peek_temp(&mut heap) + 1;
  let mut out = json!({"id": id, "base": base});
  match pass.as_str() {
    "inline" => {
      match catch_unwind(AssertUnwindSafe(|| hooks::run_inlining(functions, &mut heap))) {
        Ok(fs) => out["after"] = json!(Enc { tb: &mut tb, heap: &heap, table: &table }.functions(&fs)),
        Err(p) => out["panic"] = json!(panic_msg(p)),
      }
    }
    "sroa" => {
      let counter = heap.create_temp_counter();
      let mut after = Vec::new();
      for f in &functions {
        let mut g = f.clone();
        match catch_unwind(AssertUnwindSafe(|| {
          hooks::run_function_pass("sroa", &mut g, &counter);
          g
        })) {
          Ok(g) => after.push(Enc { tb: &mut tb, heap: &heap, table: &table }.function(&g)),
          Err(p) => after.push(json!({"panic": panic_msg(p)})),
        }
      }
      out["after"] = json!(after);
    }
    other => out["error"] = json!(format!("unknown pass {other}")),
  }
  out
}

pub fn main(_args: &[String]) {
  let stdin = std::io::stdin();
  for line in stdin.lock().lines() {
    let Ok(line) = line else { break };
    if line.trim().is_empty() {
      continue;
    }
    let result = match serde_json::from_str::<Value>(&line) {
      Ok(job) => catch_unwind(AssertUnwindSafe(|| if job.get("program").is_some() { replay(&job) } else { dump_sources(&job) }))
        .unwrap_or_else(|p| json!({"id": job["id"], "harness_panic": panic_msg(p)})),
      Err(e) => json!({"error": format!("bad job: {e}")}),
    };
    println!("{result}");
  }
}
